(* S_Glob: executable model of restic's path pattern matcher (internal/filter/filter.go) and of the
   parts of Go's path/filepath it uses (Match = component glob matcher, Clean).  Shared by C28, C20, C27.
   Model only, no proofs.  Strings are [bytes] (list N); the model is exact for ASCII (a byte = a rune). *)
From Restic Require Import Base.Prelude.

Module S_Glob.

Inductive res (A : Type) := Ok (a : A) | ErrPat | ErrStr | Panic | Fuel.
Arguments Ok {A} a. Arguments ErrPat {A}. Arguments ErrStr {A}. Arguments Panic {A}. Arguments Fuel {A}.

(* ------------------------------------------------------------------ *)
(* filepath.Match (Go 1.25, unix): component matcher.                   *)
(* None = ErrBadPattern.                                                *)

Definition c_star := 42%N.   (* '*' *)
Definition c_slash := 47%N.  (* '/' *)
Definition c_lbr := 91%N.    (* '[' *)
Definition c_rbr := 93%N.    (* ']' *)
Definition c_bsl := 92%N.    (* '\\' *)
Definition c_qm := 63%N.     (* '?' *)
Definition c_dash := 45%N.   (* '-' *)
Definition c_caret := 94%N.  (* '^' *)
Definition c_dot := 46%N.    (* '.' *)
Definition c_bang := 33%N.   (* '!' *)

Fixpoint strip_stars (p : bytes) (star : bool) : bool * bytes :=
  match p with
  | c :: r => if N.eqb c c_star then strip_stars r true else (star, p)
  | [] => (star, [])
  end.

(* the Scan loop of scanChunk: (chunk, rest) *)
Fixpoint scan (p : bytes) (inrange : bool) : bytes * bytes :=
  match p with
  | [] => ([], [])
  | c :: r =>
      if N.eqb c c_bsl then
        match r with
        | d :: r' => let '(a, b) := scan r' inrange in (c :: d :: a, b)
        | [] => ([c], [])
        end
      else if N.eqb c c_lbr then let '(a, b) := scan r true in (c :: a, b)
      else if N.eqb c c_rbr then let '(a, b) := scan r false in (c :: a, b)
      else if andb (N.eqb c c_star) (negb inrange) then ([], p)
      else let '(a, b) := scan r inrange in (c :: a, b)
  end.

Definition scan_chunk (p : bytes) : bool * bytes * bytes :=
  let '(star, p') := strip_stars p false in
  let '(chunk, rest) := scan p' false in (star, chunk, rest).

(* getEsc: None = ErrBadPattern *)
Definition get_esc (chunk : bytes) : option (N * bytes) :=
  match chunk with
  | [] => None
  | c :: r =>
      if orb (N.eqb c c_dash) (N.eqb c c_rbr) then None
      else
        let chunk' := if N.eqb c c_bsl then r else chunk in
        match chunk' with
        | [] => None
        | x :: n => match n with [] => None | _ => Some (x, n) end
        end
  end.

Inductive mres := MOk (rest : bytes) | MFail | MErr | MFuel.

(* the range loop of a character class; [first] = (nrange == 0) *)
Fixpoint range_loop (fuel : nat) (chunk : bytes) (r : N) (mt : bool) (first : bool)
  : option (option (bytes * bool)) :=   (* None = fuel; Some None = ErrBadPattern *)
  match fuel with
  | O => None
  | S f =>
      let step (_ : unit) :=
        match get_esc chunk with
        | None => Some None
        | Some (lo, c1) =>
            match c1 with
            | d :: c2 =>
                if N.eqb d c_dash then
                  match get_esc c2 with
                  | None => Some None
                  | Some (hi, c3) => range_loop f c3 r (orb mt (andb (N.leb lo r) (N.leb r hi))) false
                  end
                else range_loop f c1 r (orb mt (andb (N.leb lo r) (N.leb r lo))) false
            | [] => Some None (* unreachable: getEsc fails when nothing follows *)
            end
        end in
      match chunk, first with
      | c :: ch, false => if N.eqb c c_rbr then Some (Some (ch, mt)) else step tt
      | _, _ => step tt
      end
  end.

Definition hd0 (s : bytes) : N := match s with c :: _ => c | [] => 0%N end.

Fixpoint match_chunk (fuel : nat) (chunk s : bytes) (failed : bool) : mres :=
  match fuel with
  | O => MFuel
  | S f =>
      match chunk with
      | [] => if failed then MFail else MOk s
      | c :: ch =>
          let failed := orb failed (match s with [] => true | _ => false end) in
          if N.eqb c c_lbr then
            let '(r, s') := if failed then (0%N, s) else (hd0 s, tl s) in
            let '(negated, ch1) := match ch with
                                   | x :: y => if N.eqb x c_caret then (true, y) else (false, ch)
                                   | [] => (false, ch) end in
            match range_loop f ch1 r false true with
            | None => MFuel
            | Some None => MErr
            | Some (Some (ch2, mt)) => match_chunk f ch2 s' (orb failed (Bool.eqb mt negated))
            end
          else if N.eqb c c_qm then
            if failed then match_chunk f ch s true
            else match_chunk f ch (tl s) (N.eqb (hd0 s) c_slash)
          else if N.eqb c c_bsl then
            match ch with
            | [] => MErr
            | e :: ch' =>
                if failed then match_chunk f ch' s true
                else match_chunk f ch' (tl s) (negb (N.eqb e (hd0 s)))
            end
          else
            if failed then match_chunk f ch s true
            else match_chunk f ch (tl s) (negb (N.eqb c (hd0 s)))
      end
  end.

Definition mchunk (chunk s : bytes) : mres := match_chunk (S (S (length chunk))) chunk s false.

Definition contains (c : N) (s : bytes) : bool := existsb (N.eqb c) s.
Definition is_nil {A} (l : list A) : bool := match l with [] => true | _ => false end.

Inductive cmres := CM (b : bool) | CMErr | CMFuel.

(* the "Look for match skipping i+1 bytes" loop; [k] continues the outer Pattern loop *)
Fixpoint star_loop (chunk rest name : bytes) (k : bytes -> cmres) : cmres :=
  match name with
  | [] => CM false
  | c :: n' =>
      if N.eqb c c_slash then CM false
      else match mchunk chunk n' with
           | MOk t => if andb (is_nil rest) (negb (is_nil t)) then star_loop chunk rest n' k else k t
           | MErr => CMErr
           | MFuel => CMFuel
           | MFail => star_loop chunk rest n' k
           end
  end.

Fixpoint cm_loop (fuel : nat) (pattern name : bytes) : cmres :=
  match fuel with
  | O => CMFuel
  | S f =>
      match pattern with
      | [] => CM (is_nil name)
      | _ =>
          let '(star, chunk, rest) := scan_chunk pattern in
          if andb star (is_nil chunk) then CM (negb (contains c_slash name))
          else
            let slow (_ : unit) := if star then star_loop chunk rest name (cm_loop f rest) else CM false in
            match mchunk chunk name with
            | MOk t => if orb (is_nil t) (negb (is_nil rest)) then cm_loop f rest t else slow tt
            | MErr => CMErr
            | MFuel => CMFuel
            | MFail => slow tt
            end
      end
  end.

Definition cm_full (pattern name : bytes) : cmres := cm_loop (S (length pattern)) pattern name.

(* ------------------------------------------------------------------ *)
(* filepath.Clean (unix) and splitPath                                  *)

Fixpoint split_on (sep : N) (s : bytes) : list bytes :=
  match s with
  | [] => [[]]
  | c :: r =>
      if N.eqb c sep then [] :: split_on sep r
      else match split_on sep r with
           | x :: l => (c :: x) :: l
           | [] => [[c]]
           end
  end.

Definition split_path (p : bytes) : list bytes :=
  match split_on c_slash p with
  | [] :: l => [c_slash] :: l
  | l => l
  end.

Fixpoint join_slash (l : list bytes) : bytes :=
  match l with
  | [] => []
  | [x] => x
  | x :: r => x ++ c_slash :: join_slash r
  end.

(* Clean at the level of path elements: [st] = output elements, most recent first;
   [dd] = number of leading ".." elements that cannot be removed *)
Definition dotdot : bytes := [c_dot; c_dot].
Fixpoint clean_loop (rooted : bool) (els : list bytes) (st : list bytes) (dd : nat) : list bytes :=
  match els with
  | [] => rev st
  | e :: r =>
      if is_nil e then clean_loop rooted r st dd
      else if bytes_eqb e [c_dot] then clean_loop rooted r st dd
      else if bytes_eqb e dotdot then
        if Nat.ltb dd (length st) then clean_loop rooted r (tl st) dd
        else if rooted then clean_loop rooted r st dd
        else clean_loop rooted r (e :: st) (S dd)
      else clean_loop rooted r (e :: st) dd
  end.

Definition clean (p : bytes) : bytes :=
  match p with
  | [] => [c_dot]
  | c :: _ =>
      let rooted := N.eqb c c_slash in
      let out := join_slash (clean_loop rooted (split_on c_slash p) [] 0) in
      if rooted then c_slash :: out
      else if is_nil out then [c_dot] else out
  end.

(* ------------------------------------------------------------------ *)
(* filter.go                                                            *)

Definition part := (bytes * bool)%type.   (* pattern, isSimple; pattern [] = "**" *)
Record pattern := mkpat { p_parts : list part; p_neg : bool }.

Definition root : bytes := [c_slash].
Definition star_part : part := ([c_star], false).

Definition special (c : N) : bool :=
  orb (N.eqb c c_bsl) (orb (N.eqb c c_lbr) (orb (N.eqb c c_rbr) (orb (N.eqb c c_star) (N.eqb c c_qm)))).
Definition is_simple (s : bytes) : bool := negb (existsb special s).

Definition mkpart (s : bytes) : part :=
  (if bytes_eqb s [c_star; c_star] then [] else s, is_simple s).

(* preparePattern; Panic = patternStr[0] on an empty string *)
Definition prepare_pattern (ps : bytes) : res pattern :=
  match ps with
  | [] => Panic
  | c :: r =>
      let '(neg, ps') := if N.eqb c c_bang then (true, r) else (false, ps) in
      Ok (mkpat (map mkpart (split_path (clean ps'))) neg)
  end.

Definition prepare_str (s : bytes) : res (list bytes) :=
  match s with [] => ErrStr | _ => Ok (split_path s) end.

(* one pattern part against one path component; generic in the component matcher *)
Section WithCM.
Variable cm : bytes -> bytes -> cmres.

Definition pm (p : part) (c : bytes) : cmres :=
  if snd p then CM (bytes_eqb (fst p) c) else cm (fst p) c.

Definition is_dw (p : part) : bool := is_nil (fst p).

Fixpoint find_dw (parts : list part) : option nat :=
  match parts with
  | [] => None
  | p :: r => if is_dw p then Some O else option_map S (find_dw r)
  end.

Definition fixed_parts (parts : list part) : nat := length (filter (fun p => negb (is_dw p)) parts).

(* inner loop (i from last to first) over one window *)
Fixpoint win_chk (l : list (part * bytes)) : res bool :=
  match l with
  | [] => Ok true
  | (p, c) :: r =>
      match pm p c with
      | CM true => win_chk r
      | CM false => Ok false
      | CMErr => ErrPat
      | CMFuel => Fuel
      end
  end.

(* outer loop: offset from maxOffset down to minOffset; [k] = iterations left *)
Fixpoint off_loop (parts : list part) (strs : list bytes) (k off : nat) : res bool :=
  match k with
  | O => Ok false
  | S k' =>
      if Nat.ltb (length strs) (off + length parts) then Panic   (* strs[offset+i] out of range *)
      else match win_chk (rev (combine parts (skipn off strs))) with
           | Ok true => Ok true
           | Ok false => off_loop parts strs k' (off - 1)
           | e => e
           end
  end.

Definition is_abs (parts : list part) : bool :=
  match parts with p :: _ => bytes_eqb (fst p) root | [] => false end.

Definition match_nodw (parts : list part) (strs : list bytes) : res bool :=
  match parts, strs with
  | [], [] => Ok true
  | [], _ => Ok false
  | _, _ =>
      if Nat.leb (length parts) (length strs) then
        let maxo := if is_abs parts then 0 else length strs - length parts in
        let mino := if is_abs parts then 0
                    else match strs with s0 :: _ => if bytes_eqb s0 root then 1 else 0 | [] => 0 end in
        off_loop parts strs (S maxo - mino) maxo
      else Ok false
  end.

(* the '**' expansion loop: i = 0 .. bound; [k] = iterations left *)
Fixpoint exp_loop (rec : list part -> res bool) (parts : list part) (pos nstrs : nat) (k i : nat) : res bool :=
  match k with
  | O => Ok false
  | S k' =>
      if Nat.ltb nstrs (pos + i) then Panic   (* newPat[:pos+i] beyond the capacity len(strs) *)
      else match rec (firstn pos parts ++ repeat star_part i ++ skipn (S pos) parts) with
           | Ok true => Ok true
           | Ok false => exp_loop rec parts pos nstrs k' (S i)
           | e => e
           end
  end.

Fixpoint match_f (fuel : nat) (parts : list part) (strs : list bytes) : res bool :=
  match fuel with
  | O => Fuel
  | S f =>
      match find_dw parts with
      | Some pos =>
          let fx := fixed_parts parts in
          let n := length strs in
          (* for i := 0; i <= len(strs)-fixedParts; i++ *)
          exp_loop (fun p => match_f f p strs) parts pos n (S n - fx) 0
      | None => match_nodw parts strs
      end
  end.

Definition match_parts (parts : list part) (strs : list bytes) : res bool :=
  match_f (S (length parts)) parts strs.

Definition child_match (parts : list part) (strs : list bytes) : res bool :=
  match parts with
  | [] => Panic                                  (* pattern.parts[0] *)
  | p0 :: _ =>
      if negb (bytes_eqb (fst p0) root) then Ok true
      else
        let strs' := match find_dw parts with
                     | Some pos => if Nat.leb pos (length strs) then firstn pos strs else strs
                     | None => strs end in
        let l := Nat.min (length strs') (length parts) in
        match_parts (firstn l parts) strs'
  end.

(* filter.Match / filter.ChildMatch on strings *)
Definition Match (ps s : bytes) : res bool :=
  match ps with
  | [] => Ok true
  | _ => match prepare_pattern ps with
         | Ok pat => match prepare_str s with
                     | Ok strs => match_parts (p_parts pat) strs
                     | ErrStr => ErrStr | ErrPat => ErrPat | Panic => Panic | Fuel => Fuel end
         | ErrStr => ErrStr | ErrPat => ErrPat | Panic => Panic | Fuel => Fuel
         end
  end.

Definition ChildMatch (ps s : bytes) : res bool :=
  match ps with
  | [] => Ok true
  | _ => match prepare_pattern ps with
         | Ok pat => match prepare_str s with
                     | Ok strs => child_match (p_parts pat) strs
                     | ErrStr => ErrStr | ErrPat => ErrPat | Panic => Panic | Fuel => Fuel end
         | ErrStr => ErrStr | ErrPat => ErrPat | Panic => Panic | Fuel => Fuel
         end
  end.

(* ParsePatterns: empty strings are skipped *)
Fixpoint parse_patterns (l : list bytes) : res (list pattern) :=
  match l with
  | [] => Ok []
  | ps :: r =>
      if is_nil ps then parse_patterns r
      else match prepare_pattern ps, parse_patterns r with
           | Ok p, Ok r' => Ok (p :: r')
           | Ok _, e => e
           | ErrPat, _ => ErrPat | ErrStr, _ => ErrStr | Panic, _ => Panic | Fuel, _ => Fuel
           end
  end.

(* the loop of list(); state (matched, childMayMatch) *)
Fixpoint list_loop (pats : list pattern) (chk has_neg : bool) (strs : list bytes) (m c : bool)
  : res (bool * bool) :=
  match pats with
  | [] => Ok (m, c)
  | pat :: r =>
      match match_parts (p_parts pat) strs with
      | Ok mm =>
          match (if chk then child_match (p_parts pat) strs else Ok true) with
          | Ok cc =>
              if p_neg pat then list_loop r chk has_neg strs (andb m (negb mm)) (andb c (negb mm))
              else
                let m' := orb m mm in
                let c' := orb c cc in
                if andb (andb m' c') (negb has_neg) then Ok (m', c')
                else list_loop r chk has_neg strs m' c'
          | ErrPat => ErrPat | ErrStr => ErrStr | Panic => Panic | Fuel => Fuel
          end
      | ErrPat => ErrPat | ErrStr => ErrStr | Panic => Panic | Fuel => Fuel
      end
  end.

Definition list_ (pats : list pattern) (chk : bool) (s : bytes) : res (bool * bool) :=
  match pats with
  | [] => Ok (false, false)
  | _ => match s with
         | [] => ErrStr
         | _ => list_loop pats chk (existsb p_neg pats) (split_path s) false false
         end
  end.

(* ---- reference semantics (specification side): a plain recursive matcher -------------------
   [rm parts ne strs]: the parts match a prefix of [strs] component by component, "**" absorbing
   any number (>= 0) of components that the glob "*" accepts; [ne] = a component has been consumed
   already (the empty expansion matches nothing). *)
Definition pmb (p : part) (c : bytes) : bool := match pm p c with CM true => true | _ => false end.
Definition star_ok (c : bytes) : bool := pmb star_part c.

(* "**": absorb k >= 0 components accepted by "*", then continue with [k] *)
Fixpoint absorb (k : bool -> list bytes -> bool) (ne : bool) (l : list bytes) {struct l} : bool :=
  orb (k ne l) (match l with c :: cs => andb (star_ok c) (absorb k true cs) | [] => false end).

Fixpoint rm (parts : list part) (ne : bool) (strs : list bytes) {struct parts} : bool :=
  match parts with
  | [] => ne
  | p :: ps =>
      if is_dw p then absorb (rm ps) ne strs
      else match strs with
           | c :: cs => andb (pmb p c) (rm ps true cs)
           | [] => false
           end
  end.

Fixpoint tails {A} (l : list A) : list (list A) :=
  match l with [] => [[]] | _ :: r => l :: tails r end.

(* absolute patterns are anchored at the root marker; relative ones match at any depth
   (below the root marker of an absolute path) *)
Definition ref_match (parts : list part) (strs : list bytes) : bool :=
  if is_abs parts then rm parts false strs
  else existsb (rm parts false)
         (tails (match strs with s0 :: r => if bytes_eqb s0 root then r else strs | [] => strs end)).

End WithCM.

(* the concrete instances *)
Definition gmatch_parts := match_parts cm_full.
Definition gchild_match := child_match cm_full.
Definition gMatch := Match cm_full.
Definition gChildMatch := ChildMatch cm_full.
Definition glist := list_ cm_full.

(* ASCII lower-casing (strings.ToLower on ASCII input) *)
Definition lower (s : bytes) : bytes :=
  map (fun c => if andb (N.leb 65 c) (N.leb c 90) then (c + 32)%N else c) s.

End S_Glob.
