(* C54: stats --mode restore-size (cmd/restic/cmd_stats.go: runStats loop, statsWalkSnapshot,
   statsWalkTree countModeRestoreSize; internal/walker/walker.go: Walk/walk order) and the
   byte/entry accounting of the restorer's first pass (internal/restorer/restorer.go RestoreTo:
   visitNode hard-link index).  Executable model only. *)
From Restic Require Import Base.Prelude.

Module C54m.
Local Open Scope N_scope.

Inductive ntype := TFile | TDir | TSymlink | TOther.

Record attrs := mkA { a_type : ntype; a_size : N; a_links : N; a_inode : N; a_dev : N }.

(* A tree blob as first-child / next-sibling: [Node a sub rest] is an entry with attributes [a],
   subtree [sub] (only looked at when the entry is a directory) followed by the entries [rest]. *)
Inductive tree := Nil | Node (a : attrs) (sub : tree) (rest : tree).

Definition is_dir (a : attrs) : bool := match a_type a with TDir => true | _ => false end.
Definition is_file (a : attrs) : bool := match a_type a with TFile => true | _ => false end.

(* walker.walk: entries in tree order; a directory is reported before its children, then entered *)
Fixpoint walk (t : tree) : list attrs :=
  match t with
  | Nil => []
  | Node a sub rest => a :: (if is_dir a then walk sub else []) ++ walk rest
  end.

(* data.HardlinkIndex as a list of (inode, device) keys *)
Definition key := (N * N)%type.
Definition key_of (a : attrs) : key := (a_inode a, a_dev a).
Definition key_eqb (x y : key) : bool := N.eqb (fst x) (fst y) && N.eqb (snd x) (snd y).
Definition has (idx : list key) (k : key) : bool := existsb (key_eqb k) idx.

(* statsWalkTree, countModeRestoreSize: state = (hard-link index, TotalSize) *)
Definition sstep (st : list key * N) (a : attrs) : list key * N :=
  let '(idx, tot) := st in
  if N.eqb (a_links a) 1 || is_dir a then (idx, tot + a_size a)
  else if negb (has idx (key_of a)) || N.eqb (a_inode a) 0
       then (key_of a :: idx, tot + a_size a)
       else (idx, tot).

(* statsWalkSnapshot: a fresh index per snapshot *)
Definition stats_size_nodes (l : list attrs) : N := snd (fold_left sstep l ([], 0)).
Definition stats_size_snap (t : tree) : N := stats_size_nodes (walk t).
Definition stats_count_snap (t : tree) : N := N.of_nat (length (walk t)).

Definition sumN (l : list N) : N := fold_right N.add 0 l.

Record stats := mkS { s_count : N; s_size : N; s_snaps : N }.

(* runStats: the snapshots are walked one after the other into one container *)
Definition run_stats (snaps : list tree) : stats :=
  mkS (sumN (map stats_count_snap snaps)) (sumN (map stats_size_snap snaps)) (N.of_nat (length snaps)).

(* Restorer.RestoreTo first pass: state = (hard-link index, bytes handed to the file restorer).
   Only regular files carry data; a file with Links > 1 whose (inode, device) was already seen
   becomes a hard link and adds nothing. *)
Definition rstep (st : list key * N) (a : attrs) : list key * N :=
  let '(idx, tot) := st in
  if negb (is_file a) then (idx, tot)
  else if N.ltb 1 (a_links a) then
         if has idx (key_of a) then (idx, tot) else (key_of a :: idx, tot + a_size a)
       else (idx, tot + a_size a).

Definition restore_bytes_nodes (l : list attrs) : N := snd (fold_left rstep l ([], 0)).
Definition restore_bytes_snap (t : tree) : N := restore_bytes_nodes (walk t).
(* progress: AddFile once per entry (directories: in enterDir, except the root location) *)
Definition restore_entries_snap (t : tree) : N := N.of_nat (length (walk t)).

(* ---- declarative reading ---- *)

(* the else-branch of statsWalkTree: the node takes part in hard-link bookkeeping *)
Definition linked (a : attrs) : bool := negb (N.eqb (a_links a) 1) && negb (is_dir a).

(* [a], coming after the entries [pre] of the same snapshot, contributes its size *)
Definition counted (pre : list attrs) (a : attrs) : bool :=
  negb (linked a) || N.eqb (a_inode a) 0
  || negb (existsb (fun b => linked b && key_eqb (key_of a) (key_of b)) pre).

Fixpoint sum_counted (pre l : list attrs) : N :=
  match l with
  | [] => 0
  | a :: r => (if counted pre a then a_size a else 0) + sum_counted (a :: pre) r
  end.

(* entries of a tree, counted structurally (independent of [walk]) *)
Fixpoint entries (t : tree) : N :=
  match t with
  | Nil => 0
  | Node a sub rest => 1 + (if is_dir a then entries sub else 0) + entries rest
  end.

(* well-formed snapshot contents, as fs.nodeFillExtendedStat produces them from a POSIX tree:
   only regular files have a size; regular files have Links >= 1; multiply-linked files have a
   non-zero inode; entries sharing (inode, device) in the bookkeeping have the same type *)
Definition ntype_eqb (x y : ntype) : bool :=
  match x, y with
  | TFile, TFile | TDir, TDir | TSymlink, TSymlink | TOther, TOther => true
  | _, _ => false
  end.

Definition wf_node (a : attrs) : bool :=
  (is_file a || N.eqb (a_size a) 0)
  && (negb (is_file a) || N.leb 1 (a_links a))
  && (negb (is_file a && N.ltb 1 (a_links a)) || negb (N.eqb (a_inode a) 0)).

Definition wf_pair (a b : attrs) : bool :=
  negb (linked a && linked b && key_eqb (key_of a) (key_of b)) || ntype_eqb (a_type a) (a_type b).

Definition wf_nodes (l : list attrs) : bool :=
  forallb wf_node l && forallb (fun a => forallb (wf_pair a) l) l.

Definition wf_snap (t : tree) : bool := wf_nodes (walk t).

(* ---- correspondence cases ---- *)

(* what one `restore --json` of one snapshot reported and left on disk:
   summary total_files, total_bytes, bytes_restored; entries below the target directory;
   bytes of the distinct regular-file inodes below the target *)
Record robs := mkR { r_files : N; r_bytes : N; r_written : N; d_entries : N; d_bytes : N }.

Record case := mk {
  c_snaps : list tree;          (* the selected snapshots' trees, in processing order *)
  c_obs : option stats;         (* TotalFileCount, TotalSize, SnapshotsCount; None = error/panic *)
  c_restores : list robs        (* [] for crafted trees; else one per snapshot *)
}.

Definition stats_eqb (x y : stats) : bool :=
  N.eqb (s_count x) (s_count y) && N.eqb (s_size x) (s_size y) && N.eqb (s_snaps x) (s_snaps y).

Definition count_ok (c : case) : bool :=
  match c_obs c with
  | Some s => N.eqb (s_count s) (sumN (map entries (c_snaps c)))
              && N.eqb (s_snaps s) (N.of_nat (length (c_snaps c)))
  | None => false
  end.

Definition size_ok (c : case) : bool :=
  match c_obs c with
  | Some s => if forallb wf_snap (c_snaps c)
              then N.eqb (s_size s) (sumN (map restore_bytes_snap (c_snaps c))) else true
  | None => false
  end.

Definition restores_ok (c : case) : bool :=
  match c_obs c, c_restores c with
  | _, [] => true
  | Some s, rs =>
      N.eqb (sumN (map r_files rs)) (s_count s) && N.eqb (sumN (map d_entries rs)) (s_count s)
      && N.eqb (sumN (map r_bytes rs)) (s_size s) && N.eqb (sumN (map r_written rs)) (s_size s)
      && N.eqb (sumN (map d_bytes rs)) (s_size s)
  | None, _ => false
  end.

(* verified oracle *)
Definition check_C54 (c : case) : bool := count_ok c && size_ok c && restores_ok c.

(* 0 ok; 1 model <> implementation (oracle holds); 2 entry/snapshot count wrong;
   3 size differs from what a restore writes (well-formed snapshots);
   4 stats disagree with the observed restores *)
Definition check_case (c : case) : nat :=
  if negb (count_ok c) then 2%nat
  else if negb (size_ok c) then 3%nat
  else if negb (restores_ok c) then 4%nat
  else match c_obs c with
       | Some s => if stats_eqb s (run_stats (c_snaps c)) then 0%nat else 1%nat
       | None => 1%nat
       end.

End C54m.
