(* C28: path patterns match per the documented glob semantics (internal/filter).
   The executable model of filter.go / filepath.Match / filepath.Clean lives in Model/S_Glob.v
   (shared with C20, C27).  This file: the case record, the specification-side functions and the
   oracle for the correspondence check.  No proofs. *)
From Restic Require Import Base.Prelude Model.S_Glob.

Module C28m.
Import S_Glob.

(* one explored case: a pattern (list), a path, some descendants of the path, and what the
   implementation answered.
   c_api = false: filter.Match / filter.ChildMatch with the single pattern [hd c_pats]
   c_api = true : filter.ParsePatterns + filter.List / filter.ListWithChild *)
Record case := mk {
  c_api : bool;
  c_pats : list bytes;
  c_path : bytes;
  c_exts : list bytes;          (* descendants are  c_path ++ "/" ++ ext *)
  c_m : res bool;               (* Match path          | List path *)
  c_m2 : res bool;              (* Match path (again)  | ListWithChild path: matched *)
  c_c : res bool;               (* ChildMatch path     | ListWithChild path: childMayMatch *)
  c_dm : list (res bool)        (* Match / List on every descendant *)
}.

Definition desc (path ext : bytes) : bytes := path ++ c_slash :: ext.

Definition res_map {A B} (f : A -> B) (r : res A) : res B :=
  match r with Ok a => Ok (f a) | ErrPat => ErrPat | ErrStr => ErrStr | Panic => Panic | Fuel => Fuel end.

(* ---- the model's answers ---- *)
Definition single_pat (pats : list bytes) : bytes := match pats with p :: _ => p | [] => [] end.

Definition m_list (pats : list bytes) (chk : bool) (s : bytes) : res (bool * bool) :=
  match parse_patterns pats with
  | Ok pp => glist pp chk s
  | ErrPat => ErrPat | ErrStr => ErrStr | Panic => Panic | Fuel => Fuel
  end.

Definition m_match (api : bool) (pats : list bytes) (s : bytes) : res bool :=
  if api then res_map fst (m_list pats false s) else gMatch (single_pat pats) s.
Definition m_match2 (api : bool) (pats : list bytes) (s : bytes) : res bool :=
  if api then res_map fst (m_list pats true s) else gMatch (single_pat pats) s.
Definition m_child (api : bool) (pats : list bytes) (s : bytes) : res bool :=
  if api then res_map snd (m_list pats true s) else gChildMatch (single_pat pats) s.

(* ---- specification side ---- *)
(* what a (non-empty, parsed) pattern list selects: plain fold, later patterns win,
   negated patterns take a selected path out again *)
Fixpoint spec_fold (pats : list pattern) (strs : list bytes) (m : bool) : bool :=
  match pats with
  | [] => m
  | p :: r =>
      let mm := ref_match cm_full (p_parts p) strs in
      spec_fold r strs (if p_neg p then andb m (negb mm) else orb m mm)
  end.

Definition parts_of (ps : bytes) : list part :=
  match prepare_pattern ps with Ok p => p_parts p | _ => [] end.
Definition pats_of (l : list bytes) : list pattern :=
  match parse_patterns l with Ok p => p | _ => [] end.

(* the documented answer for a non-empty path *)
Definition spec_match (api : bool) (pats : list bytes) (s : bytes) : bool :=
  if api then spec_fold (pats_of pats) (split_path s) false
  else match single_pat pats with
       | [] => true
       | ps => ref_match cm_full (parts_of ps) (split_path s)
       end.

Definition has_neg (pats : list bytes) : bool := existsb p_neg (pats_of pats).

Definition res_beq (a b : res bool) : bool :=
  match a, b with
  | Ok x, Ok y => Bool.eqb x y
  | ErrPat, ErrPat | ErrStr, ErrStr | Panic, Panic | Fuel, Fuel => true
  | _, _ => false
  end.

Definition crashed (r : res bool) : bool := match r with Panic | Fuel => true | _ => false end.
Definition is_ok (b : bool) (r : res bool) : bool := match r with Ok x => Bool.eqb x b | _ => false end.
(* an Ok answer must be the documented one *)
Definition agrees (r : res bool) (b : bool) : bool := match r with Ok x => Bool.eqb x b | _ => true end.

(* ---- oracle over the implementation's observables ----
   clause codes (check_case):
     2 a call panicked
     3 Match/List answer for the path differs from the documented semantics
     4 ... for a descendant
     5 childMayMatch = false although a descendant matches
     6 the path matches (single pattern / no negation) but a descendant does not *)
Definition cl_nopanic (c : case) : bool :=
  negb (orb (crashed (c_m c)) (orb (crashed (c_m2 c)) (orb (crashed (c_c c)) (existsb crashed (c_dm c))))).
Definition cl_spec (c : case) : bool :=
  orb (is_nil (c_path c))
      (andb (agrees (c_m c) (spec_match (c_api c) (c_pats c) (c_path c)))
            (agrees (c_m2 c) (spec_match (c_api c) (c_pats c) (c_path c)))).
Fixpoint agrees_all (api : bool) (pats : list bytes) (path : bytes) (exts : list bytes) (dm : list (res bool)) : bool :=
  match exts, dm with
  | e :: er, d :: dr => andb (agrees d (spec_match api pats (desc path e))) (agrees_all api pats path er dr)
  | _, _ => true
  end.
Definition cl_spec_desc (c : case) : bool := agrees_all (c_api c) (c_pats c) (c_path c) (c_exts c) (c_dm c).
Definition cl_child (c : case) : bool :=
  orb (is_nil (c_path c))
      (negb (andb (existsb (is_ok true) (firstn (length (c_exts c)) (c_dm c))) (is_ok false (c_c c)))).
Definition cl_cover (c : case) : bool :=
  orb (orb (is_nil (c_path c)) (andb (c_api c) (has_neg (c_pats c))))
      (negb (andb (is_ok true (c_m c)) (existsb (is_ok false) (firstn (length (c_exts c)) (c_dm c))))).

Definition check_C28 (c : case) : bool :=
  andb (cl_nopanic c) (andb (cl_spec c) (andb (cl_spec_desc c) (andb (cl_child c) (cl_cover c)))).

(* the model run on the inputs of a case *)
Definition model_case (api : bool) (pats : list bytes) (path : bytes) (exts : list bytes) : case :=
  mk api pats path exts (m_match api pats path) (m_match2 api pats path) (m_child api pats path)
     (map (fun e => m_match api pats (desc path e)) exts).

Definition same_obs (c : case) : bool :=
  let m := model_case (c_api c) (c_pats c) (c_path c) (c_exts c) in
  andb (res_beq (c_m c) (c_m m))
       (andb (res_beq (c_m2 c) (c_m2 m))
             (andb (res_beq (c_c c) (c_c m)) (list_eqb res_beq (c_dm c) (c_dm m)))).

Definition check_case (c : case) : nat :=
  if negb (cl_nopanic c) then 2
  else if negb (cl_spec c) then 3
  else if negb (cl_spec_desc c) then 4
  else if negb (cl_child c) then 5
  else if negb (cl_cover c) then 6
  else if same_obs c then 0 else 1.

End C28m.
