(* C21: restore --verify (internal/restorer/restorer.go: verifyFile, VerifyFiles, fileState.NeedsRestore,
   and the trackFile decision of RestoreTo/withOverwriteCheck).  Executable model only.

   check_case codes: 0 ok; 1 model <> implementation;
     2 fail-fast verifyFile accepted a differing file / rejected an identical one (well-formed node);
     3 non-fail-fast verifyFile: NeedsRestore disagrees with "file differs" (well-formed node, mtime not trusted);
     4 VerifyFiles (abort mode): error/no error disagrees with "some restored file differs";
     5 VerifyFiles (abort mode): count of verified files wrong (must be all jobs on success, fewer on failure);
     6 VerifyFiles (collect mode, Error callback swallows like cmd_restore): reported files <> differing files;
     7 RestoreTo tracking: a file that was rewritten is not tracked as restored / metadata-only although differing. *)
From Restic Require Import Base.Prelude.

Module C21m.

Definition id := N.   (* blob IDs renamed to small positive numbers by the harness; 0 = "hash of something unknown" *)

Record node := mkNode { n_size : N; n_content : list id }.

(* what is found at the target path *)
Inductive fobj := FAbsent | FSymlink | FDir | FReg (data : bytes).

(* result of verifyFile (fileState pointer, error): VErr = error (state nil); VState blobMatches(nil = None) sizeMatches *)
Inductive vres := VErr | VState (bm : option (list bool)) (szm : bool).

Definition blobtab := list (id * bytes).   (* the repository's data blobs (plaintext) *)

Fixpoint blob_get (t : blobtab) (i : id) : option bytes :=
  match t with
  | [] => None
  | (j, b) :: r => if N.eqb i j then Some b else blob_get r i
  end.

(* repo.LookupBlobSize *)
Definition lookup_size (t : blobtab) (i : id) : option nat := option_map (@length N) (blob_get t i).

(* int64(node.Size) *)
Definition to_int64 (n : N) : Z :=
  let z := Z.of_N (n mod 2 ^ 64) in if (z <? 2 ^ 63)%Z then z else (z - 2 ^ 64)%Z.

(* os.File.ReadAt(buf[:len], off): a zero-length read succeeds anywhere; a short read is io.EOF *)
Definition read_at (f : bytes) (off len : nat) : option bytes :=
  match len with
  | O => Some []
  | _ => if Nat.leb (off + len) (length f) then Some (firstn len (skipn off f)) else None
  end.

Inductive lres := LErr | LDone (ms : list bool) | LEof (ms : list bool).

Definition lcons (m : bool) (r : lres) : lres :=
  match r with LErr => LErr | LDone ms => LDone (m :: ms) | LEof ms => LEof (m :: ms) end.

Section WithHash.
Variable H : bytes -> id.            (* restic.Hash (SHA-256), as far as it is observed *)
Variable size_of : id -> option nat. (* LookupBlobSize *)

(* the loop over node.Content; matches is pre-allocated all-false, so a break leaves false entries *)
Fixpoint loop (fast : bool) (f : bytes) (off : nat) (content : list id) : lres :=
  match content with
  | [] => LDone []
  | i :: rest =>
      match size_of i with
      | None => LErr                                   (* "Unable to fetch blob" *)
      | Some len =>
          match read_at f off len with
          | None => if fast then LErr                  (* io.EOF is an error when failFast *)
                    else LEof (repeat false (length content))   (* sizeMatches=false; break *)
          | Some buf =>
              let m := N.eqb i (H buf) in
              if fast && negb m then LErr              (* "Unexpected content" *)
              else lcons m (loop fast f (off + len) rest)
          end
      end
  end.

Definition verify_file (fast trust mtime_eq : bool) (o : fobj) (n : node) : vres :=
  match o with
  | FAbsent => VErr                                    (* open fails *)
  | FSymlink => VErr                                   (* O_NOFOLLOW: ELOOP *)
  | FDir => VErr                                       (* not a regular file *)
  | FReg f =>
      let szm := Z.eqb (to_int64 (n_size n)) (Z.of_nat (length f)) in
      if negb szm && fast then VErr                    (* "Invalid file size" *)
      else if trust && mtime_eq && szm then VState None szm
      else match loop fast f 0 (n_content n) with
           | LErr => VErr
           | LDone ms => VState (Some ms) szm
           | LEof ms => VState (Some ms) false
           end
  end.

End WithHash.

(* fileState.NeedsRestore, with the nil receiver = VErr *)
Definition needs_restore (r : vres) : bool :=
  match r with
  | VErr => true
  | VState bm szm =>
      if negb szm then true
      else match bm with None => false | Some ms => negb (forallb (fun b => b) ms) end
  end.

Definition is_err (r : vres) : bool := match r with VErr => true | _ => false end.

(* verifyFile's last step (non-fail-fast only): a reused file that needs restoring and has several hard links is
   reported as (nil state, nil error) = XNil, because createFile will replace it by a new empty file.
   [hl] = the target has more than one hard link. *)
Inductive xres := XNil | XRes (r : vres).

Definition verify_file_x (H : bytes -> id) (size_of : id -> option nat)
           (hl fast trust mtime_eq : bool) (o : fobj) (n : node) : xres :=
  let r := verify_file H size_of fast trust mtime_eq o n in
  if negb (is_err r) && negb fast && needs_restore r && hl then XNil else XRes r.

Definition x_needs_restore (x : xres) : bool := match x with XNil => true | XRes r => needs_restore r end.
Definition x_is_err (x : xres) : bool := match x with XNil => false | XRes r => is_err r end.

Inductive overwrite := OwAlways | OwIfChanged | OwIfNewer | OwNever.   (* res.opts.Overwrite *)

(* ---- VerifyFiles ---- *)
(* one node of the snapshot tree in traversal order, with what the harness finds at its target path *)
(* e_mteq: the file's mtime equals the node's (it does right after a restore) *)
Record entry := mkEntry { e_loc : bytes; e_isfile : bool; e_node : node; e_obj : fobj; e_mteq : bool }.

Definition filelist := list (bytes * bool).   (* res.fileList: location -> metadataOnly *)

Fixpoint fl_get (fl : filelist) (loc : bytes) : option bool :=
  match fl with
  | [] => None
  | (l, m) :: r => if bytes_eqb loc l then Some m else fl_get r loc
  end.

(* visitNode of VerifyFiles: regular files that were tracked and not metadata-only *)
Definition is_job (fl : filelist) (e : entry) : bool :=
  e_isfile e && match fl_get fl (e_loc e) with Some false => true | _ => false end.

Definition jobs (fl : filelist) (es : list entry) : list entry := filter (is_job fl) es.

Section WithHash2.
Variable H : bytes -> id.
Variable size_of : id -> option nat.
Variable ow : overwrite.              (* the restorer's overwrite option *)

(* the trustMtime argument VerifyFiles passes to verifyFile: the constant false, whatever the overwrite option
   (the size+mtime shortcut belongs to the overwrite check of RestoreTo only) *)
Definition verify_trust (o : overwrite) : bool := false.

Definition job_ok (e : entry) : bool :=
  negb (is_err (verify_file H size_of true (verify_trust ow) (e_mteq e) (e_obj e) (e_node e))).

(* Error callback returns the error (default): first failing job ends the run *)
Fixpoint run_abort (js : list entry) (cnt : N) : bool * N :=
  match js with
  | [] => (true, cnt)
  | j :: r => if job_ok j then run_abort r (cnt + 1) else (false, cnt)
  end.

Definition verify_files_abort (fl : filelist) (es : list entry) : bool * N := run_abort (jobs fl es) 0.

(* Error callback records the location and returns nil (cmd_restore): every job runs, every job is counted *)
Definition verify_files_collect (fl : filelist) (es : list entry) : list bytes * N :=
  (map e_loc (filter (fun e => negb (job_ok e)) (jobs fl es)), N.of_nat (length (jobs fl es))).

End WithHash2.

(* ---- RestoreTo's tracking decision for one regular, non-hardlinked file (visitNode of the first pass +
        withOverwriteCheck): None = not tracked (skipped), Some metadataOnly ---- *)

Section WithHash3.
Variable H : bytes -> id.
Variable size_of : id -> option nat.

(* shouldOverwrite; [exists] = Lstat succeeded, [newer] = node.ModTime.After(fi.ModTime()) *)
Definition should_overwrite (ow : overwrite) (exists_ newer : bool) : bool :=
  match ow with
  | OwAlways | OwIfChanged => true
  | OwIfNewer => if exists_ then newer else true
  | OwNever => negb exists_
  end.

Definition track (ow : overwrite) (newer mtime_eq : bool) (o : fobj) (n : node) : option bool :=
  let exists_ := match o with FAbsent => false | _ => true end in
  if should_overwrite ow exists_ newer then
    Some (negb (needs_restore (verify_file H size_of false
                 (match ow with OwIfChanged => true | _ => false end) mtime_eq o n)))
  else None.

End WithHash3.

(* ---- specification side: the bytes the snapshot prescribes ---- *)
Fixpoint blob_data (t : blobtab) (content : list id) : option bytes :=
  match content with
  | [] => Some []
  | i :: r => match blob_get t i, blob_data t r with
              | Some b, Some d => Some (b ++ d)
              | _, _ => None
              end
  end.

(* node is well-formed w.r.t. the repository: all blobs present, sizes add up, size fits int64 *)
Definition wf_nodeb (t : blobtab) (n : node) : bool :=
  match blob_data t (n_content n) with
  | Some d => N.eqb (N.of_nat (length d)) (n_size n) && (n_size n <? 2 ^ 63)%N
  | None => false
  end.

(* the object at the target is a regular file with exactly the snapshot's bytes *)
Definition intact (t : blobtab) (o : fobj) (n : node) : bool :=
  match o, blob_data t (n_content n) with
  | FReg f, Some d => bytes_eqb f d
  | _, _ => false
  end.

Definition e_intact (t : blobtab) (e : entry) : bool := intact t (e_obj e) (e_node e).

(* ---- hash as a finite table observed by the harness ---- *)
Fixpoint tab_hash (ht : list (bytes * id)) (b : bytes) : id :=
  match ht with
  | [] => 0%N
  | (x, i) :: r => if bytes_eqb b x then i else tab_hash r b
  end.

(* ---- cases ---- *)
Inductive case :=
| CFile (bt : blobtab) (ht : list (bytes * id)) (hl fast trust mteq : bool) (o : fobj) (n : node)
        (obs : xres) (obs_nr : bool)             (* verifyFile result; the real NeedsRestore() of that state *)
| CAll (bt : blobtab) (ht : list (bytes * id)) (ow : overwrite) (fl : filelist) (es : list entry)
       (obs_ok : bool) (obs_cnt : N)            (* abort mode: err == nil, count *)
       (obs_rep : list bytes) (obs_cnt2 : N)    (* collect mode: reported locations in traversal order, count *)
| CTrack (bt : blobtab) (ht : list (bytes * id)) (ow : overwrite) (newer mteq : bool) (o : fobj) (n : node)
       (obs : option bool).                      (* fileList entry after RestoreTo *)

Definition bool_eqb := Bool.eqb.

Definition vres_eqb (a b : vres) : bool :=
  match a, b with
  | VErr, VErr => true
  | VState x s, VState y t => option_eqb (list_eqb Bool.eqb) x y && Bool.eqb s t
  | _, _ => false
  end.

Definition xres_eqb (a b : xres) : bool :=
  match a, b with
  | XNil, XNil => true
  | XRes x, XRes y => vres_eqb x y
  | _, _ => false
  end.

(* oracle clause codes (0 = holds) *)
Definition oracle_code (c : case) : nat :=
  match c with
  | CFile bt _ _ fast trust _ o n obs nr =>
      if wf_nodeb bt n && negb trust then
        if fast then (if Bool.eqb (negb (x_is_err obs)) (intact bt o n) then 0 else 2)
        else (if Bool.eqb (negb nr) (intact bt o n) then 0 else 3)
      else 0
  | CAll bt _ _ fl es ok cnt rep _ =>
      let js := jobs fl es in
      if forallb (fun e => wf_nodeb bt (e_node e)) js then
        if negb (Bool.eqb ok (forallb (e_intact bt) js)) then 4
        else if negb (if ok then N.eqb cnt (N.of_nat (length js))
                      else N.ltb cnt (N.of_nat (length js))
                           && N.leb cnt (N.of_nat (length (filter (e_intact bt) js)))) then 5
        else if negb (list_eqb bytes_eqb rep (map e_loc (filter (fun e => negb (e_intact bt e)) js))) then 6
        else 0
      else 0
  | CTrack bt _ ow _ _ o n obs =>
      (* a file recorded as "content already fine" (metadata only) really has the snapshot's content,
         unless size+mtime were trusted (if-changed) *)
      if wf_nodeb bt n then
        match ow, obs with
        | OwIfChanged, _ => 0
        | _, Some true => if intact bt o n then 0 else 7
        | _, _ => 0
        end
      else 0
  end.

Definition check_C21 (c : case) : bool := Nat.eqb (oracle_code c) 0.

Definition pair_eqb (a b : bool * N) : bool := Bool.eqb (fst a) (fst b) && N.eqb (snd a) (snd b).

Definition model_agrees (c : case) : bool :=
  match c with
  | CFile bt ht hl fast trust mteq o n obs nr =>
      let m := verify_file_x (tab_hash ht) (lookup_size bt) hl fast trust mteq o n in
      xres_eqb obs m && Bool.eqb nr (x_needs_restore m)
  | CAll bt ht ow fl es ok cnt rep cnt2 =>
      let a := verify_files_abort (tab_hash ht) (lookup_size bt) ow fl es in
      let k := verify_files_collect (tab_hash ht) (lookup_size bt) ow fl es in
      Bool.eqb ok (fst a) && (if ok then N.eqb cnt (snd a) else true)
      && list_eqb bytes_eqb rep (fst k) && N.eqb cnt2 (snd k)
  | CTrack bt ht ow newer mteq o n obs =>
      option_eqb Bool.eqb obs (track (tab_hash ht) (lookup_size bt) ow newer mteq o n)
  end.

Definition check_case (c : case) : nat :=
  match oracle_code c with
  | O => if model_agrees c then 0 else 1
  | k => k
  end.

End C21m.
