(* C08: the loaded index matches exactly the index files in the repository.
   internal/repository/index/index.go (DecodeIndex, store 32-bit guard, merge, generatePackList/Encode),
   master_index.go (Load, prepareIncrementalLoad, MergeFinalIndexes, Lookup, LookupSize, Packs, IDs).
   Executable model only.  The hash map of indexmap.go (C56) is abstracted to a list of entries;
   iteration orders are therefore compared as sets / multisets. *)
From Restic Require Import Base.Prelude.

Module C08m.
Open Scope N_scope.

(* index entry with the pack resolved by value: what toPackedBlob yields *)
Record entry := mkE { e_pack : N; e_typ : N; e_id : N; e_off : N; e_len : N; e_ulen : N }.
Definition entry_eqb (a b : entry) : bool :=
  (e_pack a =? e_pack b) && (e_typ a =? e_typ b) && (e_id a =? e_id b)
  && (e_off a =? e_off b) && (e_len a =? e_len b) && (e_ulen a =? e_ulen b).

(* blob inside a pack section of an index file: type, id, offset, length, uncompressed length *)
Definition blob := (N * N * N * N * N)%type.
Definition mk_entry (p : N) (b : blob) : entry :=
  let '(t, i, o, l, u) := b in mkE p t i o l u.

(* an index file: packs in file order, each with its blobs *)
Definition ifile := list (N * list blob).
Definition flat (f : ifile) : list entry := flat_map (fun pb => map (mk_entry (fst pb)) (snd pb)) f.
Definition file_packs (f : ifile) : list N := map fst f.

Definition max_u32 : N := 4294967295.
Definition blob_fits (b : blob) : bool :=
  let '(_, _, o, l, u) := b in (o <=? max_u32) && (l <=? max_u32) && (u <=? max_u32).
(* DecodeIndex rejects (error) a file with a value that does not fit 32 bits *)
Definition file_fits (f : ifile) : bool := forallb (fun pb => forallb blob_fits (snd pb)) f.

(* one Index: entries (all types), packs array, ids of the merged files *)
Record index := mkI { i_ents : list entry; i_packs : list N; i_ids : list N }.
Definition empty_index : index := mkI [] [] [].

(* DecodeIndex *)
Definition decode (fid : N) (f : ifile) : index := mkI (flat f) (file_packs f) [fid].

Definition decode_checked (fid : N) (f : ifile) : option index :=
  if file_fits f then Some (decode fid f) else None.

Definition has_identical (e : entry) (l : list entry) : bool := existsb (entry_eqb e) l.
(* Index.merge: packs appended first; entries of idx2 added unless an identical entry is present
   (entries added earlier in the same merge count) *)
Definition merge_ents (a b : list entry) : list entry :=
  fold_left (fun acc e => if has_identical e acc then acc else acc ++ [e]) b a.
Definition merge (i i2 : index) : index :=
  mkI (merge_ents (i_ents i) (i_ents i2)) (i_packs i ++ i_packs i2) (i_ids i ++ i_ids i2).

Definition mem (x : N) (l : list N) : bool := existsb (N.eqb x) l.
Definition subset (a b : list N) : bool := forallb (fun x => mem x b) a.

Definition repo := list (N * ifile).     (* file id -> content; ids are content hashes: immutable *)
Fixpoint content (r : repo) (fid : N) : ifile :=
  match r with [] => [] | (k, f) :: t => if k =? fid then f else content t fid end.

(* prepareIncrementalLoad: keep idx[0] iff all its ids are still listed *)
Definition prepare (mi : index) (listing : list N) : index :=
  if subset (i_ids mi) listing then mi else empty_index.
(* files that Load fetches, in listing (= callback) order *)
Definition to_load (mi : index) (listing : list N) : list N :=
  filter (fun id => negb (mem id (i_ids (prepare mi listing)))) listing.
(* MasterIndex.Load: Insert each missing file, then MergeFinalIndexes *)
Definition load (r : repo) (mi : index) (listing : list N) : index :=
  fold_left (fun acc fid => merge acc (decode fid (content r fid))) (to_load mi listing) (prepare mi listing).

(* Load with the decoder's rejection: an oversized file among those to be merged aborts the load *)
Definition load_checked (r : repo) (mi : index) (listing : list N) : option index :=
  if forallb (fun fid => file_fits (content r fid)) (to_load mi listing) then Some (load r mi listing) else None.

Definition load_fresh (r : repo) (listing : list N) : index := load r empty_index listing.
Definition run (r : repo) (hist : list (list N)) : index := fold_left (load r) hist empty_index.

(* views *)
Definition handle_eqb (t i : N) (e : entry) : bool := (e_typ e =? t) && (e_id e =? i).
Definition lookup (mi : index) (t i : N) : list entry := filter (handle_eqb t i) (i_ents mi).
Definition size_of (e : entry) : N := if e_ulen e =? 0 then e_len e - 32 else e_ulen e.

(* Encode: generatePackList groups the entries by pack in first-seen order *)
Fixpoint ins_group (e : entry) (g : list (N * list entry)) : list (N * list entry) :=
  match g with
  | [] => [(e_pack e, [e])]
  | (p, l) :: r => if p =? e_pack e then (p, l ++ [e]) :: r else (p, l) :: ins_group e r
  end.
Definition group (l : list entry) : list (N * list entry) := fold_left (fun g e => ins_group e g) l [].
Definition to_blob (e : entry) : blob := (e_typ e, e_id e, e_off e, e_len e, e_ulen e).
Definition encode (l : list entry) : ifile := map (fun pg => (fst pg, map to_blob (snd pg))) (group l).

(* ---------- set / multiset helpers (executable) ---------- *)
Definition incl_b (a b : list entry) : bool := forallb (fun e => has_identical e b) a.
Definition same_set (a b : list entry) : bool := incl_b a b && incl_b b a.
Fixpoint nodup_b (l : list entry) : bool :=
  match l with [] => true | e :: r => negb (has_identical e r) && nodup_b r end.
Fixpoint remove_one (e : entry) (l : list entry) : option (list entry) :=
  match l with
  | [] => None
  | x :: r => if entry_eqb e x then Some r else option_map (cons x) (remove_one e r)
  end.
Fixpoint same_multiset (a b : list entry) : bool :=
  match a with
  | [] => match b with [] => true | _ => false end
  | e :: r => match remove_one e b with Some b' => same_multiset r b' | None => false end
  end.
Definition same_nset (a b : list N) : bool := subset a b && subset b a.

(* union of the files present *)
Definition union_of (r : repo) (listing : list N) : list entry := flat_map (fun fid => flat (content r fid)) listing.
Definition packs_of (r : repo) (listing : list N) : list N := flat_map (fun fid => file_packs (content r fid)) listing.

(* ---------- correspondence ---------- *)
(* observation after one (re)load: Values() of the incrementally loaded and of a fresh MasterIndex,
   Packs(nil), IDs(), files fetched by the incremental load (informational: ForAllIndexes fetches and
   decodes every listed file, Load only skips inserting the already merged ones), and Go-side projections:
   Lookup/LookupSize agree with Values for every handle of the universe *)
Record obs := mkO { o_vals : list entry; o_fresh : list entry; o_packs : list N; o_ids : list N;
                    o_fetched : list N; o_lookup_ok : bool; o_size_ok : bool }.

Inductive case :=
| CHist (r : repo) (steps : list (list N * obs))
| CCodec (ents : list entry) (decoded : list entry) (decoded_packs : list N)
(* an authenticated index file holding a value that does not fit 32 bits, read by the real CLI in a
   subprocess: the command must report an error, not die from a panic *)
| CReject (f : ifile) (crashed : bool) (errored : bool).

Definition step_ok (r : repo) (listing : list N) (o : obs) : bool :=
  nodup_b (o_vals o) && same_set (o_vals o) (union_of r listing)
  && nodup_b (o_fresh o) && same_set (o_fresh o) (union_of r listing)
  && same_nset (o_packs o) (packs_of r listing) && same_nset (o_ids o) listing
  && o_lookup_ok o && o_size_ok o.

Definition check_C08 (c : case) : bool :=
  match c with
  | CHist r steps => forallb (fun s => step_ok r (fst s) (snd s)) steps
  | CCodec ents decoded dpacks => same_multiset ents decoded && same_nset dpacks (map e_pack ents)
  | CReject f crashed errored => negb crashed && Bool.eqb errored (negb (file_fits f))
  end.

Fixpoint model_steps (r : repo) (mi : index) (steps : list (list N * obs)) : bool :=
  match steps with
  | [] => true
  | (listing, o) :: rest =>
    let mi' := load r mi listing in
    same_set (o_vals o) (i_ents mi') && Nat.eqb (length (o_vals o)) (length (i_ents mi'))
    && same_nset (o_ids o) (i_ids mi') && same_nset (o_packs o) (i_packs mi')
    && model_steps r mi' rest
  end.

(* 0 ok; 1 model <> implementation; 2 loaded index differs from the union of the index files present
   (or incremental <> fresh, or Lookup/LookupSize disagree with the entries); 3 encode/decode loses entries; 4 the CLI crashed (panic) on, silently accepted an index file with an oversized value, or refused one within the limits *)
Definition check_case (c : case) : nat :=
  if check_C08 c then
    match c with
    | CHist r steps => if model_steps r empty_index steps then 0 else 1
    | CCodec ents decoded dpacks =>
      if same_multiset (flat (encode ents)) decoded then 0 else 1
    | CReject f _ errored => if Bool.eqb errored (match decode_checked 0 f with None => true | Some _ => false end) then 0 else 1
    end
  else match c with CHist _ _ => 2 | CCodec _ _ _ => 3 | CReject _ _ _ => 4 end.

End C08m.
