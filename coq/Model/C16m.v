(* C16: identical content is stored once per repository.  Executable model only.
   Modelled code:
     internal/repository/repository.go   saveBlob: known := !idx.AddPending(h); store iff !known || storeDuplicate
     internal/repository/index/master_index.go  AddPending (test-and-set on pending ∪ indexed under idxMutex),
        storePack (pending -= pack blobs; index += pack blobs, under idxMutex), clearPendingBlobs
        (fresh MasterIndex / prepareIncrementalLoad).
   Concurrency: a labelled transition system; one event = one critical section or one saveAndEncrypt.
   Any number of savers in any interleaving = any event list (disabled events are no-ops). *)
From Restic Require Import Base.Prelude.

Module C16m.
Open Scope N_scope.

Definition cnt (h : N) (l : list N) : nat := length (filter (N.eqb h) l).
Definition mem (h : N) (l : list N) : bool := existsb (N.eqb h) l.
Fixpoint remove1 (h : N) (l : list N) : list N :=
  match l with [] => [] | x :: t => if N.eqb h x then t else x :: remove1 h t end.
(* remove the blobs of a pack from the packer buffer; None if they are not all there *)
Fixpoint take_all (bs p : list N) : option (list N) :=
  match bs with
  | [] => Some p
  | b :: t => if mem b p then take_all t (remove1 b p) else None
  end.

Record state := mk {
  pend : list N;            (* MasterIndex.pendingBlobs *)
  idx : list N;             (* index entries (multiset) of all in-memory indexes *)
  packer : list N;          (* blobs handed to saveAndEncrypt, pack not yet uploaded+indexed *)
  tick : list N;            (* savers whose AddPending returned true and which have not stored yet *)
  dupq : list N;            (* savers with known = true and storeDuplicate = true, not stored yet *)
  log : list (N * bool);    (* stores: (handle, true = because !known / false = explicit duplicate) *)
  res : list (N * bool * bool) (* finished AddPending calls: (handle, storeDuplicate, known) *)
}.

Definition known (s : state) (h : N) : bool := mem h (pend s) || mem h (idx s).

Inductive ev :=
| EAdd (h : N) (dup : bool)   (* saveBlob: known = !AddPending(h) (one critical section) *)
| EStoreT (h : N)             (* a saver with !known runs saveAndEncrypt *)
| EStoreD (h : N)             (* a saver with known && storeDuplicate runs saveAndEncrypt *)
| EPack (bs : list N)         (* a pack with blobs bs is uploaded; storePack (one critical section) *)
| EClear.                     (* session ends (e.g. failed upload); next one starts with a fresh pending set *)

Definition step (s : state) (e : ev) : state :=
  match e with
  | EAdd h dup =>
      if known s h
      then mk (pend s) (idx s) (packer s) (tick s) (if dup then h :: dupq s else dupq s) (log s) ((h, dup, true) :: res s)
      else mk (h :: pend s) (idx s) (packer s) (h :: tick s) (dupq s) (log s) ((h, dup, false) :: res s)
  | EStoreT h =>
      if mem h (tick s)
      then mk (pend s) (idx s) (h :: packer s) (remove1 h (tick s)) (dupq s) ((h, true) :: log s) (res s)
      else s
  | EStoreD h =>
      if mem h (dupq s)
      then mk (pend s) (idx s) (h :: packer s) (tick s) (remove1 h (dupq s)) ((h, false) :: log s) (res s)
      else s
  | EPack bs =>
      match take_all bs (packer s) with
      | Some p' => mk (filter (fun h => negb (mem h bs)) (pend s)) (bs ++ idx s) p' (tick s) (dupq s) (log s) (res s)
      | None => s
      end
  | EClear => mk [] (idx s) [] [] [] (log s) (res s)
  end.

Definition run (s : state) (evs : list ev) : state := fold_left step evs s.
Definition init (idx0 : list N) : state := mk [] idx0 [] [] [] [] [].

Definition no_clear (evs : list ev) : Prop := forall e, In e evs -> e <> EClear.

(* counters *)
Definition firsts (h : N) (lg : list (N * bool)) : nat :=
  length (filter (fun e => N.eqb h (fst e) && snd e) lg).
Definition dupstores (h : N) (lg : list (N * bool)) : nat :=
  length (filter (fun e => N.eqb h (fst e) && negb (snd e)) lg).
Definition U (h : N) (rs : list (N * bool * bool)) : nat :=      (* calls answered "not known" *)
  length (filter (fun r => N.eqb h (fst (fst r)) && negb (snd r)) rs).
Definition D (h : N) (rs : list (N * bool * bool)) : nat :=      (* known calls with storeDuplicate *)
  length (filter (fun r => N.eqb h (fst (fst r)) && snd (fst r) && snd r) rs).
Definition calls (h : N) (rs : list (N * bool * bool)) : nat :=
  length (filter (fun r => N.eqb h (fst (fst r))) rs).

(* ---- refinement of [idx]: the in-memory indexes of MasterIndex and their life cycle ----
   mi.idx[0] is the merged final index; new packs go into the first non-final index (or a new one);
   finalizeFullIndexes / finalizeNotFinalIndexes: open -> final without id (upload in flight);
   Index.SaveIndex completes: id set; MergeFinalIndexes: final indexes WITH an id are merged into
   idx[0], non-final ones and final ones without id are kept.  Lookups (Has / AddPending) range over
   all of them whatever their state. *)
Inductive istate := IOpen | IFinalNoId | IFinalSaved.
Definition mindex := list (istate * list N).
Definition flat (m : mindex) : list N := concat (map snd m).
Definition is_open (x : istate * list N) : bool := match fst x with IOpen => true | _ => false end.
Definition is_saved (x : istate * list N) : bool := match fst x with IFinalSaved => true | _ => false end.

(* storePack: into the first non-final index, else a new index at the end *)
Fixpoint store_into (m : mindex) (bs : list N) : mindex :=
  match m with
  | [] => [(IOpen, bs)]
  | x :: t => if is_open x then (IOpen, bs ++ snd x) :: t else x :: store_into t bs
  end.
Fixpoint set_state_at (k : nat) (from to : istate) (m : mindex) : mindex :=
  match m, k with
  | [], _ => []
  | x :: t, O => (match fst x, from with
                  | IOpen, IOpen | IFinalNoId, IFinalNoId => (to, snd x)
                  | _, _ => x
                  end) :: t
  | x :: t, S k' => x :: set_state_at k' from to t
  end.
Definition finalize_at (k : nat) (m : mindex) : mindex := set_state_at k IOpen IFinalNoId m.
Definition saved_at (k : nat) (m : mindex) : mindex := set_state_at k IFinalNoId IFinalSaved m.
(* MergeFinalIndexes *)
Definition merge_final (m : mindex) : mindex :=
  match m with
  | [] => []
  | x0 :: t => (fst x0, snd x0 ++ flat (filter is_saved t)) :: filter (fun x => negb (is_saved x)) t
  end.
(* NOT the code: a merge that forgets final indexes whose upload is still in flight *)
Definition merge_final_dropping_unsaved (m : mindex) : mindex :=
  match m with
  | [] => []
  | x0 :: t => (fst x0, snd x0 ++ flat (filter is_saved t)) :: filter is_open t
  end.

(* refined system: the abstract state plus the structured indexes *)
Inductive rev :=
| RE (e : ev)            (* an event of the abstract system; EPack also enters the pack into an index *)
| RFinalize (k : nat)
| RSaved (k : nat)
| RMerge.
Definition rstep (sm : state * mindex) (e : rev) : state * mindex :=
  let '(s, m) := sm in
  match e with
  | RE (EPack bs) =>
      match take_all bs (packer s) with
      | Some _ => (step s (EPack bs), store_into m bs)
      | None => (s, m)
      end
  | RE e => (step s e, m)
  | RFinalize k => (s, finalize_at k m)
  | RSaved k => (s, saved_at k m)
  | RMerge => (s, merge_final m)
  end.
Definition rrun (sm : state * mindex) (evs : list rev) : state * mindex := fold_left rstep evs sm.
Definition rinit (idx0 : list N) : state * mindex := (init idx0, [(IFinalSaved, idx0)]).
(* what AddPending really consults *)
Definition rknown (sm : state * mindex) (h : N) : bool := mem h (pend (fst sm)) || mem h (flat (snd sm)).
Definition abs_events (evs : list rev) : list ev :=
  flat_map (fun e => match e with RE e => [e] | _ => [] end) evs.

(* NOT the code: storePack split into two critical sections (pending removed first, index entry added
   later).  Only used to show that the atomicity of EPack is what the theorems rest on. *)
Inductive xev :=
| XE (e : ev)
| XRemovePending (bs : list N)   (* first half: delete the pack's blobs from pendingBlobs *)
| XInsertPack (bs : list N).     (* second half: enter the pack into the index *)
Definition xstep (s : state) (e : xev) : state :=
  match e with
  | XE e => step s e
  | XRemovePending bs =>
      match take_all bs (packer s) with
      | Some p' => mk (filter (fun h => negb (mem h bs)) (pend s)) (idx s) p' (tick s) (dupq s) (log s) (res s)
      | None => s
      end
  | XInsertPack bs => mk (pend s) (bs ++ idx s) (packer s) (tick s) (dupq s) (log s) (res s)
  end.
Definition xrun (s : state) (evs : list xev) : state := fold_left xstep evs s.

(* ---- cases ---- *)
Definition lookup (h : N) (l : list (N * N)) : N :=
  match find (fun p => N.eqb h (fst p)) l with Some p => snd p | None => 0 end.

Fixpoint nodup_n (l : list N) : list N :=
  match l with [] => [] | x :: t => if mem x t then nodup_n t else x :: nodup_n t end.

Inductive case :=
| CApi (idx0 : list N) (rs : list (N * bool * bool)) (final : list (N * N))
    (* savers run concurrently on a real repository: observed (handle, storeDuplicate, known) per call and
       the index entries per handle after the flush *)
| CCli (idx0 : list N) (cs : list N) (newblobs : N) (final : list (N * N))
| CStress (rounds handles : N) (max_unknown : N) (never_unknown : N).
    (* index-level stress on the real MasterIndex: per round one uploader does AddPending + StorePack for
       fresh handles while re-submitters keep calling AddPending for the same handles; observed: the
       largest number of 'not known' answers any handle got, and how many handles got none *)
    (* one backup run: blob handles referenced by the new snapshot (with multiplicity), number of blobs the
       summary reports as newly added, index entries per handle afterwards *)

Definition handles_api (idx0 : list N) (rs : list (N * bool * bool)) (final : list (N * N)) : list N :=
  nodup_n (idx0 ++ map (fun r => fst (fst r)) rs ++ map fst final).

(* per handle: 2 = stored more than once / although indexed; 3 = index entries not as implied *)
Definition api_code (idx0 : list N) (rs : list (N * bool * bool)) (final : list (N * N)) (h : N) : nat :=
  if negb (Nat.leb (U h rs) 1) then 2
  else if mem h idx0 && negb (Nat.eqb (U h rs) 0) then 2
  else if negb (N.eqb (lookup h final) (N.of_nat (cnt h idx0 + U h rs + D h rs))) then 3
  else 0.

Definition expected_new (idx0 cs : list N) : N :=
  N.of_nat (length (filter (fun h => negb (mem h idx0)) (nodup_n cs))).

Definition cli_code (idx0 cs : list N) (final : list (N * N)) (h : N) : nat :=
  if negb (N.eqb (lookup h final)
                 (N.of_nat (cnt h idx0 + (if mem h cs && negb (mem h idx0) then 1 else 0)))) then 3 else 0.

Definition first_code (l : list nat) : nat := fold_right (fun x acc => match x with O => acc | _ => x end) O l.

Definition oracle_code (c : case) : nat :=
  match c with
  | CApi idx0 rs final => first_code (map (api_code idx0 rs final) (handles_api idx0 rs final))
  | CCli idx0 cs newblobs final =>
      if negb (N.eqb newblobs (expected_new idx0 cs)) then 2
      else first_code (map (cli_code idx0 cs final) (nodup_n (idx0 ++ cs ++ map fst final)))
  | CStress rounds handles maxu never =>
      if negb (maxu <=? 1) then 2          (* some handle was accepted (answered 'not known') twice *)
      else if negb (never =? 0) then 3     (* a requested new handle was never accepted *)
      else 0
  end.

Definition check_C16 (c : case) : bool := Nat.eqb (oracle_code c) 0.

(* model prediction through the transition system: a sequential schedule of the same calls *)
Fixpoint seq_sched (rs : list (N * bool)) : list ev :=
  match rs with
  | [] => []
  | (h, d) :: t => EAdd h d :: EStoreT h :: EStoreD h :: seq_sched t
  end.

Definition model_final (idx0 : list N) (rs : list (N * bool)) : state :=
  let s := run (init idx0) (seq_sched rs) in
  step s (EPack (packer s)).

Definition check_case (c : case) : nat :=
  match oracle_code c with
  | O =>
    match c with
    | CApi idx0 rs final =>
        let s := model_final idx0 (map fst rs) in
        if forallb (fun h => Nat.eqb (U h rs) (U h (res s))
                             && (existsb (fun r => N.eqb h (fst (fst r)) && snd (fst r)) rs   (* winner depends on the schedule *)
                                 || N.eqb (lookup h final) (N.of_nat (cnt h (idx s)))))
                   (handles_api idx0 rs final)
        then 0%nat else 1%nat
    | CStress _ _ _ _ => 0%nat
    | CCli idx0 cs newblobs final =>
        let s := model_final idx0 (map (fun h => (h, false)) cs) in
        if forallb (fun h => N.eqb (lookup h final) (N.of_nat (cnt h (idx s)))) (nodup_n (idx0 ++ cs ++ map fst final))
           && N.eqb newblobs (N.of_nat (length (filter (fun e => snd e) (log s))))
        then 0%nat else 1%nat
    end
  | n => n
  end.

End C16m.
