(* C15: check reports no errors on any repository restic itself produced.
   Abstract repository states evolve by backend operations (Save/Remove of packs, index files,
   snapshots); [ok_step] is the structural discipline restic's commands follow (packs before the
   index entries that mention them, index before the snapshot, new indexes before old ones are
   removed, index rewritten before packs are deleted); [findings] models what
   cmd/restic/cmd_check.go:runCheck collects from Checker.LoadIndex / Packs / Structure / ReadPacks
   and [is_error] its hint-vs-error classification.  Executable model only. *)
From Restic Require Import Base.Prelude.

Module C15m.
Open Scope N_scope.

Definition id := N.
Definition body := list (id * list id).          (* index file: (pack, blobs listed for it) *)
Record st := St { s_packs : list (id * list id);   (* present pack files with the blobs in their header *)
                  s_idx : list (id * body);
                  s_snaps : list (id * list id) }.  (* present snapshots with the blobs they reach *)

Inductive op :=
  | SavePack (p : id) (blobs : list id) | SaveIdx (i : id) (b : body) | SaveSnap (s : id) (needs : list id)
  | RmPack (p : id) | RmIdx (i : id) | RmSnap (s : id) | Other.

Definition inl (x : N) (l : list N) : bool := existsb (N.eqb x) l.
Definition ids_eqb (a b : list N) : bool := list_eqb N.eqb a b.

Fixpoint find {A} (l : list (id * A)) (k : id) : option A :=
  match l with [] => None | (q, v) :: r => if q =? k then Some v else find r k end.
Definition remove {A} (l : list (id * A)) (k : id) : list (id * A) := filter (fun x => negb (fst x =? k)) l.

Definition in_body (b : body) (h : id) : bool := existsb (fun e => inl h (snd e)) b.
Definition in_index (idx : list (id * body)) (h : id) : bool := existsb (fun f => in_body (snd f) h) idx.
Definition indexed_packs (idx : list (id * body)) : list id := flat_map (fun f => map fst (snd f)) idx.

Definition apply (R : st) (o : op) : st :=
  match o with
  | SavePack p bs => match find (s_packs R) p with Some _ => R | None => St ((p, bs) :: s_packs R) (s_idx R) (s_snaps R) end
  | SaveIdx i b => St (s_packs R) ((i, b) :: remove (s_idx R) i) (s_snaps R)
  | SaveSnap s n => St (s_packs R) (s_idx R) ((s, n) :: remove (s_snaps R) s)
  | RmPack p => St (remove (s_packs R) p) (s_idx R) (s_snaps R)
  | RmIdx i => St (s_packs R) (remove (s_idx R) i) (s_snaps R)
  | RmSnap s => St (s_packs R) (s_idx R) (remove (s_snaps R) s)
  | Other => R
  end.

Definition body_ok (packs : list (id * list id)) (b : body) : bool :=
  forallb (fun e => match find packs (fst e) with Some bs => ids_eqb bs (snd e) | None => false end) b.
Definition snaps_ok (idx : list (id * body)) (snaps : list (id * list id)) : bool :=
  forallb (fun s => forallb (in_index idx) (snd s)) snaps.

(* the discipline *)
Definition ok_step (R : st) (o : op) : bool :=
  match o with
  | SavePack p bs => match find (s_packs R) p with Some bs' => ids_eqb bs' bs | None => true end
  | SaveIdx i b => body_ok (s_packs R) b && snaps_ok ((i, b) :: remove (s_idx R) i) (s_snaps R)
  | SaveSnap s n => forallb (in_index (s_idx R)) n
  | RmPack p => negb (inl p (indexed_packs (s_idx R)))
  | RmIdx i => snaps_ok (remove (s_idx R) i) (s_snaps R)
  | RmSnap _ | Other => true
  end.

Fixpoint ok_trace (R : st) (ops : list op) : bool :=
  match ops with [] => true | o :: r => ok_step R o && ok_trace (apply R o) r end.
Definition run (R : st) (ops : list op) : st := fold_left apply ops R.
Definition empty : st := St [] [] [].

(* the invariant *)
Definition inv (R : st) : bool :=
  forallb (fun f => body_ok (s_packs R) (snd f)) (s_idx R) && snaps_ok (s_idx R) (s_snaps R).

(* what check --read-data finds *)
Inductive finding :=
  | FMissing (p : id) | FPackData (p : id) | FNotInIndex (s h : id)      (* errors *)
  | FOrphan (p : id) | FDup (p : id).                                     (* hints: prune / repair index *)
Definition is_error (f : finding) : bool :=
  match f with FMissing _ | FPackData _ | FNotInIndex _ _ => true | FOrphan _ | FDup _ => false end.

Definition count_in (p : id) (l : list id) : nat := length (filter (N.eqb p) l).
Definition findings (R : st) : list finding :=
  (* Packs / ReadPacks: every index entry against the stored pack *)
  flat_map (fun f => flat_map (fun e => match find (s_packs R) (fst e) with
                                        | None => [FMissing (fst e)]
                                        | Some bs => if ids_eqb bs (snd e) then [] else [FPackData (fst e)]
                                        end) (snd f)) (s_idx R)
  (* LoadIndex: packs contained in several index files *)
  ++ flat_map (fun p => if Nat.ltb 1 (count_in p (indexed_packs (s_idx R))) then [FDup p] else []) (map fst (s_packs R))
  (* Packs: orphaned packs *)
  ++ flat_map (fun pk => if inl (fst pk) (indexed_packs (s_idx R)) then [] else [FOrphan (fst pk)]) (s_packs R)
  (* Structure *)
  ++ flat_map (fun s => flat_map (fun h => if in_index (s_idx R) h then [] else [FNotInIndex (fst s) h]) (snd s)) (s_snaps R).
Definition errors (R : st) : list finding := filter is_error (findings R).

Definition subset_n (a b : list N) : bool := forallb (fun x => inl x b) a.
Definition set_eqb_n (a b : list N) : bool := subset_n a b && subset_n b a.

(* one observed history (possibly with crashed commands): all backend operations so far, the files
   present now, and the verdict of the real `check --read-data` *)
Record case := mk {
  c_ops : list op;
  c_packs : list id; c_idx : list id; c_snaps : list id;
  c_check_failed : bool
}.

(* the property on the observation: every engine history is produced by restic itself (commands and
   crash cuts only), so the real check must not report errors *)
Definition check_C15 (c : case) : bool := negb (c_check_failed c).

(* codes: 0 ok; 2 check --read-data reports errors on a repository produced by restic commands
   (with or without crash cuts); 1 model <> implementation (the recorded operations break the
   discipline the model assumes, replaying them does not give the files that are present, or the
   model predicts errors) *)
Definition check_case (c : case) : nat :=
  if negb (check_C15 c) then 2%nat
  else if negb (ok_trace empty (c_ops c)) then 1%nat
  else let R := run empty (c_ops c) in
       if negb (set_eqb_n (map fst (s_packs R)) (c_packs c) && set_eqb_n (map fst (s_idx R)) (c_idx c)
                && set_eqb_n (map fst (s_snaps R)) (c_snaps c)) then 1%nat
       else match errors R with [] => 0%nat | _ => 1%nat end.

End C15m.
