(* C30: init never overwrites an existing repository.  Executable model only.
   Anchors: internal/repository/repository.go (Repository.Init, init), internal/restic/config.go
   (CreateConfig, Min/Max/StableRepoVersion), cmd/restic/cmd_init.go (version option),
   internal/global/global.go (CreateRepository range check), internal/restic/id.go (ParseID:
   the listing callbacks only see file names that parse as ids).

   check_case codes: 0 ok; 1 model <> implementation (accept / refuse decision, operations);
   2 init did not refuse although a config, key or snapshot exists (or changed/removed an existing file);
   3 init refused a free location / supported version, or accepted an unsupported version;
   4 created repository is not as demanded (config version, polynomial, id, exactly one new key,
     password opens it). *)
From Restic Require Import Base.Prelude Gen.ParamsC30.

Module C30m.
Local Open Scope N_scope.

Definition min_version : Z := ParamsC30.min_repo_version.
Definition max_version : Z := ParamsC30.max_repo_version.
Definition stable_version : Z := ParamsC30.stable_repo_version.

(* restic.ParseID: exactly 64 hex digits (either case) *)
Definition is_hex (c : N) : bool :=
  ((48 <=? c) && (c <=? 57)) || ((97 <=? c) && (c <=? 102)) || ((65 <=? c) && (c <=? 70)).
Definition is_id (name : bytes) : bool := Nat.eqb (length name) 64%nat && forallb is_hex name.

Record loc := mkLoc {
  l_config : bool;              (* a config file exists *)
  l_keys : list bytes;          (* names in keys/ *)
  l_snaps : list bytes;         (* names in snapshots/ *)
  l_index : nat; l_packs : nat; l_locks : nat }.   (* other files: never looked at *)

Inductive refusal := TooHigh | TooLow | HasConfig | HasKeys | HasSnapshots | BadVersionString.
Inductive ops := NoOps | SaveKeyThenConfig (version : Z).
Inductive result := Refused (r : refusal) | Created (version : Z).

(* Repository.Init: checks in program order *)
Definition init_decide (version : Z) (l : loc) : result :=
  if (version >? max_version)%Z then Refused TooHigh
  else if (version <? min_version)%Z then Refused TooLow
  else if l_config l then Refused HasConfig
  else if existsb is_id (l_keys l) then Refused HasKeys
  else if existsb is_id (l_snaps l) then Refused HasSnapshots
  else Created version.

Definition init_ops (r : result) : ops :=
  match r with Refused _ => NoOps | Created v => SaveKeyThenConfig v end.

(* cmd_init.go: --repository-version *)
Definition is_digit (c : N) : bool := (48 <=? c) && (c <=? 57).
Fixpoint dec_val (s : bytes) (acc : Z) : Z :=
  match s with [] => acc | c :: r => dec_val r (acc * 10 + Z.of_N (c - 48))%Z end.
Definition str_latest : bytes := [108;97;116;101;115;116]%N.
Definition str_stable : bytes := [115;116;97;98;108;101]%N.
(* strconv.ParseUint(s, 10, 32): non-empty, digits only, value < 2^32 *)
Definition parse_version (s : bytes) : option Z :=
  if bytes_eqb s str_latest || bytes_eqb s [] then Some max_version
  else if bytes_eqb s str_stable then Some stable_version
  else if forallb is_digit s && (dec_val s 0%Z <? 4294967296)%Z then Some (dec_val s 0%Z)
  else None.

Definition cli_init (vs : bytes) (l : loc) : result :=
  match parse_version vs with
  | None => Refused BadVersionString
  | Some v => init_decide v l
  end.

(* the property, declaratively *)
Definition occupied (l : loc) : bool := l_config l || existsb is_id (l_keys l) || existsb is_id (l_snaps l).
Definition supported (v : Z) : bool := (min_version <=? v)%Z && (v <=? max_version)%Z.

Definition is_created (r : result) : bool := match r with Created _ => true | _ => false end.

(* one correspondence case *)
Record obs := mkObs {
  o_ok : bool;                    (* init returned without error *)
  o_saves : list (N * bool);      (* successful Saves in order: type (1 key, 2 config, 0 other), name existed before *)
  o_removes : nat;                (* successful Removes *)
  o_unchanged : bool;             (* every pre-existing file is still there with the same content *)
  o_cfg_version : Z;              (* after success: version in the stored config *)
  o_pol_irreducible : bool;
  o_id_ok : bool;                 (* id is 64 hex digits and differs from the previous init's id *)
  o_new_keys : nat;               (* key files after - before *)
  o_opens : bool }.               (* the given password opens the new repository *)

Record case := mk {
  c_cli : bool;                   (* through the CLI (version string) or Repository.Init directly *)
  c_vstr : bytes; c_version : Z;  (* CLI: the string; direct: the number *)
  c_loc : loc;
  c_obs : obs }.

Definition model_result (c : case) : result :=
  if c_cli c then cli_init (c_vstr c) (c_loc c) else init_decide (c_version c) (c_loc c).

Definition eff_version (c : case) : option Z :=
  if c_cli c then parse_version (c_vstr c) else Some (c_version c).

Definition saves_eqb (a b : list (N * bool)) : bool :=
  list_eqb (fun x y => N.eqb (fst x) (fst y) && Bool.eqb (snd x) (snd y)) a b.

(* clause 2: occupied location => refused, nothing written, nothing changed; and never a Remove / overwrite *)
Definition clause_refuse (c : case) : bool :=
  let o := c_obs c in
  o_unchanged o && Nat.eqb (o_removes o) 0%nat && forallb (fun s => negb (snd s)) (o_saves o) &&
  (if occupied (c_loc c) then negb (o_ok o) && match o_saves o with [] => true | _ => false end else true).
(* clause 3: free location: accepted iff the version is supported *)
Definition clause_accept (c : case) : bool :=
  if occupied (c_loc c) then true
  else match eff_version c with
       | Some v => Bool.eqb (o_ok (c_obs c)) (supported v)
       | None => negb (o_ok (c_obs c))
       end.
(* clause 4: what a successful init leaves behind *)
Definition clause_created (c : case) : bool :=
  let o := c_obs c in
  if o_ok o then
    match eff_version c with
    | Some v => Z.eqb (o_cfg_version o) v && supported (o_cfg_version o)
    | None => false
    end &&
    o_pol_irreducible o && o_id_ok o && Nat.eqb (o_new_keys o) 1%nat && o_opens o &&
    saves_eqb (o_saves o) [(1%N, false); (2%N, false)]
  else match o_saves o with [] => true | _ => false end.

Definition check_C30 (c : case) : bool := clause_refuse c && clause_accept c && clause_created c.

Definition check_case (c : case) : nat :=
  if negb (clause_refuse c) then 2%nat
  else if negb (clause_accept c) then 3%nat
  else if negb (clause_created c) then 4%nat
  else if Bool.eqb (o_ok (c_obs c)) (is_created (model_result c)) then 0%nat else 1%nat.

End C30m.
