(* C01: backup then restore reproduces the source tree.
   Part A (abstract model, anchored in internal/archiver/archiver.go save/saveDir, file_saver.go
   saveFile (chunks in position order), internal/restorer/restorer.go RestoreTo first pass with the
   hard-link index, filerestorer.go blob lookups): backup = chunk, hash, node construction, tree build;
   restore = traversal in tree order, hard-link indexes (regular files in the first pass, symlinks and
   devices in the second pass), blob lookups, size verification.
   Part B (executable): expected snapshot listing (node construction of internal/fs/node.go
   buildBasicNode/nodeFillExtendedStat, name order of the tree builder) and the verified oracle
   on source / restored listings.  Executable model only. *)
From Restic Require Import Base.Prelude Gen.ParamsC01.

Module C01m.

(* ================= Part A ================= *)

Record meta := mkM { m_mode : N; m_mtime_s : Z; m_mtime_ns : N; m_uid : N; m_gid : N;
                     m_xattrs : list (bytes * bytes) }.

Inductive payload :=
  | PFile (data : bytes) (ino dev nlink : N)
  | PDir
  | PSymlink (target : bytes) (ino dev nlink : N)
  | PDev (chr : bool) (devno : N) (ino dev nlink : N)
  | PFifo.          (* fs.nodeFillExtendedStat records no link count for fifos *)

(* directory contents as first-child / next-sibling *)
Inductive tree := Nil | Node (name : bytes) (p : payload) (m : meta) (sub rest : tree).

Inductive ncontent :=
  | NFile (ids : list N) (size ino dev links : N)
  | NDir
  | NSymlink (target : bytes) (ino dev links : N)
  | NDev (chr : bool) (devno : N) (ino dev links : N)
  | NFifo.

Inductive stree := SNil | SNode (name : bytes) (c : ncontent) (m : meta) (sub rest : stree).

Definition key := (N * N)%type.
Definition key_eqb (x y : key) : bool := N.eqb (fst x) (fst y) && N.eqb (snd x) (snd y).

Fixpoint lookup {A} (k : key) (ix : list (key * A)) : option A :=
  match ix with
  | [] => None
  | (k', v) :: r => if key_eqb k k' then Some v else lookup k r
  end.

Section Abstract.
  Variable H : bytes -> N.                         (* content address *)
  Variable chunk : bytes -> list bytes.            (* content defined chunking *)
  Variable cfg : Type.                             (* repo version, compression, pack size, concurrency *)
  Variable enc : cfg -> bytes -> bytes.            (* compress + encrypt *)
  Variable dec : bytes -> option bytes.
  Variable layout : cfg -> list (N * bytes) -> list (list (N * bytes)).   (* distribution over packs *)

  Definition node_of (p : payload) : ncontent :=
    match p with
    | PFile d i dv n => NFile (map H (chunk d)) (N.of_nat (length d)) i dv n
    | PDir => NDir
    | PSymlink t i dv n => NSymlink t i dv n
    | PDev c d i dv n => NDev c d i dv n
    | PFifo => NFifo
    end.

  (* the snapshot tree does not depend on the configuration *)
  Fixpoint snap (t : tree) : stree :=
    match t with
    | Nil => SNil
    | Node n p m sub rest => SNode n (node_of p) m (snap sub) (snap rest)
    end.

  Fixpoint blobs (t : tree) : list bytes :=
    match t with
    | Nil => []
    | Node _ p _ sub rest =>
        (match p with PFile d _ _ _ => chunk d | _ => [] end) ++ blobs sub ++ blobs rest
    end.

  Definition store (c : cfg) (t : tree) : list (list (N * bytes)) :=
    layout c (map (fun b => (H b, enc c b)) (blobs t)).

  Definition load (st : list (list (N * bytes))) (i : N) : option bytes :=
    match find (fun e => N.eqb (fst e) i) (concat st) with
    | Some e => dec (snd e)
    | None => None
    end.

  Fixpoint load_all (st : list (list (N * bytes))) (ids : list N) : option bytes :=
    match ids with
    | [] => Some []
    | i :: r => match load st i, load_all st r with
                | Some b, Some d => Some (b ++ d)
                | _, _ => None
                end
    end.

  (* content of a file node: all blobs in order, total length verified against node.Size *)
  Definition fetch (st : list (list (N * bytes))) (ids : list N) (size : N) : option bytes :=
    match load_all st ids with
    | Some d => if N.eqb (N.of_nat (length d)) size then Some d else None
    | None => None
    end.

  (* second pass: the first location of a multiply linked symlink / device is created from its
     node and remembered; later locations become hard links to it (they show what the first shows) *)
  Definition place (links : N) (k : key) (own : payload) (sx : list (key * payload))
    : payload * list (key * payload) :=
    if N.ltb 1 links then
      match lookup k sx with
      | Some p => (p, sx)
      | None => (own, (k, own) :: sx)
      end
    else (own, sx).

  (* Both passes walk the snapshot in the same tree order and their indexes are independent, so
     they are folded into one traversal with two indexes: [ix] maps (inode, device) of multiply
     linked regular files to the content at the first location (first pass), [sx] does the same
     for symlinks and devices (second pass). *)
  Fixpoint restore (st : list (list (N * bytes))) (s : stree)
                   (ix : list (key * bytes)) (sx : list (key * payload))
    : option (tree * list (key * bytes) * list (key * payload)) :=
    match s with
    | SNil => Some (Nil, ix, sx)
    | SNode n c m sub rest =>
        match c with
        | NFile ids size i dv links =>
            let r := if N.ltb 1 links then
                       match lookup (i, dv) ix with
                       | Some d => Some (d, ix)
                       | None => match fetch st ids size with
                                 | Some d => Some (d, ((i, dv), d) :: ix)
                                 | None => None
                                 end
                       end
                     else match fetch st ids size with Some d => Some (d, ix) | None => None end in
            match r with
            | None => None
            | Some (d, ix1) =>
                match restore st rest ix1 sx with
                | None => None
                | Some (rest', ix2, sx2) => Some (Node n (PFile d i dv links) m Nil rest', ix2, sx2)
                end
            end
        | NDir =>
            match restore st sub ix sx with
            | None => None
            | Some (sub', ix1, sx1) =>
                match restore st rest ix1 sx1 with
                | None => None
                | Some (rest', ix2, sx2) => Some (Node n PDir m sub' rest', ix2, sx2)
                end
            end
        | NSymlink t i dv links =>
            let '(p, sx1) := place links (i, dv) (PSymlink t i dv links) sx in
            match restore st rest ix sx1 with
            | None => None
            | Some (rest', ix2, sx2) => Some (Node n p m Nil rest', ix2, sx2)
            end
        | NDev ch d i dv links =>
            let '(p, sx1) := place links (i, dv) (PDev ch d i dv links) sx in
            match restore st rest ix sx1 with
            | None => None
            | Some (rest', ix2, sx2) => Some (Node n p m Nil rest', ix2, sx2)
            end
        | NFifo =>
            match restore st rest ix sx with
            | None => None
            | Some (rest', ix2, sx2) => Some (Node n PFifo m Nil rest', ix2, sx2)
            end
        end
    end.

  Definition restore_backup (c : cfg) (t : tree) : option tree :=
    match restore (store c t) (snap t) [] [] with Some (t', _, _) => Some t' | None => None end.
End Abstract.

(* ================= Part B ================= *)

(* one lstat'ed entry; e_path = path components below the root; e_type: 0 file 1 dir 2 symlink
   3 char device 4 block device 5 fifo 6 socket; e_mode = Go os.FileMode bits; e_digest = SHA-256
   of the content (files) *)
Record ent := mkE {
  e_path : list bytes; e_type : N; e_size : N; e_digest : bytes; e_target : bytes; e_devno : N;
  e_mode : N; e_mt_s : Z; e_mt_ns : N; e_uid : N; e_gid : N; e_xattrs : list (bytes * bytes);
  e_ino : N; e_dev : N; e_nlink : N }.

Definition zb (b : bytes) : list Z := map Z.of_N b.
Definition flat_xattrs (l : list (bytes * bytes)) : list (list Z) :=
  flat_map (fun p => [zb (fst p); zb (snd p)]) l.

Definition is_file (e : ent) : bool := N.eqb (e_type e) 0.
Definition is_dev (e : ent) : bool := N.eqb (e_type e) 3 || N.eqb (e_type e) 4.

(* everything the property lists, as comparable data: type, size and content (files), link target,
   device number (devices), mode bits, mtime, owner, xattrs, path *)
Definition proj (e : ent) : list (list Z) :=
  [ [Z.of_N (e_type e)];
    [if is_file e then Z.of_N (e_size e) else 0%Z];
    (if is_file e then zb (e_digest e) else []);
    zb (e_target e);
    [if is_dev e then Z.of_N (e_devno e) else 0%Z];
    [Z.of_N (e_mode e)]; [e_mt_s e]; [Z.of_N (e_mt_ns e)]; [Z.of_N (e_uid e)]; [Z.of_N (e_gid e)] ]
  ++ map zb (e_path e) ++ [[(-1)%Z]] ++ flat_xattrs (e_xattrs e).

Definition zll_eqb (a b : list (list Z)) : bool := list_eqb (list_eqb Z.eqb) a b.

Definition is_socket (e : ent) : bool := N.eqb (e_type e) 6.
Definition is_dirent (e : ent) : bool := N.eqb (e_type e) 1.

(* sockets are not archived *)
Definition archived (src : list ent) : list ent := filter (fun e => negb (is_socket e)) src.

Definition ekey_eqb (a b : ent) : bool := N.eqb (e_ino a) (e_ino b) && N.eqb (e_dev a) (e_dev b).

(* identical hard-link grouping: two non-directory entries share an inode in the source
   iff they share one in the restored tree *)
Definition groups_ok (src dst : list ent) : bool :=
  let z := filter (fun p => negb (is_dirent (fst p))) (combine src dst) in
  forallb (fun p => forallb (fun q => Bool.eqb (ekey_eqb (fst p) (fst q)) (ekey_eqb (snd p) (snd q))) z) z.

Definition same_tree (src dst : list ent) : bool :=
  list_eqb zll_eqb (map proj (archived src)) (map proj dst) && groups_ok (archived src) dst.

(* ---- expected snapshot listing ---- *)

(* bytewise order of names, a directory before its contents: the order of the tree builder *)
Fixpoint bytes_cmp (a b : bytes) : comparison :=
  match a, b with
  | [], [] => Eq
  | [], _ => Lt
  | _, [] => Gt
  | x :: a', y :: b' => match N.compare x y with Eq => bytes_cmp a' b' | c => c end
  end.

Fixpoint path_cmp (a b : list bytes) : comparison :=
  match a, b with
  | [], [] => Eq
  | [], _ => Lt
  | _, [] => Gt
  | x :: a', y :: b' => match bytes_cmp x y with Eq => path_cmp a' b' | c => c end
  end.

Definition ent_leb (a b : ent) : bool :=
  match path_cmp (e_path a) (e_path b) with Gt => false | _ => true end.

Fixpoint insert (x : ent) (l : list ent) : list ent :=
  match l with
  | [] => [x]
  | y :: r => if ent_leb x y then x :: l else y :: insert x r
  end.
Definition sort_ents (l : list ent) : list ent := fold_right insert [] l.

(* a node as `ls`/LoadTree shows it: type, size, links, inode, mode, mtime, owner, target, device,
   total length of the content blobs, path *)
Record snode := mkSN {
  s_path : list bytes; s_type : N; s_size : N; s_links : N; s_inode : N; s_mode : N;
  s_mt_s : Z; s_mt_ns : N; s_uid : N; s_gid : N; s_target : bytes; s_devno : N; s_clen : N;
  s_xattrs : list (bytes * bytes) }.

(* fs.buildBasicNode / nodeFillExtendedStat *)
Definition node_of_ent (e : ent) : snode :=
  let t := e_type e in
  mkSN (e_path e) t
       (if is_file e then e_size e else 0)
       (if N.eqb t 0 || N.eqb t 2 || N.eqb t 3 || N.eqb t 4
           || (N.eqb t 5 && Z.eqb ParamsC01.fifo_links_recorded 1) then e_nlink e else 0)
       (e_ino e)
       (N.land (e_mode e) (Z.to_N ParamsC01.mode_mask))
       (e_mt_s e) (e_mt_ns e) (e_uid e) (e_gid e)
       (if N.eqb t 2 then e_target e else [])
       (if is_dev e then e_devno e else 0)
       (if is_file e then e_size e else 0)
       (e_xattrs e).

Definition sproj (s : snode) : list (list Z) :=
  [ [Z.of_N (s_type s)]; [Z.of_N (s_size s)]; [Z.of_N (s_links s)]; [Z.of_N (s_inode s)];
    [Z.of_N (s_mode s)]; [s_mt_s s]; [Z.of_N (s_mt_ns s)]; [Z.of_N (s_uid s)]; [Z.of_N (s_gid s)];
    zb (s_target s); [Z.of_N (s_devno s)]; [Z.of_N (s_clen s)] ]
  ++ map zb (s_path s) ++ [[(-1)%Z]] ++ flat_xattrs (s_xattrs s).

Definition model_snapshot (src : list ent) : list snode := map node_of_ent (sort_ents (archived src)).

(* ---- correspondence cases ---- *)

(* one backup+restore of the source under one configuration *)
Record run := mkRun { r_ok : bool; r_treeid : bytes; r_dst : list ent }.

Record case := mk {
  c_src : list ent;          (* source listing *)
  c_snap : list snode;       (* listing of the first snapshot (below the source root) *)
  c_runs : list run          (* same repository, different compression / pack size / concurrency *)
}.

Definition runs_ok (c : case) : bool :=
  forallb (fun r => r_ok r && same_tree (c_src c) (r_dst r)) (c_runs c).

Definition cfg_irrelevant (c : case) : bool :=
  match c_runs c with
  | [] => true
  | r0 :: rs => forallb (fun r => bytes_eqb (r_treeid r) (r_treeid r0)) rs
  end.

Definition check_C01 (c : case) : bool := runs_ok c && cfg_irrelevant c.

(* 0 ok; 1 snapshot listing differs from the model; 2 a restored tree differs from the source;
   3 the snapshot tree depends on the configuration *)
Definition check_case (c : case) : nat :=
  if negb (runs_ok c) then 2
  else if negb (cfg_irrelevant c) then 3
  else if list_eqb zll_eqb (map sproj (c_snap c)) (map sproj (model_snapshot (c_src c))) then 0 else 1.

End C01m.
