(* C52: check --read-data-subset n/t buckets partition all packs; percentage / size subsets read at
   least one pack.  Executable model only.

   Modelled Go code (cmd/restic/cmd_check.go, current /repo):
     checkFlags (the n/t decision)          accept_nt
     selectPacksByBucket                    select_bucket   (uint arithmetic: bucket-1 wraps mod 2^64,
                                                             % by 0 panics)
     selectRandomPacksByPercentage          select_pct      (k = int(float64(count)*(p/100)) is an input
                                                             computed with the same float expression by the
                                                             harness; the random permutation is an input)
   A pack is (first byte of its ID, serial number); serial numbers are distinct.

   check_case codes: 0 ok; 1 model <> implementation (oracle holds); 2 a pack is in no bucket or in
   several buckets / a selection contains a pack that is not in the repository; 3 a percentage or size
   subset of a non-empty repository selected no pack, a foreign pack or a duplicate; 4 panic on an
   accepted input. *)
From Restic Require Import Base.Prelude Gen.ParamsC52.

Module C52m.
Open Scope Z_scope.

Definition two64 : Z := 18446744073709551616.
Definition nbytes : Z := 256.                      (* number of values of pack[0] *)
Definition total_buckets_max : Z := ParamsC52.total_buckets_max.

Definition pack := (Z * Z)%type.
Definition pack_eqb (a b : pack) : bool := ((fst a =? fst b) && (snd a =? snd b))%bool.
Definition mem (p : pack) (l : list pack) : bool := existsb (pack_eqb p) l.
Definition is_empty {A} (l : list A) : bool := match l with [] => true | _ => false end.

(* checkFlags, n/t branch (n, t are the uint values parsed from the flag) *)
Definition accept_nt (n t : Z) : bool :=
  (negb ((n =? 0) || (t =? 0) || (n >? t)) && negb (t >? total_buckets_max))%bool.

(* uint(pack[0]) % totalBuckets == bucket-1 *)
Definition bucket_test (b bucket total : Z) : bool := (b mod total) =? ((bucket - 1) mod two64).
Definition sb (packs : list pack) (bucket total : Z) : list pack :=
  filter (fun p => bucket_test (fst p) bucket total) packs.

Inductive sel := SOk (l : list pack) | SPanic.

Definition select_bucket (packs : list pack) (bucket total : Z) : sel :=
  if ((total =? 0) && negb (is_empty packs))%bool then SPanic       (* integer divide by zero *)
  else SOk (sb packs bucket total).

(* selectRandomPacksByPercentage *)
Definition eff_k (count k : Z) : Z := if ((count >? 0) && (k <? 1))%bool then 1 else k.
Fixpoint pick (keys : list pack) (idx : list nat) : option (list pack) :=      (* keys[idx[i]] *)
  match idx with
  | [] => Some []
  | i :: r => match nth_error keys i, pick keys r with
              | Some p, Some l => Some (p :: l)
              | _, _ => None
              end
  end.
Definition select_pct (keys : list pack) (perm : list nat) (k : Z) : sel :=
  let count := Z.of_nat (length keys) in
  let k' := eff_k count k in
  if k' >? count then SPanic                                           (* idx[i], i >= len(idx) *)
  else match pick keys (firstn (Z.to_nat k') perm) with Some l => SOk l | None => SPanic end.

(* ---- cases *)
Inductive input :=
  | IAccept (n t : Z)                          (* checkFlags on "n/t" *)
  | IBuckets (packs : list pack) (t : Z)       (* the filters for n = 1..t of an accepted t *)
  | IBucket1 (packs : list pack) (n t : Z)     (* selectPacksByBucket called directly (any n, t) *)
  | IPct (packs : list pack) (k : Z).          (* percentage / size subset; k = the float expression *)

Inductive obs :=
  | OBool (b : bool)
  | OSels (l : list sel)
  | OSel (s : sel).

Fixpoint list_mem_eqb (a b : list pack) : bool :=          (* same packs in the same order *)
  match a, b with
  | [], [] => true
  | x :: a', y :: b' => (pack_eqb x y && list_mem_eqb a' b')%bool
  | _, _ => false
  end.
Definition sel_eqb (a b : sel) : bool :=
  match a, b with SOk x, SOk y => list_mem_eqb x y | SPanic, SPanic => true | _, _ => false end.
Definition sel_list (s : sel) : list pack := match s with SOk l => l | SPanic => [] end.
Definition is_panic (s : sel) : bool := match s with SPanic => true | _ => false end.

Fixpoint zrange (from : Z) (n : nat) : list Z :=
  match n with O => [] | S m => from :: zrange (from + 1) m end.

Definition model (i : input) : obs :=
  match i with
  | IAccept n t => OBool (accept_nt n t)
  | IBuckets packs t => OSels (map (fun n => select_bucket packs n t) (zrange 1 (Z.to_nat t)))
  | IBucket1 packs n t => OSel (select_bucket packs n t)
  | IPct packs k => OSel (SOk [])      (* nondeterministic: judged by the oracle and the size only *)
  end.

(* in how many of the selections does p occur? *)
Definition occurrences (p : pack) (sels : list sel) : Z :=
  Z.of_nat (length (filter (fun s => mem p (sel_list s)) sels)).
Definition subset (a b : list pack) : bool := forallb (fun q => mem q b) a.
Fixpoint nodup (l : list pack) : bool :=
  match l with [] => true | x :: r => (negb (mem x r) && nodup r)%bool end.

(* the partition clause on observed selections *)
Definition partition_ok (packs : list pack) (sels : list sel) : bool :=
  (forallb (fun p => occurrences p sels =? 1) packs
   && forallb (fun s => subset (sel_list s) packs) sels)%bool.
(* the at-least-one clause *)
Definition subset_ok (packs sl : list pack) : bool :=
  ((is_empty packs || negb (is_empty sl)) && subset sl packs && nodup sl)%bool.

Record case := mk { c_in : input; c_obs : obs }.

Definition panics (c : case) : bool :=
  match c_in c, c_obs c with
  | IBuckets _ _, OSels l => existsb is_panic l
  | IPct packs k, OSel s => is_panic s            (* the engine only uses accepted percentages / sizes *)
  | _, _ => false
  end.

Definition check_C52 (c : case) : bool :=
  match c_in c, c_obs c with
  | IBuckets packs t, OSels l => (negb (existsb is_panic l) && (Z.of_nat (length l) =? t) && partition_ok packs l)%bool
  | IPct packs k, OSel (SOk sl) => subset_ok packs sl
  | IPct packs k, OSel SPanic => false
  | IAccept _ _, OBool _ => true
  | IBucket1 _ _ _, OSel _ => true
  | _, _ => false
  end.

Definition obs_eqb (a b : obs) : bool :=
  match a, b with
  | OBool x, OBool y => Bool.eqb x y
  | OSels x, OSels y => list_eqb sel_eqb x y
  | OSel x, OSel y => sel_eqb x y
  | _, _ => false
  end.

Definition agrees (c : case) : bool :=
  match c_in c, c_obs c with
  | IPct packs k, OSel (SOk sl) =>        (* exactly max(1,k) packs (all of them when there are none) *)
      Z.of_nat (length sl) =? Z.max 0 (eff_k (Z.of_nat (length packs)) k)
  | IPct packs k, OSel SPanic => true
  | i, o => obs_eqb o (model i)
  end.

Definition check_case (c : case) : nat :=
  if panics c then 4
  else if check_C52 c then (if agrees c then 0 else 1)
  else match c_in c with IPct _ _ => 3 | _ => 2 end.

End C52m.
