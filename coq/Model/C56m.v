(* C56: indexMap (internal/repository/index/indexmap.go) — chained hash table with a bloom
   filter packed into the link words, entries stored in a hashed array tree (HAT).
   Executable model only.  Positions are [nat], link words are [N] (uint64), ids are [N]
   (the harness maps a small integer k to a 32-byte id whose first byte is k mod 256).
   Every function that can panic in Go (index out of range, HAT.Ref beyond size, "repository
   index size overflow") or run out of fuel returns [None]. *)
From Restic Require Import Base.Prelude.
From Coq Require Import PeanoNat.

Module C56m.

Definition val := (N * N * N * N)%type.   (* packIndex, offset, length, uncompressedLength *)
Record entry := mkE { e_id : N; e_next : N; e_val : val }.
Definition zeroE := mkE 0 0 (0, 0, 0, 0)%N.      (* Go zero value of indexEntry *)

Definition obind {A B} (a : option A) (f : A -> option B) : option B :=
  match a with Some x => f x | None => None end.
Notation "x <- a ;; b" := (obind a (fun x => b)) (at level 61, a at next level, right associativity).

Fixpoint upd {A} (l : list A) (i : nat) (x : A) : list A :=
  match l, i with
  | [], _ => []
  | _ :: r, O => x :: r
  | y :: r, S i' => y :: upd r i' x
  end.

(* ---------- bloom filter packed in the top 28 bits of a link word ---------- *)
Definition bloomShift : N := 36.
Definition bloomMask : N := (2 ^ 36 - 1)%N.             (* 1<<bloomShift - 1 *)
Definition id0 (id : N) : N := (id mod 256)%N.           (* first byte of the id *)
Definition bloomClass (id : N) : N := (id0 id mod 28)%N. (* id[0] % (64 - bloomShift) *)
Definition bloomForID (id : N) : N := N.shiftl 1 (bloomClass id).
Definition bloomCleanID (w : N) : N := N.land w bloomMask.
Definition bloomHasID (w id : N) : bool :=
  negb (N.eqb (N.land (N.shiftr w bloomShift) (bloomForID id)) 0).
(* idx | (nextIdx & ^mask) | (bloomForID(id) << bloomShift) *)
Definition bloomInsertID (idx nxt id : N) : N :=
  N.lor (N.lor idx (N.ldiff nxt bloomMask)) (N.shiftl (bloomForID id) bloomShift).

(* ---------- hashed array tree ---------- *)
Record hat := mkH { h_shift : nat; h_size : nat; h_blocks : list (list entry) }.
Definition bsz (h : hat) : nat := 2 ^ h_shift h.          (* blockSize = mask+1 = 1<<maskShift *)
Definition newHAT : hat := mkH 2 0 (repeat [] 4).

(* block[0:blockSize] of a block made with capacity blockSize (spare capacity is zeroed) *)
Definition pad (n : nat) (l : list entry) : list entry := firstn n (l ++ repeat zeroE n).

(* pairwise merging of blocks; stops at the first pair of nil blocks *)
Fixpoint merge_pairs (bs2 : nat) (old : list (list entry)) : list (list entry) :=
  match old with
  | a :: b :: r =>
      match a, b with
      | [], [] => []
      | _, _ => pad bs2 (a ++ b) :: merge_pairs bs2 r
      end
  | _ => []
  end.

Definition hat_double (h : hat) : hat :=
  let bs2 := 2 * bsz h in
  let m := merge_pairs bs2 (h_blocks h) in
  mkH (S (h_shift h)) (h_size h) (m ++ repeat [] (bs2 - length m)).

Fixpoint hat_pre_loop (fuel idx : nat) (h : hat) : hat :=
  match fuel with
  | O => h
  | S f => if idx <? length (h_blocks h) then h else hat_pre_loop f (idx / 2) (hat_double h)
  end.

(* hashedArrayTree.preallocate(numEntries), numEntries >= 1 *)
Definition hat_prealloc (h : hat) (n : nat) : hat :=
  let idx := (n - 1) / bsz h in hat_pre_loop (S idx) idx h.

Definition hat_grow (h : hat) : option hat :=
  let h1 := hat_prealloc h (h_size h + 1) in
  let idx := h_size h1 / bsz h1 in
  let sub := h_size h1 mod bsz h1 in
  if sub =? 0 then
    if idx <? length (h_blocks h1)
    then Some (mkH (h_shift h1) (h_size h1) (upd (h_blocks h1) idx (repeat zeroE (bsz h1))))
    else None
  else Some h1.

Definition blk_get (h : hat) (pos : nat) : option entry :=
  nth_error (nth (pos / bsz h) (h_blocks h) []) (pos mod bsz h).

Definition blk_set (h : hat) (pos : nat) (e : entry) : option hat :=
  let idx := pos / bsz h in let sub := pos mod bsz h in
  match nth_error (h_blocks h) idx with
  | None => None
  | Some b => if sub <? length b
              then Some (mkH (h_shift h) (h_size h) (upd (h_blocks h) idx (upd b sub e)))
              else None
  end.

(* Alloc: returns the new position; the slot must exist (Go bounds check) *)
Definition hat_alloc (h : hat) : option (hat * nat) :=
  h1 <- hat_grow h ;;
  _ <- blk_get h1 (h_size h1) ;;
  Some (mkH (h_shift h1) (S (h_size h1)) (h_blocks h1), h_size h1).

(* Ref: panics beyond size *)
Definition hat_ref (h : hat) (pos : nat) : option entry :=
  if h_size h <=? pos then None else blk_get h pos.

(* writing through a pointer obtained from Ref/Alloc *)
Definition hat_set (h : hat) (pos : nat) (e : entry) : option hat :=
  if h_size h <=? pos then None else blk_set h pos e.

(* ---------- the map ---------- *)
Record imap := mkM { m_buckets : list N; m_num : nat; m_hat : hat }.
Definition empty : imap := mkM [] 0 (mkH 0 0 []).

Inductive op := Add (id : N) (v : val) | Pre (n : N).

Section WithHash.
Variable hash : N -> N.      (* maphash with the map's random seed: arbitrary *)

(* h & uint(len(buckets)-1) *)
Definition bucket (nb : nat) (id : N) : nat :=
  N.to_nat (N.land (hash id) (N.of_nat nb - 1)).

Definition newEntry (h : hat) : option (hat * nat) :=
  r <- hat_alloc h ;;
  let idx := N.of_nat (snd r) in
  if N.eqb idx (bloomCleanID idx) then Some r else None.

Definition init (m : imap) : option imap :=
  r <- newEntry newHAT ;;
  Some (mkM (repeat 0%N 64) (m_num m) (fst r)).

Fixpoint grow_size (fuel ns target : nat) : nat :=
  match fuel with
  | O => ns
  | S f => if ns <? target then grow_size f (2 * ns) target else ns
  end.

Definition rehash_step (st : option (list N * hat)) (i : nat) : option (list N * hat) :=
  s <- st ;;
  let bk := fst s in let h := snd s in
  e <- hat_ref h i ;;
  let b := bucket (length bk) (e_id e) in
  nxt <- nth_error bk b ;;
  h' <- hat_set h i (mkE (e_id e) nxt (e_val e)) ;;
  Some (upd bk b (bloomInsertID (N.of_nat i) nxt (e_id e)), h').

Definition preallocate (m : imap) (n : nat) : option imap :=
  if n =? 0 then Some m else
  m1 <- (if length (m_buckets m) =? 0 then init m else Some m) ;;
  let nb := length (m_buckets m1) in
  let target := (n + 4 - 1) / 4 in
  let newSize := grow_size target nb target in
  if newSize =? nb then Some m1 else
  s <- fold_left rehash_step (seq 1 (h_size (m_hat m1) - 1)) (Some (repeat 0%N newSize, m_hat m1)) ;;
  Some (mkM (fst s) (m_num m1) (hat_prealloc (snd s) n)).

Definition add (m : imap) (id : N) (v : val) : option imap :=
  m1 <- preallocate m (m_num m + 1) ;;
  let b := bucket (length (m_buckets m1)) id in
  r <- newEntry (m_hat m1) ;;
  nxt <- nth_error (m_buckets m1) b ;;
  h' <- hat_set (fst r) (snd r) (mkE id nxt v) ;;
  Some (mkM (upd (m_buckets m1) b (bloomInsertID (N.of_nat (snd r)) nxt id)) (S (m_num m1)) h').

Definition resolve (m : imap) (w : N) : option entry :=
  hat_ref (m_hat m) (N.to_nat (bloomCleanID w)).

(* the chain loop of valuesWithID; fuel = HAT size *)
Fixpoint walk_vals (fuel : nat) (m : imap) (ei id : N) : option (list val) :=
  if bloomHasID ei id then
    match fuel with
    | O => None
    | S f =>
        e <- resolve m ei ;;
        rest <- walk_vals f m (e_next e) id ;;
        Some (if N.eqb (e_id e) id then e_val e :: rest else rest)
    end
  else Some [].

Fixpoint walk_get (fuel : nat) (m : imap) (ei id : N) : option (option val) :=
  if bloomHasID ei id then
    match fuel with
    | O => None
    | S f =>
        e <- resolve m ei ;;
        if N.eqb (e_id e) id then Some (Some (e_val e)) else walk_get f m (e_next e) id
    end
  else Some None.

Fixpoint walk_first (fuel : nat) (m : imap) (ei id : N) (idx : Z) : option Z :=
  if bloomHasID ei id then
    match fuel with
    | O => None
    | S f =>
        e <- resolve m ei ;;
        let cur := Z.of_N (bloomCleanID ei) in
        let idx' := if N.eqb (e_id e) id
                    then (if orb (Z.ltb cur idx) (Z.eqb idx (-1)) then cur else idx)
                    else idx in
        walk_first f m (e_next e) id idx'
    end
  else Some idx.

Definition head_word (m : imap) (id : N) : option N :=
  nth_error (m_buckets m) (bucket (length (m_buckets m)) id).

Definition valuesWithID (m : imap) (id : N) : option (list val) :=
  if length (m_buckets m) =? 0 then Some [] else
  w <- head_word m id ;; walk_vals (h_size (m_hat m)) m w id.

Definition get (m : imap) (id : N) : option (option val) :=
  if length (m_buckets m) =? 0 then Some None else
  w <- head_word m id ;; walk_get (h_size (m_hat m)) m w id.

Definition firstIndex (m : imap) (id : N) : option Z :=
  if length (m_buckets m) =? 0 then Some (-1)%Z else
  w <- head_word m id ;; walk_first (h_size (m_hat m)) m w id (-1)%Z.

Fixpoint collect (m : imap) (ps : list nat) : option (list (N * val)) :=
  match ps with
  | [] => Some []
  | p :: r => e <- hat_ref (m_hat m) p ;; rest <- collect m r ;; Some ((e_id e, e_val e) :: rest)
  end.

(* values(): positions 1 .. Size()-1 *)
Definition values (m : imap) : option (list (N * val)) :=
  collect m (seq 1 (h_size (m_hat m) - 1)).

Definition len (m : imap) : nat := m_num m.

Definition apply (m : imap) (o : op) : option imap :=
  match o with
  | Add id v => add m id v
  | Pre n => preallocate m (N.to_nat n)
  end.

Fixpoint run (m : imap) (ops : list op) : option imap :=
  match ops with
  | [] => Some m
  | o :: r => m' <- apply m o ;; run m' r
  end.

End WithHash.

(* ---------- abstract multimap: the insertion log ---------- *)
Definition alog := list (N * val).

Fixpoint log_of (ops : list op) : alog :=
  match ops with
  | [] => []
  | Add id v :: r => (id, v) :: log_of r
  | Pre _ :: r => log_of r
  end.

(* entries inserted for id, oldest first *)
Fixpoint vals_of (l : alog) (id : N) : list val :=
  match l with
  | [] => []
  | (i, v) :: r => if N.eqb i id then v :: vals_of r id else vals_of r id
  end.

(* 1 + position of the first insertion of id; -1 if none *)
Fixpoint first_pos (l : alog) (id : N) (k : Z) : Z :=
  match l with
  | [] => (-1)%Z
  | (i, _) :: r => if N.eqb i id then k else first_pos r id (k + 1)%Z
  end.
Definition spec_first (l : alog) (id : N) : Z := first_pos l id 1%Z.

(* ---------- cases ---------- *)
Definition val_eqb (a b : val) : bool :=
  match a, b with (a1, a2, a3, a4), (b1, b2, b3, b4) =>
    andb (andb (N.eqb a1 b1) (N.eqb a2 b2)) (andb (N.eqb a3 b3) (N.eqb a4 b4)) end.
Definition pair_eqb (a b : N * val) : bool := andb (N.eqb (fst a) (fst b)) (val_eqb (snd a) (snd b)).

Fixpoint count {A} (eqb : A -> A -> bool) (l : list A) (x : A) : nat :=
  match l with [] => 0 | y :: r => (if eqb y x then 1 else 0) + count eqb r x end.
(* multiset equality; the two list comparisons are fast paths (vm_compute is strict, hence [if]) *)
Definition msetb {A} (eqb : A -> A -> bool) (a b : list A) : bool :=
  if list_eqb eqb a b then true
  else if list_eqb eqb a (rev b) then true
  else forallb (fun x => count eqb a x =? count eqb b x) (a ++ b).
Fixpoint memb {A} (eqb : A -> A -> bool) (x : A) (l : list A) : bool :=
  match l with [] => false | y :: r => if eqb y x then true else memb eqb x r end.

(* observation for one key: valuesWithID, get, firstIndex.  [None] = the call panicked *)
Record kobs := mkK { k_id : N; k_vals : option (list val); k_get : option (option val); k_first : option Z }.
(* a checkpoint: ops executed since the previous checkpoint (in chunks), then len, values() (in
   chunks), per-key lookups.  c_panic: one of the ops panicked. *)
(* values(): not observed at this checkpoint / panicked / the entries (in chunks) *)
Inductive iobs := ISkip | IPanic | IList (chunks : list (list (N * val))).
Record ckpt := mkC { c_ops : list (list op); c_panic : bool; c_len : N;
                     c_iter : iobs; c_keys : list kobs }.
(* c_model = false: too big for the (unary-position) executable model; only the oracle judges it *)
Record case := mk { c_model : bool; c_ckpts : list ckpt }.

(* the property, per key, against the insertion log, in the exact order that is proved
   (C56_refines_multimap): lookups newest first, get = the newest entry.  Codes:
   2 lookup does not yield exactly the inserted entries (newest first)
   3 get is not the newest entry for the id (nil iff none)
   4 first index is not the position of the first insertion (it moved)
   5 iteration does not yield every entry once, in insertion order   6 panic   7 len wrong *)
Definition key_ok (l : alog) (k : kobs) : nat :=
  match k_vals k, k_get k, k_first k with
  | Some vs, Some g, Some f =>
      if negb (list_eqb val_eqb vs (rev (vals_of l (k_id k)))) then 2
      else if negb (option_eqb val_eqb g (hd_error (rev (vals_of l (k_id k))))) then 3
      else if negb (Z.eqb f (spec_first l (k_id k))) then 4
      else 0
  | _, _, _ => 6
  end.

Fixpoint first_bad {A} (f : A -> nat) (l : list A) : nat :=
  match l with [] => 0 | x :: r => match f x with O => first_bad f r | n => n end end.

Definition ckpt_ok (l : alog) (c : ckpt) : nat :=
  if c_panic c then 6 else
  if negb (N.eqb (c_len c) (N.of_nat (length l))) then 7 else
  match c_iter c with
  | IPanic => 6
  | ISkip => first_bad (key_ok l) (c_keys c)
  | IList it =>
      if negb (list_eqb pair_eqb (concat it) l) then 5
      else first_bad (key_ok l) (c_keys c)
  end.

Fixpoint ckpts_ok (l : alog) (cs : list ckpt) : nat :=
  match cs with
  | [] => 0
  | c :: r => let l' := l ++ log_of (concat (c_ops c)) in
              match ckpt_ok l' c with O => ckpts_ok l' r | n => n end
  end.

(* verified oracle *)
Definition check_C56 (c : case) : bool := Nat.eqb (ckpts_ok [] (c_ckpts c)) 0.

(* exact comparison with the model, run with a fixed (heavily colliding) hash function; the
   observables do not depend on the hash function (theorem C56_hash_independent) *)
Definition mhash (id : N) : N := (id / 3)%N.

Definition kobs_model (m : imap) (k : kobs) : bool :=
  andb (option_eqb (list_eqb val_eqb) (k_vals k) (valuesWithID mhash m (k_id k)))
   (andb (option_eqb (option_eqb val_eqb) (k_get k) (get mhash m (k_id k)))
         (option_eqb Z.eqb (k_first k) (firstIndex mhash m (k_id k)))).

Fixpoint model_ok (m : option imap) (cs : list ckpt) : bool :=
  match cs with
  | [] => true
  | c :: r =>
      let m' := obind m (fun m0 => run mhash m0 (concat (c_ops c))) in
      match m' with
      | None => if c_panic c then model_ok m' r else false
      | Some m1 =>
          if c_panic c then false else
          if negb (N.eqb (c_len c) (N.of_nat (len m1))) then false else
          if negb (match c_iter c with
                   | ISkip => true
                   | IPanic => match values m1 with None => true | Some _ => false end
                   | IList it => option_eqb (list_eqb pair_eqb) (Some (concat it)) (values m1)
                   end) then false else
          if negb (forallb (kobs_model m1) (c_keys c)) then false else model_ok m' r
      end
  end.

Definition check_case (c : case) : nat :=
  match ckpts_ok [] (c_ckpts c) with
  | O => if c_model c then (if model_ok (Some empty) (c_ckpts c) then 0 else 1) else 0
  | n => n
  end.

(* the model's own observations, for the theorem "the model satisfies the oracle" *)
Definition model_kobs (hash : N -> N) (m : imap) (id : N) : kobs :=
  mkK id (valuesWithID hash m id) (get hash m id) (firstIndex hash m id).

Fixpoint model_ckpts (hash : N -> N) (m : option imap) (script : list (list op * list N)) : list ckpt :=
  match script with
  | [] => []
  | (ops, keys) :: r =>
      let m' := obind m (fun m0 => run hash m0 ops) in
      (match m' with
       | None => mkC [ops] true 0 IPanic []
       | Some m1 => mkC [ops] false (N.of_nat (len m1))
                        (match values m1 with Some x => IList [x] | None => IPanic end)
                        (map (model_kobs hash m1) keys)
       end) :: model_ckpts hash m' r
  end.

End C56m.
