(* Shared by C09/C10: executable model of repository.packInfoFromIndex (internal/repository/prune.go).
   Three passes over the ordered entry list that ListBlobs yields; the uint8 duplicate counter
   saturates at 255.  Model only, no proofs. *)
From Restic Require Import Base.Prelude.

Module SPrune.
Open Scope N_scope.

(* one index entry: pack, blob handle (type+id renamed to a number), blob type (1 data, 2 tree),
   ciphertext length, compressed? *)
Record entry := mkE { e_pack : N; e_h : N; e_tpe : N; e_len : N; e_comp : bool }.

Definition upd {A} (f : N -> A) (k : N) (v : A) : N -> A := fun x => if N.eqb x k then v else f x.
Definition memN (x : N) (l : list N) : bool := existsb (N.eqb x) l.

(* header size constants of internal/repository/pack: headerSize, plain entry, compressed entry *)
Record consts := mkC { k_hdr : N; k_plain : N; k_comp : N }.

(* restic.BlobType: 0 InvalidBlob (= mixed pack), 1 DataBlob, 2 TreeBlob, 3 NumBlobTypes (= not set) *)
Record pinfo := mkP { usedB : N; unusedB : N; dupB : N; usedS : N; unusedS : N; tpe : N; uncomp : bool }.
Record bstats := mkS { s_usedB : N; s_dupB : N; s_unusedB : N; s_usedS : N; s_dupS : N; s_unusedS : N }.

(* sel = ghost: the entries counted as "used" (the selected copies) *)
Record st := mkSt { cnt : N -> N; ip : N -> pinfo; sts : bstats; sel : list entry; hasdup : bool }.

(* ---- pass 1: count index entries per used handle, saturating ---- *)
Definition sat_inc (n : N) : N := if n <? 255 then n + 1 else n.
Definition p1_step (used : list N) (c : N -> N) (e : entry) : N -> N :=
  if memN (e_h e) used then upd c (e_h e) (sat_inc (c (e_h e))) else c.
Definition pass1 (used : list N) (es : list entry) : N -> N := fold_left (p1_step used) es (fun _ => 0).

(* ---- pack.Size(idx, onlyHdr = true) ---- *)
Definition esize (k : consts) (e : entry) : N := if e_comp e then k_comp k else k_plain k.
Definition hdr_of (k : consts) (es : list entry) (p : N) : N :=
  fold_left (fun a e => if e_pack e =? p then a + esize k e else a) es (k_hdr k).

Fixpoint dedupN (l : list N) (seen : list N) : list N :=
  match l with
  | [] => []
  | x :: r => if memN x seen then dedupN r seen else x :: dedupN r (x :: seen)
  end.
Definition packs_of (es : list entry) : list N := dedupN (map e_pack es) [].

(* ---- pass 2 ---- *)
Definition p2_step (s : st) (e : entry) : st :=
  let p := e_pack e in
  let i := ip s p in
  let t1 := if tpe i =? 3 then e_tpe e else tpe i in
  let t2 := if t1 =? e_tpe e then t1 else 0 in
  let sz := e_len e in
  let d := cnt s (e_h e) in
  let b := sts s in
  let un := orb (uncomp i) (negb (e_comp e)) in
  if 2 <=? d then
    mkSt (cnt s)
         (upd (ip s) p (mkP (usedB i) (unusedB i + 1) (dupB i + 1) (usedS i) (unusedS i + sz) t2 un))
         (mkS (s_usedB b) (s_dupB b + 1) (s_unusedB b) (s_usedS b) (s_dupS b + sz) (s_unusedS b))
         (sel s) true
  else if d =? 1 then
    mkSt (cnt s)
         (upd (ip s) p (mkP (usedB i + 1) (unusedB i) (dupB i) (usedS i + sz) (unusedS i) t2 un))
         (mkS (s_usedB b + 1) (s_dupB b) (s_unusedB b) (s_usedS b + sz) (s_dupS b) (s_unusedS b))
         (e :: sel s) (hasdup s)
  else
    mkSt (cnt s)
         (upd (ip s) p (mkP (usedB i) (unusedB i + 1) (dupB i) (usedS i) (unusedS i + sz) t2 un))
         (mkS (s_usedB b) (s_dupB b) (s_unusedB b + 1) (s_usedS b) (s_dupS b) (s_unusedS b + sz))
         (sel s) (hasdup s).

(* ---- pass 3 (only when duplicates exist) ---- *)
Definition p3_step (used : list N) (s : st) (e : entry) : st :=
  let h := e_h e in
  let c := cnt s h in
  if orb (negb (memN h used)) (c =? 1) then s else
  let p := e_pack e in
  let i := ip s p in
  let sz := e_len e in
  let b := sts s in
  if orb (orb (0 <? usedB i) (dupB i =? unusedB i)) (c =? 0) then
    mkSt (upd (cnt s) h 1)
         (upd (ip s) p (mkP (usedB i + 1) (unusedB i - 1) (dupB i) (usedS i + sz) (unusedS i - sz) (tpe i) (uncomp i)))
         (mkS (s_usedB b + 1) (s_dupB b - 1) (s_unusedB b) (s_usedS b + sz) (s_dupS b - sz) (s_unusedS b))
         (e :: sel s) (hasdup s)
  else
    let c1 := c - 1 in
    let c2 := if c1 =? 1 then 0 else c1 in
    mkSt (upd (cnt s) h c2) (ip s) (sts s) (sel s) (hasdup s).

Inductive result := RIncomplete | RPanic | ROk (s : st).

Definition init_st (k : consts) (used : list N) (es : list entry) : st :=
  mkSt (pass1 used es)
       (fun p => mkP 0 0 0 (hdr_of k es p) 0 3 false)
       (mkS 0 0 0 0 0 0) [] false.

Definition pass2 (k : consts) used es : st := fold_left p2_step es (init_st k used es).
Definition pass3 used es (s : st) : st := if hasdup s then fold_left (p3_step used) es s else s.

Definition pack_info (k : consts) (used : list N) (es : list entry) : result :=
  let c1 := pass1 used es in
  if existsb (fun h => c1 h =? 0) used then RIncomplete else
  let s := pass3 used es (pass2 k used es) in
  if forallb (fun h => cnt s h =? 1) used then ROk s else RPanic.

(* projected observables *)
Definition pinfo_eqb (a b : pinfo) : bool :=
  (usedB a =? usedB b) && (unusedB a =? unusedB b) && (dupB a =? dupB b) &&
  (usedS a =? usedS b) && (unusedS a =? unusedS b) && (tpe a =? tpe b) && Bool.eqb (uncomp a) (uncomp b).
Definition bstats_eqb (a b : bstats) : bool :=
  (s_usedB a =? s_usedB b) && (s_dupB a =? s_dupB b) && (s_unusedB a =? s_unusedB b) &&
  (s_usedS a =? s_usedS b) && (s_dupS a =? s_dupS b) && (s_unusedS a =? s_unusedS b).

(* number of entries of handle h / selected entries *)
Definition cnt_h (h : N) (es : list entry) : nat := length (filter (fun e => e_h e =? h) es).
Definition cnt_p (p : N) (es : list entry) : nat := length (filter (fun e => e_pack e =? p) es).

End SPrune.
