(* C26: tag / rewrite / repair snapshots replace a snapshot by save-then-remove.
   Executable model only.  Anchors: cmd/restic/cmd_tag.go (changeTags),
   cmd/restic/cmd_rewrite.go (filterAndReplaceSnapshot), cmd/restic/cmd_repair_snapshots.go,
   internal/data/snapshot.go (AddTags / RemoveTags).

   check_case codes: 0 ok; 1 model <> implementation (trace / new snapshot fields / result);
   2 a Remove happens that is not preceded by the Saves the plan demands (old-or-new broken);
   3 Original of the new snapshot is not the first snapshot's id; 4 tree not kept although
   no filter/repair changed it; 5 a crash run left snapshot files different from the
   prefix of the recorded trace; 6 freshness hypotheses of the theorem do not hold. *)
From Restic Require Import Base.Prelude.

Module C26m.

(* ---------- repository files and backend operations ---------- *)
Inductive ftype := FSnap | FPack | FIndex | FOther.
Definition ftype_eqb (a b : ftype) : bool :=
  match a, b with
  | FSnap, FSnap | FPack, FPack | FIndex, FIndex | FOther, FOther => true
  | _, _ => false
  end.
Definition fid := (ftype * N)%type.
Definition fid_eqb (a b : fid) : bool := ftype_eqb (fst a) (fst b) && N.eqb (snd a) (snd b).

Inductive op := Save (f : fid) | Remove (f : fid).
Definition op_eqb (a b : op) : bool :=
  match a, b with
  | Save x, Save y | Remove x, Remove y => fid_eqb x y
  | _, _ => false
  end.

Definition state := list fid.
Definition has (s : state) (f : fid) : bool := existsb (fid_eqb f) s.
Definition apply (s : state) (o : op) : state :=
  match o with
  | Save f => f :: s
  | Remove f => filter (fun g => negb (fid_eqb g f)) s
  end.
Definition run (s : state) (tr : list op) : state := fold_left apply tr s.

(* ---------- snapshots (the fields the commands touch) ---------- *)
Record snap := mkSnap {
  sn_orig : option N;       (* Original *)
  sn_tree : N;              (* Tree (0 = null id) *)
  sn_tags : list bytes;
  sn_host : bytes;
  sn_time : Z }.

Fixpoint mem_tag (t : bytes) (l : list bytes) : bool :=
  match l with [] => false | x :: r => bytes_eqb x t || mem_tag t r end.

(* Snapshot.AddTags: append every tag that is not yet present (also not among those just added) *)
Fixpoint add_tags (tags add : list bytes) (changed : bool) : list bytes * bool :=
  match add with
  | [] => (tags, changed)
  | a :: r => if mem_tag a tags then add_tags tags r changed else add_tags (tags ++ [a]) r true
  end.

(* Snapshot.RemoveTags, one tag: position i holds r -> overwritten by the last element, list shortened,
   position i re-examined.  fuel = length suffices (every step consumes one element). *)
Fixpoint rm1 (fuel : nat) (r : bytes) (l : list bytes) : list bytes :=
  match fuel with
  | O => l
  | S f =>
      match l with
      | [] => []
      | x :: t =>
          if bytes_eqb x r then
            match t with
            | [] => []
            | _ :: _ => rm1 f r (last t x :: removelast t)
            end
          else x :: rm1 f r t
      end
  end.
Fixpoint remove_tags (tags rm : list bytes) (changed : bool) : list bytes * bool :=
  match rm with
  | [] => (tags, changed)
  | r :: rest =>
      let t' := rm1 (length tags) r tags in
      remove_tags t' rest (changed || mem_tag r tags)
  end.

(* changeTags: Some sn' = a new snapshot is saved and the old one removed; None = nothing happens *)
Definition change_tags (id : N) (sn : snap) (set add rm : list bytes) : option snap :=
  let '(tags', changed) :=
    match set with
    | _ :: _ =>
        (match set with [ [] ] => [] | _ => set end, true)
    | [] =>
        let '(t1, c1) := add_tags (sn_tags sn) add false in
        let '(t2, c2) := remove_tags t1 rm false in
        (t2, c1 || c2)
    end in
  if changed then
    Some (mkSnap (match sn_orig sn with None => Some id | Some o => Some o end)
                 (sn_tree sn) tags' (sn_host sn) (sn_time sn))
  else None.

(* filterAndReplaceSnapshot *)
Inductive fres := FErr | FTree (t : N).      (* result of the filter callback; FTree 0 = null id *)
Record ropts := mkR {
  r_dry : bool; r_forget : bool; r_keep_empty : bool; r_addtag : bytes;
  r_meta : bool;                        (* newMetadata <> nil *)
  r_newhost : bytes;                    (* "" = keep *)
  r_newtime : option Z;
  r_summary_match : bool;               (* summary = nil, or equal to the snapshot's *)
  r_repair : bool }.                    (* repair snapshots (handles unreadable snapshot files) vs rewrite *)

Inductive action :=
  | AErr                                (* error returned, nothing done *)
  | ANone (changed : bool)              (* no backend operation; changed = return value *)
  | ARemoveOnly                         (* empty snapshot removed without successor *)
  | AReplace (sn' : snap) (forget : bool).

Definition is_nil (b : bytes) : bool := match b with [] => true | _ => false end.

Definition rewrite_action (id : N) (sn : snap) (fr : fres) (o : ropts) : action :=
  match fr with
  | FErr => AErr
  | FTree t =>
      if N.eqb t 0 then
        if r_keep_empty o then ANone false
        else if r_dry o then ANone true
        else ARemoveOnly
      else if N.eqb t (sn_tree sn) && negb (r_meta o) && r_summary_match o then ANone false
      else if r_dry o then ANone true
      else
        let tags := if r_forget o then sn_tags sn else fst (add_tags (sn_tags sn) [r_addtag o] false) in
        let time := match r_newtime o with Some z => if r_meta o then z else sn_time sn | None => sn_time sn end in
        let host := if r_meta o && negb (is_nil (r_newhost o)) then r_newhost o else sn_host sn in
        AReplace (mkSnap (Some id) t tags host time) (r_forget o)
  end.

(* ---------- the backend trace of a run, under an arbitrary pattern of failing operations ---------- *)
(* One entry per processed snapshot that reaches the backend. *)
Record pitem := mkP {
  p_old : N;
  p_new : option N;          (* id of the new snapshot file; None = remove-only (empty snapshot) *)
  p_data : list fid;         (* packs / indexes uploaded for the new snapshot, before it is saved *)
  p_forget : bool }.         (* is the old snapshot removed afterwards *)

(* tag: an error for one snapshot is reported and the next one is processed;
   rewrite / repair: the first error aborts the run *)
Inductive mode := MContinue | MAbort.

Definition take_fault (fs : list bool) : bool * list bool :=
  match fs with [] => (false, []) | b :: r => (b, r) end.

(* upload data files in order; stop at the first failing one *)
Fixpoint exec_data (d : list fid) (fs : list bool) : list op * bool * list bool :=
  match d with
  | [] => ([], true, fs)
  | f :: r =>
      let '(b, fs1) := take_fault fs in
      if b then ([], false, fs1)
      else let '(ops, ok, fs2) := exec_data r fs1 in (Save f :: ops, ok, fs2)
  end.

Fixpoint exec (m : mode) (its : list pitem) (fs : list bool) : list op :=
  match its with
  | [] => []
  | it :: rest =>
      let cont fs' := match m with MContinue => exec m rest fs' | MAbort => [] end in
      match p_new it with
      | None =>
          let '(b, fs1) := take_fault fs in
          if b then cont fs1 else Remove (FSnap, p_old it) :: exec m rest fs1
      | Some new =>
          let '(dops, ok, fs1) := exec_data (p_data it) fs in
          if negb ok then dops ++ cont fs1
          else
            let '(b, fs2) := take_fault fs1 in
            if b then dops ++ cont fs2
            else if p_forget it then
              let '(b2, fs3) := take_fault fs2 in
              if b2 then dops ++ Save (FSnap, new) :: cont fs3
              else dops ++ Save (FSnap, new) :: Remove (FSnap, p_old it) :: exec m rest fs3
            else dops ++ Save (FSnap, new) :: exec m rest fs2
      end
  end.

(* ---------- structural trace predicate (decidable): every Remove is the removal of the old
   snapshot of a plan entry whose new snapshot and data files have been saved before ---------- *)
Definition seen_save (seen : list op) (f : fid) : bool := existsb (op_eqb (Save f)) seen.

Definition remove_allowed (plan : list pitem) (seen : list op) (f : fid) : bool :=
  existsb (fun it =>
    fid_eqb f (FSnap, p_old it) &&
    match p_new it with
    | None => true
    | Some new => p_forget it && seen_save seen (FSnap, new) && forallb (seen_save seen) (p_data it)
    end) plan.

Fixpoint ok_from (plan : list pitem) (seen : list op) (tr : list op) : bool :=
  match tr with
  | [] => true
  | Save f :: r => ok_from plan (Save f :: seen) r
  | Remove f :: r => remove_allowed plan seen f && ok_from plan (Remove f :: seen) r
  end.
Definition ok_trace (plan : list pitem) (tr : list op) : bool := ok_from plan [] tr.

(* the property on one state: for every replaced snapshot the old file exists, or the new one
   exists together with everything uploaded for it *)
Definition safe_item (st : state) (it : pitem) : bool :=
  match p_new it with
  | None => true
  | Some new => has st (FSnap, p_old it) || (has st (FSnap, new) && forallb (has st) (p_data it))
  end.
Definition safe (plan : list pitem) (st : state) : bool := forallb (safe_item st) plan.

(* hypotheses of the theorems, decidable: new ids are not ids of snapshots to be replaced,
   uploaded data files are not snapshot files, every old snapshot exists, and no snapshot is
   processed twice *)
Fixpoint nodup_N (l : list N) : bool :=
  match l with [] => true | x :: r => negb (existsb (N.eqb x) r) && nodup_N r end.
Definition wf_plan (plan : list pitem) (s0 : state) : bool :=
  forallb (fun it =>
    has s0 (FSnap, p_old it) &&
    forallb (fun d => negb (ftype_eqb (fst d) FSnap)) (p_data it) &&
    match p_new it with
    | None => true
    | Some new => forallb (fun it2 => negb (N.eqb new (p_old it2))) plan
    end) plan
  && nodup_N (map p_old plan).

(* ---------- one correspondence case ---------- *)
Inductive cmd :=
  | CTag (set add rm : list bytes)
  | CRewrite (o : ropts).

Record item := mkI {
  i_old : N; i_sn : snap;
  i_first : N;                     (* id of the first snapshot of the chain this one descends from *)
  i_fres : fres;                   (* what the filter returned for it (rewrite / repair) *)
  i_identity : bool;               (* generator knows: no filter / repair changed the tree *)
  i_data : list fid;               (* data files uploaded for it in this run *)
  i_new : option (N * snap);       (* observed: new snapshot file saved for it (id, decoded fields) *)
  i_ret : N;                       (* observed return value: 0 not observed, 1 error, 2 changed=false, 3 changed=true *)
  i_unreadable : bool;             (* loading this snapshot file failed (also: transiently, on an intact file) *)
  i_named : bool }.                (* its id was given on the command line *)

Record case := mk {
  c_cmd : cmd;
  c_s0 : state;                    (* files before the run (snapshots, packs, indexes) *)
  c_items : list item;             (* in processing order *)
  c_faults : list bool;            (* per attempted modifying backend op: did it fail *)
  c_exact : bool;                  (* sequential run: compare the whole trace, else snapshot ops only *)
  c_trace : list op;               (* successful modifying ops, in order *)
  c_cuts : list (nat * list N) }.  (* crash after k ops: snapshot ids found on disk afterwards *)

(* handleUnreadableSnapshotFile (cmd_repair_snapshots.go): a snapshot file that could not be loaded is
   removed only on explicit request: --forget AND its id named on the command line; otherwise the run
   stops with an error.  tag and rewrite stop with the load error. *)
Definition unreadable_action (o : ropts) (named : bool) : action :=
  if r_repair o && r_forget o && named then (if r_dry o then ANone true else ARemoveOnly) else AErr.

Definition item_action (c : cmd) (it : item) : action :=
  if i_unreadable it then
    match c with CTag _ _ _ => AErr | CRewrite o => unreadable_action o (i_named it) end
  else
  match c with
  | CTag set add rm =>
      match change_tags (i_old it) (i_sn it) set add rm with
      | Some sn' => AReplace sn' true
      | None => ANone false
      end
  | CRewrite o => rewrite_action (i_old it) (i_sn it) (i_fres it) o
  end.

(* tag reports an error for one snapshot and takes the next one.  rewrite / repair cancel the listing at
   the first error; whether a snapshot already loaded by another worker is still processed depends on
   ForAllSnapshots (since /repo 27dbf19ac: no; before, F-C26b).  The
   harness lists the snapshots that were actually taken up, so "continue" describes both behaviours;
   MAbort (strictly sequential abort) is covered by the theorems as well. *)
Definition cmd_mode (c : cmd) : mode := match c with CTag _ _ _ => MContinue | CRewrite _ => MContinue end.

(* plan entries of the items that reach the backend; the id of the new file is taken from the
   observation (it is a hash over a random nonce); 0 stands for "no such file was saved" *)
Definition plan_of (c : cmd) (its : list item) : list pitem :=
  flat_map (fun it =>
    match item_action c it with
    | AReplace _ forget =>
        [mkP (i_old it) (Some (match i_new it with Some (n, _) => n | None => 0%N end)) (i_data it) forget]
    | ARemoveOnly => [mkP (i_old it) None [] true]
    | _ => []
    end) its.

Definition snap_eqb (a b : snap) : bool :=
  option_eqb N.eqb (sn_orig a) (sn_orig b) && N.eqb (sn_tree a) (sn_tree b) &&
  list_eqb bytes_eqb (sn_tags a) (sn_tags b) && bytes_eqb (sn_host a) (sn_host b) &&
  Z.eqb (sn_time a) (sn_time b).

Definition is_snap_op (o : op) : bool :=
  match o with Save (FSnap, _) | Remove (FSnap, _) => true | _ => false end.

(* clause 3: Original of the new snapshot = id of the first snapshot of the chain *)
Definition orig_ok (c : cmd) (it : item) : bool :=
  match item_action c it, i_new it with
  | AReplace _ _, Some (_, sn') => option_eqb N.eqb (sn_orig sn') (Some (i_first it))
  | _, _ => true
  end.
(* clause 4: the tree is kept unless a filter or repair changed it *)
Definition tree_ok (c : cmd) (it : item) : bool :=
  match i_new it with
  | Some (_, sn') => if i_identity it then N.eqb (sn_tree sn') (sn_tree (i_sn it)) else true
  | None => true
  end.

Fixpoint snaps_of (s : state) : list N :=
  match s with [] => [] | (FSnap, i) :: r => i :: snaps_of r | _ :: r => snaps_of r end.
Definition set_eqb (a b : list N) : bool :=
  forallb (fun x => existsb (N.eqb x) b) a && forallb (fun x => existsb (N.eqb x) a) b.

(* clause 5: after a crash run that let k operations through, the snapshot files on disk are
   those of the k-prefix of the recorded trace *)
Definition cut_ok (c : case) (cut : nat * list N) : bool :=
  set_eqb (snaps_of (run (c_s0 c) (firstn (fst cut) (c_trace c)))) (snd cut).

(* the verified oracle *)
Definition check_C26 (c : case) : bool :=
  let plan := plan_of (c_cmd c) (c_items c) in
  wf_plan plan (c_s0 c) && ok_trace plan (c_trace c) &&
  forallb (orig_ok (c_cmd c)) (c_items c) && forallb (tree_ok (c_cmd c)) (c_items c) &&
  forallb (cut_ok c) (c_cuts c).

(* model vs implementation: trace, and the fields of every new snapshot *)
Definition new_matches (c : cmd) (it : item) : bool :=
  match item_action c it, i_new it with
  | AReplace sn' _, Some (_, obs) =>
      (* Original is judged by the oracle (clause 3), the rest is compared here *)
      snap_eqb (mkSnap (sn_orig obs) (sn_tree sn') (sn_tags sn') (sn_host sn') (sn_time sn')) obs
  | AReplace _ _, None => false
  | _, Some _ => false
  | _, None => true
  end.

Definition all_ok (fs : list bool) : bool := forallb negb fs.

(* concurrent uploads: only the snapshot-file operations are compared; c_faults then has one bit per
   snapshot-file attempt, a failing upload counting as a failure of the snapshot's Save step *)
Definition strip_data (it : pitem) : pitem := mkP (p_old it) (p_new it) [] (p_forget it).

Definition action_ret (a : action) : N :=
  match a with AErr => 1 | ANone false => 2 | ANone true => 3 | ARemoveOnly => 3 | AReplace _ _ => 3 end.
Definition ret_matches (c : cmd) (it : item) : bool :=
  N.eqb (i_ret it) 0 || N.eqb (i_ret it) (action_ret (item_action c it)).

Definition model_agrees (c : case) : bool :=
  let plan := plan_of (c_cmd c) (c_items c) in
  let mt := exec (cmd_mode (c_cmd c)) plan (c_faults c) in
  (if c_exact c then list_eqb op_eqb mt (c_trace c)
   else list_eqb op_eqb (exec (cmd_mode (c_cmd c)) (map strip_data plan) (c_faults c))
                        (filter is_snap_op (c_trace c))) &&
  (if all_ok (c_faults c)
   then forallb (new_matches (c_cmd c)) (c_items c) && forallb (ret_matches (c_cmd c)) (c_items c)
   else true).

(* model/implementation disagreement (1) is reported before the Original clause (3) so that a known
   F-C26 case cannot hide a divergence in the other fields *)
Definition check_case (c : case) : nat :=
  let plan := plan_of (c_cmd c) (c_items c) in
  if negb (wf_plan plan (c_s0 c)) then 6
  else if negb (ok_trace plan (c_trace c)) then 2
  else if negb (forallb (tree_ok (c_cmd c)) (c_items c)) then 4
  else if negb (forallb (cut_ok c) (c_cuts c)) then 5
  else if negb (model_agrees c) then 1
  else if negb (forallb (orig_ok (c_cmd c)) (c_items c)) then 3
  else 0.

End C26m.
