(* C25: tag edits.  Executable model only.

   Modelled Go code (current /repo):
     internal/data/snapshot.go   Snapshot.AddTags, Snapshot.RemoveTags (swap-remove loop)
     internal/data/tag_list.go   TagLists.Flatten
     cmd/restic/cmd_tag.go       changeTags (set / add-then-remove, Original, save-then-remove),
                                 runTag (option checks, the `--set ''` special case, per-snapshot loop)
   A tag is a byte string.  A snapshot is (id, tags, original, rest) where [rest] stands for every
   other field (the harness passes a digest of them).

   check_case codes: 0 ok; 1 model <> implementation (oracle holds);
     2 number of snapshots changed / a snapshot has no unique successor;
     3 an unselected snapshot changed;   4 a selected snapshot has wrong tags;
     5 Original / other fields of a selected snapshot wrong;
     6 a unit observation (AddTags / RemoveTags / Flatten) violates its set specification;
     7 option check (nothing to do / set together with add|remove) wrong. *)
From Restic Require Import Base.Prelude.

Module C25m.

Definition tag := bytes.
Definition mem (t : tag) (l : list tag) : bool := existsb (bytes_eqb t) l.
Definition is_nil {A} (l : list A) : bool := match l with [] => true | _ => false end.

(* ---- Snapshot.AddTags: append every tag not yet present (the growing list is consulted) ---- *)
Fixpoint add_tags (tags A : list tag) : list tag * bool :=
  match A with
  | [] => (tags, false)
  | a :: A' => if mem a tags then add_tags tags A'
               else (fst (add_tags (tags ++ [a]) A'), true)
  end.

(* ---- Snapshot.RemoveTags ----
   inner loop for one tag r:  for i := 0; i < len(tags); { if tags[i] != r { i++; continue };
                                 tags[i] = tags[len-1]; tags = tags[:len-1]; changed = true }
   [done] = tags[:i], [rest] = tags[i:]; fuel = len(rest) (every step shortens rest). *)
Fixpoint rm_loop (fuel : nat) (done rest : list tag) (r : tag) (ch : bool) : list tag * bool :=
  match fuel with
  | O => (done ++ rest, ch)
  | S f =>
    match rest with
    | [] => (done, ch)
    | t :: rest' =>
        if negb (bytes_eqb t r) then rm_loop f (done ++ [t]) rest' r ch
        else match rest' with
             | [] => (done, true)
             | _ => rm_loop f done (last rest' [] :: removelast rest') r true
             end
    end
  end.

Definition remove_one (tags : list tag) (r : tag) (ch : bool) : list tag * bool :=
  rm_loop (length tags) [] tags r ch.

Fixpoint remove_tags_go (tags R : list tag) (ch : bool) : list tag * bool :=
  match R with
  | [] => (tags, ch)
  | r :: R' => let '(t, c) := remove_one tags r ch in remove_tags_go t R' c
  end.
Definition remove_tags (tags R : list tag) : list tag * bool := remove_tags_go tags R false.

(* ---- TagLists.Flatten: all non-empty tags, in order ---- *)
Definition flatten (ls : list (list tag)) : list tag :=
  flat_map (filter (fun t => negb (is_nil t))) ls.

(* ---- splitTagList (flag value -> TagList): split at commas, strings.TrimSpace each piece.
   Byte-wise model: exact for flag values whose pieces do not start or end with a NON-ASCII Unicode
   white space character (TrimSpace also strips U+0085, U+00A0, U+2000.. etc.) ---- *)
Definition is_space (c : N) : bool :=
  N.eqb c 32 || N.eqb c 9 || N.eqb c 10 || N.eqb c 11 || N.eqb c 12 || N.eqb c 13.
Fixpoint trim_left (s : bytes) : bytes :=
  match s with
  | [] => []
  | c :: r => if is_space c then trim_left r else s
  end.
Definition trim (s : bytes) : bytes := rev (trim_left (rev (trim_left s))).
Fixpoint split_comma (s : bytes) : list bytes :=
  match s with
  | [] => [[]]
  | c :: r => if N.eqb c 44 then [] :: split_comma r
              else match split_comma r with
                   | p :: ps => (c :: p) :: ps
                   | [] => [[c]]
                   end
  end.
Definition split_tag_list (s : bytes) : list tag := map trim (split_comma s).
(* TagLists.Set: one list per occurrence of the flag *)
Definition parse_flags (vals : list bytes) : list (list tag) := map split_tag_list vals.

(* ---- changeTags: the new tag list and the changed flag ---- *)
Definition change_tags (tags setT addT remT : list tag) : list tag * bool :=
  match setT with
  | _ :: _ =>
      (match setT with
       | [t] => if is_nil t then [] else setT
       | _ => setT
       end, true)
  | [] =>
      let '(t1, c1) := add_tags tags addT in
      let '(t2, c2) := remove_tags t1 remT in
      (t2, orb c1 c2)
  end.

(* runTag: the set list handed to changeTags *)
Definition set_arg (setL : list (list tag)) : list tag :=
  let s := flatten setL in
  if andb (negb (is_nil setL)) (is_nil s) then [[]] else s.

Record snap := mkSnap { s_id : N; s_tags : list tag; s_orig : option N; s_rest : N }.

(* what became of one snapshot of the repository *)
Inductive fate :=
| Same                                               (* file untouched *)
| Lost                                               (* file removed, no successor *)
| Replaced (tags : list tag) (orig : option N).      (* new file (new id), old file removed *)

Definition tags_eqb (a b : list tag) : bool := list_eqb bytes_eqb a b.
Definition optN_eqb (a b : option N) : bool := option_eqb N.eqb a b.

(* File IDs of snapshots are hashes of the ciphertext (fresh random nonce), so a re-saved snapshot
   always gets a new id; changeTags then removes the old file. *)
Definition snap_fate (sn : snap) (setT addT remT : list tag) : fate :=
  let '(t, ch) := change_tags (s_tags sn) setT addT remT in
  if ch then Replaced t (match s_orig sn with None => Some (s_id sn) | Some x => Some x end)
  else Same.

Inductive outcome :=
| ENothing            (* "nothing to do!" *)
| EConflict           (* --set together with --add/--remove *)
| EOther              (* any other error (not produced by the model) *)
| Done (fates : list fate).

Definition run_tag (repo : list snap) (sel : list bool) (setL addL remL : list (list tag)) : outcome :=
  if andb (is_nil setL) (andb (is_nil addL) (is_nil remL)) then ENothing
  else if andb (negb (is_nil setL)) (negb (andb (is_nil addL) (is_nil remL))) then EConflict
  else
    let setT := set_arg setL in
    let addT := flatten addL in
    let remT := flatten remL in
    Done (map (fun p : snap * bool => if snd p then snap_fate (fst p) setT addT remT else Same)
              (combine repo sel)).

(* Backend faults: [fail] marks the snapshots whose rewritten file cannot be saved.  changeTags
   returns the SaveSnapshot error BEFORE removing the old file; runTag prints "unable to modify the
   tags ... ignoring" and goes on (exit 0).  So such a snapshot simply stays as it is. *)
Definition apply_fail (fail : list bool) (fs : list fate) : list fate :=
  map (fun p : bool * fate => if fst p then Same else snd p) (combine fail fs).
Definition run_tag_f (repo : list snap) (sel fail : list bool) (setL addL remL : list (list tag)) : outcome :=
  match run_tag repo sel setL addL remL with
  | Done fs => Done (apply_fail fail fs)
  | o => o
  end.

(* ------------------------------------------------------------------ comparison helpers *)
Fixpoint remove1 (t : tag) (l : list tag) : option (list tag) :=
  match l with
  | [] => None
  | x :: r => if bytes_eqb t x then Some r
              else match remove1 t r with Some r' => Some (x :: r') | None => None end
  end.
(* multiset equality of tag lists *)
Fixpoint perm_eqb (a b : list tag) : bool :=
  match a with
  | [] => is_nil b
  | x :: a' => match remove1 x b with Some b' => perm_eqb a' b' | None => false end
  end.

Definition subset (a b : list tag) : bool := forallb (fun t => mem t b) a.
Definition disjoint (a b : list tag) : bool := forallb (fun t => negb (mem t b)) a.
Definition diff (a b : list tag) : list tag := filter (fun t => negb (mem t b)) a.
Definition set_eqb (a b : list tag) : bool := andb (subset a b) (subset b a).

(* the property for one selected snapshot: tags afterwards *)
Definition tags_ok (old new : list tag) (setL addL remL : list (list tag)) : bool :=
  if negb (is_nil setL) then tags_eqb new (flatten setL)
  else set_eqb new (diff (old ++ flatten addL) (flatten remL)).

Definition fate_tags (sn : snap) (f : fate) : option (list tag) :=
  match f with Same => Some (s_tags sn) | Lost => None | Replaced t _ => Some t end.
Definition fate_orig_ok (sn : snap) (f : fate) : bool :=
  match f with
  | Same => true | Lost => false
  | Replaced _ o => optN_eqb o (match s_orig sn with None => Some (s_id sn) | Some x => Some x end)
  end.

(* ------------------------------------------------------------------ cases *)
Inductive case :=
| KAdd (tags A : list tag) (obs : list tag) (changed : bool)
| KRemove (tags R : list tag) (obs : list tag) (changed : bool)
| KFlatten (ls : list (list tag)) (obs : list tag)
| KSplit (s : bytes) (obs : list tag)
| KChange (sn : snap) (setT addT remT : list tag) (obs : fate)
| KRun (repo : list snap) (sel : list bool) (setL addL remL : list (list tag))
       (extra : nat)           (* snapshots afterwards that continue no snapshot of [repo] *)
       (obs : outcome)
| KRunF (repo : list snap) (sel : list bool) (setL addL remL : list (list tag))
        (nfail : nat)          (* snapshot-file Saves the backend was made to refuse during the run *)
        (extra : nat) (obs : outcome).

(* first failing clause for a run: 0 = all clauses hold *)
Fixpoint run_code (repo : list snap) (sel : list bool) (fs : list fate)
         (setL addL remL : list (list tag)) : nat :=
  match repo, sel, fs with
  | [], [], [] => 0
  | sn :: repo', s :: sel', f :: fs' =>
      match f with
      | Lost => 2
      | _ =>
        if negb s then match f with Same => run_code repo' sel' fs' setL addL remL | _ => 3 end
        else match fate_tags sn f with
             | None => 2
             | Some t => if negb (tags_ok (s_tags sn) t setL addL remL) then 4
                         else if negb (fate_orig_ok sn f) then 5
                         else run_code repo' sel' fs' setL addL remL
             end
      end
  | _, _, _ => 2
  end.

(* with refused Saves: at most [budget] selected snapshots may stay untouched although their tags
   should have changed; nothing may be lost, everything else as without faults *)
Fixpoint run_code_f (repo : list snap) (sel : list bool) (fs : list fate)
         (setL addL remL : list (list tag)) (budget : nat) : nat :=
  match repo, sel, fs with
  | [], [], [] => 0
  | sn :: repo', s :: sel', f :: fs' =>
      match f with
      | Lost => 2
      | _ =>
        if negb s then match f with Same => run_code_f repo' sel' fs' setL addL remL budget | _ => 3 end
        else match fate_tags sn f with
             | None => 2
             | Some t =>
                 if negb (tags_ok (s_tags sn) t setL addL remL) then
                   match f, budget with
                   | Same, S b => run_code_f repo' sel' fs' setL addL remL b
                   | _, _ => 4
                   end
                 else if negb (fate_orig_ok sn f) then 5
                 else run_code_f repo' sel' fs' setL addL remL budget
             end
      end
  | _, _, _ => 2
  end.

Definition opts_outcome_ok (setL addL remL : list (list tag)) (o : outcome) : bool :=
  let nothing := andb (is_nil setL) (andb (is_nil addL) (is_nil remL)) in
  let conflict := andb (negb (is_nil setL)) (negb (andb (is_nil addL) (is_nil remL))) in
  match o with
  | ENothing => nothing
  | EConflict => andb (negb nothing) conflict
  | EOther => false
  | Done _ => andb (negb nothing) (negb conflict)
  end.

(* oracle code: 0 = the property holds on the observation *)
Definition oracle_code (c : case) : nat :=
  match c with
  | KAdd tags A obs _ => if set_eqb obs (tags ++ A) then 0 else 6
  | KRemove tags R obs _ => if set_eqb obs (diff tags R) then 0 else 6
  | KFlatten ls obs => if tags_eqb obs (flat_map (filter (fun t => negb (is_nil t))) ls) then 0 else 6
  | KSplit s obs => if tags_eqb obs (split_tag_list s) then 0 else 6
  | KChange sn setT addT remT obs =>
      match obs with
      | Lost => 2
      | _ =>
        match fate_tags sn obs with
        | None => 2
        | Some t =>
            let want_ok :=
              match setT with
              | _ :: _ => tags_eqb t (match setT with [x] => if is_nil x then [] else setT | _ => setT end)
              | [] => set_eqb t (diff (s_tags sn ++ addT) remT)
              end in
            if negb want_ok then 4 else if negb (fate_orig_ok sn obs) then 5 else 0
        end
      end
  | KRun repo sel setL addL remL extra obs =>
      if negb (opts_outcome_ok setL addL remL obs) then 7
      else match obs with
           | Done fs => match extra with
                        | O => run_code repo sel fs setL addL remL
                        | _ => 2
                        end
           | _ => 0
           end
  | KRunF repo sel setL addL remL nfail extra obs =>
      if negb (opts_outcome_ok setL addL remL obs) then 7
      else match obs with
           | Done fs => match extra with
                        | O => run_code_f repo sel fs setL addL remL nfail
                        | _ => 2
                        end
           | _ => 0
           end
  end.

Definition check_C25 (c : case) : bool := Nat.eqb (oracle_code c) 0.

Definition fate_eqb (mode_set : bool) (a b : fate) : bool :=
  match a, b with
  | Same, Same | Lost, Lost => true
  | Replaced t o, Replaced t' o' =>
      andb (if mode_set then tags_eqb t t' else perm_eqb t t') (optN_eqb o o')
  | _, _ => false
  end.

Definition outcome_eqb (mode_set : bool) (a b : outcome) : bool :=
  match a, b with
  | ENothing, ENothing | EConflict, EConflict | EOther, EOther => true
  | Done x, Done y => list_eqb (fate_eqb mode_set) x y
  | _, _ => false
  end.

(* fates agree with the fault-free model except for at most [budget] snapshots left untouched *)
Fixpoint agree_f (mode_set : bool) (budget : nat) (obs model : list fate) : bool :=
  match obs, model with
  | [], [] => true
  | a :: obs', b :: model' =>
      if fate_eqb mode_set a b then agree_f mode_set budget obs' model'
      else match a, b, budget with
           | Same, Replaced _ _, S n => agree_f mode_set n obs' model'
           | _, _, _ => false
           end
  | _, _ => false
  end.

(* implementation observable = model output (tag order is compared as a multiset in add/remove
   mode: the order produced by swap-remove is not promised) *)
Definition model_agrees (c : case) : bool :=
  match c with
  | KAdd tags A obs ch =>
      let '(t, c') := add_tags tags A in andb (tags_eqb obs t) (Bool.eqb ch c')
  | KRemove tags R obs ch =>
      let '(t, c') := remove_tags tags R in andb (perm_eqb obs t) (Bool.eqb ch c')
  | KFlatten ls obs => tags_eqb obs (flatten ls)
  | KSplit s obs => tags_eqb obs (split_tag_list s)
  | KChange sn setT addT remT obs => fate_eqb (negb (is_nil setT)) obs (snap_fate sn setT addT remT)
  | KRun repo sel setL addL remL extra obs =>
      andb (Nat.eqb extra 0) (outcome_eqb (negb (is_nil setL)) obs (run_tag repo sel setL addL remL))
  | KRunF repo sel setL addL remL nfail extra obs =>
      andb (Nat.eqb extra 0)
           match obs, run_tag repo sel setL addL remL with
           | Done a, Done b => agree_f (negb (is_nil setL)) nfail a b
           | a, b => outcome_eqb (negb (is_nil setL)) a b
           end
  end.

Definition check_case (c : case) : nat :=
  match oracle_code c with
  | O => if model_agrees c then 0 else 1
  | n => n
  end.

End C25m.
