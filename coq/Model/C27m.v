(* C27: rewrite --exclude/--include removes exactly the matching paths.  Executable model of
     internal/walker/rewriter.go : TreeRewriter.RewriteTree as configured by NewSnapshotSizeRewriter
        (node cache off, RewriteNode, KeepEmptyDirectory, null ID = dropped, file count / size accounting)
     cmd/restic/cmd_rewrite.go   : gatherIncludeFilters / gatherExcludeFilters, rewriteSnapshot's summary,
        filterAndReplaceSnapshot's "not modified" test
   on top of the glob model S_Glob and the pattern functions of C20m.  Model only, no proofs. *)
From Restic Require Import Base.Prelude Model.S_Glob Model.C28m Model.C20m.

Module C27m.
Import S_Glob.

(* a tree node: name, kind (0 file, 1 dir, 2 other), size, identity of all other metadata + content, children *)
Inductive tree := Node (name : bytes) (kind : N) (size : N) (meta : N) (kids : list tree).
Definition is_dir (kind : N) : bool := N.eqb kind 1.
Definition is_file (kind : N) : bool := N.eqb kind 0.

Definition desc := C28m.desc.   (* path.Join(nodepath, name); the root "/" is written [] *)
Definition root_path : bytes := [c_slash].

(* ---- TreeRewriter.RewriteTree ---- *)
Section Rewrite.
Variable kn : bytes -> bool -> bool.   (* RewriteNode keeps the node (path, is directory) *)
Variable ke : bytes -> bool.           (* KeepEmptyDirectory *)

Fixpoint rw_node (loc : bytes) (n : tree) : option tree :=
  match n with
  | Node name kind size meta kids =>
      let p := desc loc name in
      if negb (kn p (is_dir kind)) then None
      else if is_dir kind then
        let ks := (fix go (l : list tree) : list tree :=
                     match l with
                     | [] => []
                     | k :: r => match rw_node p k with Some k' => k' :: go r | None => go r end
                     end) kids in
        (* tb.Count() == 0 && !KeepEmptyDirectory(nodepath): null ID, the parent skips the node *)
        if andb (is_nil ks) (negb (ke p)) then None else Some (Node name kind size meta ks)
      else Some n
  end.

Fixpoint rw_list (loc : bytes) (l : list tree) : list tree :=
  match l with
  | [] => []
  | k :: r => match rw_node loc k with Some k' => k' :: rw_list loc r | None => rw_list loc r end
  end.

(* the root tree ("/"): None = null ID *)
Definition rw_root (top : list tree) : option (list tree) :=
  let ks := rw_list [] top in
  if andb (is_nil ks) (negb (ke root_path)) then None else Some ks.

(* NewSnapshotSizeRewriter: every file node that RewriteNode keeps is counted when it is visited *)
Fixpoint cnt_node (loc : bytes) (n : tree) : N * N :=
  match n with
  | Node name kind size meta kids =>
      let p := desc loc name in
      if negb (kn p (is_dir kind)) then (0, 0)%N
      else if is_dir kind then
        (fix go (l : list tree) : N * N :=
           match l with
           | [] => (0, 0)%N
           | k :: r => let a := cnt_node p k in let b := go r in (fst a + fst b, snd a + snd b)%N
           end) kids
      else if is_file kind then (1, size)%N else (0, 0)%N
  end.
Fixpoint cnt_list (loc : bytes) (l : list tree) : N * N :=
  match l with
  | [] => (0, 0)%N
  | k :: r => let a := cnt_node loc k in let b := cnt_list loc r in (fst a + fst b, snd a + snd b)%N
  end.
(* ---- the same traversal WITH the node cache (TreeRewriter.replaces, DisableNodeCache = false) ----
   [tid] stands for the tree ID (content hash) of a list of children.  A cache hit returns the stored result
   whatever the current path is; null results are not stored. *)
Variable tid : list tree -> N.
Definition cache := list (N * list tree).
Fixpoint lookup (k : N) (st : cache) : option (list tree) :=
  match st with
  | [] => None
  | (k', v) :: r => if N.eqb k k' then Some v else lookup k r
  end.

Fixpoint rwc_node (st : cache) (loc : bytes) (n : tree) : option tree * cache :=
  match n with
  | Node name kind size meta kids =>
      let p := desc loc name in
      if negb (kn p (is_dir kind)) then (None, st)
      else if is_dir kind then
        match lookup (tid kids) st with
        | Some ks => (Some (Node name kind size meta ks), st)
        | None =>
            let '(ks, st1) :=
              (fix go (st : cache) (l : list tree) : list tree * cache :=
                 match l with
                 | [] => ([], st)
                 | k :: r => let '(o, st') := rwc_node st p k in
                             let '(rs, st'') := go st' r in
                             (match o with Some k' => k' :: rs | None => rs end, st'')
                 end) st kids in
            if andb (is_nil ks) (negb (ke p)) then (None, st1)
            else (Some (Node name kind size meta ks), (tid kids, ks) :: st1)
        end
      else (Some n, st)
  end.
Fixpoint rwc_list (st : cache) (loc : bytes) (l : list tree) : list tree * cache :=
  match l with
  | [] => ([], st)
  | k :: r => let '(o, st') := rwc_node st loc k in
              let '(rs, st'') := rwc_list st' loc r in
              (match o with Some k' => k' :: rs | None => rs end, st'')
  end.

(* RewriteTree's answer for one directory, without cache: None = null ID *)
Definition rw_dir (p : bytes) (kids : list tree) : option (list tree) :=
  let ks := rw_list p kids in if andb (is_nil ks) (negb (ke p)) then None else Some ks.
End Rewrite.

(* ---- listing (specification side and observations) ---- *)
Definition entry := (bytes * N * N * N)%type.   (* path, kind, size, meta *)

Fixpoint flat_node (loc : bytes) (n : tree) : list entry :=
  match n with
  | Node name kind size meta kids =>
      let p := desc loc name in
      (p, kind, size, meta) :: (if is_dir kind then
                                  (fix go (l : list tree) := match l with [] => [] | k :: r => flat_node p k ++ go r end) kids
                                else [])
  end.
Fixpoint flat_list (loc : bytes) (l : list tree) : list entry :=
  match l with [] => [] | k :: r => flat_node loc k ++ flat_list loc r end.

(* every entry together with the paths of its ancestors and itself, top-down *)
Fixpoint chain_node (anc : list bytes) (loc : bytes) (n : tree) : list (entry * list bytes) :=
  match n with
  | Node name kind size meta kids =>
      let p := desc loc name in
      ((p, kind, size, meta), anc ++ [p]) ::
      (if is_dir kind then
         (fix go (l : list tree) := match l with [] => [] | k :: r => chain_node (anc ++ [p]) p k ++ go r end) kids
       else [])
  end.
Fixpoint chain_list (anc : list bytes) (loc : bytes) (l : list tree) : list (entry * list bytes) :=
  match l with [] => [] | k :: r => chain_node anc loc k ++ chain_list anc loc r end.

(* file count and total size of a listing *)
Definition count_files (l : list entry) : N * N :=
  fold_right (fun e a => match e with (_, kind, size, _) =>
                           if is_file kind then (1 + fst a, size + snd a)%N else a end) (0, 0)%N l.

(* ---- the filters of cmd_rewrite.go ---- *)
(* exclude: a node is dropped iff one of the reject functions matches its path *)
Definition rejected (ipats pats : list bytes) (p : bytes) : bool := negb (fst (C20m.sel_exclude ipats pats p false)).
Definition kn_exclude (ipats pats : list bytes) : bytes -> bool -> bool := fun p _ => negb (rejected ipats pats p).
Definition ke_exclude : bytes -> bool := fun _ => true.   (* KeepEmptyDirectory nil -> default: keep *)

(* include: (matched, childMayMatch) = disjunction over the include functions *)
Definition inc_m (ipats pats : list bytes) (p : bytes) : bool := fst (C20m.sel_include ipats pats p true).
Definition inc_c (ipats pats : list bytes) (p : bytes) : bool := snd (C20m.sel_include ipats pats p true).
Definition kn_include (ipats pats : list bytes) : bytes -> bool -> bool :=
  fun p isdir => if isdir then orb (inc_m ipats pats p) (inc_c ipats pats p) else inc_m ipats pats p.
Definition ke_include (ipats pats : list bytes) : bytes -> bool := inc_m ipats pats.

(* ---- specification ---- *)
(* exclude: the original listing minus every entry that has a rejected path among its ancestors or itself *)
Definition spec_exclude (rej : bytes -> bool) (top : list tree) : list entry :=
  map fst (filter (fun ec => forallb (fun a => negb (rej a)) (snd ec)) (chain_list [] [] top)).

(* include: keep what matches, and a directory also when something below it is kept; no pruning *)
Fixpoint sp_node (m : bytes -> bool) (loc : bytes) (n : tree) : option tree :=
  match n with
  | Node name kind size meta kids =>
      let p := desc loc name in
      if is_dir kind then
        let ks := (fix go (l : list tree) : list tree :=
                     match l with
                     | [] => []
                     | k :: r => match sp_node m p k with Some k' => k' :: go r | None => go r end
                     end) kids in
        if orb (m p) (negb (is_nil ks)) then Some (Node name kind size meta ks) else None
      else if m p then Some n else None
  end.
Fixpoint sp_list (m : bytes -> bool) (loc : bytes) (l : list tree) : list tree :=
  match l with
  | [] => []
  | k :: r => match sp_node m loc k with Some k' => k' :: sp_list m loc r | None => sp_list m loc r end
  end.

(* ---- equality of trees ---- *)
Fixpoint tree_eqb (a b : tree) : bool :=
  match a, b with
  | Node n1 k1 s1 m1 l1, Node n2 k2 s2 m2 l2 =>
      andb (bytes_eqb n1 n2) (andb (N.eqb k1 k2) (andb (N.eqb s1 s2) (andb (N.eqb m1 m2)
        ((fix go (x y : list tree) : bool :=
            match x, y with
            | [], [] => true
            | p :: x', q :: y' => andb (tree_eqb p q) (go x' y')
            | _, _ => false
            end) l1 l2))))
  end.
Fixpoint trees_eqb (x y : list tree) : bool :=
  match x, y with
  | [], [] => true
  | p :: x', q :: y' => andb (tree_eqb p q) (trees_eqb x' y')
  | _, _ => false
  end.

Definition entry_eqb (a b : entry) : bool :=
  match a, b with (p1, k1, s1, m1), (p2, k2, s2, m2) =>
    andb (bytes_eqb p1 p2) (andb (N.eqb k1 k2) (andb (N.eqb s1 s2) (N.eqb m1 m2))) end.

(* directories of [new] whose subtree equals the subtree of the directory with the same path in [old] *)
Fixpoint find_node (p : bytes) (loc : bytes) (n : tree) : option (list tree) :=
  match n with
  | Node name kind size meta kids =>
      let q := desc loc name in
      if bytes_eqb q p then (if is_dir kind then Some kids else None)
      else if is_dir kind then
        (fix go (l : list tree) : option (list tree) :=
           match l with
           | [] => None
           | k :: r => match find_node p q k with Some x => Some x | None => go r end
           end) kids
      else None
  end.
Fixpoint find_dir (p : bytes) (loc : bytes) (l : list tree) : option (list tree) :=
  match l with
  | [] => None
  | k :: r => match find_node p loc k with Some x => Some x | None => find_dir p loc r end
  end.

(* ---- cases ---- *)
Inductive mode := MInclude | MExclude.
Record case := mk {
  c_mode : mode;
  c_ipats : list bytes;
  c_pats : list bytes;
  c_tree : list tree;              (* children of the root tree of the original snapshot *)
  c_modified : bool;               (* a new snapshot was written *)
  c_new : list tree;               (* root children of the new snapshot ([] when not modified) *)
  c_summary : N * N;               (* TotalFilesProcessed, TotalBytesProcessed of the new snapshot *)
  c_same : list bytes              (* directories of the new snapshot whose subtree ID equals the ID at the same path in the original *)
}.

Definition kn_of (c : case) := match c_mode c with MInclude => kn_include (c_ipats c) (c_pats c) | MExclude => kn_exclude (c_ipats c) (c_pats c) end.
Definition ke_of (c : case) := match c_mode c with MInclude => ke_include (c_ipats c) (c_pats c) | MExclude => ke_exclude end.

(* what the new snapshot must list *)
Definition spec_listing (c : case) : list entry :=
  match c_mode c with
  | MExclude => spec_exclude (rejected (c_ipats c) (c_pats c)) (c_tree c)
  | MInclude => flat_list [] (sp_list (inc_m (c_ipats c) (c_pats c)) [] (c_tree c))
  end.

Definition model_result (c : case) : option (list tree) := rw_root (kn_of c) (ke_of c) (c_tree c).

(* the result the implementation reports: the new tree, or the old one when "not modified" *)
Definition obs_tree (c : case) : list tree := if c_modified c then c_new c else c_tree c.

(* oracle; codes (check_case):
   2 the listing of the resulting snapshot is not the specified one (paths)
   3 a kept entry changed kind / size / metadata / content
   4 the summary differs from the files of the resulting snapshot
   5 "modified" answer wrong: a snapshot was written although nothing changed, or not written although entries go
   6 an unchanged directory did not keep its tree ID / a changed one kept it *)
Definition paths_of (l : list entry) : list bytes := map (fun e => match e with (p, _, _, _) => p end) l.
(* include mode with an empty result: the snapshot is left alone (null tree ID) *)
Definition spec_empty_kept (c : case) : bool :=
  match c_mode c, spec_listing c with
  | MInclude, [] => negb (inc_m (c_ipats c) (c_pats c) root_path)
  | _, _ => false
  end.
Definition expected_listing (c : case) : list entry :=
  if spec_empty_kept c then flat_list [] (c_tree c) else spec_listing c.

Definition cl_paths (c : case) : bool :=
  list_eqb bytes_eqb (paths_of (flat_list [] (obs_tree c))) (paths_of (expected_listing c)).
Definition cl_meta (c : case) : bool :=
  list_eqb entry_eqb (flat_list [] (obs_tree c)) (expected_listing c).
Definition cl_summary (c : case) : bool :=
  orb (negb (c_modified c))
      (let s := count_files (flat_list [] (c_new c)) in
       andb (N.eqb (fst s) (fst (c_summary c))) (N.eqb (snd s) (snd (c_summary c)))).
Definition cl_modified (c : case) : bool :=
  Bool.eqb (c_modified c) (negb (list_eqb entry_eqb (expected_listing c) (flat_list [] (c_tree c)))).
Definition dir_paths (l : list entry) : list bytes :=
  paths_of (filter (fun e => match e with (_, k, _, _) => is_dir k end) l).
Definition same_expected (old new : list tree) : list bytes :=
  filter (fun p => match find_dir p [] old, find_dir p [] new with
                   | Some a, Some b => trees_eqb a b
                   | _, _ => false end) (dir_paths (flat_list [] new)).
Definition cl_same (c : case) : bool :=
  orb (negb (c_modified c)) (list_eqb bytes_eqb (c_same c) (same_expected (c_tree c) (c_new c))).

Definition check_C27 (c : case) : bool :=
  andb (cl_paths c) (andb (cl_meta c) (andb (cl_summary c) (andb (cl_modified c) (cl_same c)))).

(* model vs implementation *)
Definition same_obs (c : case) : bool :=
  match model_result c with
  | None => match c_mode c with
            | MInclude => negb (c_modified c)          (* null tree: snapshot left alone *)
            | MExclude => false
            end
  | Some ks =>
      andb (Bool.eqb (c_modified c) (negb (trees_eqb ks (c_tree c))))
           (orb (negb (c_modified c))
                (andb (trees_eqb ks (c_new c))
                      (let s := cnt_list (kn_of c) [] (c_tree c) in
                       andb (N.eqb (fst s) (fst (c_summary c))) (N.eqb (snd s) (snd (c_summary c))))))
  end.

Definition check_case (c : case) : nat :=
  if negb (cl_paths c) then 2
  else if negb (cl_meta c) then 3
  else if negb (cl_summary c) then 4
  else if negb (cl_modified c) then 5
  else if negb (cl_same c) then 6
  else if same_obs c then 0 else 1.

End C27m.
