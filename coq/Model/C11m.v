(* C11: an interrupted or failed backup leaves the repository consistent.
   Executable model: abstract repository of C09 (packs with their real content, index files) plus
   snapshot files (id, needs = closure of the snapshot's tree); backend ops of a backup; the
   structural trace predicate ok_backup of Archiver.Snapshot / WithBlobUploader / savePacker /
   MasterIndex.saveFullIndex+Flush:
     - nothing is removed;
     - a pack is saved under a fresh name;
     - an index file names only packs that are already present, with blobs they really contain;
     - a snapshot file is saved only when every blob it needs is resolvable.  *)
From Restic Require Import Base.Prelude Model.S_Prune Model.C09m.

Module C11m.
Import SPrune C09m.
Open Scope N_scope.

Record state := mkSt { repo_of : repo; snaps : list (N * list N) }.

Inductive bop := BSaveP (p : N) (bs : list N) | BSaveI (i : N) (es : list (N * N))
               | BSaveS (s : N) (needs : list N) | BRemove.

Definition bapply (S : state) (o : bop) : state :=
  match o with
  | BSaveP p bs => mkSt (apply (repo_of S) (SaveP p bs)) (snaps S)
  | BSaveI i es => mkSt (apply (repo_of S) (SaveI i es)) (snaps S)
  | BSaveS s needs => mkSt (repo_of S) ((s, needs) :: snaps S)
  | BRemove => S
  end.
Definition brun (S : state) (tr : list bop) : state := fold_left bapply tr S.

(* every present snapshot is closed under the index: all its blobs can be loaded *)
Definition snaps_okb (S : state) : bool := forallb (fun sn => consistentb (repo_of S) (snd sn)) (snaps S).

Definition bstep_ok (S : state) (o : bop) : bool :=
  match o with
  | BSaveP p bs => negb (has_pack (repo_of S) p)
  | BSaveI i es => negb (has_idx (repo_of S) i) && forallb (fun e => pack_has (repo_of S) (fst e) (snd e)) es
  | BSaveS s needs => consistentb (repo_of S) needs
  | BRemove => false
  end.

Fixpoint ok_backup (S : state) (tr : list bop) : bool :=
  match tr with
  | [] => true
  | o :: r => bstep_ok S o && ok_backup (bapply S o) r
  end.

(* cases *)
Inductive case :=
  (* a complete backup: state before, recorded trace *)
  | CTrace (S0 : state) (tr : list bop)
  (* a crashed / failed backup: decoded state afterwards (present snapshots with their needs) + direct
     observations: backup reported an error unless its snapshot exists; check clean; every present
     snapshot restores bit-identically; later backup + prune + check succeed *)
  | CCrash (St : state) (reported check_ok restore_ok later_ok : bool).

Definition check_case (c : case) : nat :=
  match c with
  | CTrace S0 tr =>
      if negb (snaps_okb S0) then 9%nat
      else if negb (ok_backup S0 tr) then 10%nat else 0%nat
  | CCrash St rep c1 c2 c3 =>
      if negb (snaps_okb St) then 5%nat
      else if negb c1 then 6%nat else if negb c2 then 7%nat else if negb c3 then 8%nat
      else if negb rep then 4%nat else 0%nat
  end.
Definition check_C11 (c : case) : bool := Nat.eqb (check_case c) 0.

End C11m.
