(* C05: authenticated encryption (internal/repository/crypto/crypto.go, kdf.go). Executable model only.

   Modelled Go code (current /repo):
     crypto.go  EncryptionKey.Valid, MACKey.Valid, Key.Valid, validNonce, poly1305PrepareKey,
                poly1305MAC, poly1305Verify, Key.Seal, Key.Open (incl. sliceForAppend's dst prefix)
     kdf.go     KDF: salt length test, sscrypt.Params.Check + scrypt.Key parameter tests (decision
                function), split of the 64 derived bytes into EncryptionKey / MACKey.K / MACKey.R
   External code, written out in Gallina so that it can be run against the implementation:
     AES-128/256 block encryption (FIPS-197), CTR mode with a 128-bit big-endian counter (Go
     crypto/cipher), Poly1305 (clamp, 2^130-5 arithmetic, final addition mod 2^128).
   [seal]/[open] are generic in the block function [E : key -> block -> block]; [aes] instantiates it.

   check_case codes: 0 ok; 1 model <> implementation (oracle holds);
     2 round trip broken (Seal did not succeed on valid inputs, or Open of the unmodified output is not the plaintext);
     3 Seal accepted an invalid key / zero nonce / wrong nonce length / additional data;
     4 Open accepted an input the model rejects (forgery, short input, invalid key, zero nonce);
     5 KDF accepted parameters or a salt outside the documented domain, or mapped the derived bytes wrongly;
     6 the literal statement fails although model and implementation agree: a modified nonce / ciphertext /
       tag / key was accepted because the MAC really matches (only possible in the collision events isolated by
       the theorems; the corpus contains the two constructible ones, see known_findings.d/C05.json). *)
From Restic Require Import Base.Prelude Gen.ParamsC05.

Module C05m.
Open Scope N_scope.

Definition iv_size : nat := Z.to_nat ParamsC05.iv_size.
Definition mac_size : nat := Z.to_nat ParamsC05.mac_size.
Definition salt_length : nat := Z.to_nat ParamsC05.salt_length.
Definition aes_key_size : nat := Z.to_nat ParamsC05.aes_key_size.
Definition mac_key_size_k : nat := Z.to_nat ParamsC05.mac_key_size_k.
Definition mac_key_size_r : nat := Z.to_nat ParamsC05.mac_key_size_r.

(* ---------- byte strings <-> numbers ---------- *)
Fixpoint le_num (b : bytes) : N :=
  match b with [] => 0 | x :: r => x + 256 * le_num r end.
Fixpoint be_acc (b : bytes) (acc : N) : N :=
  match b with [] => acc | x :: r => be_acc r (256 * acc + x) end.
Definition be_num (b : bytes) : N := be_acc b 0.
(* x mod 256 :: to_le n' (x / 256), written with bit operations (fast under vm_compute) *)
Fixpoint to_le (n : nat) (x : N) : bytes :=
  match n with O => [] | S n' => N.land x 255 :: to_le n' (N.shiftr x 8) end.
Definition to_be (n : nat) (x : N) : bytes := rev (to_le n x).

Definition two128 : N := 340282366920938463463374607431768211456.
Definition p1305 : N := 1361129467683753853853498429727072845819. (* 2^130 - 5 *)
Definition lo128 (x : N) : N := N.land x (N.ones 128). (* x mod 2^128 *)
(* partial reduction modulo 2^130 - 5: 2^130 = 5 (mod p) *)
Definition red130 (x : N) : N := N.land x (N.ones 130) + 5 * N.shiftr x 130.
Definition clamp_mask : N := 21267647620597763993911028882763415551. (* 0x0ffffffc0ffffffc0ffffffc0fffffff *)

(* ---------- keys ---------- *)
Record key := mkkey { kE : bytes; kK : bytes; kR : bytes }. (* EncryptionKey[32], MACKey.K[16], MACKey.R[16] *)

Definition nonzero (b : N) : bool := negb (b =? 0).
(* EncryptionKey.Valid / the two loops of MACKey.Valid: some byte is not zero *)
Definition enc_valid (k : key) : bool := existsb nonzero (kE k).
Definition mac_valid (k : key) : bool := if existsb nonzero (kK k) then existsb nonzero (kR k) else false.
Definition valid_key (k : key) : bool := enc_valid k && mac_valid k.
(* validNonce: OR of all bytes > 0 *)
Definition valid_nonce (n : bytes) : bool := 0 <? fold_left N.lor n 0.

(* ---------- CTR keystream (crypto/cipher.NewCTR: 128-bit big-endian counter starting at the IV) ---------- *)
Section Generic.
Variable E : bytes -> bytes -> bytes. (* block cipher: key -> 16-byte block -> 16-byte block *)

Fixpoint ctr_go (f : bytes -> bytes) (p ks : bytes) (ctr : N) : bytes :=
  match p with
  | [] => []
  | b :: p' =>
      match ks with
      | k :: ks' => N.lxor b k :: ctr_go f p' ks' ctr
      | [] =>
          match f (to_be 16 ctr) with
          | k :: ks' => N.lxor b k :: ctr_go f p' ks' (lo128 (ctr + 1))
          | [] => b :: ctr_go f p' [] ctr
          end
      end
  end.
Definition ctr (ek nonce p : bytes) : bytes := ctr_go (E ek) p [] (lo128 (be_num nonce)).

(* ---------- Poly1305 ---------- *)
Definition clamp (r : bytes) : N := N.land (le_num r) clamp_mask.
Fixpoint poly_go (fuel : nat) (r : N) (m : bytes) (acc : N) : N :=
  match fuel with
  | O => acc
  | S f =>
      match m with
      | [] => acc
      | _ => poly_go f r (skipn 16 m) (red130 ((acc + le_num (firstn 16 m ++ [1])) * r))
      end
  end.
(* the accumulator is only partially reduced inside the loop (as in every implementation); the
   textbook definition (full reduction in every step) is [poly_spec], proved equal in C05p.v *)
Definition poly (r : N) (m : bytes) : N := poly_go (length m) r m 0 mod p1305.
Fixpoint poly_spec_go (fuel : nat) (r : N) (m : bytes) (acc : N) : N :=
  match fuel with
  | O => acc
  | S f =>
      match m with
      | [] => acc
      | _ => poly_spec_go f r (skipn 16 m) (((acc + le_num (firstn 16 m ++ [1])) * r) mod p1305)
      end
  end.
Definition poly_spec (r : N) (m : bytes) : N := poly_spec_go (length m) r m 0.

(* poly1305PrepareKey: s = AES_K(nonce); poly1305.Sum: tag = (poly + s) mod 2^128, little endian *)
Definition mac_s (k : key) (nonce : bytes) : N := lo128 (le_num (E (kK k) nonce)).
Definition mac (k : key) (nonce msg : bytes) : bytes :=
  to_le mac_size (lo128 (poly (clamp (kR k)) msg + mac_s k nonce)).

(* ---------- Seal / Open ---------- *)
Inductive sres := SOk (out : bytes) | SPanic.
Inductive ores := OOk (out : bytes) | OUnauth | OErr | OPanic.

Definition seal (k : key) (nonce dst p ad : bytes) : sres :=
  if negb (valid_key k) then SPanic
  else if negb (Nat.eqb (length ad) 0) then SPanic
  else if negb (Nat.eqb (length nonce) iv_size) then SPanic
  else if negb (valid_nonce nonce) then SPanic
  else let c := ctr (kE k) nonce p in SOk (dst ++ c ++ mac k nonce c).

Definition open (k : key) (nonce dst ct : bytes) : ores :=
  if negb (valid_key k) then OErr
  else if negb (Nat.eqb (length nonce) iv_size) then OPanic
  else if negb (valid_nonce nonce) then OErr
  else if Nat.ltb (length ct) mac_size then OErr
  else
    let l := (length ct - mac_size)%nat in
    let c := firstn l ct in
    let t := skipn l ct in
    if bytes_eqb (mac k nonce c) t then OOk (dst ++ ctr (kE k) nonce c) else OUnauth.

End Generic.

(* ---------- AES (FIPS-197), bytes as N ---------- *)
Definition sbox : list (list N) := [
  [99; 124; 119; 123; 242; 107; 111; 197; 48; 1; 103; 43; 254; 215; 171; 118];
  [202; 130; 201; 125; 250; 89; 71; 240; 173; 212; 162; 175; 156; 164; 114; 192];
  [183; 253; 147; 38; 54; 63; 247; 204; 52; 165; 229; 241; 113; 216; 49; 21];
  [4; 199; 35; 195; 24; 150; 5; 154; 7; 18; 128; 226; 235; 39; 178; 117];
  [9; 131; 44; 26; 27; 110; 90; 160; 82; 59; 214; 179; 41; 227; 47; 132];
  [83; 209; 0; 237; 32; 252; 177; 91; 106; 203; 190; 57; 74; 76; 88; 207];
  [208; 239; 170; 251; 67; 77; 51; 133; 69; 249; 2; 127; 80; 60; 159; 168];
  [81; 163; 64; 143; 146; 157; 56; 245; 188; 182; 218; 33; 16; 255; 243; 210];
  [205; 12; 19; 236; 95; 151; 68; 23; 196; 167; 126; 61; 100; 93; 25; 115];
  [96; 129; 79; 220; 34; 42; 144; 136; 70; 238; 184; 20; 222; 94; 11; 219];
  [224; 50; 58; 10; 73; 6; 36; 92; 194; 211; 172; 98; 145; 149; 228; 121];
  [231; 200; 55; 109; 141; 213; 78; 169; 108; 86; 244; 234; 101; 122; 174; 8];
  [186; 120; 37; 46; 28; 166; 180; 198; 232; 221; 116; 31; 75; 189; 139; 138];
  [112; 62; 181; 102; 72; 3; 246; 14; 97; 53; 87; 185; 134; 193; 29; 158];
  [225; 248; 152; 17; 105; 217; 142; 148; 155; 30; 135; 233; 206; 85; 40; 223];
  [140; 161; 137; 13; 191; 230; 66; 104; 65; 153; 45; 15; 176; 84; 187; 22]
].
Definition sub (b : N) : N := nth (N.to_nat (b mod 16)) (nth (N.to_nat (b / 16)) sbox []) 0.
Definition xtime (b : N) : N := let s := 2 * b in if s <? 256 then s else N.lxor (s - 256) 27.
Fixpoint xorb (a b : bytes) : bytes :=
  match a, b with x :: a', y :: b' => N.lxor x y :: xorb a' b' | _, _ => [] end.

Definition rotw (w : bytes) : bytes := match w with a :: r => r ++ [a] | [] => [] end.
Fixpoint expand (fuel i nk : nat) (rcon : N) (rv : list bytes) : list bytes :=
  match fuel with
  | O => rv
  | S f =>
      let prev := hd [] rv in
      let back := nth (nk - 1) rv [] in
      let im := Nat.modulo i nk in
      if Nat.eqb im 0 then
        expand f (S i) nk (xtime rcon) (xorb back (xorb (map sub (rotw prev)) [rcon; 0; 0; 0]) :: rv)
      else if andb (Nat.ltb 6 nk) (Nat.eqb im 4) then
        expand f (S i) nk rcon (xorb back (map sub prev) :: rv)
      else expand f (S i) nk rcon (xorb back prev :: rv)
  end.
Fixpoint words (k : bytes) (n : nat) : list bytes :=
  match n with O => [] | S n' => firstn 4 k :: words (skipn 4 k) n' end.
Fixpoint group4 (n : nat) (ws : list bytes) : list bytes :=
  match n with
  | O => []
  | S n' => concat (firstn 4 ws) :: group4 n' (skipn 4 ws)
  end.
(* round keys: nk = 4 (AES-128) or 8 (AES-256) words, nk+7 round keys of 16 bytes *)
Definition round_keys (k : bytes) : list bytes :=
  let nk := Nat.div (length k) 4 in
  let ws := rev (expand (4 * (nk + 7) - nk) nk nk 1 (rev (words k nk))) in
  group4 (nk + 7) ws.

Definition shift_rows (s : bytes) : bytes :=
  match s with
  | [s0; s1; s2; s3; s4; s5; s6; s7; s8; s9; s10; s11; s12; s13; s14; s15] =>
      [s0; s5; s10; s15; s4; s9; s14; s3; s8; s13; s2; s7; s12; s1; s6; s11]
  | _ => s
  end.
Definition mix1 (a0 a1 a2 a3 : N) : N := N.lxor (N.lxor (xtime a0) (N.lxor (xtime a1) a1)) (N.lxor a2 a3).
Fixpoint mix_columns (s : bytes) (cols : nat) : bytes :=
  match cols with
  | O => []
  | S c =>
      match s with
      | a0 :: a1 :: a2 :: a3 :: r =>
          mix1 a0 a1 a2 a3 :: mix1 a1 a2 a3 a0 :: mix1 a2 a3 a0 a1 :: mix1 a3 a0 a1 a2 :: mix_columns r c
      | _ => []
      end
  end.
Fixpoint rounds (s : bytes) (rks : list bytes) : bytes :=
  match rks with
  | [] => s
  | [last] => xorb (shift_rows (map sub s)) last
  | rk :: rest => rounds (xorb (mix_columns (shift_rows (map sub s)) 4) rk) rest
  end.
Definition aes_with (rks : list bytes) (blk : bytes) : bytes :=
  match rks with
  | [] => []
  | rk0 :: rest => rounds (xorb blk rk0) rest
  end.
Definition aes (k : bytes) : bytes -> bytes := let rks := round_keys k in aes_with rks.

(* ---------- KDF parameter validation (kdf.go KDF -> sscrypt.Params.Check -> scrypt.Key) ---------- *)
Definition max_int : Z := 2147483647.
Definition pow2 (n : Z) : bool := (Z.land n (n - 1) =? 0)%Z.
Definition kdf_accepts (saltlen n r p : Z) : bool :=
  ((saltlen =? ParamsC05.salt_length) &&
   (* sscrypt.Params.Check *)
   negb ((max_int <? n) || (n <=? 1) || negb (n mod 2 =? 0)) &&
   negb ((r <? 1) || (max_int <? r)) &&
   negb ((p <? 1) || (max_int <? p)) &&
   negb ((1073741824 <=? r * p) || (max_int / 128 / p <? r) || (max_int / 256 <? r) || (max_int / 128 / r <? n)) &&
   (* scrypt.Key *)
   negb ((n <=? 1) || negb (pow2 n)))%Z.
(* the 64 derived bytes: EncryptionKey, then MACKey.K, then MACKey.R *)
Definition key_of_derived (d : bytes) : key :=
  mkkey (firstn aes_key_size d)
        (firstn mac_key_size_k (skipn aes_key_size d))
        (firstn mac_key_size_r (skipn (aes_key_size + mac_key_size_k) d)).

(* ---------- cases ---------- *)
(* mutations of a reference triple (key, nonce, sealed output) *)
Inductive mutation :=
| MNone
| MFlipNonce (bit : N)
| MFlipCt (bit : N)                   (* bit index into ciphertext ++ tag *)
| MTrunc (len : N)                    (* keep the first len bytes *)
| MAppend (extra : bytes)
| MDropFront (n : N)
| MKey (k : key)
| MNonce (n : bytes)
| MRaw (ct : bytes).

Fixpoint flip_bit (b : bytes) (bit : nat) : bytes :=
  match b with
  | [] => []
  | x :: r => match bit with
              | 0%nat | 1%nat | 2%nat | 3%nat | 4%nat | 5%nat | 6%nat | 7%nat => N.lxor x (2 ^ N.of_nat bit) :: r
              | S (S (S (S (S (S (S (S bit'))))))) => x :: flip_bit r bit'
              end
  end.

Definition apply_mut (k : key) (nonce ct : bytes) (m : mutation) : key * bytes * bytes :=
  match m with
  | MNone => (k, nonce, ct)
  | MFlipNonce b => (k, flip_bit nonce (N.to_nat b), ct)
  | MFlipCt b => (k, nonce, flip_bit ct (N.to_nat b))
  | MTrunc l => (k, nonce, firstn (N.to_nat l) ct)
  | MAppend e => (k, nonce, ct ++ e)
  | MDropFront n => (k, nonce, skipn (N.to_nat n) ct)
  | MKey k' => (k', nonce, ct)
  | MNonce n' => (k, n', ct)
  | MRaw ct' => (k, nonce, ct')
  end.

Definition key_eqb (a b : key) : bool :=
  bytes_eqb (kE a) (kE b) && bytes_eqb (kK a) (kK b) && bytes_eqb (kR a) (kR b).
Definition sres_eqb (a b : sres) : bool :=
  match a, b with SOk x, SOk y => bytes_eqb x y | SPanic, SPanic => true | _, _ => false end.
Definition ores_eqb (a b : ores) : bool :=
  match a, b with
  | OOk x, OOk y => bytes_eqb x y
  | OUnauth, OUnauth | OErr, OErr | OPanic, OPanic => true
  | _, _ => false
  end.
Definition is_ook (o : ores) : bool := match o with OOk _ => true | _ => false end.

Inductive case :=
| CGroup (k : key) (nonce pt : bytes) (sealed : sres) (opens : list (mutation * ores))
    (* Seal(nil, nonce, pt, nil), then Open(nil, ..) of each mutation of its output *)
| CSeal (k : key) (nonce dst pt ad : bytes) (obs : sres)
| COpen (k : key) (nonce dst ct : bytes) (obs : ores)
| CKdf (saltlen n r p : Z) (accepted : bool)
| CKdfKey (derived : bytes) (k : key).

Definition mopen (k : key) (nonce ct : bytes) (m : mutation) : ores :=
  let '(k', n', ct') := apply_mut k nonce ct m in open aes k' n' [] ct'.

Definition seal_guard (k : key) (nonce ad : bytes) : bool :=
  valid_key k && Nat.eqb (length ad) 0 && Nat.eqb (length nonce) iv_size && valid_nonce nonce.

(* oracle clauses *)
Definition roundtrip_ok (c : case) : bool :=
  match c with
  | CGroup k nonce pt sealed opens =>
      if seal_guard k nonce [] then
        match sealed with
        | SOk _ => forallb (fun mo => match fst mo with MNone => ores_eqb (snd mo) (OOk pt) | _ => true end) opens
        | SPanic => false
        end
      else true
  | _ => true
  end.
Definition guards_ok (c : case) : bool :=
  match c with
  | CGroup k nonce _ sealed _ => if seal_guard k nonce [] then true else sres_eqb sealed SPanic
  | CSeal k nonce _ _ ad obs => if seal_guard k nonce ad then true else sres_eqb obs SPanic
  | _ => true
  end.
Definition no_false_accept (c : case) : bool :=
  match c with
  | CGroup k nonce _ (SOk s) opens =>
      forallb (fun mo => if is_ook (snd mo) then is_ook (mopen k nonce s (fst mo)) else true) opens
  | COpen k nonce dst ct obs => if is_ook obs then is_ook (open aes k nonce dst ct) else true
  | _ => true
  end.
Definition kdf_ok (c : case) : bool :=
  match c with
  | CKdf saltlen n r p acc => if acc then kdf_accepts saltlen n r p else true
  | CKdfKey d k => key_eqb k (key_of_derived d)
  | _ => true
  end.

(* the literal statement: every modification of the sealed triple is rejected *)
Definition is_mod (k : key) (nonce ct : bytes) (m : mutation) : bool :=
  match m with
  | MNone | MRaw _ => false
  | _ => let '(k', n', ct') := apply_mut k nonce ct m in
         negb (key_eqb k' k && bytes_eqb n' nonce && bytes_eqb ct' ct)
  end.
Definition literal_ok (c : case) : bool :=
  match c with
  | CGroup k nonce _ (SOk s) opens =>
      forallb (fun mo => if is_mod k nonce s (fst mo) then negb (is_ook (snd mo)) else true) opens
  | _ => true
  end.

Definition check_C05 (c : case) : bool :=
  roundtrip_ok c && guards_ok c && no_false_accept c && kdf_ok c.

Definition model_agrees (c : case) : bool :=
  match c with
  | CGroup k nonce pt sealed opens =>
      sres_eqb sealed (seal aes k nonce [] pt []) &&
      match sealed with
      | SOk s => forallb (fun mo => ores_eqb (snd mo) (mopen k nonce s (fst mo))) opens
      | SPanic => match opens with [] => true | _ => false end
      end
  | CSeal k nonce dst pt ad obs => sres_eqb obs (seal aes k nonce dst pt ad)
  | COpen k nonce dst ct obs => ores_eqb obs (open aes k nonce dst ct)
  | CKdf saltlen n r p acc => Bool.eqb acc (kdf_accepts saltlen n r p)
  | CKdfKey d k => key_eqb k (key_of_derived d)
  end.

Definition check_case (c : case) : nat :=
  if negb (roundtrip_ok c) then 2
  else if negb (guards_ok c) then 3
  else if negb (no_false_accept c) then 4
  else if negb (kdf_ok c) then 5
  else if negb (literal_ok c) then 6
  else if model_agrees c then 0 else 1.

End C05m.
