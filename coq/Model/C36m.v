(* C36: internal/backend/local/local.go Save — as the sequence of file-system syscalls it issues,
   over a small inode-level file-system model.  Executable model only.

   A crash (process death) after any prefix of the syscalls leaves the directory in the state the
   prefix produced.  safe: the final name is absent, or bound to an inode that holds the complete
   payload (size = written = total, written contiguously) — clause 2; and that inode was fsynced
   after its last modification (durability order, clause 3); every other name in the directories is
   not parseable as a repository ID (clause 4: temporary files are never listed as repository files).

   check_case codes: 0 ok; 1 model trace <> observed trace (or ParseID model mismatch);
   2 final name exposed incomplete at some prefix / Save succeeded but final not complete at the end;
   3 final name bound before its data was fsynced, or directory not fsynced after the rename;
   4 a name other than the final one parses as an ID at some prefix;
   5 a failed Save left a temporary file behind. *)
From Restic Require Import Base.Prelude.

Module C36m.

Inductive sysop :=
| SMkdir (dir : N)
| SCreate (dir : N) (name : bytes) (fd : N)        (* openat O_CREAT|O_EXCL *)
| SOpenDir (dir : N) (fd : N)
| SFalloc (fd : N) (n : N)                         (* fallocate mode 0: extends the size *)
| SWrite (fd : N) (n : N)                          (* sequential write of n payload bytes *)
| SFsync (fd : N)
| SClose (fd : N)
| SRename (d1 : N) (n1 : bytes) (d2 : N) (n2 : bytes)
| SChmod (dir : N) (name : bytes)
| SUnlink (dir : N) (name : bytes)
| SOther (k : N)                                    (* a syscall on a tracked path/fd the model does not know *)
| SFail (k : N).                                    (* a FAILED syscall on a tracked path/fd (no effect): 1 open, 2 write,
                                                       3 fsync, 4 rename, 5 chmod, 6 unlink/rmdir, 7 fallocate, 8 mkdir, 9 other *)

Record inode := mkino { i_size : N; i_written : N; i_bad : bool; i_dirty : bool }.
Inductive fdt := FFile (ino : N) (off : N) | FDir (dir : N).

Record fs := mkfs {
  inodes : list (N * inode);
  dents : list ((N * bytes) * N);     (* (dir, name) -> inode number *)
  fds : list (N * fdt);
  next : N;                           (* next inode number *)
  synced_dirs : list N;               (* directories fsynced since their last change *)
  unknown : bool                      (* an SOther was seen: nothing can be concluded *)
}.

Definition fs0 : fs := mkfs [] [] [] 0 [] false.

Definition key_eqb (a b : N * bytes) : bool := andb (N.eqb (fst a) (fst b)) (bytes_eqb (snd a) (snd b)).

Fixpoint alookup {K V} (eqb : K -> K -> bool) (k : K) (l : list (K * V)) : option V :=
  match l with
  | [] => None
  | (k', v) :: r => if eqb k k' then Some v else alookup eqb k r
  end.
Fixpoint aremove {K V} (eqb : K -> K -> bool) (k : K) (l : list (K * V)) : list (K * V) :=
  match l with
  | [] => []
  | (k', v) :: r => if eqb k k' then aremove eqb k r else (k', v) :: aremove eqb k r
  end.
Definition aset {K V} (eqb : K -> K -> bool) (k : K) (v : V) (l : list (K * V)) : list (K * V) :=
  (k, v) :: aremove eqb k l.

Definition undirty (d : N) (l : list N) : list N := filter (fun x => negb (N.eqb x d)) l.

Definition step (s : fs) (o : sysop) : fs :=
  match o with
  | SMkdir d => s
  | SCreate d n fd =>
      let i := next s in
      mkfs (aset N.eqb i (mkino 0 0 false false) (inodes s))
           (aset key_eqb (d, n) i (dents s))
           (aset N.eqb fd (FFile i 0) (fds s))
           (i + 1) (undirty d (synced_dirs s)) (unknown s)
  | SOpenDir d fd =>
      mkfs (inodes s) (dents s) (aset N.eqb fd (FDir d) (fds s)) (next s) (synced_dirs s) (unknown s)
  | SFalloc fd n =>
      match alookup N.eqb fd (fds s) with
      | Some (FFile i off) =>
          match alookup N.eqb i (inodes s) with
          | Some nd =>
              mkfs (aset N.eqb i (mkino (N.max (i_size nd) n) (i_written nd) (i_bad nd) true) (inodes s))
                   (dents s) (fds s) (next s) (synced_dirs s) (unknown s)
          | None => s
          end
      | _ => mkfs (inodes s) (dents s) (fds s) (next s) (synced_dirs s) true
      end
  | SWrite fd n =>
      match alookup N.eqb fd (fds s) with
      | Some (FFile i off) =>
          match alookup N.eqb i (inodes s) with
          | Some nd =>
              let contiguous := N.eqb off (i_written nd) in
              mkfs (aset N.eqb i (mkino (N.max (i_size nd) (off + n))
                                        (if contiguous then off + n else i_written nd)
                                        (orb (i_bad nd) (negb contiguous)) true) (inodes s))
                   (dents s) (aset N.eqb fd (FFile i (off + n)) (fds s)) (next s) (synced_dirs s) (unknown s)
          | None => s
          end
      | _ => mkfs (inodes s) (dents s) (fds s) (next s) (synced_dirs s) true
      end
  | SFsync fd =>
      match alookup N.eqb fd (fds s) with
      | Some (FFile i off) =>
          match alookup N.eqb i (inodes s) with
          | Some nd =>
              mkfs (aset N.eqb i (mkino (i_size nd) (i_written nd) (i_bad nd) false) (inodes s))
                   (dents s) (fds s) (next s) (synced_dirs s) (unknown s)
          | None => s
          end
      | Some (FDir d) => mkfs (inodes s) (dents s) (fds s) (next s) (d :: synced_dirs s) (unknown s)
      | None => s
      end
  | SClose fd => mkfs (inodes s) (dents s) (aremove N.eqb fd (fds s)) (next s) (synced_dirs s) (unknown s)
  | SRename d1 n1 d2 n2 =>
      match alookup key_eqb (d1, n1) (dents s) with
      | Some i =>
          mkfs (inodes s) (aset key_eqb (d2, n2) i (aremove key_eqb (d1, n1) (dents s))) (fds s) (next s)
               (undirty d1 (undirty d2 (synced_dirs s))) (unknown s)
      | None => mkfs (inodes s) (dents s) (fds s) (next s) (synced_dirs s) true
      end
  | SChmod d n => s
  | SUnlink d n =>
      mkfs (inodes s) (aremove key_eqb (d, n) (dents s)) (fds s) (next s) (undirty d (synced_dirs s)) (unknown s)
  | SOther _ => mkfs (inodes s) (dents s) (fds s) (next s) (synced_dirs s) true
  | SFail _ => s
  end.

Fixpoint run (s : fs) (t : list sysop) : fs :=
  match t with [] => s | o :: r => run (step s o) r end.

(* ---------- ParseID ---------- *)
Definition is_hex (c : N) : bool :=
  orb (andb (N.leb 48 c) (N.leb c 57)) (orb (andb (N.leb 97 c) (N.leb c 102)) (andb (N.leb 65 c) (N.leb c 70))).
Definition is_id (name : bytes) : bool := andb (Nat.eqb (length name) 64) (forallb is_hex name).

(* ---------- safety of one state ---------- *)
(* what is being saved: directory, final name, payload length *)
Record target := mktarget { t_dir : N; t_name : bytes; t_total : N }.

Definition complete (g : target) (nd : inode) : bool :=
  andb (andb (N.eqb (i_size nd) (t_total g)) (N.eqb (i_written nd) (t_total g))) (negb (i_bad nd)).

(* 0 = safe, else the clause number *)
Definition state_code (g : target) (s : fs) : nat :=
  if unknown s then 1 else
  match (match alookup key_eqb (t_dir g, t_name g) (dents s) with
         | Some i =>
             match alookup N.eqb i (inodes s) with
             | Some nd => if negb (complete g nd) then 2 else if i_dirty nd then 3 else 0
             | None => 2
             end
         | None => 0
         end) with
  | O => if forallb (fun e : (N * bytes) * N =>
                       orb (key_eqb (fst e) (t_dir g, t_name g)) (negb (is_id (snd (fst e))))) (dents s)
         then 0 else 4
  | n => n
  end.

Definition safeb (g : target) (s : fs) : bool := Nat.eqb (state_code g s) 0.

(* first non-zero code over all prefixes, single pass *)
Fixpoint run_code (g : target) (s : fs) (t : list sysop) : nat :=
  match state_code g s with
  | O => match t with [] => 0 | o :: r => run_code g (step s o) r end
  | n => n
  end.

(* at the end of a successful Save: final present (hence complete, by state_code) and its directory synced *)
Definition end_code (g : target) (s : fs) : nat :=
  match alookup key_eqb (t_dir g, t_name g) (dents s) with
  | None => 2
  | Some _ => if existsb (N.eqb (t_dir g)) (synced_dirs s) then 0 else 3
  end.

(* ---------- the model of Local.Save: the syscalls it issues ---------- *)
Record params := mkparams {
  p_mkdir : bool;          (* the directory was missing: MkdirAll, then the temp file is created again *)
  p_tmp : bytes;           (* name chosen by os.CreateTemp: final ++ "-tmp-" ++ random digits *)
  p_fd : N; p_dfd : N;
  p_chunks : list N        (* sizes of the write calls io.Copy made *)
}.

Definition local_save (g : target) (p : params) : list sysop :=
  (if p_mkdir p then [SFail 1; SMkdir (t_dir g)] else []) ++   (* first CreateTemp fails: ENOENT *)
  [SCreate (t_dir g) (p_tmp p) (p_fd p)] ++
  (if N.ltb 0 (t_total g) then [SFalloc (p_fd p) (t_total g)] else []) ++
  map (SWrite (p_fd p)) (p_chunks p) ++
  [SFsync (p_fd p); SClose (p_fd p); SRename (t_dir g) (p_tmp p) (t_dir g) (t_name g);
   SOpenDir (t_dir g) (p_dfd p); SFsync (p_dfd p); SClose (p_dfd p); SChmod (t_dir g) (t_name g)].

(* error paths of Save before the rename: the failing syscall, then the deferred cleanup
   (f.Close(); os.Remove(f.Name())).  After a failed rename the file is already closed (the second
   Close of an *os.File issues no syscall). *)
Inductive failpoint :=
| FPWrite (fallocfail : bool)   (* a write fails after the chunks p_chunks were written *)
| FPFsync
| FPRename.

Definition local_save_fail (g : target) (p : params) (fp : failpoint) : list sysop :=
  (if p_mkdir p then [SFail 1; SMkdir (t_dir g)] else []) ++
  [SCreate (t_dir g) (p_tmp p) (p_fd p)] ++
  (if N.ltb 0 (t_total g)
   then [match fp with FPWrite true => SFail 7 | _ => SFalloc (p_fd p) (t_total g) end] else []) ++
  map (SWrite (p_fd p)) (p_chunks p) ++
  match fp with
  | FPWrite _ => [SFail 2; SClose (p_fd p); SUnlink (t_dir g) (p_tmp p)]
  | FPFsync => [SFail 3; SClose (p_fd p); SUnlink (t_dir g) (p_tmp p)]
  | FPRename => [SFsync (p_fd p); SClose (p_fd p); SFail 4; SUnlink (t_dir g) (p_tmp p)]
  end.

(* after a failed Save: no entry other than the final name is left behind (clause 5) *)
Definition fail_end_code (g : target) (s : fs) : nat :=
  if forallb (fun e : (N * bytes) * N => key_eqb (fst e) (t_dir g, t_name g)) (dents s) then 0 else 5.

(* ---------- cases ---------- *)
Definition sysop_eqb (a b : sysop) : bool :=
  match a, b with
  | SMkdir x, SMkdir y => N.eqb x y
  | SCreate d n f, SCreate d' n' f' => andb (N.eqb d d') (andb (bytes_eqb n n') (N.eqb f f'))
  | SOpenDir d f, SOpenDir d' f' => andb (N.eqb d d') (N.eqb f f')
  | SFalloc f n, SFalloc f' n' => andb (N.eqb f f') (N.eqb n n')
  | SWrite f n, SWrite f' n' => andb (N.eqb f f') (N.eqb n n')
  | SFsync f, SFsync f' => N.eqb f f'
  | SClose f, SClose f' => N.eqb f f'
  | SRename a1 b1 c1 d1, SRename a2 b2 c2 d2 =>
      andb (andb (N.eqb a1 a2) (bytes_eqb b1 b2)) (andb (N.eqb c1 c2) (bytes_eqb d1 d2))
  | SChmod d n, SChmod d' n' => andb (N.eqb d d') (bytes_eqb n n')
  | SUnlink d n, SUnlink d' n' => andb (N.eqb d d') (bytes_eqb n n')
  | SOther k, SOther k' => N.eqb k k'
  | SFail k, SFail k' => N.eqb k k'
  | _, _ => false
  end.

Record case := mk {
  c_target : target;
  c_params : params;           (* environment choices read off the observed trace *)
  c_trace : list sysop;        (* observed syscalls of the Save (successful ones on tracked paths/fds) *)
  c_err : bool;                (* Save returned an error *)
  c_fail : option failpoint;   (* which syscall the harness made fail (None: none, or one after the rename) *)
  c_parse : list (bytes * bool); (* names and whether the real restic.ParseID accepted them *)
  c_listing : list (list bytes * list bytes)
     (* directory contents (incl. stray temp files) and what repository.List reported for them, both sorted *)
}.

Definition listing_ok (e : list bytes * list bytes) : bool :=
  forallb (fun n => andb (is_id n) (existsb (bytes_eqb n) (fst e))) (snd e).

Definition trace_code (c : case) : nat :=
  match run_code (c_target c) fs0 (c_trace c) with
  | O => match (if c_err c then fail_end_code (c_target c) (run fs0 (c_trace c))
                else end_code (c_target c) (run fs0 (c_trace c))) with
         | O => if forallb listing_ok (c_listing c) then 0 else 4
         | n => n
         end
  | n => n
  end.

Definition check_C36 (c : case) : bool := Nat.eqb (trace_code c) 0.

Definition check_case (c : case) : nat :=
  match trace_code c with
  | O =>
      if andb (match c_fail c with
               | Some fp => list_eqb sysop_eqb (c_trace c) (local_save_fail (c_target c) (c_params c) fp)
               | None => orb (c_err c) (list_eqb sysop_eqb (c_trace c) (local_save (c_target c) (c_params c)))
               end)
              (andb (forallb (fun e : bytes * bool => Bool.eqb (is_id (fst e)) (snd e)) (c_parse c))
                    (forallb (fun e : list bytes * list bytes =>
                                list_eqb bytes_eqb (filter is_id (fst e)) (snd e)) (c_listing c)))
      then 0 else 1
  | n => n
  end.

End C36m.
