(* C33: repair index (internal/repository/repair_index.go: RepairIndex, rewriteIndexFiles;
   internal/repository/repository.go: createIndexFromPacks; internal/repository/index/master_index.go:
   MasterIndex.Load/MergeFinalIndexes (merge drops exact duplicates), MasterIndex.Rewrite;
   internal/repository/pack/pack.go: Size).  Executable model only.

   Abstract repository: pack files (listed id, listed size, what listPack returns for them) and
   index files (id, decoded body or load failure).  IDs are small numbers (renamed by the harness). *)
From Restic Require Import Base.Prelude Gen.ParamsC33.

Module C33m.
Open Scope N_scope.

Definition pid := N.
Definition iid := N.

(* one pack header / index entry: type (0 data, 1 tree), blob id, offset, length, uncompressed length *)
Record entry := E { e_t : N; e_id : N; e_off : N; e_len : N; e_ulen : N }.

Definition entry_eqb (a b : entry) : bool :=
  (e_t a =? e_t b) && (e_id a =? e_id b) && (e_off a =? e_off b) && (e_len a =? e_len b) && (e_ulen a =? e_ulen b).

Definition pe := (pid * entry)%type.            (* "blob e is in pack p" *)
Definition pe_eqb (a b : pe) : bool := (fst a =? fst b) && entry_eqb (snd a) (snd b).
Definition group := (pid * list entry)%type.    (* index.PackBlobs *)
Definition body := list group.                  (* decoded index file: jsonIndex.Packs *)

Record packfile := P { p_id : pid; p_size : N; p_hdr : option (list entry) }.  (* None: listPack fails *)
Record idxfile := I { i_id : iid; i_body : option body }.                        (* None: load/decode fails *)
Record st := St { s_packs : list packfile; s_idx : list idxfile }.
(* full_n / over_n: thresholds of index.Full / index.Oversized (blob counts) *)
Record cfg := Cfg { read_all : bool; full_n : N; over_n : N }.

Definition flat (b : body) : list pe := flat_map (fun g => map (pair (fst g)) (snd g)) b.

Definition mem_pe (x : pe) (l : list pe) : bool := existsb (pe_eqb x) l.
Definition inl (p : N) (l : list N) : bool := existsb (N.eqb p) l.

(* Index.merge: an entry identical to one already present is dropped *)
Fixpoint dedup (l : list pe) : list pe :=
  match l with
  | [] => []
  | x :: r => if mem_pe x r then dedup r else x :: dedup r
  end.

Definition loaded (s : st) : list (iid * body) :=
  flat_map (fun f => match i_body f with Some b => [(i_id f, b)] | None => [] end) (s_idx s).
Definition failed (s : st) : list iid :=
  flat_map (fun f => match i_body f with None => [i_id f] | Some _ => [] end) (s_idx s).

(* oldIndexes (with their content) and extraObsolete *)
Definition olds (c : cfg) (s : st) : list (iid * body) := if read_all c then [] else loaded s.
Definition obsolete0 (c : cfg) (s : st) : list iid := if read_all c then map i_id (s_idx s) else failed s.

(* the in-memory master index after loading *)
Definition memidx (c : cfg) (s : st) : list pe := dedup (flat (flat_map snd (olds c s))).

(* pack.Size(..., onlyHdr=false) *)
Definition header_size : N := Z.to_N ParamsC33.header_size.
Definition entry_sz (e : entry) : N :=
  if e_ulen e =? 0 then Z.to_N ParamsC33.plain_entry_size else Z.to_N ParamsC33.entry_size.
Definition pack_entries (m : list pe) (p : pid) : list entry := map snd (filter (fun x => fst x =? p) m).
Definition size_from_index (m : list pe) (p : pid) : option N :=
  match pack_entries m p with
  | [] => None
  | es => Some (header_size + fold_right (fun e a => e_len e + entry_sz e + a) 0 es)
  end.

(* "Pack was not referenced in index or size does not match" *)
Definition needs_read (m : list pe) (pf : packfile) : bool :=
  match size_from_index m (p_id pf) with
  | None => true
  | Some sz => negb (sz =? p_size pf)
  end.
Definition to_read (c : cfg) (s : st) : list packfile := filter (needs_read (memidx c s)) (s_packs s).
Definition present (s : st) (p : pid) : bool := existsb (fun pf => p_id pf =? p) (s_packs s).
(* removePacks: packs to re-read plus packs in the index that are not listed *)
Definition excl (c : cfg) (s : st) : list pid :=
  map p_id (to_read c s) ++ filter (fun p => negb (present s p)) (map fst (memidx c s)).

Definition hdr_groups (l : list packfile) : body :=
  flat_map (fun pf => match p_hdr pf with Some es => [(p_id pf, es)] | None => [] end) l.
(* createIndexFromPacks: unreadable packs are skipped *)
Definition new1 (c : cfg) (s : st) : body := hdr_groups (to_read c s).

(* ---- MasterIndex.Rewrite ---- *)
Fixpoint insert_group (p : pid) (e : entry) (gs : body) : body :=
  match gs with
  | [] => [(p, [e])]
  | g :: r => if fst g =? p then (fst g, snd g ++ [e]) :: r else g :: insert_group p e r
  end.
Definition group_by (l : list pe) : body := fold_left (fun gs x => insert_group (fst x) (snd x) gs) l [].
(* Index.EachByPack(ctx, excludePacks) on a final index *)
Definition each_by_pack (b : body) (ex : list pid) : body :=
  group_by (filter (fun x => negb (inl (fst x) ex)) (flat b)).

(* PackBlobsHash equality (hash assumed injective): same pack, same multiset of blobs *)
Fixpoint remove1 (x : entry) (l : list entry) : option (list entry) :=
  match l with
  | [] => None
  | y :: r => if entry_eqb x y then Some r else option_map (cons y) (remove1 x r)
  end.
Fixpoint perm_eqb (a b : list entry) : bool :=
  match a with
  | [] => match b with [] => true | _ => false end
  | x :: r => match remove1 x b with Some b' => perm_eqb r b' | None => false end
  end.
Definition same (g h : group) : bool := (fst g =? fst h) && perm_eqb (snd g) (snd h).
Definition seen_has (seen : list group) (g : group) : bool := existsb (same g) seen.

Definition count (b : body) : N := N.of_nat (length (flat b)).
(* Full(idx) && !Oversized(idx) *)
Definition keepable (c : cfg) (b : body) : bool := (full_n c <=? count b) && (count b <? over_n c).

Fixpoint add_groups (gs : body) (seen : list group) : list group * body :=
  match gs with
  | [] => (seen, [])
  | g :: r =>
      if seen_has seen g then add_groups r seen
      else let '(s', a) := add_groups r (g :: seen) in (s', g :: a)
  end.

(* returns (content of the newly written index, ids of rewritten = obsolete indexes);
   [olds] in processing order *)
Fixpoint rewrite (c : cfg) (ex : list pid) (olds : list (iid * body)) (seen : list group) : body * list iid :=
  match olds with
  | [] => ([], [])
  | (i, b) :: r =>
      let gs := each_by_pack b ex in
      if keepable c b && negb (existsb (fun g => inl (fst g) ex) b) && negb (existsb (seen_has seen) gs)
      then rewrite c ex r (gs ++ seen)
      else
        let '(seen', add) := add_groups gs seen in
        let '(nb, ob) := rewrite c ex r seen' in
        (add ++ nb, i :: ob)
  end.

Definition rw (c : cfg) (s : st) : body * list iid := rewrite c (excl c s) (olds c s) [].
Definition removed (c : cfg) (s : st) : list iid := obsolete0 c s ++ snd (rw c s).

(* backend operations of the run, in order: new index files first, removals last *)
Inductive op := OSaveIdx (b : body) | ORmIdx (i : iid) | OSavePack (p : pid) | ORmPack (p : pid).

Definition nonempty_saves (l : list body) : list op :=
  flat_map (fun b => match b with [] => [] | _ => [OSaveIdx b] end) l.
Definition trace (c : cfg) (s : st) : list op :=
  nonempty_saves [new1 c s; fst (rw c s)] ++ map ORmIdx (removed c s).

(* backend state while the trace runs: remaining old index files, new index bodies, pack ids *)
Record bst := B { b_old : list idxfile; b_new : list body; b_packs : list pid }.
Definition init_bst (s : st) : bst := B (s_idx s) [] (map p_id (s_packs s)).
Definition apply_op (t : bst) (o : op) : bst :=
  match o with
  | OSaveIdx b => B (b_old t) (b_new t ++ [b]) (b_packs t)
  | ORmIdx i => B (filter (fun f => negb (i_id f =? i)) (b_old t)) (b_new t) (b_packs t)
  | OSavePack p => B (b_old t) (b_new t) (b_packs t ++ [p])
  | ORmPack p => B (b_old t) (b_new t) (filter (fun q => negb (q =? p)) (b_packs t))
  end.
Definition run (t : bst) (ops : list op) : bst := fold_left apply_op ops t.

Definition view_files (fs : list idxfile) : list pe :=
  flat (flat_map (fun f => match i_body f with Some b => b | None => [] end) fs).
(* what a reader of the repository sees as "the index" *)
Definition view (t : bst) : list pe := view_files (b_old t) ++ flat (concat (b_new t)).

Definition final_view (c : cfg) (s : st) : list pe := view (run (init_bst s) (trace c s)).

(* the specification: every blob of every readable pack at its true position, nothing else *)
Definition truth (s : st) : list pe := flat (hdr_groups (s_packs s)).

(* ---- boolean side ---- *)
Definition subset_pe (a b : list pe) : bool := forallb (fun x => mem_pe x b) a.
Definition set_eqb_pe (a b : list pe) : bool := subset_pe a b && subset_pe b a.
Definition subset_n (a b : list N) : bool := forallb (fun x => inl x b) a.
Definition set_eqb_n (a b : list N) : bool := subset_n a b && subset_n b a.

Fixpoint remove1_pe (x : pe) (l : list pe) : option (list pe) :=
  match l with
  | [] => None
  | y :: r => if pe_eqb x y then Some r else option_map (cons y) (remove1_pe x r)
  end.
Fixpoint perm_eqb_pe (a b : list pe) : bool :=
  match a with
  | [] => match b with [] => true | _ => false end
  | x :: r => match remove1_pe x b with Some b' => perm_eqb_pe r b' | None => false end
  end.

Fixpoint nodup_n (l : list N) : bool :=
  match l with [] => true | x :: r => negb (inl x r) && nodup_n r end.
(* the backend lists each file name once *)
Definition wfb (s : st) : bool := nodup_n (map p_id (s_packs s)) && nodup_n (map i_id (s_idx s)).

(* hypothesis of the theorem without --read-all-packs: a pack whose size computed from the
   loaded index equals its real size is described by the index exactly *)
Definition trustedb (c : cfg) (s : st) : bool :=
  forallb (fun pf =>
    if needs_read (memidx c s) pf then true
    else match p_hdr pf with
         | Some es => set_eqb_pe (map (pair (p_id pf)) (pack_entries (memidx c s) (p_id pf))) (map (pair (p_id pf)) es)
         | None => false
         end) (s_packs s).

Definition is_pack_op (o : op) : bool := match o with OSavePack _ | ORmPack _ => true | _ => false end.
(* no index file is written after the first index removal *)
Fixpoint saves_first (ops : list op) : bool :=
  match ops with
  | [] => true
  | ORmIdx _ :: r => forallb (fun o => match o with OSaveIdx _ => false | _ => true end) r && saves_first r
  | _ :: r => saves_first r
  end.
Definition rm_ids (ops : list op) : list iid := flat_map (fun o => match o with ORmIdx i => [i] | _ => [] end) ops.

(* observation of one real run *)
Record case := mk {
  c_cfg : cfg;
  c_st : st;
  c_err : bool;                (* RepairIndex returned an error *)
  c_ops : list op;             (* successful modifying backend ops in order (bodies of saves left empty) *)
  c_packs_after : list pid;    (* pack listing afterwards *)
  c_final : list pe;           (* all entries of all index files afterwards (with multiplicity) *)
  c_undecodable : N            (* index files present afterwards that cannot be loaded *)
}.

Definition clause_exact (c : case) : bool :=
  if wfb (c_st c) && trustedb (c_cfg c) (c_st c)
  then set_eqb_pe (c_final c) (truth (c_st c)) && (c_undecodable c =? 0)
  else true.
Definition clause_packs (c : case) : bool :=
  negb (existsb is_pack_op (c_ops c)) && set_eqb_n (c_packs_after c) (map p_id (s_packs (c_st c))).
Definition clause_order (c : case) : bool := saves_first (c_ops c).

Definition check_C33 (c : case) : bool := clause_exact c && clause_packs c && clause_order c.

Definition no_keepable (c : cfg) (s : st) : bool :=
  forallb (fun ib => negb (keepable c (snd ib))) (olds c s).

(* codes: 0 ok; 1 model <> implementation (final multiset / removed set / unexpected error);
   2 index after repair is not exactly the readable packs' content; 3 a pack file was added or
   removed; 4 an index file was written after an index file was removed *)
Definition check_case (c : case) : nat :=
  if negb (clause_exact c) then 2%nat
  else if negb (clause_packs c) then 3%nat
  else if negb (clause_order c) then 4%nat
  else if c_err c then 1%nat
  else if negb (wfb (c_st c)) then 1%nat
  else if negb (perm_eqb_pe (c_final c) (final_view (c_cfg c) (c_st c))) then 1%nat
  else if no_keepable (c_cfg c) (c_st c) && negb (set_eqb_n (rm_ids (c_ops c)) (removed (c_cfg c) (c_st c))) then 1%nat
  else if negb (subset_n (rm_ids (c_ops c)) (map i_id (s_idx (c_st c)))) then 1%nat
  else 0%nat.

End C33m.
