(* C34: repair packs (internal/repository/repair_pack.go: RepairPacks, resolveBlobsForPacks,
   reuploadBlobsFromPack; repository.go: streamPack/streamPackPart fallback to LoadBlob;
   index/master_index.go: ListPacks, Rewrite with excludePacks) and repair snapshots
   (cmd/restic/cmd_repair_snapshots.go: RewriteNode / RewriteFailedTree; internal/walker/rewriter.go:
   RewriteTree; cmd_rewrite.go: filterAndReplaceSnapshot).  Executable model only. *)
From Restic Require Import Base.Prelude.

Module C34m.
Open Scope N_scope.

Definition id := N.
Definition inl (x : N) (l : list N) : bool := existsb (N.eqb x) l.

(* ================= part A: repair packs ================= *)

(* an index or header entry of a pack; e_ok: the bytes at this position are present and verify *)
Record entry := En { e_h : id; e_off : N; e_len : N; e_ok : bool }.
Definition key_eqb (a b : entry) : bool := (e_h a =? e_h b) && (e_off a =? e_off b) && (e_len a =? e_len b).

(* what the index says about the pack (sorted by offset), what its header says (None: listPack
   fails or the file is gone), and whether the byte range covering all index / header entries
   can be read at all (false: truncated or missing file) *)
Record pack := Pk { p_id : id; p_present : bool; p_idx : list entry; p_hdr : option (list entry);
                    p_range_idx : bool; p_range_hdr : bool }.

Definition ent := (id * id * bool)%type.          (* index entry: pack, blob, bytes ok *)
Record bst := B { b_idx : list (N * list ent); b_packs : list id }.   (* index files, present packs *)

(* Repository.LoadBlob: some indexed copy in a present pack whose bytes verify *)
Definition ent_hit (packs : list id) (h : id) (x : ent) : bool :=
  (snd (fst x) =? h) && snd x && inl (fst (fst x)) packs.
Definition ld (t : bst) (h : id) : bool :=
  existsb (fun f => existsb (ent_hit (b_packs t) h) (snd f)) (b_idx t).

Definition view_of (packs : list pack) : list ent :=
  flat_map (fun p => map (fun e => (p_id p, e_h e, e_ok e)) (p_idx p)) packs.
Definition init (packs : list pack) : bst :=
  B [(0, view_of packs)] (map p_id (filter p_present packs)).

(* streamPackPart: direct read if the range can be loaded and the blob verifies, else LoadBlob *)
Definition delivered (t0 : bst) (range_ok : bool) (e : entry) : bool := (range_ok && e_ok e) || ld t0 (e_h e).
Definition differs (a b : list entry) : bool := negb (list_eqb key_eqb a b).
(* RepairPacks loop body for one pack: index entries, then header entries if they differ *)
Definition salv_pack (t0 : bst) (p : pack) : list id :=
  map e_h (filter (delivered t0 (p_range_idx p)) (p_idx p)) ++
  match p_hdr p with
  | Some hs => if differs (p_idx p) hs then map e_h (filter (delivered t0 (p_range_hdr p)) hs) else []
  | None => []
  end.
Definition targets (packs : list pack) (ids : list id) : list pack := filter (fun p => inl (p_id p) ids) packs.
Definition salvaged (packs : list pack) (ids : list id) : list id :=
  flat_map (salv_pack (init packs)) (targets packs ids).

(* the new pack and the index after Rewrite(excludePacks = ids) *)
Definition new_view (packs : list pack) (ids : list id) (newp : id) : list ent :=
  map (fun h => (newp, h, true)) (salvaged packs ids).
Definition final_view (packs : list pack) (ids : list id) (newp : id) : list ent :=
  filter (fun x => negb (inl (fst (fst x)) ids)) (view_of packs) ++ new_view packs ids newp.

Inductive aop := ASavePack (p : id) | ASaveIdx (tag : N) (v : list ent) | ARmIdx (tag : N) | ARmPack (p : id).
Definition apply_a (t : bst) (o : aop) : bst :=
  match o with
  | ASavePack p => B (b_idx t) (p :: b_packs t)
  | ASaveIdx tag v => B (b_idx t ++ [(tag, v)]) (b_packs t)
  | ARmIdx tag => B (filter (fun f => negb (fst f =? tag)) (b_idx t)) (b_packs t)
  | ARmPack p => B (b_idx t) (filter (fun q => negb (q =? p)) (b_packs t))
  end.
Definition run_a (t : bst) (ops : list aop) : bst := fold_left apply_a ops t.
(* upload (pack, then index), rewrite the index without the damaged packs, drop old index files,
   delete the damaged packs last *)
Definition trace_a (packs : list pack) (ids : list id) (newp : id) : list aop :=
  ASavePack newp :: ASaveIdx 1 (new_view packs ids newp) :: ASaveIdx 2 (final_view packs ids newp)
  :: ARmIdx 0 :: ARmIdx 1 :: map ARmPack ids.

(* blobs the property obliges the command to salvage: known entries whose bytes are readable *)
Definition must_salvage (packs : list pack) (ids : list id) : list id :=
  flat_map (fun p => map e_h (filter e_ok (p_idx p)) ++
                     match p_hdr p with
                     | Some hs => if differs (p_idx p) hs then map e_h (filter e_ok hs) else []
                     | None => []
                     end) (targets packs ids).
(* header readable => its entries' byte range is inside the file; readable bytes => file present *)
Definition wf_packs (packs : list pack) : bool :=
  forallb (fun p => (match p_hdr p with Some _ => p_range_hdr p | None => true end)
                    && (p_present p || negb (existsb e_ok (p_idx p)))) packs.

(* ================= part B: repair snapshots ================= *)
Inductive node := NFile (name : N) (content : list id) (size : N) | NDir (name : N) (sub : id)
                | NOther (name : N) | NBad (name : N).
Inductive item := IFile (content : list id) (size : N) | IDir | IOther | IBad.
Definition pitem := (list N * item)%type.
Inductive result := RFuel | RMissing | ROk (l : list pitem).

Fixpoint find {A} (l : list (id * A)) (k : id) : option A :=
  match l with [] => None | (q, v) :: r => if q =? k then Some v else find r k end.

Section Trav.
  Variable store : list (id * list node).     (* trees that can be loaded *)
  Variable sizes : list (id * N).             (* data blobs in the index with their sizes *)
  Definition has (b : id) : bool := match find sizes b with Some _ => true | None => false end.
  Definition sz (b : id) : N := match find sizes b with Some s => s | None => 0 end.
  Definition sumsz (c : list id) : N := fold_right (fun b a => sz b + a) 0 c.
  (* RewriteNode of repair snapshots *)
  Definition fix_item (it : item) : item :=
    match it with IFile c _ => IFile (filter has c) (sumsz (filter has c)) | x => x end.
  Definition not_bad (x : pitem) : bool := match snd x with IBad => false | _ => true end.

  (* walk a tree; repair=true is RewriteTree with the repair callbacks (unloadable subtree ->
     empty directory, invalid node types dropped, file contents reduced to indexed blobs) *)
  Fixpoint trav_nodes (rec : list N -> id -> result) (repair : bool) (path : list N) (ns : list node) : result :=
    match ns with
    | [] => ROk []
    | n :: r =>
        match trav_nodes rec repair path r with
        | ROk rest =>
            match n with
            | NBad nm => if repair then ROk rest else ROk ((path ++ [nm], IBad) :: rest)
            | NOther nm => ROk ((path ++ [nm], IOther) :: rest)
            | NFile nm c s => ROk ((path ++ [nm], if repair then fix_item (IFile c s) else IFile c s) :: rest)
            | NDir nm sub =>
                match rec (path ++ [nm]) sub with
                | RFuel => RFuel
                | RMissing => ROk ((path ++ [nm], IDir) :: rest)
                | ROk l => ROk ((path ++ [nm], IDir) :: l ++ rest)
                end
            end
        | other => other
        end
    end.
  Fixpoint trav (repair : bool) (fuel : nat) (path : list N) (tid : id) : result :=
    match fuel with
    | O => RFuel
    | S f =>
        match find store tid with
        | None => RMissing
        | Some nodes => trav_nodes (trav repair f) repair path nodes
        end
    end.

  (* every tree loads, no invalid node, every file complete with the right size *)
  Fixpoint intact (fuel : nat) (tid : id) : bool :=
    match fuel with
    | O => false
    | S f =>
        match find store tid with
        | None => false
        | Some nodes =>
            forallb (fun n => match n with
                              | NBad _ => false
                              | NOther _ => true
                              | NFile _ c s => forallb has c && (s =? sumsz c)
                              | NDir _ sub => intact f sub
                              end) nodes
        end
    end.

  Inductive outcome := OFuel | ORemoved | OUnmodified | OReplaced (l : list pitem).
  (* filterAndReplaceSnapshot: null tree -> snapshot removed; same tree -> untouched; else new snapshot *)
  Definition repair_snapshot (fuel : nat) (root : id) : outcome :=
    match trav true fuel [] root with
    | RFuel => OFuel
    | RMissing => ORemoved
    | ROk l => if intact fuel root then OUnmodified else OReplaced l
    end.
End Trav.

(* ================= observation ================= *)
Definition pair_eqb (a b : id * id) : bool := (fst a =? fst b) && (snd a =? snd b).
Definition memp (x : id * id) (l : list (id * id)) : bool := existsb (pair_eqb x) l.
Definition subset_n (a b : list N) : bool := forallb (fun x => inl x b) a.

Definition item_eqb (a b : item) : bool :=
  match a, b with
  | IFile c s, IFile c' s' => list_eqb N.eqb c c' && (s =? s')
  | IDir, IDir | IOther, IOther | IBad, IBad => true
  | _, _ => false
  end.
Definition pitem_eqb (a b : pitem) : bool := list_eqb N.eqb (fst a) (fst b) && item_eqb (snd a) (snd b).
Definition outcome_eqb (a b : outcome) : bool :=
  match a, b with
  | ORemoved, ORemoved | OUnmodified, OUnmodified | OFuel, OFuel => true
  | OReplaced l, OReplaced l' => list_eqb pitem_eqb l l'
  | _, _ => false
  end.

Inductive bop := BSavePack | BSaveIdx | BSaveSnap | BRmSnap (s : id) | BOther.

Record snapobs := So { so_id : id; so_root : id; so_out : outcome }.

Record case := mk {
  c_packs : list pack; c_ids : list id; c_newp : id;
  c_err_a : bool;                       (* repair packs returned an error *)
  c_ops_a : list aop;                   (* its successful backend operations (index views left empty) *)
  c_after : list (id * id);             (* (pack, blob) pairs of all index files after repair packs; new packs = c_newp *)
  c_packs_after : list id;              (* pack files present after repair packs; new packs = c_newp *)
  c_store : list (id * list node);      (* trees loadable after repair packs *)
  c_sizes : list (id * N);              (* data blobs in the index after repair packs, with sizes *)
  c_err_b : bool;                       (* repair snapshots --forget returned an error *)
  c_snaps : list snapobs;               (* per original snapshot: root tree and what happened *)
  c_ops_b : list bop;
  c_check_failed : bool                 (* check --read-data afterwards *)
}.

Definition resolvable_after (c : case) (h : id) : bool :=
  existsb (fun x => (snd x =? h) && negb (inl (fst x) (c_ids c)) && inl (fst x) (c_packs_after c)) (c_after c).

(* A1: everything readable in the damaged packs is available afterwards outside of them *)
Definition clause_salvage (c : case) : bool :=
  if wf_packs (c_packs c)
  then forallb (resolvable_after c) (must_salvage (c_packs c) (c_ids c)) else true.
(* A2: nothing that could be loaded before is lost *)
Definition clause_noloss (c : case) : bool :=
  forallb (fun x => implb (ld (init (c_packs c)) (snd (fst x))) (resolvable_after c (snd (fst x)))) (view_of (c_packs c)).
(* A3: uploads, then index removals, then pack removals; only the named packs are removed *)
Fixpoint order_a (ops : list aop) (phase : nat) : bool :=
  match ops with
  | [] => true
  | ASavePack _ :: r | ASaveIdx _ _ :: r => Nat.eqb phase 0 && order_a r 0
  | ARmIdx _ :: r => Nat.leb phase 1 && order_a r 1
  | ARmPack _ :: r => order_a r 2
  end.
Definition rm_packs (ops : list aop) : list id := flat_map (fun o => match o with ARmPack p => [p] | _ => [] end) ops.
Definition clause_order_a (c : case) : bool := order_a (c_ops_a c) 0 && subset_n (rm_packs (c_ops_a c)) (c_ids c).
(* B1: the repaired repository passes check *)
Definition clause_check (c : case) : bool := negb (c_check_failed c).
(* B2: files whose data is fully available are kept unchanged; snapshots with a loadable root survive *)
Definition good_file (sizes : list (id * N)) (x : pitem) : bool :=
  match snd x with IFile cn s => forallb (has sizes) cn && (s =? sumsz sizes cn) | _ => false end.
(* what C34_intact_files_unchanged obliges the rewrite to keep: complete files, directories, special files *)
Definition must_keep (sizes : list (id * N)) (x : pitem) : bool :=
  good_file sizes x || match snd x with IDir | IOther => true | _ => false end.
Definition clause_kept (c : case) : bool :=
  forallb (fun s =>
    match trav (c_store c) (c_sizes c) false 64 [] (so_root s) with
    | ROk orig =>
        match so_out s with
        | OReplaced l => forallb (fun x => implb (must_keep (c_sizes c) x) (existsb (pitem_eqb x) l)) orig
        | OUnmodified => true
        | _ => false
        end
    | _ => true
    end) (c_snaps c).
(* B3: the new snapshot is written before the old one is removed, after its trees were uploaded *)
Definition rm_before_save (ops : list bop) (replaced : list id) : bool :=
  (* a removal of a replaced snapshot must be preceded by at least as many snapshot saves as removals so far *)
  (fix go (ops : list bop) (saves rms : nat) : bool :=
     match ops with
     | [] => true
     | BSaveSnap :: r => go r (S saves) rms
     | BRmSnap s :: r => if inl s replaced then Nat.ltb rms saves && go r saves (S rms) else go r saves rms
     | _ :: r => go r saves rms
     end) ops 0%nat 0%nat.
Definition replaced_ids (l : list snapobs) : list id :=
  flat_map (fun s => match so_out s with OReplaced _ => [so_id s] | _ => [] end) l.
Definition clause_order_b (c : case) : bool := rm_before_save (c_ops_b c) (replaced_ids (c_snaps c)).

Definition check_C34 (c : case) : bool :=
  clause_salvage c && clause_noloss c && clause_order_a c && clause_check c && clause_kept c && clause_order_b c.

Definition model_after_ok (c : case) : bool :=
  let fv := final_view (c_packs c) (c_ids c) (c_newp c) in
  forallb (fun x => memp (fst x) (c_after c)) fv &&
  forallb (fun x => existsb (fun y => pair_eqb x (fst y)) fv) (c_after c).
Definition model_snaps_ok (c : case) : bool :=
  forallb (fun s => outcome_eqb (so_out s) (repair_snapshot (c_store c) (c_sizes c) 64 (so_root s))) (c_snaps c).

(* codes: 0 ok; 1 model <> implementation (index after repair packs, per-snapshot outcome, unexpected
   error); 2 readable blob not salvaged / loadable blob lost; 3 operation order (damaged pack or old
   snapshot removed too early, foreign pack removed); 4 check fails after the repairs; 5 a file whose
   data is fully available, a directory or a special file was changed or dropped *)
Definition check_case (c : case) : nat :=
  if negb (clause_salvage c && clause_noloss c) then 2%nat
  else if negb (clause_order_a c && clause_order_b c) then 3%nat
  else if negb (clause_check c) then 4%nat
  else if negb (clause_kept c) then 5%nat
  else if c_err_a c || c_err_b c then 1%nat
  else if negb (model_after_ok c) then 1%nat
  else if negb (model_snaps_ok c) then 1%nat
  else 0%nat.

End C34m.
