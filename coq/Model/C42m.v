(* C42: data.StreamTrees / filterTrees / loadTreeWorker (internal/data/tree_stream.go) and
   data.FindUsedBlobs (internal/data/find.go).  Executable model only.

   IDs are [N]; 0 is the null ID.  A store maps a tree ID to its decoded node list;
   absent / [None] = LoadTree or the node iterator reports an error.
   The filter goroutine is a worklist machine; the only nondeterminism is the [select]
   between handing the picked tree to a worker ([Send]) and receiving the result of any
   outstanding worker job ([Recv k]).  Worker [process] calls are accounted at [Recv]
   (they only insert data blobs, which commutes with everything the filter reads).

   Clients: FindUsedBlobs' process returns the load / decode error (modelled: [Err]).  The
   checker's process (Checker.Structure / checkTree) never returns an error but must report
   the damaged tree; the engine's whole-program scenarios "check-cli-*" / "cli-broken-tree-*" /
   "cli-undecodable-tree-*" run the real CLI (check, ls, find, dump, restore, diff, stats, backup
   --parent, copy, rewrite, recover, prune, repair snapshots) on a crafted snapshot and record
   "handled (an error exit where the whole tree is needed, never a crash)" as [o_err], so a
   reachable unreadable tree that is not reported - or a crash, as in the former defect F-C42-1
   (checkTree broke out of the iterator, subtreesCollector panicked; fixed in /repo fc99927bc) -
   fails clause 2.

   check_case codes: 0 ok; 2 error status differs from the specification; 3 tree-blob set wrong;
   4 data-blob set wrong; 5 process/load multiset is not "each reachable tree exactly once";
   6 progress counter wrong.  (1 is not used: every compared observable is part of the
   verified oracle, which is defined through the model run.) *)
From Restic Require Import Base.Prelude.

Module C42m.
Open Scope Z_scope.

Definition id := N.
Definition null : id := 0%N.

Inductive ntype := TFile | TDir | TOther.
Record node := mkn { n_type : ntype; n_sub : option id; n_content : list id }.
Definition tree := list node.
Definition store := list (id * option tree).

Fixpoint lookup (s : store) (t : id) : option tree :=
  match s with
  | [] => None
  | (k, v) :: r => if N.eqb k t then v else lookup r t
  end.

(* subtreesCollector: Type == dir && Subtree != nil *)
Definition node_subs (n : node) : list id :=
  match n_type n, n_sub n with TDir, Some s => [s] | _, _ => [] end.
Definition subtrees (tr : tree) : list id := flat_map node_subs tr.
(* FindUsedBlobs process: case NodeTypeFile: Content *)
Definition node_datas (n : node) : list id :=
  match n_type n with TFile => n_content n | _ => [] end.
Definition datas (tr : tree) : list id := flat_map node_datas tr.

Definition nonnull (t : id) : bool := negb (N.eqb t null).
Definition mem (t : id) (l : list id) : bool := existsb (N.eqb t) l.

Definition job := (id * nat)%type.   (* trackedID: tree, rootIdx *)

Record state := mkst {
  backlog : list job;      (* head = top of the stack (= end of the Go slice) *)
  pend : option job;       (* nextTreeID while loadCh != nil *)
  outst : list job;        (* jobs handed to workers, result not yet received *)
  seen : list id;          (* tree handles in the blob set (skip = test and set) *)
  dat : list id;           (* data handles in the blob set *)
  processed : list id;     (* process calls that returned nil, newest first *)
  cnt : list Z;            (* rootCounter *)
  prog : Z                 (* p.Add(1) calls *)
}.

Fixpoint upd (r : nat) (f : Z -> Z) (l : list Z) : list Z :=
  match l, r with
  | [], _ => []
  | x :: l', O => f x :: l'
  | x :: l', S r' => x :: upd r' f l'
  end.
Definition get (r : nat) (l : list Z) : Z := nth r l 0.

(* the loop head: while loadCh == nil && len(backlog) > 0: pop; if skip(..) {counter; continue} *)
Fixpoint pick (bl : list job) (sn : list id) (c : list Z) (g : Z)
  : list job * option job * list id * list Z * Z :=
  match bl with
  | [] => ([], None, sn, c, g)
  | (t, r) :: bl' =>
      if mem t sn then
        let c' := upd r (fun x => x - 1) c in
        let g' := if get r c' =? 0 then g + 1 else g in
        pick bl' sn c' g'
      else (bl', Some (t, r), t :: sn, c, g)
  end.

Definition normalize (st : state) : state :=
  match pend st with
  | Some _ => st
  | None =>
      match pick (backlog st) (seen st) (cnt st) (prog st) with
      | (bl, p, sn, c, g) => mkst bl p (outst st) sn (dat st) (processed st) c g
      end
  end.

Inductive choice := Send | Recv (k : nat).
Inductive res := Ok (st : state) | Err | Stuck.

Fixpoint take_nth {A} (k : nat) (l : list A) : option (A * list A) :=
  match l, k with
  | [], _ => None
  | x :: l', O => Some (x, l')
  | x :: l', S k' => match take_nth k' l' with Some (y, r) => Some (y, x :: r) | None => None end
  end.

Section Machine.
Variable St : store.

Definition step (st : state) (c : choice) : res :=
  match c with
  | Send =>
      match pend st with
      | None => Stuck
      | Some j => Ok (normalize (mkst (backlog st) None (j :: outst st) (seen st) (dat st)
                                      (processed st) (cnt st) (prog st)))
      end
  | Recv k =>
      match take_nth k (outst st) with
      | None => Stuck
      | Some ((t, r), rest) =>
          match lookup St t with
          | None => Err
          | Some tr =>
              let subs := filter nonnull (subtrees tr) in
              let c' := upd r (fun x => x - 1 + Z.of_nat (length subs)) (cnt st) in
              let g' := if get r c' =? 0 then prog st + 1 else prog st in
              Ok (normalize (mkst (map (fun s => (s, r)) subs ++ backlog st) (pend st) rest
                                  (seen st) (datas tr ++ dat st) (t :: processed st) c' g'))
          end
      end
  end.

Fixpoint run (st : state) (sch : list choice) : res :=
  match sch with
  | [] => Ok st
  | c :: r => match step st c with Ok st' => run st' r | e => e end
  end.

Definition terminalb (st : state) : bool :=
  match pend st, outst st with None, [] => true | _, _ => false end.

Definition canon (st : state) : choice :=
  match pend st with Some _ => Send | None => Recv 0 end.

Fixpoint exec (fuel : nat) (st : state) : res :=
  match fuel with
  | O => Stuck
  | S f =>
      if terminalb st then Ok st
      else match step st (canon st) with Ok st' => exec f st' | e => e end
  end.
End Machine.

Definition init (roots seen0 dat0 : list id) : state :=
  normalize (mkst (rev (combine roots (seq 0 (length roots)))) None [] seen0 dat0 []
                  (map (fun _ => 1) roots) 0).

Definition universe (St : store) (roots : list id) : list id :=
  roots ++ flat_map (fun kv => match snd kv with Some tr => subtrees tr | None => [] end) St.

Definition fuel0 (St : store) (roots : list id) : nat := (2 * length (universe St roots) + 2)%nat.

(* ---- cases and oracle ---- *)
Fixpoint inclb (a b : list id) : bool :=
  match a with [] => true | x :: a' => andb (mem x b) (inclb a' b) end.
Definition set_eqb (a b : list id) : bool := andb (inclb a b) (inclb b a).
Fixpoint nodupb (a : list id) : bool :=
  match a with [] => true | x :: a' => andb (negb (mem x a')) (nodupb a') end.

Record case := mk {
  c_store : store; c_roots : list id; c_seen0 : list id; c_dat0 : list id;
  o_err : bool;            (* FindUsedBlobs / StreamTrees returned an error *)
  o_trees : list id;       (* tree handles in the final set *)
  o_data : list id;        (* data handles in the final set *)
  o_loads : list id;       (* process calls (one entry per call) *)
  o_prog : Z               (* progress counter value *)
}.

Definition model (c : case) : res :=
  exec (c_store c) (fuel0 (c_store c) (c_roots c)) (init (c_roots c) (c_seen0 c) (c_dat0 c)).

Definition check_code (c : case) : nat :=
  match model c with
  | Stuck => 2%nat
  | Err => if o_err c then 0%nat else 2%nat
  | Ok st =>
      if o_err c then 2%nat
      else if negb (set_eqb (o_trees c) (seen st)) then 3%nat
      else if negb (set_eqb (o_data c) (dat st)) then 4%nat
      else if negb (andb (nodupb (o_loads c)) (set_eqb (o_loads c) (processed st))) then 5%nat
      else if negb (o_prog c =? prog st) then 6%nat
      else 0%nat
  end.

Definition check_C42 (c : case) : bool := Nat.eqb (check_code c) 0.
Definition check_case (c : case) : nat := check_code c.

End C42m.
