(* C07: unpacked files (index, snapshot, lock, key, config) decode to what was saved.
   internal/repository/repository.go: compressUnpacked, decompressUnpacked, saveUnpacked,
   verifyUnpacked, LoadUnpacked; internal/repository/raw.go: LoadRaw.  Executable model only.
   zstd, the AEAD (crypto.Key Seal/Open) and SHA-256 are function parameters. *)
From Restic Require Import Base.Prelude.

Module C07m.
Open Scope N_scope.

Inductive ftype := TConfig | TIndex | TSnapshot | TLock | TKey.
Inductive err := EShort | EInvalidData | EDecrypt | ENotSupported | EZstd | ENotFound | EVerify | EOther.
Inductive res := Ok (p : bytes) | Err (e : err).

Definition is_config (t : ftype) : bool := match t with TConfig => true | _ => false end.
Definition ftype_eqb (a b : ftype) : bool :=
  match a, b with
  | TConfig, TConfig | TIndex, TIndex | TSnapshot, TSnapshot | TLock, TLock | TKey, TKey => true
  | _, _ => false
  end.

(* compressUnpacked: version byte 2 + zstd frame from repository version 2 on *)
Definition compress_unpacked (zenc : bytes -> bytes) (v : N) (p : bytes) : bytes :=
  if v <? 2 then p else 2 :: zenc p.

(* decompressUnpacked *)
Definition decompress_unpacked (zdec : bytes -> option bytes) (v : N) (p : bytes) : res :=
  if v <? 2 then Ok p
  else match p with
       | [] => Ok p
       | c :: t =>
         if (c =? 91) || (c =? 123) then Ok p        (* '[' or '{': raw JSON of old repositories *)
         else if negb (c =? 2) then Err ENotSupported
         else match zdec t with Some x => Ok x | None => Err EZstd end
       end.

(* what is sealed / what comes out after opening, per file type *)
Definition encode_plain zenc (v : N) (t : ftype) (p : bytes) : bytes :=
  if is_config t then p else compress_unpacked zenc v p.
Definition decode_plain zdec (v : N) (t : ftype) (pl : bytes) : res :=
  if is_config t then Ok pl else decompress_unpacked zdec v pl.

Definition nonce_size : nat := 16.
Definition min_len : N := 32.           (* crypto.CiphertextLength(0) = nonce + MAC *)
Definition zero_id : bytes := repeat 0 32.

Section Full.
  Variable zenc : bytes -> bytes.
  Variable zdec : bytes -> option bytes.
  Variable seal : bytes -> bytes -> bytes.          (* nonce, plaintext -> ciphertext||mac *)
  Variable open : bytes -> bytes -> option bytes.   (* nonce, ciphertext||mac *)
  Variable hash : bytes -> bytes.

  (* verifyUnpacked: None = accepted *)
  Definition verify_unpacked (v : N) (t : ftype) (buf expected : bytes) : option err :=
    match open (firstn nonce_size buf) (skipn nonce_size buf) with
    | None => Some EDecrypt
    | Some pl =>
      match decode_plain zdec v t pl with
      | Err e => Some e
      | Ok x => if bytes_eqb x expected then None else Some EVerify
      end
    end.

  Definition store := list (ftype * bytes * bytes).
  Fixpoint lookup (t : ftype) (id : bytes) (st : store) : option bytes :=
    match st with
    | [] => None
    | (t', id', b) :: r => if ftype_eqb t t' && bytes_eqb id id' then Some b else lookup t id r
    end.

  (* saveUnpacked with the random nonce as input *)
  Definition save_unpacked (v : N) (t : ftype) (buf nonce : bytes) (st : store) : res * store :=
    let p := encode_plain zenc v t buf in
    let ct := nonce ++ seal nonce p in
    match verify_unpacked v t ct buf with
    | Some _ => (Err EVerify, st)
    | None => let id := if is_config t then zero_id else hash ct in (Ok id, (t, id, ct) :: st)
    end.

  (* LoadUnpacked (LoadRaw: the stored bytes must hash to the requested id, except config) *)
  Definition load_unpacked (v : N) (t : ftype) (id : bytes) (st : store) : res :=
    let id := if is_config t then zero_id else id in
    match lookup t id st with
    | None => Err ENotFound
    | Some buf =>
      if negb (is_config t) && negb (bytes_eqb id (hash buf)) then Err EInvalidData
      else if N.of_nat (length buf) <? min_len then Err EShort
      else match open (firstn nonce_size buf) (skipn nonce_size buf) with
           | None => Err EDecrypt
           | Some pl => decode_plain zdec v t pl
           end
    end.
End Full.

(* ---------- correspondence ---------- *)
(* what the harness finds in the backend for the requested handle *)
Inductive fstate :=
| FMissing
| FBadHash                 (* stored bytes do not hash to the name (not config) *)
| FShort                   (* fewer than 32 bytes *)
| FBadMac                  (* does not authenticate *)
| FPlain (pl : bytes).     (* authenticates; pl is the opened plaintext *)

Definition load_obs zdec (v : N) (t : ftype) (fs : fstate) : res :=
  match fs with
  | FMissing => Err ENotFound
  | FBadHash => Err EInvalidData
  | FShort => Err EShort
  | FBadMac => Err EDecrypt
  | FPlain pl => decode_plain zdec v t pl
  end.

(* zstd table observed by the harness: (plain, compressed, decodes_back) *)
Definition ztab := list (bytes * bytes * bool).
Fixpoint tab_enc (tb : ztab) (p : bytes) : bytes :=
  match tb with
  | [] => []
  | (pl, z, _) :: r => if bytes_eqb pl p then z else tab_enc r p
  end.
Fixpoint tab_dec (tb : ztab) (z : bytes) : option bytes :=
  match tb with
  | [] => None
  | (pl, z', ok) :: r => if bytes_eqb z z' then (if ok then Some pl else None) else tab_dec r z
  end.

Inductive case :=
(* real saveUnpacked + LoadUnpacked: version, type, payload, zstd table;
   observed: opened plaintext of the stored file, "name = SHA-256 of stored bytes (or zero id for config)",
   result of saveUnpacked ok?, result of LoadUnpacked *)
| CSave (v : N) (t : ftype) (p : bytes) (tb : ztab) (stored_plain : bytes) (id_ok : bool) (saved : bool) (loaded : res)
(* crafted file in the backend, then LoadUnpacked *)
| CLoad (v : N) (t : ftype) (fs : fstate) (tb : ztab) (loaded : res)
(* verifyUnpacked on a (possibly wrong) ciphertext: plaintext inside (None = does not authenticate), expected, accepted? *)
| CVerify (v : N) (t : ftype) (inner : option bytes) (expected : bytes) (tb : ztab) (accepted : bool).

Definition res_eqb (a b : res) : bool :=
  match a, b with
  | Ok x, Ok y => bytes_eqb x y
  | Err e, Err f =>
    match e, f with
    | EShort, EShort | EInvalidData, EInvalidData | EDecrypt, EDecrypt | ENotSupported, ENotSupported
    | EZstd, EZstd | ENotFound, ENotFound | EVerify, EVerify | EOther, EOther => true
    | _, _ => false
    end
  | _, _ => false
  end.
Definition is_err (r : res) : bool := match r with Err _ => true | Ok _ => false end.

(* unknown encoding version: version-2 repository, non-config, non-empty, first byte not 2 / '[' / '{' *)
Definition unknown_version (v : N) (t : ftype) (pl : bytes) : bool :=
  negb (v <? 2) && negb (is_config t) &&
  match pl with [] => false | c :: _ => negb ((c =? 2) || (c =? 91) || (c =? 123)) end.

Definition tab_lawful (tb : ztab) : bool := forallb (fun e => snd e) tb.

Definition check_C07 (c : case) : bool :=
  match c with
  | CSave v t p tb _ id_ok saved loaded => saved && id_ok && res_eqb loaded (Ok p)
  | CLoad v t fs tb loaded =>
    match fs with
    | FPlain pl => if unknown_version v t pl then is_err loaded else true
    | FMissing => true
    | _ => is_err loaded
    end
  | CVerify v t inner expected tb accepted =>
    (* accepted exactly when the file would load back as the expected bytes *)
    Bool.eqb accepted
      (match inner with
       | None => false
       | Some pl => res_eqb (decode_plain (tab_dec tb) v t pl) (Ok expected)
       end)
  end.

(* 0 ok; 1 model <> implementation; 2 saved bytes do not load back / id is not the hash;
   3 unknown encoding version (or damaged file) accepted; 4 verifyUnpacked accepts/rejects wrongly *)
Definition check_case (c : case) : nat :=
  if check_C07 c then
    match c with
    | CSave v t p tb stored_plain _ _ loaded =>
      if bytes_eqb stored_plain (encode_plain (tab_enc tb) v t p)
         && res_eqb loaded (decode_plain (tab_dec tb) v t stored_plain) then 0 else 1
    | CLoad v t fs tb loaded => if res_eqb loaded (load_obs (tab_dec tb) v t fs) then 0 else 1
    | CVerify _ _ _ _ _ _ => 0
    end
  else match c with CSave _ _ _ _ _ _ _ _ => 2 | CLoad _ _ _ _ _ => 3 | CVerify _ _ _ _ _ _ => 4 end.

End C07m.
