(* C19: restore leaves each selected file with exactly the snapshot content.
   Executable model only, per regular file node:
   internal/restorer/restorer.go   withOverwriteCheck / shouldOverwrite / verifyFile / fileState
   internal/restorer/filerestorer.go restoreFiles (sparse decision, matching-blob skipping, truncateFileToSize)
   internal/restorer/fileswriter.go createFile / ensureSize, sparsewrite.go WriteAt.
   File content is a list of cells (one cell = [cell] identical bytes in the harness, so that the
   repository's zero chunk of chunker.MinSize bytes stays small); offsets and sizes are in cells. *)
From Restic Require Import Base.Prelude Gen.ParamsC19.

Module C19m.

Definition data := list N.

Definition zeros (n : nat) : data := repeat 0%N n.
Definition rep (n : nat) (x : N) : data := repeat x n.

Fixpoint data_eqb (a b : data) : bool :=
  match a, b with
  | [], [] => true
  | x :: a', y :: b' => andb (N.eqb x y) (data_eqb a' b')
  | _, _ => false
  end.

(* number of cells of the repository's zero chunk *)
Definition zc_len : nat := Z.to_nat (ParamsC19.min_chunk_size / ParamsC19.cell).

Definition is_zero_chunk (b : data) : bool := data_eqb b (zeros zc_len).

(* ---- file primitives ---- *)
Definition pad (d : data) (n : nat) : data := d ++ zeros (n - length d).

(* pwrite: a write of no bytes does not extend the file *)
Definition write_at (d : data) (off : nat) (p : data) : data :=
  match p with
  | [] => d
  | _ => firstn off (pad d off) ++ p ++ skipn (off + length p) d
  end.

(* ftruncate: shorten, or extend with zeros *)
Definition truncate (d : data) (n : nat) : data := firstn n (pad d n).

Fixpoint zero_prefix_len (p : data) : nat :=
  match p with
  | x :: r => if N.eqb x 0 then S (zero_prefix_len r) else O
  | [] => O
  end.

(* partialFile.WriteAt *)
Definition file_write (sparse : bool) (d : data) (off : nat) (p : data) : data :=
  if sparse then
    let z := zero_prefix_len p in
    write_at d (off + z) (skipn z p)
  else write_at d off p.

(* ---- what is at the target path before the restore ---- *)
Inductive pre :=
| PAbsent
| PReg (d : data) (hardlinked readable mtime_eq : bool)
| PDir (nonempty : bool)
| PLink (dest : option data).   (* symlink; Some d: it points to a readable regular file with content d, which an
                                   open that follows symlinks would see; an O_NOFOLLOW open fails with ELOOP *)

Inductive fstate := FAbsent | FReg (d : data) | FDir | FLink.

Definition state_of (p : pre) : fstate :=
  match p with
  | PAbsent => FAbsent
  | PReg d _ _ _ => FReg d
  | PDir _ => FDir
  | PLink _ => FLink
  end.

Definition exists_pre (p : pre) : bool := match p with PAbsent => false | _ => true end.

Inductive owmode := OwAlways | OwIfChanged | OwIfNewer | OwNever.

Record opts := mkO {
  o_ow : owmode;
  o_newer : bool;     (* node.ModTime.After(destination mtime) *)
  o_sparse : bool;
  o_allow_rec : bool; (* --delete: createFile may RemoveAll *)
  o_root : bool       (* running as root: every existing regular file can be opened for reading *)
}.

(* shouldOverwrite *)
Definition should_overwrite (o : opts) (p : pre) : bool :=
  match o_ow o with
  | OwAlways | OwIfChanged => true
  | OwIfNewer => orb (negb (exists_pre p)) (o_newer o)
  | OwNever => negb (exists_pre p)
  end.

(* fileState: blobMatches, sizeMatches *)
Definition fstate_t := option (list bool * bool).

(* the blob loop of verifyFile (failFast = false) *)
Fixpoint vloop (d : data) (blobs : list data) (off : nat) (sm : bool) : list bool * bool :=
  match blobs with
  | [] => ([], sm)
  | b :: r =>
      if Nat.leb (off + length b) (length d) then
        let m := data_eqb b (firstn (length b) (skipn off d)) in
        let '(ms, s) := vloop d r (off + length b) sm in
        (m :: ms, s)
      else (map (fun _ => false) blobs, false)   (* io.EOF: sizeMatches = false; break *)
  end.

Definition needs_restore (st : fstate_t) : bool :=
  match st with
  | None => true
  | Some (ms, sm) => orb (negb sm) (existsb negb ms)
  end.

Definition total (blobs : list data) : nat := length (concat blobs).

Definition verify (o : opts) (p : pre) (blobs : list data) : fstate_t :=
  match p with
  | PReg d hardlinked readable mtime_eq =>
      if orb readable (o_root o) then
        let sm := Nat.eqb (total blobs) (length d) in
        let trust := match o_ow o with OwIfChanged => true | _ => false end in
        if andb (andb trust mtime_eq) sm then Some ([], true)
        else
          let st := Some (vloop d blobs 0 sm) in
          (* createFile replaces a multiply-linked file by a new empty one: nothing can be reused *)
          if andb hardlinked (needs_restore st) then None else st
      else None
  | _ => None   (* ENOENT, ELOOP (O_NOFOLLOW: the destination of a symlink is never looked at), not a regular file *)
  end.

Definition has_match (st : fstate_t) (i : nat) : bool :=
  match st with
  | None => false
  | Some (ms, _) => nth i ms false
  end.

(* ensureSize *)
Definition ensure_size (d : data) (size : nat) (sparse : bool) : data :=
  if sparse then truncate (match d with [] => d | _ => [] end) size   (* Truncate(0) of a reused file, then truncateSparse *)
  else if Nat.ltb size (length d) then firstn size d
  else pad d size.   (* fileio.PreallocateFile: fallocate extends the file to createSize *)

(* createFile: None = error (directory in the way that cannot be removed) *)
Definition create_file (o : opts) (p : pre) (size : nat) (sparse : bool) : option data :=
  match p with
  | PAbsent => Some (ensure_size [] size sparse)
  | PReg d hardlinked _ _ => Some (ensure_size (if hardlinked then [] else d) size sparse)
  | PLink _ => Some (ensure_size [] size sparse)
  | PDir nonempty => if andb nonempty (negb (o_allow_rec o)) then None else Some (ensure_size [] size sparse)
  end.

(* write the blobs that do not match, at their offsets *)
Fixpoint write_blobs (sparse : bool) (st : fstate_t) (d : data) (blobs : list data) (i off : nat) : data :=
  match blobs with
  | [] => d
  | b :: r =>
      let d' := if has_match st i then d else file_write sparse d off b in
      write_blobs sparse st d' r (S i) (off + length b)
  end.

Fixpoint any_unmatched (st : fstate_t) (blobs : list data) (i : nat) (only_zero_chunks : bool) : bool :=
  match blobs with
  | [] => false
  | b :: r => orb (andb (negb (has_match st i)) (orb (negb only_zero_chunks) (is_zero_chunk b)))
                  (any_unmatched st r (S i) only_zero_chunks)
  end.

(* result: final state of the path, and whether restore reported an error for the file *)
Definition restore_file (o : opts) (p : pre) (blobs : list data) : fstate * bool :=
  if negb (should_overwrite o p) then (state_of p, false)
  else
    let st := verify o p blobs in
    if negb (needs_restore st) then (state_of p, false)
    else
      let size := total blobs in
      let restored := any_unmatched st blobs 0 false in
      let sparse0 := andb (o_sparse o) (orb (any_unmatched st blobs 0 true) (Nat.eqb (length blobs) 1)) in
      let fsparse := match st with Some _ => false | None => sparse0 end in
      if negb restored then
        match create_file o p size false with
        | Some d => (FReg d, false)
        | None => (state_of p, true)
        end
      else
        match create_file o p size fsparse with
        | Some d => (FReg (write_blobs fsparse st d blobs 0 0), false)
        | None => (state_of p, true)
        end.

(* ---- the property as a decidable check on an observed outcome ---- *)
Definition fstate_eqb (a b : fstate) : bool :=
  match a, b with
  | FAbsent, FAbsent | FDir, FDir | FLink, FLink => true
  | FReg x, FReg y => data_eqb x y
  | _, _ => false
  end.

(* --overwrite if-changed trusts equal size & mtime (documented) *)
Definition trusted (o : opts) (p : pre) (blobs : list data) : bool :=
  match o_ow o, p with
  | OwIfChanged, PReg d _ readable mtime_eq =>
      andb (andb (orb readable (o_root o)) mtime_eq) (Nat.eqb (total blobs) (length d))
  | _, _ => false
  end.

Record case := mk {
  c_opts : opts;
  c_pre : pre;
  c_blobs : list data;
  c_final : fstate;       (* observed *)
  c_err : bool;           (* restore reported an error *)
  c_other_intact : bool   (* hard-linked: the other link still has the old content *)
}.

(* clauses: 2 = left untouched exactly when the mode says so; 3 = content differs from the snapshot after a
   successful restore; 4 = the other hard link was modified *)
Definition oracle_code (o : opts) (p : pre) (blobs : list data) (final : fstate) (err other_intact : bool) : nat :=
  if negb other_intact then 4
  else if negb (should_overwrite o p) then (if fstate_eqb final (state_of p) then 0 else 2)
  else if trusted o p blobs then (if fstate_eqb final (state_of p) then 0 else 2)
  else if err then 0
  else if fstate_eqb final (FReg (concat blobs)) then 0 else 3.

Definition check_C19 (c : case) : bool :=
  Nat.eqb (oracle_code (c_opts c) (c_pre c) (c_blobs c) (c_final c) (c_err c) (c_other_intact c)) 0.

Definition check_case (c : case) : nat :=
  match oracle_code (c_opts c) (c_pre c) (c_blobs c) (c_final c) (c_err c) (c_other_intact c) with
  | O =>
      let '(f, e) := restore_file (c_opts c) (c_pre c) (c_blobs c) in
      if andb (fstate_eqb f (c_final c)) (Bool.eqb e (c_err c)) then 0 else 1
  | n => n
  end.

End C19m.
