(* C37: internal/backend/sema/backend.go + semaphore.go — connection limit, lock-file exemption,
   Freeze/Unfreeze.  Executable model only.

   (1) Thread-level interleaving model.  Every backend call (Save/Load/Stat/Remove all share
       `defer be.typeDependentLimit(h.Type)()`) is a thread with a program counter:
         PStart  -- h.Valid() fails                        --> PDone   (error, nothing acquired)
         PStart  -- lock file: typeDependentLimit = no-op  --> PRun
         PStart  -- other types                            --> PWant
         PWant   -- sem.GetToken(), blocks while cap tokens are out --> PAtGate
         PAtGate -- freezeLock.Lock(), blocks while the mutex is held --> PInGate
         PInGate -- deferred freezeLock.Unlock()           --> PRun
         PRun    -- ctx.Err() != nil: return; else the inner backend op runs and returns;
                    deferred ReleaseToken                  --> PDone
       Freeze = freezeLock.Lock() by the controller (blocks while a thread is inside the gate),
       Unfreeze = Unlock.  A schedule is a list of actions; an action whose guard is false leaves
       the state unchanged (the goroutine stays blocked).
   (2) Count model of the quiescent states reached after each command of a test script, used for
       the correspondence check (which goroutine gets a token is scheduler-dependent, counts are not).

   check_case codes: 0 ok; 1 model <> implementation counts; 2 more than cap non-lock inner
   operations ran at the same time; 3 a valid lock-file operation had not started although it was
   launched (blocked by tokens or by the freeze); 4 a non-lock inner operation started while frozen. *)
From Restic Require Import Base.Prelude.

Module C37m.

Inductive pc := PStart | PWant | PAtGate | PInGate | PRun | PDone.
Record thread := mkT { t_lock : bool; t_valid : bool; t_cancel : bool; t_pc : pc }.
Inductive mtx := MFree | MFrozen | MThread (i : nat).
Record state := mkS { cap : nat; thr : list thread; mx : mtx }.

Definition with_pc (t : thread) (p : pc) : thread := mkT (t_lock t) (t_valid t) (t_cancel t) p.

Definition holds_token (t : thread) : bool :=
  andb (negb (t_lock t)) (match t_pc t with PAtGate | PInGate | PRun => true | _ => false end).
(* the inner backend operation is executing *)
Definition in_inner (t : thread) : bool :=
  andb (negb (t_cancel t)) (match t_pc t with PRun => true | _ => false end).

Fixpoint count (f : thread -> bool) (l : list thread) : nat :=
  match l with [] => 0 | t :: r => (if f t then 1 else 0) + count f r end.

Definition tokens (s : state) : nat := count holds_token (thr s).
Definition running_nonlock (s : state) : nat := count (fun t => andb (negb (t_lock t)) (in_inner t)) (thr s).

Fixpoint set_nth {A} (n : nat) (x : A) (l : list A) : list A :=
  match l, n with
  | [], _ => []
  | _ :: r, O => x :: r
  | y :: r, S m => y :: set_nth m x r
  end.

Inductive action := AStep (i : nat) | AFreeze | AUnfreeze.

Definition mtx_is_free (m : mtx) : bool := match m with MFree => true | _ => false end.

Definition step_thread (s : state) (i : nat) (t : thread) : state :=
  match t_pc t with
  | PStart =>
      if negb (t_valid t) then mkS (cap s) (set_nth i (with_pc t PDone) (thr s)) (mx s)
      else if t_lock t then mkS (cap s) (set_nth i (with_pc t PRun) (thr s)) (mx s)
      else mkS (cap s) (set_nth i (with_pc t PWant) (thr s)) (mx s)
  | PWant =>
      if Nat.ltb (tokens s) (cap s) then mkS (cap s) (set_nth i (with_pc t PAtGate) (thr s)) (mx s)
      else s
  | PAtGate =>
      if mtx_is_free (mx s) then mkS (cap s) (set_nth i (with_pc t PInGate) (thr s)) (MThread i)
      else s
  | PInGate => mkS (cap s) (set_nth i (with_pc t PRun) (thr s)) MFree
  | PRun => mkS (cap s) (set_nth i (with_pc t PDone) (thr s)) (mx s)
  | PDone => s
  end.

Definition step (s : state) (a : action) : state :=
  match a with
  | AStep i => match nth_error (thr s) i with Some t => step_thread s i t | None => s end
  | AFreeze => if mtx_is_free (mx s) then mkS (cap s) (thr s) MFrozen else s
  | AUnfreeze => match mx s with MFrozen => mkS (cap s) (thr s) MFree | _ => s end
  end.

Definition run (s : state) (sched : list action) : state := fold_left step sched s.

Definition init (n : nat) (ts : list (bool * bool * bool)) : state :=
  mkS n (map (fun x => mkT (fst (fst x)) (snd (fst x)) (snd x) PStart) ts) MFree.

(* ---- quiescence of the thread-level model (link to the count model) ---- *)
(* a thread that cannot move on its own (an inner operation that is running counts as stuck: its
   completion is the test script's Release command) *)
Definition stuck (s : state) (t : thread) : bool :=
  match t_pc t with
  | PStart => false
  | PWant => negb (Nat.ltb (tokens s) (cap s))
  | PAtGate => negb (mtx_is_free (mx s))
  | PInGate => false
  | PRun => negb (t_cancel t)
  | PDone => true
  end.
Definition quiescent (s : state) : bool := forallb (stuck s) (thr s).

(* non-lock, non-cancelled calls that are past the handle check and have not returned:
   q_wait + q_run of the count model *)
Definition pend (t : thread) : bool :=
  andb (negb (t_lock t)) (andb (negb (t_cancel t))
       (match t_pc t with PWant | PAtGate | PInGate | PRun => true | _ => false end)).
Definition pendN (s : state) : nat := count pend (thr s).

(* ---------- (2) quiescent count model ---------- *)
Inductive cmd :=
  | CLaunch (lock valid cancel : bool)   (* start one backend call in its own goroutine *)
  | CRelease (lock : bool)               (* let one running inner operation of that class return *)
  | CFreeze | CUnfreeze.

Record cstate := mkC {
  q_wait : nat;        (* valid, non-cancelled non-lock calls waiting for a token or at the gate *)
  q_waitc : nat;       (* the same with a cancelled context *)
  q_run : nat;         (* non-lock inner ops running *)
  q_runl : nat;        (* lock inner ops running *)
  q_frozen : bool;
  q_started : nat;     (* non-lock inner ops started so far *)
  q_startedl : nat;    (* lock inner ops started so far *)
  q_returned : nat     (* calls that have returned to their caller *)
}.

Definition cinit : cstate := mkC 0 0 0 0 false 0 0 0.

Definition apply_cmd (q : cstate) (c : cmd) : cstate :=
  match c with
  | CLaunch lock valid cancel =>
      if negb valid then mkC (q_wait q) (q_waitc q) (q_run q) (q_runl q) (q_frozen q) (q_started q) (q_startedl q) (S (q_returned q))
      else if lock then
        if cancel then mkC (q_wait q) (q_waitc q) (q_run q) (q_runl q) (q_frozen q) (q_started q) (q_startedl q) (S (q_returned q))
        else mkC (q_wait q) (q_waitc q) (q_run q) (S (q_runl q)) (q_frozen q) (q_started q) (S (q_startedl q)) (q_returned q)
      else if cancel then mkC (q_wait q) (S (q_waitc q)) (q_run q) (q_runl q) (q_frozen q) (q_started q) (q_startedl q) (q_returned q)
      else mkC (S (q_wait q)) (q_waitc q) (q_run q) (q_runl q) (q_frozen q) (q_started q) (q_startedl q) (q_returned q)
  | CRelease true =>
      match q_runl q with
      | O => q
      | S k => mkC (q_wait q) (q_waitc q) (q_run q) k (q_frozen q) (q_started q) (q_startedl q) (S (q_returned q))
      end
  | CRelease false =>
      match q_run q with
      | O => q
      | S k => mkC (q_wait q) (q_waitc q) k (q_runl q) (q_frozen q) (q_started q) (q_startedl q) (S (q_returned q))
      end
  | CFreeze => mkC (q_wait q) (q_waitc q) (q_run q) (q_runl q) true (q_started q) (q_startedl q) (q_returned q)
  | CUnfreeze => mkC (q_wait q) (q_waitc q) (q_run q) (q_runl q) false (q_started q) (q_startedl q) (q_returned q)
  end.

(* run every goroutine until nothing can move *)
Definition settle (n : nat) (q : cstate) : cstate :=
  if q_frozen q then q
  else
    let k := Nat.min (q_wait q) (n - q_run q) in
    let run' := q_run q + k in
    (* calls with a cancelled context need a token to get through: they all return once a token
       is free (test scripts never leave both kinds waiting for the same token) *)
    let ret := if Nat.ltb run' n then q_waitc q else 0 in
    mkC (q_wait q - k) (q_waitc q - ret) run' (q_runl q) false (q_started q + k) (q_startedl q) (q_returned q + ret).

(* observation after a command, at quiescence *)
Record obs := mkO {
  o_started : nat; o_startedl : nat; o_run : nat; o_runl : nat; o_returned : nat;
  o_maxconc : nat       (* highest number of non-lock inner ops seen running at once, so far *)
}.

Definition obs_of (q : cstate) (maxc : nat) : obs :=
  mkO (q_started q) (q_startedl q) (q_run q) (q_runl q) (q_returned q) maxc.

(* model run: list of (observation) per command; maxconc of the model = max of q_run *)
Fixpoint crun (n : nat) (q : cstate) (maxc : nat) (cs : list cmd) : list obs :=
  match cs with
  | [] => []
  | c :: r =>
      let q' := settle n (apply_cmd q c) in
      let m' := Nat.max maxc (q_run q') in
      obs_of q' m' :: crun n q' m' r
  end.

Definition obs_eqb (a b : obs) : bool :=
  andb (Nat.eqb (o_started a) (o_started b)) (andb (Nat.eqb (o_startedl a) (o_startedl b))
  (andb (Nat.eqb (o_run a) (o_run b)) (andb (Nat.eqb (o_runl a) (o_runl b))
  (andb (Nat.eqb (o_returned a) (o_returned b)) (Nat.eqb (o_maxconc a) (o_maxconc b)))))).

Record case := mk { c_cap : nat; c_cmds : list cmd; c_obs : list obs }.

(* ---- oracle on the implementation's observations ---- *)
(* clause 2: never more than cap non-lock inner ops at once *)
Definition limit_ok (n : nat) (os : list obs) : bool := forallb (fun o => Nat.leb (o_maxconc o) n) os.

(* clause 3: every valid, non-cancelled lock op launched so far has started, at every observation *)
Fixpoint lock_ok (launchedl : nat) (cs : list cmd) (os : list obs) : bool :=
  match cs, os with
  | c :: r, o :: r' =>
      let l' := match c with CLaunch true true false => S launchedl | _ => launchedl end in
      andb (Nat.eqb (o_startedl o) l') (lock_ok l' r r')
  | _, _ => true
  end.

(* clause 4: while frozen (from the observation of CFreeze up to the one before CUnfreeze) the number
   of started non-lock ops does not grow *)
Fixpoint frozen_ok (frozen_at : option nat) (cs : list cmd) (os : list obs) : bool :=
  match cs, os with
  | c :: r, o :: r' =>
      match c with
      | CFreeze => frozen_ok (Some (o_started o)) r r'
      | CUnfreeze => frozen_ok None r r'
      | _ =>
          andb (match frozen_at with Some k => Nat.eqb (o_started o) k | None => true end)
               (frozen_ok frozen_at r r')
      end
  | _, _ => true
  end.

Definition oracle_code (c : case) : nat :=
  if negb (limit_ok (c_cap c) (c_obs c)) then 2
  else if negb (lock_ok 0 (c_cmds c) (c_obs c)) then 3
  else if negb (frozen_ok None (c_cmds c) (c_obs c)) then 4
  else 0.

Definition check_C37 (c : case) : bool := Nat.eqb (oracle_code c) 0.

Definition check_case (c : case) : nat :=
  match oracle_code c with
  | O => if list_eqb obs_eqb (c_obs c) (crun (c_cap c) cinit 0 (c_cmds c)) then 0 else 1
  | n => n
  end.

End C37m.
