(* C46: internal/fuse/file.go — file.Open (cumsize, size fix) and openFile.Read. Executable model only.

   Inputs per position i of node.Content:
     lookup i : option N      what repo.LookupBlobSize answers (None = not found)
     blob   i : option bytes  what getBlobAt (blobCache.GetOrCompute / repo.LoadBlob) yields (None = error)
   Arithmetic: cumulative sizes are uint64 in Go; the model uses unbounded N for the sums
   (assumption: the sum of the blob sizes of one file is < 2^64) and writes the int64 -> uint64
   conversion of req.Offset and the uint64 subtraction `offset -= cumsize[start]` explicitly.

   check_case codes: 0 ok; 1 model <> implementation (oracle holds or says nothing);
                     2 read returned other bytes than the requested range of the file content, or (load
                       errors, index right) something that is neither an error nor exactly the requested range;
                     3 size reported after Open is not the sum of the blob sizes. *)
From Restic Require Import Base.Prelude.

Module C46m.
Open Scope N_scope.

Definition two64 : N := 18446744073709551616.

(* uint64(req.Offset) *)
Definition to_u64 (off : Z) : N := Z.to_N (off mod (Z.of_N two64)).
(* a - b on uint64 *)
Definition sub64 (a b : N) : N := if b <=? a then a - b else a + two64 - b.

(* ---- file.Open ---- *)
(* the loop over node.Content: running sum [acc]; result (bytes, cumsize[1..]) or None = "id not found" *)
Fixpoint cum_go (acc : N) (lk : list (option N)) : option (N * list N) :=
  match lk with
  | [] => Some (acc, [])
  | None :: _ => None
  | Some s :: r =>
      match cum_go (acc + s) r with
      | Some (t, l) => Some (t, (acc + s) :: l)
      | None => None
      end
  end.

Record opened := mkOpened { o_size : N; o_cum : list N }.

Definition open (node_size : N) (lk : list (option N)) : option opened :=
  match cum_go 0 lk with
  | None => None
  | Some (t, l) =>
      (* if bytes != node.Size { nodenew.Size = bytes } *)
      Some (mkOpened (if t =? node_size then node_size else t) (0 :: l))
  end.

(* ---- openFile.Read ---- *)
Inductive res := ROk (d : bytes) | RErr | RPanic.

(* sort.Search(len(cs), func(i) { return cs[i] > off }) on a sorted list: first index whose
   element is > off, len(cs) if none (cs is sorted: C46_cumsize_sorted) *)
Fixpoint search_gt (cs : list N) (off : N) : nat :=
  match cs with
  | [] => O
  | c :: r => if off <? c then O else S (search_gt r off)
  end.

(* sort.Search itself (binary search), with fuel; used to state that it agrees with search_gt *)
Fixpoint bsearch (fuel : nat) (f : nat -> bool) (i j : nat) : nat :=
  match fuel with
  | O => i
  | S fu =>
      if Nat.ltb i j then
        let h := Nat.div2 (i + j) in
        if f h then bsearch fu f i h else bsearch fu f (S h) j
      else i
  end.
Definition gt_at (cs : list N) (off : N) (i : nat) : bool := off <? nth i cs 0.
Definition search_bin (cs : list N) (off : N) : nat :=
  bsearch (S (length cs)) (gt_at cs off) O (length cs).

(* the copy loop: [blobs] = blobs from index i on, [off] = in-blob offset (only for the first), [rem] = remainingBytes *)
Fixpoint loop (blobs : list (option bytes)) (off : N) (rem : nat) : res :=
  match rem with
  | O => ROk []
  | _ =>
    match blobs with
    | [] => ROk []
    | None :: _ => RErr
    | Some b :: r =>
        if andb (0 <? off) (N.of_nat (length b) <? off) then RPanic (* blob[offset:] out of range *)
        else
          let b' := skipn (N.to_nat off) b in
          let copied := Nat.min rem (length b') in
          match loop r 0 (rem - copied) with
          | ROk d => ROk (firstn copied b' ++ d)
          | e => e
          end
    end
  end.

Definition read_with (search : list N -> N -> nat) (o : opened) (blobs : list (option bytes)) (off : Z) (size : nat) : res :=
  let offset := to_u64 off in
  if o_size o =? 0 then ROk []
  else
    match search (o_cum o) offset with
    | O => RPanic                                   (* cumsize[-1] *)
    | S start =>
        match nth_error (o_cum o) start with
        | None => RPanic
        | Some c =>
            let nblobs := (length (o_cum o) - 1)%nat in   (* loop bound i < len(cumsize)-1 *)
            loop (skipn start (firstn nblobs blobs)) (sub64 offset c) size
        end
    end.

Definition read := read_with search_gt.

(* Open followed by one Read *)
Inductive obs := OOpenErr | ORead (size_after_open : N) (r : res).

Definition open_read (node_size : N) (lk : list (option N)) (blobs : list (option bytes)) (off : Z) (size : nat) : obs :=
  match open node_size lk with
  | None => OOpenErr
  | Some o => ORead (o_size o) (read o blobs off size)
  end.

(* ---- concurrent readers over a shared blob cache (bloblru) ----
   Shared state: the cache (id -> bytes), changed by any reader's miss (insert) and by evictions
   chosen by the schedule.  One atomic step of a reader = one iteration of the copy loop:
   getBlobAt asks the cache for the blob (hit: cached bytes; miss: LoadBlob from the repository,
   insert), then copies.  All other state of Read is local to the reader. *)
Section Concurrent.
  Variable repo : nat -> bytes.                      (* blob id -> content (LoadBlob) *)
  Definition cache := list (nat * bytes).

  Fixpoint cache_get (c : cache) (id : nat) : option bytes :=
    match c with [] => None | (i, b) :: r => if Nat.eqb i id then Some b else cache_get r id end.

  (* GetOrCompute: returns the blob and the new cache *)
  Definition get_or_compute (c : cache) (id : nat) : bytes * cache :=
    match cache_get c id with
    | Some b => (b, c)
    | None => (repo id, (id, repo id) :: c)
    end.

  (* reader-local state of openFile.Read between two loop iterations *)
  Record reader := mkReader { r_ids : list nat; r_off : N; r_rem : nat; r_out : bytes; r_panic : bool }.

  Definition reader_done (r : reader) : bool :=
    if r_panic r then true else
    match r_rem r, r_ids r with O, _ => true | _, [] => true | _, _ => false end.

  (* one loop iteration *)
  Definition reader_step (c : cache) (r : reader) : reader * cache :=
    if reader_done r then (r, c) else
    match r_ids r with
    | [] => (r, c)
    | id :: ids =>
        let bc := get_or_compute c id in
        let b := fst bc in
        if andb (0 <? r_off r) (N.of_nat (length b) <? r_off r) then (mkReader ids 0 (r_rem r) (r_out r) true, snd bc)
        else
          let b' := skipn (N.to_nat (r_off r)) b in
          let copied := Nat.min (r_rem r) (length b') in
          (mkReader ids 0 (r_rem r - copied) (r_out r ++ firstn copied b') false, snd bc)
    end.

  (* schedule: which reader moves next, or the cache drops entries (any subset: LRU eviction,
     or another file's reads pushing entries out) *)
  Inductive action := Step (reader_ix : nat) | Evict (keep : list bool).

  Fixpoint filter_keep {A} (keep : list bool) (l : list A) : list A :=
    match l, keep with
    | x :: r, true :: k => x :: filter_keep k r
    | _ :: r, false :: k => filter_keep k r
    | l, [] => l
    | [], _ => []
    end.

  Fixpoint set_nth {A} (n : nat) (x : A) (l : list A) : list A :=
    match l, n with
    | [], _ => []
    | _ :: r, O => x :: r
    | y :: r, S m => y :: set_nth m x r
    end.

  Definition sys := (list reader * cache)%type.

  Definition sys_step (s : sys) (a : action) : sys :=
    match a with
    | Evict keep => (fst s, filter_keep keep (snd s))
    | Step i =>
        match nth_error (fst s) i with
        | None => s
        | Some r => let rc := reader_step (snd s) r in (set_nth i (fst rc) (fst s), snd rc)
        end
    end.

  Definition run (s : sys) (sched : list action) : sys := fold_left sys_step sched s.

  (* the response of a finished reader *)
  Definition reader_resp (r : reader) : res := if r_panic r then RPanic else ROk (r_out r).

  (* the reader state set up by Read before its loop (None = panic before the loop) *)
  Definition mk_reader (o : opened) (content : list nat) (off : Z) (size : nat) : option reader :=
    let offset := to_u64 off in
    if o_size o =? 0 then Some (mkReader [] 0 0 [] false)
    else
      match search_gt (o_cum o) offset with
      | O => None
      | S start =>
          match nth_error (o_cum o) start with
          | None => None
          | Some c =>
              let nblobs := (length (o_cum o) - 1)%nat in
              Some (mkReader (skipn start (firstn nblobs content)) (sub64 offset c) size [] false)
          end
      end.
End Concurrent.

(* ---- the property, declaratively ---- *)
(* exactly the requested range; written so that huge offsets are cheap to evaluate *)
Definition spec_read (data : bytes) (off : N) (n : nat) : bytes :=
  if N.of_nat (length data) <=? off then [] else firstn n (skipn (N.to_nat off) data).

Fixpoint all_some {A} (l : list (option A)) : option (list A) :=
  match l with
  | [] => Some []
  | None :: _ => None
  | Some x :: r => match all_some r with Some r' => Some (x :: r') | None => None end
  end.

Definition N_list_eqb := list_eqb N.eqb.

(* a consistent repository: every blob is indexed with its real length and loads without error *)
Definition consistent (lk : list (option N)) (blobs : list (option bytes)) : option (list bytes) :=
  match all_some lk, all_some blobs with
  | Some sizes, Some bs =>
      if N_list_eqb sizes (map (fun b => N.of_nat (length b)) bs) then Some bs else None
  | _, _ => None
  end.

Definition res_eqb (a b : res) : bool :=
  match a, b with
  | ROk x, ROk y => bytes_eqb x y
  | RErr, RErr | RPanic, RPanic => true
  | _, _ => false
  end.

Definition obs_eqb (a b : obs) : bool :=
  match a, b with
  | OOpenErr, OOpenErr => true
  | ORead s r, ORead s' r' => andb (s =? s') (res_eqb r r')
  | _, _ => false
  end.

Record case := mk {
  c_node_size : N;
  c_lookup : list (option N);
  c_blobs : list (option bytes);
  c_off : Z;
  c_size : nat;
  c_obs : obs
}.

(* oracle code: 0 = property holds on the observation (or the case is outside the property's
   hypotheses: inconsistent repository, negative offset) *)
Definition oracle_code (c : case) : nat :=
  match consistent (c_lookup c) (c_blobs c) with
  | None => 0%nat
  | Some bs =>
      let data := concat bs in
      match c_obs c with
      | OOpenErr => 3%nat
      | ORead s r =>
          if negb (s =? N.of_nat (length data)) then 3%nat
          else if (c_off c <? 0)%Z then 0%nat
          else if res_eqb r (ROk (spec_read data (Z.to_N (c_off c)) (c_size c))) then 0%nat else 2%nat
      end
  end.

Definition check_C46 (c : case) : bool := Nat.eqb (oracle_code c) 0.

(* ---- load errors: a read is either an error or exactly the requested range ----
   Repository whose index is right but where some blobs fail to load (None).  [range_opt] is the
   requested range when no failing blob is needed for it, None when one is.  *)
Fixpoint range_opt (sizes : list N) (blobs : list (option bytes)) (off : N) (n : nat) : option bytes :=
  match n with
  | O => Some []
  | _ =>
    match sizes, blobs with
    | sz :: sr, b :: br =>
        if sz <=? off then range_opt sr br (off - sz) n
        else
          match b with
          | None => None
          | Some x =>
              let part := firstn n (skipn (N.to_nat off) x) in
              match range_opt sr br 0 (n - length part) with
              | Some d => Some (part ++ d)
              | None => None
              end
          end
    | _, _ => Some []
    end
  end.

Fixpoint sizes_match (sizes : list N) (blobs : list (option bytes)) : bool :=
  match sizes, blobs with
  | [], [] => true
  | sz :: sr, b :: br =>
      andb (match b with Some x => N.of_nat (length x) =? sz | None => true end) (sizes_match sr br)
  | _, _ => false
  end.

(* true = clause holds or does not apply *)
Definition err_clause (c : case) : bool :=
  match consistent (c_lookup c) (c_blobs c), all_some (c_lookup c) with
  | None, Some sizes =>
      if andb (sizes_match sizes (c_blobs c)) (0 <=? c_off c)%Z then
        match c_obs c with
        | OOpenErr => true
        | ORead _ r =>
            match range_opt sizes (c_blobs c) (Z.to_N (c_off c)) (c_size c) with
            | Some d => orb (res_eqb r (ROk d)) (res_eqb r RErr)
            | None => res_eqb r RErr
            end
        end
      else true
  | _, _ => true
  end.

Definition check_case (c : case) : nat :=
  match oracle_code c with
  | O =>
      if negb (err_clause c) then 2%nat
      else if obs_eqb (c_obs c) (open_read (c_node_size c) (c_lookup c) (c_blobs c) (c_off c) (c_size c)) then 0%nat else 1%nat
  | n => n
  end.

End C46m.
