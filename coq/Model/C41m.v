(* C41: tree / node encoding (internal/data/node.go, internal/data/tree.go,
   internal/archiver/tree_saver.go).  Executable model only.

   Modelled by hand:
   - utf8.DecodeRuneInString / AppendRune / ValidString (stdlib, byte level)
   - strconv.Quote body (appendQuotedWith/appendEscapedRune, quote=dquote) generic in IsPrint
     for non-ASCII runes, strconv.Unquote (fast path + UnquoteChar loop)
   - encoding/json string escaping (appendString, escapeHTML=true) and its decoder (unquote)
   - Node.MarshalJSON / UnmarshalJSON for name, linktarget, linktarget_raw; fixTime
   - TreeJSONBuilder.AddNode / Finalize; treeSaver.save loop; treeIterator init/next at member level *)
From Restic Require Import Base.Prelude.

Module C41m.
Open Scope N_scope.

(* ---------- UTF-8 ---------- *)
Definition RE : N := 65533.
Definition cont (b : N) : bool := (128 <=? b) && (b <=? 191).
Definition in_rng (lo hi b : N) : bool := (lo <=? b) && (b <=? hi).

Definition decode_rune (s : bytes) : N * nat :=
  match s with
  | [] => (RE, 0%nat)
  | b0 :: t =>
    if b0 <? 128 then (b0, 1%nat)
    else if b0 <? 194 then (RE, 1%nat)
    else if b0 <? 224 then
      match t with
      | b1 :: _ => if cont b1 then ((b0 - 192) * 64 + (b1 - 128), 2%nat) else (RE, 1%nat)
      | _ => (RE, 1%nat)
      end
    else if b0 <? 240 then
      match t with
      | b1 :: b2 :: _ =>
        if in_rng (if b0 =? 224 then 160 else 128) (if b0 =? 237 then 159 else 191) b1 && cont b2
        then ((b0 - 224) * 4096 + (b1 - 128) * 64 + (b2 - 128), 3%nat) else (RE, 1%nat)
      | _ => (RE, 1%nat)
      end
    else if b0 <? 245 then
      match t with
      | b1 :: b2 :: b3 :: _ =>
        if in_rng (if b0 =? 240 then 144 else 128) (if b0 =? 244 then 143 else 191) b1 && cont b2 && cont b3
        then ((b0 - 240) * 262144 + (b1 - 128) * 4096 + (b2 - 128) * 64 + (b3 - 128), 4%nat)
        else (RE, 1%nat)
      | _ => (RE, 1%nat)
      end
    else (RE, 1%nat)
  end.

Definition valid_rune (r : N) : bool := (r <? 55296) || ((57343 <? r) && (r <=? 1114111)).

Definition encode_rune (r : N) : bytes :=
  if r <=? 127 then [r]
  else if r <=? 2047 then [192 + r / 64; 128 + r mod 64]
  else if negb (valid_rune r) then [239; 191; 189]
  else if r <=? 65535 then [224 + r / 4096; 128 + (r / 64) mod 64; 128 + r mod 64]
  else [240 + r / 262144; 128 + (r / 4096) mod 64; 128 + (r / 64) mod 64; 128 + r mod 64].

(* a decode step that is the invalid byte answer (RuneError, 1) *)
Definition is_bad (rw : N * nat) : bool := (fst rw =? RE) && Nat.eqb (snd rw) 1.

Fixpoint valid_utf8_go (fuel : nat) (s : bytes) : bool :=
  match fuel with
  | O => match s with [] => true | _ => false end
  | S f =>
    match s with
    | [] => true
    | _ => let rw := decode_rune s in
           if is_bad rw then false else valid_utf8_go f (skipn (snd rw) s)
    end
  end.
Definition valid_utf8 (s : bytes) : bool := valid_utf8_go (length s) s.

(* ---------- strconv.Quote body ---------- *)
Definition hexd (n : N) : N := if n <? 10 then 48 + n else 87 + n.
Fixpoint hexn (k : nat) (r : N) : bytes :=
  match k with
  | O => []
  | S k' => hexd ((r / 16 ^ N.of_nat k') mod 16) :: hexn k' r
  end.

(* unicode.IsPrint: exact on ASCII, [pr] (a table supplied by the harness) above *)
Definition isprint (pr : N -> bool) (r : N) : bool :=
  if r <? 128 then (32 <=? r) && (r <? 127) else pr r.

Definition esc_rune (pr : N -> bool) (r : N) : bytes :=
  if (r =? 34) || (r =? 92) then [92; r]
  else if isprint pr r then encode_rune r
  else if r =? 7 then [92; 97]
  else if r =? 8 then [92; 98]
  else if r =? 12 then [92; 102]
  else if r =? 10 then [92; 110]
  else if r =? 13 then [92; 114]
  else if r =? 9 then [92; 116]
  else if r =? 11 then [92; 118]
  else if (r <? 32) || (r =? 127) then [92; 120; hexd (r / 16); hexd (r mod 16)]
  else if negb (valid_rune r) then 92 :: 117 :: hexn 4 RE
  else if r <? 65536 then 92 :: 117 :: hexn 4 r
  else 92 :: 85 :: hexn 8 r.

Fixpoint quote_go (pr : N -> bool) (fuel : nat) (s : bytes) : bytes :=
  match fuel with
  | O => []
  | S f =>
    match s with
    | [] => []
    | b0 :: _ =>
      let rw := decode_rune s in
      if is_bad rw then [92; 120; hexd (b0 / 16); hexd (b0 mod 16)] ++ quote_go pr f (skipn 1 s)
      else esc_rune pr (fst rw) ++ quote_go pr f (skipn (snd rw) s)
    end
  end.
(* strconv.Quote(s)[1:len-1] *)
Definition quote (pr : N -> bool) (s : bytes) : bytes := quote_go pr (length s) s.

(* ---------- strconv.Unquote ---------- *)
Definition unhex (c : N) : option N :=
  if (48 <=? c) && (c <=? 57) then Some (c - 48)
  else if (97 <=? c) && (c <=? 102) then Some (c - 87)
  else if (65 <=? c) && (c <=? 70) then Some (c - 55)
  else None.

Fixpoint parse_hex (n : nat) (v : N) (s : bytes) : option (N * bytes) :=
  match n with
  | O => Some (v, s)
  | S n' => match s with
            | [] => None
            | c :: t => match unhex c with
                        | None => None
                        | Some x => parse_hex n' (v * 16 + x) t
                        end
            end
  end.

Definition is_oct (c : N) : bool := (48 <=? c) && (c <=? 55).

(* strconv.UnquoteChar(s, dquote): value, multibyte, tail *)
Definition unquote_char (inp : bytes) : option (N * bool * bytes) :=
  match inp with
  | [] => None
  | c :: t =>
    if c =? 34 then None
    else if 128 <=? c then let rw := decode_rune inp in Some (fst rw, true, skipn (snd rw) inp)
    else if negb (c =? 92) then Some (c, false, t)
    else match t with
         | [] => None
         | e :: s =>
           if e =? 97 then Some (7, false, s)
           else if e =? 98 then Some (8, false, s)
           else if e =? 102 then Some (12, false, s)
           else if e =? 110 then Some (10, false, s)
           else if e =? 114 then Some (13, false, s)
           else if e =? 116 then Some (9, false, s)
           else if e =? 118 then Some (11, false, s)
           else if e =? 120 then
             match parse_hex 2 0 s with Some (v, s') => Some (v, false, s') | None => None end
           else if e =? 117 then
             match parse_hex 4 0 s with
             | Some (v, s') => if valid_rune v then Some (v, true, s') else None
             | None => None end
           else if e =? 85 then
             match parse_hex 8 0 s with
             | Some (v, s') => if valid_rune v then Some (v, true, s') else None
             | None => None end
           else if is_oct e then
             match s with
             | d1 :: d2 :: s' =>
               if is_oct d1 && is_oct d2 then
                 let v := ((e - 48) * 8 + (d1 - 48)) * 8 + (d2 - 48) in
                 if 255 <? v then None else Some (v, false, s')
               else None
             | _ => None
             end
           else if e =? 92 then Some (92, false, s)
           else if e =? 34 then Some (34, false, s)
           else None
         end
  end.

(* the loop of strconv.unquote after the opening quote: Some (out, rest after closing quote) *)
Fixpoint unq_loop (fuel : nat) (inp acc : bytes) : option (bytes * bytes) :=
  match fuel with
  | O => None
  | S f =>
    match inp with
    | [] => None
    | c :: rest =>
      if c =? 34 then Some (acc, rest)
      else match unquote_char inp with
           | None => None
           | Some (r, mb, tail) =>
             if c =? 10 then None
             else unq_loop f tail (acc ++ (if (r <? 128) || negb mb then [r] else encode_rune r))
           end
    end
  end.

Fixpoint has (x : N) (s : bytes) : bool :=
  match s with [] => false | y :: t => (x =? y) || has x t end.

Fixpoint until_quote (s : bytes) : bytes :=
  match s with [] => [] | c :: t => if c =? 34 then [] else c :: until_quote t end.

(* strconv.Unquote(\ + q + \) *)
Definition unquote (q : bytes) : option bytes :=
  let inp := q ++ [34] in
  let pre := until_quote inp in
  if negb (has 92 pre) && negb (has 10 pre) && valid_utf8 pre then
    match skipn (S (length pre)) inp with [] => Some pre | _ => None end
  else match unq_loop (S (length inp)) inp [] with
       | Some (out, []) => Some out
       | _ => None
       end.

(* ---------- encoding/json string layer ---------- *)
Definition html_safe (b : N) : bool :=
  (32 <=? b) && (b <? 128) && negb ((b =? 34) || (b =? 38) || (b =? 60) || (b =? 62) || (b =? 92)).

Definition jesc_ascii (b : N) : bytes :=
  if html_safe b then [b]
  else if (b =? 92) || (b =? 34) then [92; b]
  else if b =? 8 then [92; 98]
  else if b =? 12 then [92; 102]
  else if b =? 10 then [92; 110]
  else if b =? 13 then [92; 114]
  else if b =? 9 then [92; 116]
  else [92; 117; 48; 48; hexd (b / 16); hexd (b mod 16)].

Fixpoint jesc_go (fuel : nat) (s : bytes) : bytes :=
  match fuel with
  | O => []
  | S f =>
    match s with
    | [] => []
    | b :: t =>
      if b <? 128 then jesc_ascii b ++ jesc_go f t
      else let rw := decode_rune s in
           if is_bad rw then [92; 117; 102; 102; 102; 100] ++ jesc_go f (skipn 1 s)
           else if (fst rw =? 8232) || (fst rw =? 8233)
                then [92; 117; 50; 48; 50; hexd (fst rw mod 16)] ++ jesc_go f (skipn (snd rw) s)
                else firstn (snd rw) s ++ jesc_go f (skipn (snd rw) s)
    end
  end.
(* body of the JSON string literal json.Marshal writes for a Go string (without the quotes) *)
Definition jesc (s : bytes) : bytes := jesc_go (length s) s.

(* decoder of a JSON string literal body (encoding/json unquoteBytes): None = syntax error *)
Definition is_surr_hi (v : N) := (55296 <=? v) && (v <? 56320).
Definition is_surr_lo (v : N) := (56320 <=? v) && (v <? 57344).

Fixpoint junesc_go (fuel : nat) (s : bytes) : option bytes :=
  match fuel with
  | O => match s with [] => Some [] | _ => None end
  | S f =>
    match s with
    | [] => Some []
    | c :: t =>
      if (c =? 34) || (c <? 32) then None
      else if c =? 92 then
        match t with
        | [] => None
        | e :: u =>
          let simple (x : N) := option_map (cons x) (junesc_go f u) in
          if (e =? 34) || (e =? 92) || (e =? 47) then simple e
          else if e =? 98 then simple 8
          else if e =? 102 then simple 12
          else if e =? 110 then simple 10
          else if e =? 114 then simple 13
          else if e =? 116 then simple 9
          else if e =? 117 then
            match parse_hex 4 0 u with
            | None => None
            | Some (v, u') =>
              if is_surr_hi v then
                (* a following \uDC00..DFFF completes the pair, else U+FFFD *)
                match u' with
                | 92 :: 117 :: w =>
                  match parse_hex 4 0 w with
                  | Some (v2, w') =>
                    if is_surr_lo v2
                    then option_map (app (encode_rune (65536 + (v - 55296) * 1024 + (v2 - 56320)))) (junesc_go f w')
                    else option_map (app (encode_rune RE)) (junesc_go f u')
                  | None => option_map (app (encode_rune RE)) (junesc_go f u')
                  end
                | _ => option_map (app (encode_rune RE)) (junesc_go f u')
                end
              else if is_surr_lo v then option_map (app (encode_rune RE)) (junesc_go f u')
              else option_map (app (encode_rune v)) (junesc_go f u')
            end
          else None
        end
      else if c <? 128 then option_map (cons c) (junesc_go f t)
      else let rw := decode_rune s in
           if is_bad rw then option_map (app (encode_rune RE)) (junesc_go f (skipn 1 s))
           else option_map (app (firstn (snd rw) s)) (junesc_go f (skipn (snd rw) s))
    end
  end.
Definition junesc (s : bytes) : option bytes := junesc_go (length s) s.

(* ---------- Node.MarshalJSON / UnmarshalJSON: name, linktarget, linktarget_raw ---------- *)
(* the JSON text of the name value (between the quotes) *)
Definition enc_name (pr : N -> bool) (name : bytes) : bytes := jesc (quote pr name).
(* value of the linktarget key as JSON text, and the linktarget_raw bytes (base64 layer left to
   encoding/json; the harness observes the decoded raw bytes) *)
Definition enc_target (t : bytes) : bytes * option bytes :=
  (jesc t, if valid_utf8 t then None else Some t).

Inductive dres := DOk (name target : bytes) | DErrJSON | DErrUnquote.
Definition dec_node (name_txt target_txt : bytes) (raw : option bytes) : dres :=
  match junesc name_txt, junesc target_txt with
  | Some n0, Some t0 =>
    match unquote n0 with
    | None => DErrUnquote
    | Some n => DOk n (match raw with Some r => r | None => t0 end)
    end
  | _, _ => DErrJSON
  end.

Definition roundtrip_node (pr : N -> bool) (name target : bytes) : dres :=
  let et := enc_target target in dec_node (enc_name pr name) (fst et) (snd et).

(* ---------- fixTime on the civil date in the time's own zone ---------- *)
Open Scope Z_scope.
Definition fix_time (ymd : Z * Z * Z) : Z * Z * Z :=
  let '(y, m, d) := ymd in
  if y <? 0 then (0, m, d)
  else if 9999 <? y then (if (m =? 2) && (d =? 29) then (9999, 3, 1) else (9999, m, d))
  else (y, m, d).
Open Scope N_scope.

(* ---------- TreeJSONBuilder ---------- *)
(* Go string comparison a <= b : bytewise lexicographic *)
Fixpoint bytes_leb (a b : bytes) : bool :=
  match a, b with
  | [], _ => true
  | _ :: _, [] => false
  | x :: a', y :: b' => if x <? y then true else if y <? x then false else bytes_leb a' b'
  end.
Definition bytes_ltb (a b : bytes) : bool := negb (bytes_leb b a).

Definition is_nil (s : bytes) : bool := match s with [] => true | _ => false end.

Record bstate := mkB { b_buf : bytes; b_last : bytes; b_count : nat }.
Definition hdr : bytes := [123; 34; 110; 111; 100; 101; 115; 34; 58; 91]. (* {nodes:[ *)
Definition trailer : bytes := [93; 125; 10].                             (* ]}\n *)
Definition b_init : bstate := mkB hdr [] 0.

(* node = (name, json.Marshal(node)) *)
Definition add_node (st : bstate) (n : bytes * bytes) : option bstate :=
  if bytes_leb (fst n) (b_last st) then None
  else Some (mkB (b_buf st ++ (if is_nil (b_last st) then [] else [44]) ++ snd n) (fst n) (S (b_count st))).
Definition finalize (st : bstate) : bytes := b_buf st ++ trailer.

Fixpoint build_go (st : bstate) (l : list (bytes * bytes)) : option bstate :=
  match l with
  | [] => Some st
  | n :: r => match add_node st n with None => None | Some st' => build_go st' r end
  end.
Definition build (l : list (bytes * bytes)) : option bytes := option_map finalize (build_go b_init l).

(* the declarative rendering *)
Fixpoint join_nodes (l : list (bytes * bytes)) : bytes :=
  match l with
  | [] => []
  | [n] => snd n
  | n :: r => snd n ++ [44] ++ join_nodes r
  end.
Definition render (l : list (bytes * bytes)) : bytes := hdr ++ join_nodes l ++ trailer.

Fixpoint strictly_sorted (last : bytes) (l : list bytes) : bool :=
  match l with
  | [] => true
  | x :: r => bytes_ltb last x && strictly_sorted x r
  end.

(* ---------- treeSaver.save loop ---------- *)
(* a future's result, in submission order. [cls] identifies all fields but the name:
   Node.Equals a b <-> same name and same cls (harness invariant) *)
Inductive item :=
| ICancel                         (* fnr.err == context.Canceled *)
| IErr (ignored : bool)           (* other error; errFn returns nil (ignored) or the error *)
| INil                            (* excluded: node == nil *)
| INode (name : bytes) (cls : N) (enc : bytes).

Inductive sres := SOk (blob : bytes) (warnings : nat) | SErrCancel | SErrItem | SErrOrder.

Definition node_eq (a b : bytes * N) : bool := bytes_eqb (fst a) (fst b) && (snd a =? snd b).

Fixpoint save_go (st : bstate) (last : option (bytes * N)) (warn : nat) (l : list item) : sres :=
  match l with
  | [] => SOk (finalize st) warn
  | ICancel :: _ => SErrCancel
  | IErr true :: r => save_go st last warn r
  | IErr false :: _ => SErrItem
  | INil :: r => save_go st last warn r
  | INode name cls enc :: r =>
    match add_node st (name, enc) with
    | Some st' => save_go st' (Some (name, cls)) warn r
    | None =>
      match last with
      | Some l0 => if node_eq (name, cls) l0 then save_go st (Some (name, cls)) (S warn) r else SErrOrder
      | None => SErrOrder
      end
    end
  end.
Definition save (l : list item) : sres := save_go b_init None 0 l.

(* nodes that reach the builder, with identical adjacent repeats removed *)
Fixpoint kept_go (last : option (bytes * N)) (l : list item) : list (bytes * bytes) :=
  match l with
  | [] => []
  | INode name cls enc :: r =>
    match last with
    | Some l0 => if node_eq (name, cls) l0 then kept_go last r else (name, enc) :: kept_go (Some (name, cls)) r
    | None => (name, enc) :: kept_go (Some (name, cls)) r
    end
  | _ :: r => kept_go last r
  end.

(* ---------- treeIterator at the level of object members ---------- *)
Inductive jval := JNodes (names : list bytes) | JOther (is_array : bool).
Inductive ires := IOk (names : list bytes) | IErrFormat.
Definition nodes_key : bytes := [110; 111; 100; 101; 115].
Fixpoint iter_nodes (ms : list (bytes * jval)) : ires :=
  match ms with
  | [] => IErrFormat                      (* '}' where a key was expected *)
  | (k, v) :: r =>
    if bytes_eqb k nodes_key then
      match v with
      | JNodes ns => IOk ns                (* later members are skipped by next() *)
      | JOther true => IOk []              (* an array of non-nodes is not generated by the harness *)
      | JOther false => IErrFormat
      end
    else iter_nodes r
  end.

(* ---------- correspondence cases ---------- *)
Definition pr_of (tbl : list N) (r : N) : bool := existsb (N.eqb r) tbl.

Inductive mres := MOk | MPanic | MErr.

Inductive case :=
(* utf8.DecodeRune on a byte string: observed rune and width, ValidString *)
| CUtf8 (s : bytes) (r : N) (w : nat) (valid : bool)
(* Node marshal+unmarshal: printable table, name, link target;
   observed: name text and target text inside the blob, decoded linktarget_raw,
   result of Node.UnmarshalJSON (name, target), Go-side equality of all other fields *)
| CNode (tbl : list N) (name target : bytes)
        (name_txt target_txt : bytes) (raw : option bytes) (dec : dres) (rest_equal : bool)
(* Node.UnmarshalJSON on a crafted name text *)
| CUnq (name_txt : bytes) (dec : dres)
(* fixTime: civil date before / after; inside says whether the instant was unchanged *)
| CTime (ymd ymd' : Z * Z * Z) (same_instant : bool)
(* TreeJSONBuilder: nodes; observed Finalize bytes (None = ordering error), and what the real tree
   iterator decodes from those bytes (names in order, or an error) *)
| CBuild (l : list (bytes * bytes)) (obs : option bytes) (dec : ires)
(* treeSaver.save: items; observed results of two runs with different completion orders *)
| CSave (l : list item) (obs1 obs2 : sres)
(* tree iterator *)
| CIter (ms : list (bytes * jval)) (obs : ires)
(* a decodable but incomplete snapshot / tree object (no tree id, directory node without subtree id),
   correctly authenticated, read by the real CLI in a subprocess: an error is fine, a crash is not *)
| CNoCrash (crashed : bool).

Definition dres_eqb (a b : dres) : bool :=
  match a, b with
  | DOk n t, DOk n' t' => bytes_eqb n n' && bytes_eqb t t'
  | DErrJSON, DErrJSON | DErrUnquote, DErrUnquote => true
  | _, _ => false
  end.
Definition sres_eqb (a b : sres) : bool :=
  match a, b with
  | SOk x w, SOk y w' => bytes_eqb x y && Nat.eqb w w'
  | SErrCancel, SErrCancel | SErrItem, SErrItem | SErrOrder, SErrOrder => true
  | _, _ => false
  end.
Definition ires_eqb (a b : ires) : bool :=
  match a, b with
  | IOk x, IOk y => list_eqb bytes_eqb x y
  | IErrFormat, IErrFormat => true
  | _, _ => false
  end.
Definition zt_eqb (a b : Z * Z * Z) : bool :=
  let '(y, m, d) := a in let '(y', m', d') := b in (y =? y')%Z && (m =? m')%Z && (d =? d')%Z.
Definition in_years (a : Z * Z * Z) : bool := let '(y, _, _) := a in (0 <=? y)%Z && (y <=? 9999)%Z.

(* the oracle: what the property demands of the implementation's observable *)
Definition check_C41 (c : case) : bool :=
  match c with
  | CUtf8 _ _ _ _ => true
  | CNode _ name target _ _ _ dec rest_equal => dres_eqb dec (DOk name target) && rest_equal
  | CUnq _ _ => true
  | CTime ymd ymd' same => if in_years ymd then zt_eqb ymd ymd' && same else in_years ymd'
  | CBuild l obs dec =>
    match obs with
    | Some b => strictly_sorted [] (map fst l) && bytes_eqb b (render l) && ires_eqb dec (IOk (map fst l))
    | None => true
    end
  | CSave l o1 o2 =>
    sres_eqb o1 o2 &&
    match o1 with
    | SOk b _ => strictly_sorted [] (map fst (kept_go None l)) && bytes_eqb b (render (kept_go None l))
    | _ => true
    end
  | CIter ms obs =>
    (* a well-formed tree object (the first nodes member holds the entries, whatever the other members
       contain) must decode to exactly those entries *)
    match iter_nodes ms with IOk ns => ires_eqb obs (IOk ns) | IErrFormat => true end
  | CNoCrash crashed => negb crashed
  end.

(* 0 ok; 1 model <> implementation; 2 oracle false (decoded node differs / time altered /
   blob not sorted, not the canonical rendering or not decoding to the inserted nodes / scheduling-dependent bytes / a tree object with unknown keys not decoding to its entries); 3 a CLI command crashed (panic) on an incomplete snapshot / tree object *)
Definition check_case (c : case) : nat :=
  if check_C41 c then
    match c with
    | CUtf8 s r w v =>
      let rw := decode_rune s in
      if (fst rw =? r) && Nat.eqb (snd rw) w && Bool.eqb (valid_utf8 s) v then 0 else 1
    | CNode tbl name target name_txt target_txt raw dec _ =>
      let et := enc_target target in
      if bytes_eqb name_txt (enc_name (pr_of tbl) name) && bytes_eqb target_txt (fst et)
         && option_eqb bytes_eqb raw (snd et) && dres_eqb dec (dec_node name_txt target_txt raw)
      then 0 else 1
    | CUnq txt dec => if dres_eqb dec (dec_node txt [] None) then 0 else 1
    | CTime ymd ymd' _ => if zt_eqb (fix_time ymd) ymd' then 0 else 1
    | CBuild l obs _ => if option_eqb bytes_eqb obs (build l) then 0 else 1
    | CSave l o1 _ => if sres_eqb o1 (save l) then 0 else 1
    | CIter ms obs => if ires_eqb obs (iter_nodes ms) then 0 else 1
    | CNoCrash _ => 0
    end
  else match c with CNoCrash _ => 3 | _ => 2 end.

End C41m.
