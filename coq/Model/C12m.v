(* C12: repository lock protocol (internal/repository/lock_file.go: newLock, checkForOtherLocks,
   forAllLocks, createLock, unlock, refresh/adoptReplacementLock, stale; lock.go: RemoveStaleLocks).
   Executable model only: a per-process protocol automaton (preq/pnext), the interleaving
   semantics over a shared lock directory, the case record and the boolean oracle.

   check_case codes: 0 ok; 1 model <> implementation (request sequence, outcomes or directory differ);
   2 two processes with conflicting locks both believe they hold (mutual exclusion violated);
   3 a process believes it holds a lock but owns no complete lock file in the directory;
   4 RemoveStaleLocks removed a lock that is neither older than the timeout nor of a dead local process.
   (forced-refresh races: 2 as above; 1 refreshStaleLock's verdict differs from forced_ok) *)
From Restic Require Import Base.Prelude.

Module C12m.

Definition pid := nat.
Definition fid := nat.

(* a lock file: never existed | owned by o and: visible but empty (upload in progress or torn) /
   complete / complete but unreadable (damaged) / removed.  File ids are never reused. *)
Inductive fkind := Empty | Full | Junk | Gone.
Inductive fstate := FNone | FFile (o : pid) (k : fkind).

Inductive outcome := OLocked | OErr | OInvalid | OReleased.

Inductive pstate :=
| PIdle
| PList (own : option fid) (tries : nat) (chk : list fid)        (* about to list the lock directory *)
| PLoad (own : option fid) (tries : nat) (new : list fid) (todo : list fid) (* loading listed locks one by one *)
| PCreate (f : fid)                                              (* own lock file f visible but not complete *)
| PWait (f : fid)                                                (* created, sleeping waitBeforeLockCheck *)
| PHold (f : fid)                                                (* newLock returned: believes it holds *)
| PRefCreate (f f' : fid)                                        (* refresh: replacement f' being uploaded *)
| PRefresh (f f' : fid)                                          (* refresh: replacement complete, old f to remove *)
| PFailUnlock (f : fid) (o : outcome)                            (* second check failed: removing own file *)
| PDone (o : outcome)
| PDead.

Inductive loadres := LLock (ex : bool) | LErr | LInvalid.
Inductive resp := RList (l : list (fid * bool)) | RLoad (r : loadres) | RSaved (f : fid) | ROk | RFail.
Inductive req := QList | QLoad (f : fid) | QSaveBegin | QSaveEnd (f : fid) | QSleep | QRemove (f : fid) | QNone.

Definition maxTries : nat := 4.   (* for i := range 4 in checkForOtherLocks *)

Fixpoint mem (f : fid) (l : list fid) : bool :=
  match l with [] => false | x :: r => orb (Nat.eqb f x) (mem f r) end.

Definition is_own (own : option fid) (f : fid) : bool :=
  match own with Some g => Nat.eqb f g | None => false end.

(* forAllLocks: skip excluded (already checked / own) ids and zero-size files *)
Definition mk_todo (own : option fid) (chk : list fid) (l : list (fid * bool)) : list fid :=
  map fst (filter (fun e => andb (andb (snd e) (negb (mem (fst e) chk))) (negb (is_own own (fst e)))) l).

Definition fail_final (own : option fid) (o : outcome) : pstate :=
  match own with None => PDone o | Some g => PFailUnlock g o end.

(* a round of checkForOtherLocks failed with a non-conflict error: retry while tries remain *)
Definition fail_round (own : option fid) (tries : nat) (new : list fid) (o : outcome) : pstate :=
  match tries with
  | S (S t) => PList own (S t) new
  | _ => fail_final own o
  end.

(* a round ended without error: check 1 continues with createLock, check 2 means the lock is held *)
Definition finish (own : option fid) (tries : nat) (new : list fid) (todo : list fid) : pstate :=
  match todo, own with
  | [], Some g => PHold g
  | _, _ => PLoad own tries new todo
  end.

Definition norm (st : pstate) : pstate :=
  match st with PIdle => PList None maxTries [] | _ => st end.

Definition preq (st : pstate) : req :=
  match norm st with
  | PList _ _ _ => QList
  | PLoad _ _ _ (f :: _) => QLoad f
  | PLoad None _ _ [] => QSaveBegin
  | PCreate f => QSaveEnd f
  | PWait _ => QSleep
  | PRefCreate _ f' => QSaveEnd f'
  | PRefresh f _ => QRemove f
  | PFailUnlock f _ => QRemove f
  | _ => QNone
  end.

Definition pnext (excl : bool) (st : pstate) (r : resp) : pstate :=
  match norm st, r with
  | PList own tries chk, RList l => finish own tries chk (mk_todo own chk l)
  | PList own tries chk, _ => fail_round own tries chk OErr
  | PLoad own tries new (f :: todo), RLoad (LLock ex) =>
      if orb excl ex then fail_final own OLocked else finish own tries (f :: new) todo
  | PLoad own tries new (f :: todo), RLoad LInvalid => fail_round own tries new OInvalid
  | PLoad own tries new (f :: todo), _ => fail_round own tries new OErr
  | PLoad None tries new [], RSaved f => PCreate f
  | PLoad None tries new [], _ => PDone OErr
  | PCreate f, ROk => PWait f
  | PCreate f, _ => PDone OErr
  | PWait f, _ => PList (Some f) maxTries []
  | PRefCreate f f', ROk => PRefresh f f'
  | PRefCreate f f', _ => PHold f
  | PRefresh f f', _ => PHold f'
  | PFailUnlock f o, _ => PDone o
  | st', _ => st'
  end.

(* ---- shared directory and interleaving semantics ---- *)

Record state := mkState { files : fid -> fstate; ps : pid -> pstate; next : fid }.

Definition updf {A} (m : nat -> A) (k : nat) (v : A) : nat -> A :=
  fun x => if Nat.eqb x k then v else m x.

Definition gone (x : fstate) : fstate :=
  match x with FFile o _ => FFile o Gone | FNone => FNone end.

Definition list_entry (fs : fid -> fstate) (f : fid) : list (fid * bool) :=
  match fs f with
  | FFile _ Empty => [(f, false)]
  | FFile _ Full | FFile _ Junk => [(f, true)]
  | _ => []
  end.

Definition listing (fs : fid -> fstate) (n : fid) : list (fid * bool) :=
  flat_map (list_entry fs) (seq 0 n).

Definition load_res (excl : pid -> bool) (fs : fid -> fstate) (f : fid) : loadres :=
  match fs f with
  | FFile o Full => LLock (excl o)
  | FFile _ Junk | FFile _ Empty => LInvalid
  | _ => LErr
  end.

(* one backend request of process p; fail = the backend answers this request with an error *)
Definition exec (excl : pid -> bool) (s : state) (p : pid) (q : req) (fail : bool)
  : (fid -> fstate) * fid * resp :=
  match q with
  | QList => (files s, next s, if fail then RFail else RList (listing (files s) (next s)))
  | QLoad f => (files s, next s, if fail then RLoad LErr else RLoad (load_res excl (files s) f))
  | QSaveBegin => if fail then (files s, next s, RFail)
                  else (updf (files s) (next s) (FFile p Empty), S (next s), RSaved (next s))
  | QSaveEnd f => if fail then (files s, next s, RFail)
                  else (updf (files s) f (FFile p Full), next s, ROk)
  | QRemove f => if fail then (files s, next s, RFail)
                 else (updf (files s) f (gone (files s f)), next s, ROk)
  | QSleep | QNone => (files s, next s, ROk)
  end.

Inductive action :=
| AStep (p : pid) (fail : bool)      (* next protocol step of p *)
| ARefresh (p : pid) (fail : bool)   (* a holder starts a refresh (createReplacementLock) *)
| ARelease (p : pid) (fail : bool)   (* a holder unlocks *)
| AStop (p : pid)                    (* crash, or context cancelled: stops believing; files stay *)
| AStale (g : fid)                   (* some unlock/RemoveStaleLocks removes g (only if not in use, see refs) *)
| ACorrupt (g : fid).                (* a complete lock file becomes unreadable *)

(* files a live process relies on: its current complete lock file and a file it is uploading *)
Definition refs (st : pstate) (g : fid) : bool :=
  match st with
  | PList (Some f) _ _ | PLoad (Some f) _ _ _ | PCreate f | PWait f | PHold f => Nat.eqb g f
  | PRefCreate f f' => orb (Nat.eqb g f) (Nat.eqb g f')
  | PRefresh _ f' => Nat.eqb g f'
  | _ => false
  end.

Definition run_req (excl : pid -> bool) (s : state) (p : pid) (q : req) (fail : bool)
                   (k : resp -> pstate) : state :=
  let '(fs, n, r) := exec excl s p q fail in
  mkState fs (updf (ps s) p (k r)) n.

Definition step (excl : pid -> bool) (s : state) (a : action) : state :=
  match a with
  | AStep p fail =>
      match ps s p with
      | PHold _ | PDone _ | PDead => s
      | st => run_req excl s p (preq st) fail (pnext (excl p) st)
      end
  | ARefresh p fail =>
      match ps s p with
      | PHold f => run_req excl s p QSaveBegin fail
                     (fun r => match r with RSaved f' => PRefCreate f f' | _ => PHold f end)
      | _ => s
      end
  | ARelease p fail =>
      match ps s p with
      | PHold f => run_req excl s p (QRemove f) fail (fun _ => PDone OReleased)
      | _ => s
      end
  | AStop p => mkState (files s) (updf (ps s) p PDead) (next s)
  | AStale g =>
      match files s g with
      | FFile o _ => if refs (ps s o) g then s
                     else mkState (updf (files s) g (gone (files s g))) (ps s) (next s)
      | FNone => s
      end
  | ACorrupt g =>
      match files s g with
      | FFile o Full => mkState (updf (files s) g (FFile o Junk)) (ps s) (next s)
      | _ => s
      end
  end.

Definition init : state := mkState (fun _ => FNone) (fun _ => PIdle) 0.

Definition run (excl : pid -> bool) (sched : list action) : state := fold_left (step excl) sched init.

Definition holding (st : pstate) : bool :=
  match st with PHold _ | PRefCreate _ _ | PRefresh _ _ => true | _ => false end.

(* ---- stale() and RemoveStaleLocks ---- *)
(* age and timeout in ms; samehost: lock hostname = os.Hostname(); alive: processExists *)
Definition stale (timeout age : Z) (samehost alive : bool) : bool :=
  orb (Z.ltb timeout age) (andb samehost (negb alive)).

(* ---- cases ---- *)

Inductive belief := BHold | BLocked | BErr | BInvalid | BReleased | BBusy | BDead.

Definition belief_of (st : pstate) : belief :=
  match st with
  | PHold _ | PRefCreate _ _ | PRefresh _ _ => BHold
  | PDone OLocked => BLocked | PDone OErr => BErr | PDone OInvalid => BInvalid | PDone OReleased => BReleased
  | PDead => BDead
  | _ => BBusy
  end.

Definition belief_eqb (a b : belief) : bool :=
  match a, b with
  | BHold, BHold | BLocked, BLocked | BErr, BErr | BInvalid, BInvalid | BReleased, BReleased
  | BBusy, BBusy | BDead, BDead => true
  | _, _ => false
  end.

Definition req_eqb (a b : req) : bool :=
  match a, b with
  | QList, QList | QSaveBegin, QSaveBegin | QSleep, QSleep | QNone, QNone => true
  | QLoad f, QLoad g | QSaveEnd f, QSaveEnd g | QRemove f, QRemove g => Nat.eqb f g
  | _, _ => false
  end.

(* a world case: exclusive flags of processes 0..n-1, the schedule that was executed (each
   protocol step with the request the real process issued), the final beliefs and the final
   directory (owner, non-empty) of the present lock files in creation order. *)
Inductive ev := EAct (a : action) (observed : req) | EEnv (a : action).

Record world := mkWorld {
  w_excl : list bool;
  w_sched : list ev;
  w_beliefs : list belief;
  w_dir : list (fid * (pid * bool))
}.

Record stalecase := mkStale {
  s_timeout : Z;
  s_locks : list (Z * bool * bool * bool);   (* age, samehost, alive, loadable *)
  s_removed : list bool
}.

(* forced refresh of a holder X whose lock went stale (refreshStaleLock: old lock listed? upload replacement,
   wait, old lock still listed? adopt : clean up), raced by a process Y that removes X's old lock file
   (unlock) and runs newLock.  old1 / old2: X's old lock file was present when X listed the first / second
   time; saveok: the replacement was uploaded; xok: the forced refresh reported success (X goes on
   believing); yok: Y acquired.  The backend answers Remove of a missing file with success. *)
Record forcedcase := mkForced {
  f_exclx : bool; f_excly : bool;
  f_old1 : bool; f_saveok : bool; f_old2 : bool;
  f_xok : bool; f_yok : bool
}.

(* the decision of refreshStaleLock *)
Definition forced_ok (old1 saveok old2 : bool) : bool := andb (andb old1 saveok) old2.

Inductive case := CWorld (w : world) | CStale (s : stalecase) | CForced (f : forcedcase).

Definition excl_of (l : list bool) : pid -> bool := fun p => nth p l false.

Definition act_req (s : state) (a : action) : req :=
  match a with
  | AStep p _ => preq (ps s p)
  | ARefresh _ _ => QSaveBegin
  | ARelease p _ => match ps s p with PHold f => QRemove f | _ => QNone end
  | _ => QNone
  end.

Fixpoint replay (excl : pid -> bool) (s : state) (l : list ev) : option state :=
  match l with
  | [] => Some s
  | EEnv a :: r => replay excl (step excl s a) r
  | EAct a o :: r => if req_eqb (act_req s a) o then replay excl (step excl s a) r else None
  end.

Definition dir_of (s : state) : list (fid * (pid * bool)) :=
  flat_map (fun f => match files s f with
                     | FFile o Empty => [(f, (o, false))]
                     | FFile o Full | FFile o Junk => [(f, (o, true))]
                     | _ => [] end) (seq 0 (next s)).

Definition dir_eqb (a b : list (fid * (pid * bool))) : bool :=
  list_eqb (fun x y => andb (Nat.eqb (fst x) (fst y))
                        (andb (Nat.eqb (fst (snd x)) (fst (snd y))) (Bool.eqb (snd (snd x)) (snd (snd y))))) a b.

(* oracle part 1: no two distinct processes with conflicting locks both believe they hold *)
Fixpoint no_conflict_with (e : bool) (l : list (bool * belief)) : bool :=
  match l with
  | [] => true
  | (e', b) :: r => andb (negb (andb (belief_eqb b BHold) (orb e e'))) (no_conflict_with e r)
  end.

Fixpoint mutexb (l : list (bool * belief)) : bool :=
  match l with
  | [] => true
  | (e, b) :: r => andb (if belief_eqb b BHold then no_conflict_with e r else true) (mutexb r)
  end.

(* oracle part 2: every believer owns a present non-empty lock file *)
Definition owns_file (d : list (fid * (pid * bool))) (p : pid) : bool :=
  existsb (fun x => andb (Nat.eqb (fst (snd x)) p) (snd (snd x))) d.

Fixpoint holders_have_files (d : list (fid * (pid * bool))) (p : pid) (l : list belief) : bool :=
  match l with
  | [] => true
  | b :: r => andb (if belief_eqb b BHold then owns_file d p else true) (holders_have_files d (S p) r)
  end.

(* oracle part 3: RemoveStaleLocks never removes a fresh lock of a live (or foreign) process *)
Fixpoint stale_safe (timeout : Z) (l : list (Z * bool * bool * bool)) (rm : list bool) : bool :=
  match l, rm with
  | (age, sh, al, ld) :: l', r :: rm' =>
      andb (if r then andb ld (stale timeout age sh al) else true) (stale_safe timeout l' rm')
  | [], [] => true
  | _, _ => false
  end.

Definition check_C12 (c : case) : bool :=
  match c with
  | CWorld w => andb (mutexb (combine (w_excl w) (w_beliefs w)))
                     (holders_have_files (w_dir w) 0 (w_beliefs w))
  | CStale s => stale_safe (s_timeout s) (s_locks s) (s_removed s)
  | CForced f => mutexb [(f_exclx f, if f_xok f then BHold else BErr); (f_excly f, if f_yok f then BHold else BLocked)]
  end.

Definition model_removed (timeout : Z) (l : list (Z * bool * bool * bool)) : list bool :=
  map (fun x => match x with (age, sh, al, ld) => andb ld (stale timeout age sh al) end) l.

Definition check_case (c : case) : nat :=
  match c with
  | CWorld w =>
      if negb (mutexb (combine (w_excl w) (w_beliefs w))) then 2
      else if negb (holders_have_files (w_dir w) 0 (w_beliefs w)) then 3
      else match replay (excl_of (w_excl w)) init (w_sched w) with
           | None => 1
           | Some s =>
               if andb (list_eqb belief_eqb (map (fun p => belief_of (ps s p)) (seq 0 (length (w_excl w)))) (w_beliefs w))
                       (dir_eqb (dir_of s) (w_dir w))
               then 0 else 1
           end
  | CStale s =>
      if negb (stale_safe (s_timeout s) (s_locks s) (s_removed s)) then 4
      else if list_eqb Bool.eqb (model_removed (s_timeout s) (s_locks s)) (s_removed s) then 0 else 1
  | CForced f =>
      if negb (mutexb [(f_exclx f, if f_xok f then BHold else BErr); (f_excly f, if f_yok f then BHold else BLocked)]) then 2
      else if Bool.eqb (forced_ok (f_old1 f) (f_saveok f) (f_old2 f)) (f_xok f) then 0 else 1
  end.

End C12m.
