(* C23: forget never removes a whole group and removes only what it reports.  Executable model only.

   Modelled Go code (current /repo): cmd/restic/cmd_forget.go runForget decision layer:
     explicit snapshot ids => exactly those are removed;
     otherwise GroupSnapshots (model C24m), policy.Empty / --unsafe-allow-remove-all / filter checks,
     ApplyPolicy per group (model C22m), the guard "refusing to delete last snapshot" (non-empty
     policy and empty keep list => error before anything is deleted), removal set = union of the
     groups' remove lists, --dry-run deletes nothing.
   [sel] = the snapshots FindAll selected (filter semantics are C24's subject).

   check_case codes: 0 ok; 1 model <> implementation (oracle holds);
     2 a snapshot file outside the selection / not reported as removed was deleted, or a reported one
       was not deleted (without --dry-run);   3 --dry-run or a failing command deleted something;
     4 a whole group was removed under a non-empty policy;
     5 an empty policy removed something without --unsafe-allow-remove-all + filter, or the command
       did not fail as documented;   6 explicit ids: deleted set differs from the named snapshots;
     7 `restic check` finds the repository damaged afterwards (prune hand-off after failed deletes). *)
From Restic Require Import Base.Prelude Model.C22m Model.C24m.

Module C23m.

Record snap := mkS { s_id : N; s_tm : C22m.tm; s_host : bytes; s_paths : list bytes; s_tags : list bytes }.
Definition to22 (s : snap) : C22m.snap := C22m.mkSn (s_id s) (s_tm s) (s_tags s).
Definition to24 (s : snap) : C24m.snap := C24m.mkSn (s_id s) 0%Z (s_host s) (s_tags s) (s_paths s).

Definition is_nil {A} (l : list A) : bool := match l with [] => true | _ => false end.

Fixpoint add_group (k : C24m.gkey) (s : snap) (gs : list (C24m.gkey * list snap)) :=
  match gs with
  | [] => [(k, [s])]
  | (k', l) :: r => if C24m.gkey_eqb k k' then (k', l ++ [s]) :: r else (k', l) :: add_group k s r
  end.
Definition group_by (o : C24m.gopts) (l : list snap) : list (C24m.gkey * list snap) :=
  fold_left (fun gs s => add_group (C24m.key_of o (to24 s)) s gs) l [].

(* ExpirePolicy.Empty *)
Definition policy_empty (p : C22m.policy) : bool :=
  is_nil (C22m.p_tags p) && forallb (Z.eqb 0) (C22m.p_counts p)
  && C22m.dur_zero (C22m.p_within p) && forallb C22m.dur_zero (C22m.p_withins p).

Inductive result :=
| ENoPolicy | EUnsafeNeedsFilter | EGuard | EOther
| Ok (removed : list N).

Record opts := mkO { o_ids : bool;              (* explicit snapshot ids given *)
                     o_group : C24m.gopts; o_pol : C22m.policy;
                     o_unsafe : bool; o_filter_empty : bool; o_dry : bool;
                     o_prune : bool;
                     o_bad_id : bool }.       (* some id argument does not resolve to exactly one snapshot
                                                 (empty string, white space, unknown or ambiguous prefix) *)

Definition group_remove (now : C22m.tm) (p : C22m.policy) (g : list snap) : list N * bool :=
  let vs := C22m.apply_policy now (map to22 g) p in
  (map (fun v => C22m.sn_id (C22m.v_snap v)) (filter (fun v => negb (C22m.kept v)) vs),
   is_nil (filter C22m.kept vs)).

Fixpoint groups_go (now : C22m.tm) (p : C22m.policy) (gs : list (C24m.gkey * list snap)) (acc : list N) : result :=
  match gs with
  | [] => Ok acc
  | (_, g) :: r =>
      let '(rm, keep_empty) := group_remove now p g in
      if negb (policy_empty p) && keep_empty then EGuard
      else groups_go now p r (acc ++ rm)
  end.

Definition run_forget (now : C22m.tm) (o : opts) (sel : list snap) : result :=
  if o_ids o then (if o_bad_id o then EOther else Ok (map s_id sel))
  else if policy_empty (o_pol o) && negb (o_unsafe o) then ENoPolicy
  else if policy_empty (o_pol o) && o_filter_empty o then EUnsafeNeedsFilter
  else groups_go now (o_pol o) (group_by (o_group o) sel) [].

Definition deleted (o : opts) (r : result) : list N :=
  match r with Ok rm => if o_dry o then [] else rm | _ => [] end.

Definition memN (i : N) (l : list N) : bool := existsb (N.eqb i) l.
Definition subsetN (a b : list N) : bool := forallb (fun i => memN i b) a.
Definition seteqN (a b : list N) : bool := subsetN a b && subsetN b a.
Definition diffN (a b : list N) : list N := filter (fun i => negb (memN i b)) a.

Inductive rkind := RNoPolicy | RUnsafeNeedsFilter | RGuard | ROther | ROk | RFailed.
Definition rkind_of (r : result) : rkind :=
  match r with ENoPolicy => RNoPolicy | EUnsafeNeedsFilter => RUnsafeNeedsFilter | EGuard => RGuard
             | EOther => ROther | Ok _ => ROk end.

(* the execution layer after the decision: ParallelRemove of the removal set ([fail] = snapshot
   files whose removal fails), "failed to remove" error BEFORE the prune hand-off, prune only after
   a fully successful (or dry) removal of a non-empty set *)
Record exec := mkX { x_deleted : list N; x_kind : rkind; x_prune : bool }.
Definition execute (o : opts) (fail : list N) (r : result) : exec :=
  match r with
  | Ok rm =>
      if o_dry o then mkX [] ROk (o_prune o && negb (is_nil rm))
      else if is_nil (filter (fun i => memN i fail) rm) then mkX rm ROk (o_prune o && negb (is_nil rm))
      else mkX (diffN rm fail) RFailed false
  | other => mkX [] (rkind_of other) false
  end.

(* ------------------------------------------------------------------ cases *)
Record case := mkCase {
  c_now : C22m.tm;
  c_opts : opts;
  c_all : list N;               (* snapshot ids before *)
  c_sel : list snap;            (* the selected ones (input order = processing order) *)
  c_fail : list N;              (* snapshot files whose Remove was made to fail by the harness *)
  c_kind : rkind;               (* how the command ended *)
  c_reported : option (list N); (* ids listed as "remove" in the JSON output, if any was printed *)
  c_after : list N;             (* snapshot ids afterwards *)
  c_check_ok : bool }.          (* `restic check` afterwards finds the repository intact *)

Definition rkind_eqb (a b : rkind) : bool :=
  match a, b with
  | RNoPolicy, RNoPolicy | RUnsafeNeedsFilter, RUnsafeNeedsFilter | RGuard, RGuard | ROther, ROther
  | ROk, ROk | RFailed, RFailed => true
  | _, _ => false
  end.

Definition oracle_code (c : case) : nat :=
  let o := c_opts c in
  let del := diffN (c_all c) (c_after c) in
  let sel_ids := map s_id (c_sel c) in
  let ok := rkind_eqb (c_kind c) ROk in
  let failed := rkind_eqb (c_kind c) RFailed in
  if negb (c_check_ok c) then 7%nat
  else if negb (subsetN (c_after c) (c_all c)) then 2%nat
  else if negb (subsetN del sel_ids) then 2%nat
  else if (o_dry o || negb (ok || failed)) && negb (is_nil del) then 3%nat
  else if failed && (is_nil (c_fail c) || o_dry o) then 2%nat
  else if negb (is_nil (filter (fun i => memN i (c_fail c)) del)) then 2%nat
  else if o_ids o && o_bad_id o && (ok || failed || negb (is_nil del)) then 6%nat
  else if o_ids o then
    (if (ok || failed) && negb (o_dry o) && negb (seteqN del (diffN sel_ids (c_fail c))) then 6%nat
     else if ok && negb (o_dry o) && negb (is_nil (filter (fun i => memN i (c_fail c)) sel_ids)) then 6%nat
     else 0%nat)
  else if policy_empty (o_pol o) && negb (o_unsafe o && negb (o_filter_empty o))
          && (negb (is_nil del) || ok || failed) then 5%nat
  else if negb (policy_empty (o_pol o))
          && negb (forallb (fun g : C24m.gkey * list snap =>
                              existsb (fun s => memN (s_id s) (c_after c)) (snd g))
                           (group_by (o_group o) (c_sel c))) then 4%nat
  else match c_reported c with
       | Some rep =>
           if ok && negb (o_dry o) && negb (seteqN del rep) then 2%nat
           else if failed && negb (seteqN del (diffN rep (c_fail c))) then 2%nat
           else 0%nat
       | None => 0%nat
       end.

Definition check_C23 (c : case) : bool := Nat.eqb (oracle_code c) 0.

Definition model_agrees (c : case) : bool :=
  let r := run_forget (c_now c) (c_opts c) (c_sel c) in
  let x := execute (c_opts c) (c_fail c) r in
  rkind_eqb (c_kind c) (x_kind x)
  && seteqN (diffN (c_all c) (c_after c)) (x_deleted x)
  && match c_reported c, r with
     | Some rep, Ok rm => seteqN rep rm
     | _, _ => true
     end.

Definition check_case (c : case) : nat :=
  match oracle_code c with
  | O => if model_agrees c then 0%nat else 1%nat
  | n => n
  end.

End C23m.
