(* C38: the local cache never changes what restic reads.  Executable model only.

   Modelled (one handle h at a time; other handles are independent files):
     internal/backend/cache/backend.go  cacheBackend.Load, loadFromCache, cacheFile, autoCacheTypes
     internal/backend/cache/file.go     Cache.load (too-short check, range), Cache.save (temp+rename =
                                        atomic replace), Cache.remove, Cache.Has, Cache.Forget (circuit breaker)
     internal/repository/raw.go         Repository.LoadRaw (hash check, Forget, one retry)
   Cache state of h: [option bytes] (file absent / its content).  Another process (or a stale /
   corrupted / partially written file) is an [env] action applied at the interference points:
   before an operation, between the first cache miss and cacheFile's Has (P1), inside a backend
   download before and after the cache file is written (b_pre / b_post), before and after Forget
   (P3 / P4).  Backend answers are a script of [bcall]s consumed one per Backend.Load.

   check_case codes: 0 ok; 1 model <> implementation; 2 a LoadRaw returned Ok with bytes that are
   not the repository's bytes; 3 a clean-cache ranged Load returned bytes different from the
   backend's range; 4 a LoadRaw with an intact backend and an unspent breaker did not answer the
   repository's bytes (corrupted cached copy not detected / not replaced). *)
From Restic Require Import Base.Prelude.

Module C38m.

Inductive ftype := TPackData | TPackMeta | TIndex | TSnapshot | TKey | TLock | TConfig.

(* cacheLayoutPaths has an entry: pack, snapshot, index *)
Definition can_cache (t : ftype) : bool :=
  match t with TPackData | TPackMeta | TIndex | TSnapshot => true | _ => false end.
(* autoCacheTypes *)
Definition auto_cache (t : ftype) : bool :=
  match t with TIndex | TSnapshot | TPackMeta => true | _ => false end.

Inductive env := ENone | EDel | EPut (b : bytes).
Definition env_apply (e : env) (c : option bytes) : option bytes :=
  match e with ENone => c | EDel => None | EPut b => Some b end.

(* one Backend.Load: what the wrapped backend serves as the whole file this time (None = error) *)
(* b_late: the stream breaks although part of the data (b_ans) was delivered, and Backend.Load
   returns an error: either the error surfaces only after the consumer has returned nil (short read
   detected by the backend afterwards), or the reader itself fails mid-stream (n>0 bytes, then a
   read error) and the consumer -- Cache.save's io.Copy, LoadRaw's buffer copy -- passes that error
   on.  Both give the same model behaviour: nothing of this download may stay in the cache. *)
Record bcall := mkCall { b_pre : env; b_ans : option bytes; b_post : env; b_late : bool }.

Inductive lres := LOk (d : bytes) | LErr.

(* bytes [off, off+len) of x, len = 0: to the end; None = file too short *)
Definition slice (x : bytes) (len off : nat) : option bytes :=
  if Nat.ltb (length x) (off + len) then None
  else Some (if Nat.eqb len 0 then skipn off x else firstn len (skipn off x)).

(* Cache.load + consumer: (inCache, result) *)
Definition load_from_cache (t : ftype) (c : option bytes) (len off : nat) : bool * lres :=
  if negb (can_cache t) then (false, LErr)
  else match c with
       | None => (false, LErr)
       | Some x => match slice x len off with
                   | None => (true, LErr)            (* "cached file is too short" *)
                   | Some d => (true, LOk d)
                   end
       end.

(* b.Backend.Load(ctx, h, length, offset, consumer) with a consumer that does not touch the cache *)
Definition be_plain (script : list bcall) (len off : nat) (c : option bytes) : lres * option bytes * list bcall :=
  match script with
  | [] => (LErr, c, [])
  | k :: rest =>
      let c' := env_apply (b_pre k) c in
      match b_ans k with
      | None => (LErr, c', rest)
      | Some x =>
          (if b_late k then LErr else match slice x len off with Some d => LOk d | None => LErr end,
           env_apply (b_post k) c', rest)
      end
  end.

(* cacheFile: (ok, cache, script) *)
Definition cache_file (c : option bytes) (script : list bcall) : bool * option bytes * list bcall :=
  match c with
  | Some _ => (true, c, script)                       (* Has(h): nothing to download *)
  | None =>
      match script with
      | [] => (false, None, [])
      | k :: rest =>
          match b_ans k with
          | None => (false, None, rest)               (* error: Cache.remove(h) *)
          | Some x =>
              if b_late k then (false, None, rest)    (* saved, then the download fails: Cache.remove(h) *)
              else (true, env_apply (b_post k) (Some x), rest)   (* Cache.save: atomic replace *)
          end
      end
  end.

(* cacheBackend.Load *)
Definition load (t : ftype) (len off : nat) (c : option bytes) (p1 : env) (script : list bcall)
  : lres * option bytes * list bcall :=
  let (inc, r) := load_from_cache t c len off in
  if inc then (r, c, script)
  else if negb (auto_cache t) then be_plain script len off c
  else
    let c1 := env_apply p1 c in
    match cache_file c1 script with
    | (false, c2, s2) => (LErr, c2, s2)
    | (true, c2, s2) =>
        let (inc2, r2) := load_from_cache t c2 len off in
        if inc2 then (r2, c2, s2)
        else be_plain s2 len off c2                  (* vanished again: fall back to the backend *)
    end.

(* Cache.Forget: (cache, forgotten, removed) *)
Definition forget (t : ftype) (c : option bytes) (forgotten : bool) : option bytes * bool * bool :=
  if forgotten then (c, true, false)                 (* circuit breaker *)
  else if negb (can_cache t) then (c, false, false)
  else match c with
       | Some _ => (None, true, true)
       | None => (None, false, false)
       end.

Inductive rres := ROk (b : bytes) | RInvalid (b : bytes) | RErr.

Record rstate := mkSt { s_cache : option bytes; s_forgotten : bool }.

Section Raw.
  Variable hash_ok : bytes -> bool.     (* restic.Hash(buf) == id *)

  (* environment of one LoadRaw: P1 of the first Load, P3, P4, P1 of the second Load *)
  Record renv := mkREnv { e_p1a : env; e_p3 : env; e_p4 : env; e_p1b : env }.

  (* Repository.LoadRaw: (result, state, remaining script, Forget removed the cached file) *)
  Definition load_raw (t : ftype) (st : rstate) (e : renv) (script : list bcall)
    : rres * rstate * list bcall * bool :=
    match load t 0 0 (s_cache st) (e_p1a e) script with
    | (r1, c1, s1) =>
        let good1 := match r1 with LOk b => hash_ok b | LErr => false end in
        let first := match r1 with LOk b => ROk b | LErr => RErr end in
        match t with
        | TConfig => (first, mkSt c1 (s_forgotten st), s1, false)
        | _ =>
          if good1 then (first, mkSt c1 (s_forgotten st), s1, false)
          else
            match forget t (env_apply (e_p3 e) c1) (s_forgotten st) with
            | (c2, f2, removed) =>
                match load t 0 0 (env_apply (e_p4 e) c2) (e_p1b e) s1 with
                | (r2, c3, s2) =>
                    (match r2 with
                     | LOk b => if hash_ok b then ROk b else RInvalid b
                     | LErr => RErr
                     end, mkSt c3 f2, s2, removed)
                end
            end
        end
    end.
End Raw.

(* ---- cases: a sequence of operations on one handle of one repository/cache ---- *)
Inductive opkind := OpRaw | OpLoad (len off : nat).
Record op := mkOp { o_before : env; o_kind : opkind; o_script : list bcall }.

(* observation of one op: result, cache file afterwards, number of backend loads it made *)
Inductive ores := OOk (b : bytes) | OInvalid (b : bytes) | OErr.
Record oobs := mkObs { ob_res : ores; ob_cache : option bytes; ob_calls : nat }.

Definition no_renv := mkREnv ENone ENone ENone ENone.

Definition run_op (truth : bytes) (t : ftype) (st : rstate) (o : op) : oobs * rstate :=
  let c0 := env_apply (o_before o) (s_cache st) in
  match o_kind o with
  | OpRaw =>
      match load_raw (bytes_eqb truth) t (mkSt c0 (s_forgotten st)) no_renv (o_script o) with
      | (r, st', rest, _) =>
          (mkObs (match r with ROk b => OOk b | RInvalid b => OInvalid b | RErr => OErr end)
                 (s_cache st') (length (o_script o) - length rest), st')
      end
  | OpLoad len off =>
      match load t len off c0 ENone (o_script o) with
      | (r, c', rest) =>
          (mkObs (match r with LOk b => OOk b | LErr => OErr end) c' (length (o_script o) - length rest),
           mkSt c' (s_forgotten st))
      end
  end.

Fixpoint run_ops (truth : bytes) (t : ftype) (st : rstate) (ops : list op) : list oobs :=
  match ops with
  | [] => []
  | o :: r => let (ob, st') := run_op truth t st o in ob :: run_ops truth t st' r
  end.

Definition ores_eqb (a b : ores) : bool :=
  match a, b with
  | OOk x, OOk y | OInvalid x, OInvalid y => bytes_eqb x y
  | OErr, OErr => true
  | _, _ => false
  end.
Definition oobs_eqb (a b : oobs) : bool :=
  andb (ores_eqb (ob_res a) (ob_res b))
       (andb (option_eqb bytes_eqb (ob_cache a) (ob_cache b)) (Nat.eqb (ob_calls a) (ob_calls b))).

Record case := mk {
  c_type : ftype;
  c_truth : bytes;                 (* the repository's bytes of this file: the id is their hash *)
  c_cache0 : option bytes;         (* initial cache file *)
  c_ops : list op;
  c_obs : list oobs
}.

(* environments and backend calls that only ever show the true bytes.  good: the call serves the
   whole true content; honest: it may also fail, or fail late after streaming a prefix of it *)
Definition env_clean (truth : bytes) (e : env) : bool :=
  match e with EPut b => bytes_eqb b truth | _ => true end.
Fixpoint is_prefix (p s : bytes) : bool :=
  match p, s with
  | [], _ => true
  | x :: p', y :: s' => andb (N.eqb x y) (is_prefix p' s')
  | _ :: _, [] => false
  end.
Definition call_clean (truth : bytes) (k : bcall) : bool :=
  andb (env_clean truth (b_pre k))
       (andb (env_clean truth (b_post k))
             (andb (negb (b_late k)) (match b_ans k with Some x => bytes_eqb x truth | None => false end))).
Definition call_honest (truth : bytes) (k : bcall) : bool :=
  andb (env_clean truth (b_pre k))
       (andb (env_clean truth (b_post k))
             (match b_ans k with
              | None => true
              | Some x => if b_late k then is_prefix x truth else bytes_eqb x truth
              end)).
Definition cache_clean (truth : bytes) (c : option bytes) : bool :=
  match c with Some x => bytes_eqb x truth | None => true end.
Definition op_clean (truth : bytes) (o : op) : bool :=
  andb (env_clean truth (o_before o)) (forallb (call_clean truth) (o_script o)).
Definition op_honest (truth : bytes) (o : op) : bool :=
  andb (env_clean truth (o_before o)) (forallb (call_honest truth) (o_script o)).

(* oracle, clause A (code 2): a LoadRaw never returns Ok with other bytes than the repository's *)
Fixpoint raw_ok (truth : bytes) (ops : list op) (obs : list oobs) : bool :=
  match ops, obs with
  | o :: r, ob :: r' =>
      andb (match o_kind o, ob_res ob with
            | OpRaw, OOk b => bytes_eqb b truth
            | _, _ => true
            end) (raw_ok truth r r')
  | _, _ => true
  end.

(* oracle, clause B (code 3): while everything the cache and the backend ever show is the true
   content (deletions, failing and late-failing downloads allowed), a ranged Load returns what the
   backend alone would return or an error -- never other bytes; and exactly the backend's answer
   when the op's own script has at least two calls that all serve the whole content *)
Fixpoint clean_prefix_ok (truth : bytes) (clean : bool) (ops : list op) (obs : list oobs) : bool :=
  match ops, obs with
  | o :: r, ob :: r' =>
      let clean' := andb clean (op_honest truth o) in
      andb (match o_kind o with
            | OpLoad len off =>
                let want := match slice truth len off with Some d => OOk d | None => OErr end in
                if clean' then
                  if andb (op_clean truth o) (Nat.leb 2 (length (o_script o)))
                  then ores_eqb (ob_res ob) want
                  else orb (ores_eqb (ob_res ob) want) (ores_eqb (ob_res ob) OErr)
                else true
            | OpRaw => true
            end) (clean_prefix_ok truth clean' r r')
  | _, _ => true
  end.

(* oracle, clause C (code 4): corrupted cached files are detected and replaced.  The model's view of
   the once-only breaker is threaded along: while it is unspent, a LoadRaw whose own script has at
   least two calls that all serve the whole true content answers Ok with the true bytes, whatever
   the cache held before (stale, truncated, foreign, deleted) *)
Definition is_config (t : ftype) : bool := match t with TConfig => true | _ => false end.
Fixpoint heal_ok (truth : bytes) (t : ftype) (st : rstate) (ops : list op) (obs : list oobs) : bool :=
  match ops, obs with
  | o :: r, ob :: r' =>
      let (_, st') := run_op truth t st o in
      andb (match o_kind o with
            | OpRaw =>
                if andb (negb (is_config t)) (andb (negb (s_forgotten st))
                        (andb (forallb (call_clean truth) (o_script o)) (Nat.leb 2 (length (o_script o)))))
                then ores_eqb (ob_res ob) (OOk truth) else true
            | OpLoad _ _ => true
            end) (heal_ok truth t st' r r')
  | _, _ => true
  end.

Definition oracle_code (c : case) : nat :=
  if negb (raw_ok (c_truth c) (c_ops c) (c_obs c)) then 2
  else if negb (clean_prefix_ok (c_truth c) (cache_clean (c_truth c) (c_cache0 c)) (c_ops c) (c_obs c)) then 3
  else if negb (heal_ok (c_truth c) (c_type c) (mkSt (c_cache0 c) false) (c_ops c) (c_obs c)) then 4
  else 0.

Definition check_C38 (c : case) : bool := Nat.eqb (oracle_code c) 0.

Definition check_case (c : case) : nat :=
  match oracle_code c with
  | O => if list_eqb oobs_eqb (c_obs c) (run_ops (c_truth c) (c_type c) (mkSt (c_cache0 c) false) (c_ops c)) then 0 else 1
  | n => n
  end.

End C38m.
