(* C24: snapshot filters, grouping and 'latest'.  Executable model only.

   Modelled Go code (current /repo):
     internal/data/snapshot.go        HasTags (empty-tag early return), HasTagList, HasPaths, HasHostname
     internal/data/snapshot_find.go   SnapshotFilter.matches, findLatest (timestamp limit, skip older,
                                      match, replace: a later-processed tie wins), FindAll without ids
     internal/data/snapshot_group.go  GroupSnapshots (key = host / sorted paths / sorted tags as selected)
   Strings are byte strings; sort.Strings is byte-wise lexicographic.  Times are instants (ns).

   check_case codes: 0 ok; 1 model <> implementation (oracle holds);
     2 FindAll returned a snapshot that does not satisfy the filter, or missed one that does;
     3 'latest' wrong: result does not match / is after the limit / a newer matching snapshot within
       the limit exists / nothing found although one exists;
     4 grouping: a snapshot is in no or several groups, a member's key differs from its group's key,
       or two groups have the same key;
     5 explicit ids: a named snapshot is not delivered, or (without 'latest') something else / a
       snapshot twice is delivered. *)
From Restic Require Import Base.Prelude.

Module C24m.
Open Scope Z_scope.

Record snap := mkSn { sn_id : N; sn_time : Z; sn_host : bytes; sn_tags : list bytes; sn_paths : list bytes }.
Record filt := mkF { f_hosts : list bytes; f_tags : list (list bytes); f_paths : list bytes;
                     f_limit : option Z (* None = zero time = no limit *) }.

Definition is_nil {A} (l : list A) : bool := match l with [] => true | _ => false end.
Definition mem (t : bytes) (l : list bytes) : bool := existsb (bytes_eqb t) l.

Fixpoint has_tags (tags l : list bytes) : bool :=
  match l with
  | [] => true
  | t :: l' => if is_nil t && is_nil tags then true
               else if mem t tags then has_tags tags l' else false
  end.
Definition has_tag_list (tags : list bytes) (ls : list (list bytes)) : bool :=
  if is_nil ls then true else existsb (has_tags tags) ls.
Definition has_paths (paths want : list bytes) : bool := forallb (fun p => mem p paths) want.
Definition has_hostname (host : bytes) (hosts : list bytes) : bool :=
  if is_nil hosts then true else mem host hosts.

Definition matches (f : filt) (s : snap) : bool :=
  has_hostname (sn_host s) (f_hosts f) && has_tag_list (sn_tags s) (f_tags f) && has_paths (sn_paths s) (f_paths f).

(* FindAll without explicit ids, in processing order *)
Definition find_all (f : filt) (l : list snap) : list snap := filter (matches f) l.

(* findLatest over the processing order *)
Definition latest_step (f : filt) (latest : option snap) (s : snap) : option snap :=
  if (match f_limit f with Some lim => sn_time s >? lim | None => false end) then latest
  else if (match latest with Some b => sn_time s <? sn_time b | None => false end) then latest
  else if negb (matches f s) then latest
  else Some s.
Definition find_latest (f : filt) (l : list snap) : option snap := fold_left (latest_step f) l None.

(* ---- FindAll with explicit snapshot arguments ----
   An argument is "latest", "latest:<sub>", or an id / id prefix (resolved by FindSnapshot: C57),
   possibly with a ":<sub>" suffix.  [AId r sub]: r = Some id when the id resolves, None when
   FindSnapshot fails.  The callback is called with a snapshot or with an error; here it always
   continues. *)
Inductive arg := ALatest | ALatestSub | AId (r : option N) (sub : bool).
Inductive ev := EvSnap (i : N) | EvErr.

Definition memN (i : N) (l : list N) : bool := existsb (N.eqb i) l.
Definition filter_empty (f : filt) : bool := is_nil (f_hosts f) && is_nil (f_tags f) && is_nil (f_paths f).

Fixpoint ids_go (f : filt) (l : list snap) (used : bool) (ids : list N) (args : list arg) : list ev :=
  match args with
  | [] => if negb used && negb (filter_empty f) then [EvErr] else []
  | ALatest :: r =>
      if used then ids_go f l used ids r
      else match find_latest f l with
           | Some s => EvSnap (sn_id s) :: ids_go f l true (sn_id s :: ids) r
           | None => EvErr :: ids_go f l true ids r
           end
  | ALatestSub :: r => EvErr :: ids_go f l used ids r
  | AId None _ :: r => EvErr :: ids_go f l used ids r
  | AId (Some i) true :: r => EvErr :: ids_go f l used ids r
  | AId (Some i) false :: r =>
      if memN i ids then ids_go f l used ids r
      else EvSnap i :: ids_go f l used (i :: ids) r
  end.
Definition find_ids (f : filt) (l : list snap) (args : list arg) : list ev := ids_go f l false [] args.

(* ---- grouping ---- *)
Fixpoint str_leb (a b : bytes) : bool :=
  match a, b with
  | [], _ => true
  | _ :: _, [] => false
  | x :: a', y :: b' => if (x <? y)%N then true else if (y <? x)%N then false else str_leb a' b'
  end.
Fixpoint sinsert (x : bytes) (l : list bytes) : list bytes :=
  match l with
  | [] => [x]
  | y :: l' => if str_leb x y then x :: l else y :: sinsert x l'
  end.
Definition ssort (l : list bytes) : list bytes := fold_right sinsert [] l.

Record gopts := mkG { g_tag : bool; g_host : bool; g_path : bool }.
Record gkey := mkK { k_host : bytes; k_paths : list bytes; k_tags : list bytes }.

Definition key_of (o : gopts) (s : snap) : gkey :=
  mkK (if g_host o then sn_host s else [])
      (if g_path o then ssort (sn_paths s) else [])
      (if g_tag o then ssort (sn_tags s) else []).

Definition strs_eqb (a b : list bytes) : bool := list_eqb bytes_eqb a b.
Definition gkey_eqb (a b : gkey) : bool :=
  bytes_eqb (k_host a) (k_host b) && strs_eqb (k_paths a) (k_paths b) && strs_eqb (k_tags a) (k_tags b).

Fixpoint add_group (k : gkey) (i : N) (gs : list (gkey * list N)) : list (gkey * list N) :=
  match gs with
  | [] => [(k, [i])]
  | (k', l) :: r => if gkey_eqb k k' then (k', l ++ [i]) :: r else (k', l) :: add_group k i r
  end.
Definition group_by (o : gopts) (l : list snap) : list (gkey * list N) :=
  fold_left (fun gs s => add_group (key_of o s) (sn_id s) gs) l [].

(* ------------------------------------------------------------------ cases *)
Inductive case :=
| KFindAll (f : filt) (l : list snap) (obs : list N)            (* ids in callback order *)
| KLatest (f : filt) (l : list snap) (obs : option N)           (* l in processing order *)
| KGroup (o : gopts) (l : list snap) (obs : list (gkey * list N))
| KIds (f : filt) (l : list snap) (args : list arg) (obs : list ev).

Fixpoint lookup (i : N) (l : list snap) : option snap :=
  match l with [] => None | s :: r => if N.eqb (sn_id s) i then Some s else lookup i r end.

Definition ev_eqb (a b : ev) : bool :=
  match a, b with EvSnap i, EvSnap j => N.eqb i j | EvErr, EvErr => true | _, _ => false end.
Definition snaps_of (es : list ev) : list N :=
  flat_map (fun e => match e with EvSnap i => [i] | EvErr => [] end) es.
Definition plain_ids (args : list arg) : list N :=
  flat_map (fun a => match a with AId (Some i) false => [i] | _ => [] end) args.
Definition has_latest (args : list arg) : bool :=
  existsb (fun a => match a with ALatest => true | _ => false end) args.
Fixpoint nodupN (l : list N) : bool :=
  match l with [] => true | x :: r => negb (memN x r) && nodupN r end.

Fixpoint remove_id (i : N) (l : list N) : option (list N) :=
  match l with
  | [] => None
  | x :: r => if N.eqb i x then Some r
              else match remove_id i r with Some r' => Some (x :: r') | None => None end
  end.
Fixpoint perm_ids (a b : list N) : bool :=
  match a with
  | [] => is_nil b
  | x :: a' => match remove_id x b with Some b' => perm_ids a' b' | None => false end
  end.
Definition ids_eqb (a b : list N) : bool := list_eqb N.eqb a b.

Definition in_limit (f : filt) (s : snap) : bool :=
  match f_limit f with Some lim => negb (sn_time s >? lim) | None => true end.

Definition latest_ok (f : filt) (l : list snap) (obs : option N) : bool :=
  let cands := filter (fun s => in_limit f s && matches f s) l in
  match obs with
  | None => is_nil cands
  | Some i => match lookup i l with
              | None => false
              | Some r => in_limit f r && matches f r && forallb (fun s => sn_time s <=? sn_time r) cands
              end
  end.

Fixpoint distinct_keys (ks : list gkey) : bool :=
  match ks with
  | [] => true
  | k :: r => negb (existsb (gkey_eqb k) r) && distinct_keys r
  end.

Definition group_ok (o : gopts) (l : list snap) (obs : list (gkey * list N)) : bool :=
  perm_ids (concat (map snd obs)) (map sn_id l)
  && forallb (fun g : gkey * list N =>
                negb (is_nil (snd g)) &&
                forallb (fun i => match lookup i l with
                                  | Some s => gkey_eqb (key_of o s) (fst g)
                                  | None => false end) (snd g)) obs
  && distinct_keys (map fst obs).

Definition oracle_code (c : case) : nat :=
  match c with
  | KFindAll f l obs => if perm_ids obs (map sn_id (filter (matches f) l)) then 0%nat else 2%nat
  | KLatest f l obs => if latest_ok f l obs then 0%nat else 3%nat
  | KGroup o l obs => if group_ok o l obs then 0%nat else 4%nat
  | KIds f l args obs =>
      (* every named, resolvable plain id is delivered, nothing else except 'latest' (which must be
         a valid answer for the filter), and without 'latest' nothing is delivered twice *)
      let sn := snaps_of obs in
      let want := plain_ids args in
      let lat := if has_latest args then filter (fun i => negb (memN i want)) sn else [] in
      if negb (forallb (fun i => memN i sn) want) then 5%nat
      else if negb (has_latest args) && negb (forallb (fun i => memN i want) sn && nodupN sn) then 5%nat
      else if negb (forallb (fun i => latest_ok f l (Some i)) lat) then 3%nat
      else 0%nat
  end.
Definition check_C24 (c : case) : bool := Nat.eqb (oracle_code c) 0.

(* groups compared as a set of (key, members in input order) *)
Definition group_eqb (a b : gkey * list N) : bool := gkey_eqb (fst a) (fst b) && ids_eqb (snd a) (snd b).
Definition groups_sub (a b : list (gkey * list N)) : bool := forallb (fun g => existsb (group_eqb g) b) a.

Definition model_agrees (c : case) : bool :=
  match c with
  | KFindAll f l obs => ids_eqb obs (map sn_id (find_all f l))
  | KLatest f l obs => option_eqb N.eqb obs (option_map sn_id (find_latest f l))
  | KGroup o l obs => let m := group_by o l in
                      groups_sub obs m && groups_sub m obs && (length obs =? length m)%nat
  | KIds f l args obs => list_eqb ev_eqb obs (find_ids f l args)
  end.

Definition check_case (c : case) : nat :=
  match oracle_code c with
  | O => if model_agrees c then 0%nat else 1%nat
  | n => n
  end.

End C24m.
