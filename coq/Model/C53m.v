(* C53: Comparer.diffTree / printDir (cmd/restic/cmd_diff.go) over data.DualTreeIterator
   (internal/data/tree.go).  Executable model only.

   A tree is a list of nodes; a directory node carries its subtree by value (the tree ID
   is its content address: equal IDs <-> equal subtrees).  Names are [N] (the harness
   numbers names by their rank in byte order), types: 0 file, 1 dir, other codes = other
   node types; [meta] stands for all remaining metadata compared by Node.Equals.
   Recursion into subtrees uses depth fuel; [wfb d t] says that the fuel suffices and that
   names are strictly increasing on every level (trees written by restic always are).

   check_case codes: 0 ok; 1 model <> implementation while the oracle holds;
   2 the set of reported lines is not the set the property demands; 3 a line is reported twice;
   9 malformed case (fuel / ordering precondition of the harness broken). *)
From Restic Require Import Base.Prelude.

Module C53m.

Inductive node := Node (name : N) (ty : N) (content : list N) (meta : N) (sub : list node).
Definition tree := list node.

Definition nname (n : node) := match n with Node x _ _ _ _ => x end.
Definition nty (n : node) := match n with Node _ x _ _ _ => x end.
Definition ncontent (n : node) := match n with Node _ _ x _ _ => x end.
Definition nmeta (n : node) := match n with Node _ _ _ x _ => x end.
Definition nsub (n : node) := match n with Node _ _ _ _ x => x end.

Definition isfile (n : node) : bool := N.eqb (nty n) 0.
Definition isdir (n : node) : bool := N.eqb (nty n) 1.

Fixpoint ids_eqb (a b : list N) : bool :=
  match a, b with
  | [], [] => true
  | x :: a', y :: b' => andb (N.eqb x y) (ids_eqb a' b')
  | _, _ => false
  end.

(* Node.Equals (with equal subtree IDs = equal subtrees) *)
Fixpoint node_eqb (a b : node) : bool :=
  match a, b with
  | Node n1 t1 c1 m1 s1, Node n2 t2 c2 m2 s2 =>
      N.eqb n1 n2 && N.eqb t1 t2 && ids_eqb c1 c2 && N.eqb m1 m2 &&
      (fix leq (x y : list node) : bool :=
         match x, y with
         | [], [] => true
         | p :: x', q :: y' => andb (node_eqb p q) (leq x' y')
         | _, _ => false
         end) s1 s2
  end.

(* Subtree.Equal *)
Definition tree_eqb (x y : tree) : bool := node_eqb (Node 0 0 [] 0 x) (Node 0 0 [] 0 y).

Inductive md := Plus | Minus | Mod (t m q u : bool).   (* "+", "-", "T" "M" "?" "U" flags *)
Definition line := (md * list N * bool)%type.            (* modifier, path, trailing slash *)

(* DualTreeIterator: merge by name; compares the two heads exactly as the Go loop does *)
Fixpoint dual (l1 : tree) : tree -> list (option node * option node) :=
  fix inner (l2 : tree) :=
    match l1, l2 with
    | [], [] => []
    | a :: l1', [] => (Some a, None) :: dual l1' []
    | [], b :: l2' => (None, Some b) :: inner l2'
    | a :: l1', b :: l2' =>
        match N.compare (nname a) (nname b) with
        | Lt => (Some a, None) :: dual l1' l2
        | Gt => (None, Some b) :: inner l2'
        | Eq => (Some a, Some b) :: dual l1' l2'
        end
    end.

(* the modifier computed for a name present on both sides; [showmeta] = --metadata *)
Definition node_change (showmeta : bool) (a b : node) : option md :=
  let t := negb (N.eqb (nty a) (nty b)) in
  let m := isfile a && isfile b && negb (ids_eqb (ncontent a) (ncontent b)) in
  let q := m && (N.eqb (nname a) (nname b) && N.eqb (nty a) (nty b) && N.eqb (nmeta a) (nmeta b)
                 && tree_eqb (nsub a) (nsub b)) in
  let u := negb m && showmeta && negb (node_eqb a b) in
  if t || m || u then Some (Mod t m q u) else None.

Fixpoint print_dir (d : nat) (mode : md) (prefix : list N) (t : tree) : list line :=
  match d with
  | O => []
  | S d' =>
      flat_map (fun n =>
        let p := prefix ++ [nname n] in
        (mode, p, isdir n) :: (if isdir n then print_dir d' mode p (nsub n) else [])) t
  end.

Fixpoint diff_tree (showmeta : bool) (d : nat) (prefix : list N) (t1 t2 : tree) : list line :=
  match d with
  | O => []
  | S d' =>
      flat_map (fun pr =>
        match pr with
        | (Some a, Some b) =>
            let p := prefix ++ [nname a] in
            (match node_change showmeta a b with Some m => [(m, p, isdir b)] | None => [] end) ++
            (if isdir a && isdir b then
               if tree_eqb (nsub a) (nsub b) then []           (* collectDir: prints nothing *)
               else diff_tree showmeta d' p (nsub a) (nsub b)
             else if isdir a then print_dir d' Minus p (nsub a)   (* dir replaced by a non-dir *)
             else if isdir b then print_dir d' Plus p (nsub b)    (* non-dir replaced by a dir *)
             else [])
        | (Some a, None) =>
            let p := prefix ++ [nname a] in
            (Minus, p, isdir a) :: (if isdir a then print_dir d' Minus p (nsub a) else [])
        | (None, Some b) =>
            let p := prefix ++ [nname b] in
            (Plus, p, isdir b) :: (if isdir b then print_dir d' Plus p (nsub b) else [])
        | (None, None) => []
        end) (dual t1 t2)
  end.

(* ---- specification side: what a path is in a snapshot ---- *)
Fixpoint lookup (x : N) (t : tree) : option node :=
  match t with
  | [] => None
  | n :: r => if N.eqb (nname n) x then Some n else lookup x r
  end.

Fixpoint find (t : tree) (p : list N) {struct p} : option node :=
  match p with
  | [] => None
  | x :: q =>
      match lookup x t with
      | None => None
      | Some n => match q with
                  | [] => Some n
                  | _ => if isdir n then find (nsub n) q else None
                  end
      end
  end.

(* the line the property demands for a path, from what the path is in each snapshot *)
Definition classify (showmeta : bool) (o1 o2 : option node) : option (md * bool) :=
  match o1, o2 with
  | None, None => None
  | Some a, None => Some (Minus, isdir a)
  | None, Some b => Some (Plus, isdir b)
  | Some a, Some b => match node_change showmeta a b with Some m => Some (m, isdir b) | None => None end
  end.

(* fuel suffices and names strictly increase, hereditarily *)
Fixpoint sortedb (t : tree) : bool :=
  match t with
  | a :: ((b :: _) as r) => andb (N.ltb (nname a) (nname b)) (sortedb r)
  | _ => true
  end.

Fixpoint wfb (d : nat) (t : tree) : bool :=
  match d with
  | O => match t with [] => true | _ => false end
  | S d' => andb (sortedb t) (forallb (fun n => wfb d' (nsub n)) t)
  end.

(* all paths of a tree *)
Definition paths (d : nat) (prefix : list N) (t : tree) : list (list N) :=
  map (fun l : line => snd (fst l)) (print_dir d Plus prefix t).

Definition expected (showmeta : bool) (d : nat) (t1 t2 : tree) : list line :=
  flat_map (fun p => match classify showmeta (find t1 p) (find t2 p) with
                     | Some (m, s) => [(m, p, s)]
                     | None => []
                     end) (paths d [] t1 ++ paths d [] t2).

(* ---- cases ---- *)
Definition md_eqb (a b : md) : bool :=
  match a, b with
  | Plus, Plus | Minus, Minus => true
  | Mod t m q u, Mod t' m' q' u' => Bool.eqb t t' && Bool.eqb m m' && Bool.eqb q q' && Bool.eqb u u'
  | _, _ => false
  end.
Definition line_eqb (a b : line) : bool :=
  match a, b with (m, p, s), (m', p', s') => md_eqb m m' && ids_eqb p p' && Bool.eqb s s' end.
Definition lmem (x : line) (l : list line) : bool := existsb (line_eqb x) l.
Fixpoint linclb (a b : list line) : bool :=
  match a with [] => true | x :: a' => andb (lmem x b) (linclb a' b) end.
Definition lset_eqb (a b : list line) : bool := andb (linclb a b) (linclb b a).
Fixpoint lnodupb (a : list line) : bool :=
  match a with [] => true | x :: a' => andb (negb (lmem x a')) (lnodupb a') end.
Fixpoint lines_eqb (a b : list line) : bool :=
  match a, b with
  | [], [] => true
  | x :: a', y :: b' => andb (line_eqb x y) (lines_eqb a' b')
  | _, _ => false
  end.

Record case := mk {
  c_meta : bool;           (* --metadata *)
  c_fuel : nat;            (* depth bound supplied by the harness *)
  c_t1 : tree; c_t2 : tree;
  o_lines : list line      (* printChange calls, in order *)
}.

Definition check_C53 (c : case) : bool :=
  lset_eqb (o_lines c) (expected (c_meta c) (c_fuel c) (c_t1 c) (c_t2 c)) && lnodupb (o_lines c).

Definition check_case (c : case) : nat :=
  if negb (wfb (c_fuel c) (c_t1 c) && wfb (c_fuel c) (c_t2 c)) then 9
  else if negb (lset_eqb (o_lines c) (expected (c_meta c) (c_fuel c) (c_t1 c) (c_t2 c))) then 2
  else if negb (lnodupb (o_lines c)) then 3
  else if lines_eqb (o_lines c) (diff_tree (c_meta c) (c_fuel c) [] (c_t1 c) (c_t2 c)) then 0 else 1.

End C53m.
