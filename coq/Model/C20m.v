(* C20: restore --include/--exclude (+ case-insensitive variants) and --delete select exactly the
   matching paths.  Executable model of
     cmd/restic/cmd_restore.go : selectIncludeFilter / selectExcludeFilter
     internal/filter           : IncludeByPattern / RejectByPattern (+Insensitive) on top of S_Glob
     internal/restorer/restorer.go : traverseTree / traverseTreeInner (pruning by childMayBeSelected,
        hasRestored propagation, leaveDir condition), removeUnexpectedFiles
   Model only, no proofs. *)
From Restic Require Import Base.Prelude Model.S_Glob Model.C28m.

Module C20m.
Import S_Glob.

(* snapshot tree: name, is-directory, children (sorted, unique; no sockets) *)
Inductive tree := Node (name : bytes) (isdir : bool) (kids : list tree).
Definition t_name (t : tree) := match t with Node n _ _ => n end.

(* location of a child: filepath.Join(location, name); the root location "/" is written [] here so that
   a location is always  desc parent name = parent ++ "/" ++ name *)
Definition desc := C28m.desc.

Definition selector := bytes -> bool -> bool * bool.   (* item, isDir -> selectedForRestore, childMayBeSelected *)

(* ---- filter functions ---- *)
Definition incl_fn (pats : list bytes) (item : bytes) : bool * bool :=
  match C28m.m_list pats true item with Ok r => r | _ => (false, false) end.   (* error: warnf, (false,false) *)
Definition rej_fn (pats : list bytes) (item : bytes) : bool :=
  match C28m.m_list pats false item with Ok (m, _) => m | _ => false end.

(* CollectPatterns: the insensitive function (lower-cased patterns, lower-cased item) comes first,
   and a function exists only for a non-empty option list *)
Definition sel_include (ipats pats : list bytes) : selector := fun item isdir =>
  let '(m1, c1) := match ipats with [] => (false, false) | _ => incl_fn (map lower ipats) (lower item) end in
  if andb m1 c1 then (m1, andb c1 isdir)
  else let '(m2, c2) := match pats with [] => (false, false) | _ => incl_fn pats item end in
       (orb m1 m2, andb (orb c1 c2) isdir).

Definition sel_exclude (ipats pats : list bytes) : selector := fun item isdir =>
  let r1 := match ipats with [] => false | _ => rej_fn (map lower ipats) (lower item) end in
  let matched := if r1 then true else match pats with [] => false | _ => rej_fn pats item end in
  let s := negb matched in (s, andb s isdir).

Definition sel_all : selector := fun _ isdir => (true, isdir).   (* no filter: everything *)

(* ---- traverseTreeInner ----
   result: locations handed to visitNode / enterDir (= written: files and selected directories),
           the directories for which leaveDir runs (location, names of all children),
           hasRestored *)
Record walk_res := mkw { w_written : list (bytes * bool); w_leave : list (bytes * list bytes); w_has : bool }.

Fixpoint walk_node (sel : selector) (loc : bytes) (n : tree) : walk_res :=
  match n with
  | Node name isdir kids =>
      let p := desc loc name in
      let '(s, c) := sel p isdir in
      if isdir then
        let r := if c then
                   (fix go (l : list tree) : walk_res :=
                      match l with
                      | [] => mkw [] [] false
                      | k :: r => let a := walk_node sel p k in let b := go r in
                                  mkw (w_written a ++ w_written b) (w_leave a ++ w_leave b) (orb (w_has a) (w_has b))
                      end) kids
                 else mkw [] [] false in
        mkw ((if s then [(p, true)] else []) ++ w_written r)
            (w_leave r ++ (if orb s (w_has r) then [(p, map t_name kids)] else []))
            (orb s (w_has r))
      else mkw (if s then [(p, false)] else []) [] s
  end.

Fixpoint walk_list (sel : selector) (loc : bytes) (l : list tree) : walk_res :=
  match l with
  | [] => mkw [] [] false
  | k :: r => let a := walk_node sel loc k in let b := walk_list sel loc r in
              mkw (w_written a ++ w_written b) (w_leave a ++ w_leave b) (orb (w_has a) (w_has b))
  end.

(* traverseTree: the root is not filtered; its leaveDir runs when something below was restored *)
Definition walk_root (sel : selector) (top : list tree) : walk_res :=
  let r := walk_list sel [] top in
  mkw (w_written r) (w_leave r ++ (if w_has r then [([], map t_name top)] else [])) (w_has r).

(* every node location of the tree, no pruning (specification side) *)
Fixpoint paths_node (loc : bytes) (n : tree) : list (bytes * bool) :=
  match n with
  | Node name isdir kids =>
      let p := desc loc name in
      (p, isdir) :: (if isdir then (fix go (l : list tree) := match l with [] => [] | k :: r => paths_node p k ++ go r end) kids
                     else [])
  end.
Fixpoint paths_list (loc : bytes) (l : list tree) : list (bytes * bool) :=
  match l with [] => [] | k :: r => paths_node loc k ++ paths_list loc r end.

Definition spec_written (sel : selector) (top : list tree) : list (bytes * bool) :=
  filter (fun pd => fst (sel (fst pd) (snd pd))) (paths_list [] top).

(* exclude filters (documented gitignore-like limitation: once a directory is excluded nothing inside it can
   be re-included by a negated pattern): an entry is written iff it is selected and so is every directory
   above it.  [chain_list] lists every entry with the locations of its ancestor directories. *)
Fixpoint chain_node (anc : list bytes) (loc : bytes) (n : tree) : list ((bytes * bool) * list bytes) :=
  match n with
  | Node name isdir kids =>
      let p := desc loc name in
      ((p, isdir), anc) ::
      (if isdir then (fix go (l : list tree) := match l with [] => [] | k :: r => chain_node (anc ++ [p]) p k ++ go r end) kids
       else [])
  end.
Fixpoint chain_list (anc : list bytes) (loc : bytes) (l : list tree) : list ((bytes * bool) * list bytes) :=
  match l with [] => [] | k :: r => chain_node anc loc k ++ chain_list anc loc r end.

Definition chain_ok (sel : selector) (ec : (bytes * bool) * list bytes) : bool :=
  andb (fst (sel (fst (fst ec)) (snd (fst ec)))) (forallb (fun a => fst (sel a true)) (snd ec)).
Definition spec_written_excl (sel : selector) (top : list tree) : list (bytes * bool) :=
  map fst (filter (chain_ok sel) (chain_list [] [] top)).

(* ---- removeUnexpectedFiles ----
   a pre-existing entry (dir location, name) is removed iff leaveDir runs for the directory, the name is
   not a child name of the snapshot directory and the filter selects it (isDir = false) *)
Definition mem_bytes (x : bytes) (l : list bytes) : bool := existsb (bytes_eqb x) l.

Definition deleted (sel : selector) (leave : list (bytes * list bytes)) (e : bytes * bytes) : bool :=
  existsb (fun ln => andb (bytes_eqb (fst ln) (fst e))
                          (andb (negb (mem_bytes (snd e) (snd ln))) (fst (sel (desc (fst e) (snd e)) false))))
          leave.

(* ---- for which directories does leaveDir (hence --delete) run?  specification side ---- *)
Definition t_isdir (t : tree) := match t with Node _ d _ => d end.
Definition sel_any (sel : selector) (l : list (bytes * bool)) : bool :=
  existsb (fun pd => fst (sel (fst pd) (snd pd))) l.

(* prune-safe filters (include, no filter): the directories that are selected themselves or hold a selected
   entry somewhere below; no pruning involved *)
Fixpoint leave_spec_node (sel : selector) (loc : bytes) (n : tree) : list (bytes * list bytes) :=
  match n with
  | Node name isdir kids =>
      let p := desc loc name in
      if isdir then
        (fix go (l : list tree) := match l with [] => [] | k :: r => leave_spec_node sel p k ++ go r end) kids
        ++ (if orb (fst (sel p true)) (sel_any sel (paths_list p kids)) then [(p, map t_name kids)] else [])
      else []
  end.
Fixpoint leave_spec_list (sel : selector) (loc : bytes) (l : list tree) : list (bytes * list bytes) :=
  match l with [] => [] | k :: r => leave_spec_node sel loc k ++ leave_spec_list sel loc r end.
Definition leave_spec_root (sel : selector) (top : list tree) : list (bytes * list bytes) :=
  leave_spec_list sel [] top ++ (if sel_any sel (paths_list [] top) then [([], map t_name top)] else []).

(* exclude filters: exactly the selected directories all of whose ancestors are selected; the root when one of
   its children is selected *)
Fixpoint leave_excl_node (sel : selector) (loc : bytes) (n : tree) : list (bytes * list bytes) :=
  match n with
  | Node name isdir kids =>
      let p := desc loc name in
      if andb isdir (fst (sel p true)) then
        (fix go (l : list tree) := match l with [] => [] | k :: r => leave_excl_node sel p k ++ go r end) kids
        ++ [(p, map t_name kids)]
      else []
  end.
Fixpoint leave_excl_list (sel : selector) (loc : bytes) (l : list tree) : list (bytes * list bytes) :=
  match l with [] => [] | k :: r => leave_excl_node sel loc k ++ leave_excl_list sel loc r end.
Definition top_any (sel : selector) (loc : bytes) (l : list tree) : bool :=
  existsb (fun k => fst (sel (desc loc (t_name k)) (t_isdir k))) l.
Definition leave_excl_root (sel : selector) (top : list tree) : list (bytes * list bytes) :=
  leave_excl_list sel [] top ++ (if top_any sel [] top then [([], map t_name top)] else []).

(* ---- final state of the target directory ---- *)
(* all proper ancestors of a location, each as a location ("/a/b/c" -> "/a", "/a/b") *)
Fixpoint prefixes_at (acc : bytes) (rest : bytes) : list bytes :=
  match rest with
  | [] => []
  | c :: r => (if andb (N.eqb c c_slash) (negb (is_nil acc)) then [acc] else []) ++ prefixes_at (acc ++ [c]) r
  end.
Definition ancestors (p : bytes) : list bytes := prefixes_at [] p.

Definition final_state (sel : selector) (delete : bool) (top : list tree) (extras : list (bytes * bytes)) : list bytes :=
  let w := walk_root sel top in
  let wr := map fst (w_written w) in
  let kept := filter (fun e => negb (andb delete (deleted sel (w_leave w) e))) extras in
  wr ++ flat_map ancestors wr
     ++ map (fun e => desc (fst e) (snd e)) kept
     ++ flat_map (fun e => fst e :: ancestors (fst e)) extras.

Definition spec_final_w (written : list (bytes * bool)) (leave : list (bytes * list bytes)) (sel : selector)
    (delete : bool) (extras : list (bytes * bytes)) : list bytes :=
  let wr := map fst written in
  let kept := filter (fun e => negb (andb delete (deleted sel leave e))) extras in
  wr ++ flat_map ancestors wr
     ++ map (fun e => desc (fst e) (snd e)) kept
     ++ flat_map (fun e => fst e :: ancestors (fst e)) extras.
Definition spec_final (sel : selector) (delete : bool) (top : list tree) (extras : list (bytes * bytes)) : list bytes :=
  spec_final_w (spec_written sel top) (leave_spec_root sel top) sel delete extras.
Definition spec_final_excl (sel : selector) (delete : bool) (top : list tree) (extras : list (bytes * bytes)) : list bytes :=
  spec_final_w (spec_written_excl sel top) (leave_excl_root sel top) sel delete extras.

(* ---- cases ---- *)
Inductive mode := MAll | MInclude | MExclude.
Record case := mk {
  c_mode : mode;
  c_ipats : list bytes;         (* --iinclude / --iexclude *)
  c_pats : list bytes;          (* --include / --exclude *)
  c_delete : bool;
  c_tree : list tree;           (* children of the snapshot root *)
  c_extras : list (bytes * bytes);  (* pre-existing entries: (directory location, name); [] = target root *)
  c_obs : list bytes            (* locations present below the target after restore ("" for the root is dropped) *)
}.

Definition sel_of (c : case) : selector :=
  match c_mode c with
  | MAll => sel_all
  | MInclude => sel_include (c_ipats c) (c_pats c)
  | MExclude => sel_exclude (c_ipats c) (c_pats c)
  end.

Definition subset (a b : list bytes) : bool := forallb (fun x => orb (is_nil x) (mem_bytes x b)) a.
Definition set_eq (a b : list bytes) : bool := andb (subset a b) (subset b a).

(* what restore must write: include (and no filter): the selected entries; exclude: the selected entries
   below selected directories (negated patterns cannot re-include below an excluded directory) *)
Definition spec_of (c : case) : list bytes :=
  match c_mode c with
  | MExclude => spec_final_excl (sel_of c) (c_delete c) (c_tree c) (c_extras c)
  | _ => spec_final (sel_of c) (c_delete c) (c_tree c) (c_extras c)
  end.

(* oracle: the target holds exactly the selected snapshot entries, the directories leading to them and
   the pre-existing entries that --delete does not take away.
   codes: 2 something present that must not be, 3 something missing *)
Definition check_C20 (c : case) : bool := set_eq (c_obs c) (spec_of c).

Definition check_case (c : case) : nat :=
  let sp := spec_of c in
  if negb (subset (c_obs c) sp) then 2
  else if negb (subset sp (c_obs c)) then 3
  else if set_eq (c_obs c) (final_state (sel_of c) (c_delete c) (c_tree c) (c_extras c)) then 0 else 1.

End C20m.
