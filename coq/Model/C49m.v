(* C49: user-supplied durations, sizes, counts, options, check subsets, shell strings.
   Executable model only.  Strings are [bytes] (Go strings are byte strings; the Go loops that
   range over runes only compare against ASCII characters, so a byte-wise model is exact for every
   byte string that contains no UTF-8 encoded non-ASCII Unicode white space / upper-case letter).

   Modelled Go code (current /repo):
     strconv.ParseUint(s,10,64) / ParseInt(s,10,64) / Atoi      (the behaviour restic relies on)
     internal/data/duration.go     nextNumber, ParseDuration, Duration.String
     internal/ui/format.go         ParseBytes
     cmd/restic/cmd_forget.go      ForgetPolicyCount.Set
     cmd/restic/cmd_check.go       stringToIntSlice, checkFlags (ParseFloat result is an input class)
     internal/options/options.go   splitKeyValue, Parse
     internal/backend/shell_split.go  shellSplitter.isSplitChar, SplitShellStrings
   Go panics (index / slice out of range, panic(err)) are the explicit results [*Panic].

   check_case codes: 0 ok; 1 model <> implementation (oracle holds, e.g. a valid value rejected);
     2 the implementation panicked; 3 the implementation returned a value that is not the value the
     input denotes (or accepted an input that denotes nothing); 4 Duration.String output does not
     parse back to the same duration. *)
From Restic Require Import Base.Prelude Gen.ParamsC49.

Module C49m.
Open Scope Z_scope.

Definition two63 : Z := 9223372036854775808.
Definition two64 : Z := 18446744073709551616.
Definition max_u64 : Z := two64 - 1.
Definition max_i64 : Z := two63 - 1.
(* uint64 -> int64 conversion and int64 wrap-around *)
Definition to_i64 (u : Z) : Z := if u <? two63 then u else u - two64.
Definition wrap64 (z : Z) : Z := to_i64 (z mod two64).

Definition is_digit (c : N) : bool := (N.leb 48 c && N.leb c 57)%bool.
Definition dval (c : N) : Z := Z.of_N c - 48.
Definition is_empty {A} (s : list A) : bool := match s with [] => true | _ => false end.
(* s[1:] — panics when len(s) = 0 *)
Definition tail1 (s : bytes) : option bytes := match s with [] => None | _ :: r => Some r end.

(* ------------------------------------------------------------------ strconv *)
Inductive perr := ESyntax | ERange.
Inductive pres := POk (v : Z) | PErr (e : perr).

(* cutoff = maxUint64/10 + 1 *)
Definition cutoff10 : Z := max_u64 / 10 + 1.

(* main loop of strconv.ParseUint(s, 10, 64); [n] is the uint64 accumulator *)
Fixpoint parse_uint_loop (s : bytes) (n : Z) : pres :=
  match s with
  | [] => POk n
  | c :: r =>
      if is_digit c then
        if n >=? cutoff10 then PErr ERange
        else
          let n10 := (n * 10) mod two64 in
          let n1 := (n10 + dval c) mod two64 in
          if ((n1 <? n10) || (n1 >? max_u64))%bool then PErr ERange
          else parse_uint_loop r n1
      else PErr ESyntax       (* letters have value >= 10 = base; '_' only with base 0; others *)
  end.

Definition parse_uint (s : bytes) : pres :=
  if is_empty s then PErr ESyntax else parse_uint_loop s 0.

(* strconv.ParseInt(s, 10, 64) *)
Definition parse_int (s : bytes) : pres :=
  match s with
  | [] => PErr ESyntax
  | c :: r =>
      let neg := N.eqb c 45 in
      let s' := if N.eqb c 43 then r else if neg then r else s in
      match parse_uint s' with
      | PErr ESyntax => PErr ESyntax
      | res =>
          let un := match res with POk u => u | PErr _ => max_u64 end in
          if (negb neg && (un >=? two63))%bool then PErr ERange
          else if (neg && (un >? two63))%bool then PErr ERange
          else POk (if neg then wrap64 (- to_i64 un) else to_i64 un)
      end
  end.

(* strconv.Atoi on a 64-bit platform: same function as ParseInt(s,10,0) (the fast path for
   short strings computes the same value); checked against Go in the correspondence. *)
Definition atoi (s : bytes) : pres := parse_int s.

(* value of a digit string *)
Definition decacc (s : bytes) (a : Z) : Z := fold_left (fun a c => a * 10 + dval c) s a.
Definition dec (s : bytes) : Z := decacc s 0.
Definition all_digits (s : bytes) : bool := forallb is_digit s.

(* ------------------------------------------------------------------ durations *)
Record dur := mkdur { d_years : Z; d_months : Z; d_days : Z; d_hours : Z }.
Definition dzero : dur := mkdur 0 0 0 0.

Inductive nnres := NOk (num : Z) (rest : bytes) | NErr | NPanic.

(* the [for i, s := range input] loop of nextNumber: collected digits and [rest]
   (rest stays "" when the loop runs to the end) *)
Fixpoint span_digits (s : bytes) : bytes * bytes :=
  match s with
  | [] => ([], [])
  | c :: r => if is_digit c then let (n, rest) := span_digits r in (c :: n, rest) else ([], s)
  end.

Definition next_number (input : bytes) : nnres :=
  if is_empty input then NOk 0 []
  else
    match nth_error input 0 with
    | None => NPanic                               (* input[0] *)
    | Some c0 =>
        let neg := N.eqb c0 45 in
        match (if neg then tail1 input else Some input) with
        | None => NPanic                           (* input[1:] *)
        | Some input1 =>
            let (n, rest) := span_digits input1 in
            if is_empty n then NErr                (* no number found *)
            else
              match atoi n with
              | PErr _ => NErr                     (* was panic(err) before the F-C49a fix *)
              | POk num => NOk (if neg then wrap64 (- num) else num) rest
              end
        end
    end.

(* the unit switch *)
Definition set_unit (d : dur) (u : N) (num : Z) : option dur :=
  if N.eqb u 121 then Some (mkdur num (d_months d) (d_days d) (d_hours d))        (* y *)
  else if N.eqb u 109 then Some (mkdur (d_years d) num (d_days d) (d_hours d))    (* m *)
  else if N.eqb u 100 then Some (mkdur (d_years d) (d_months d) num (d_hours d))  (* d *)
  else if N.eqb u 104 then Some (mkdur (d_years d) (d_months d) (d_days d) num)   (* h *)
  else None.

Inductive dres := DOk (d : dur) | DErr | DPanic | DFuel.

Fixpoint pd_loop (fuel : nat) (s : bytes) (d : dur) : dres :=
  match fuel with
  | O => DFuel
  | S f =>
      if is_empty s then DOk d
      else
        match next_number s with
        | NPanic => DPanic
        | NErr => DErr
        | NOk num s1 =>
            if is_empty s1 then DErr                       (* no unit found *)
            else
              match nth_error s1 0 with
              | None => DPanic                             (* s[0] *)
              | Some u =>
                  match set_unit d u num with
                  | None => DErr                           (* invalid unit *)
                  | Some d' =>
                      match tail1 s1 with
                      | None => DPanic                     (* s[1:] *)
                      | Some s2 => pd_loop f s2 d'
                      end
                  end
              end
        end
  end.

(* strings.TrimSpace restricted to ASCII white space *)
Definition is_space (c : N) : bool :=
  (N.eqb c 32 || (N.leb 9 c && N.leb c 13))%bool.
Fixpoint drop_space (s : bytes) : bytes :=
  match s with
  | c :: r => if is_space c then drop_space r else s
  | [] => []
  end.
Definition trim_space (s : bytes) : bytes := rev (drop_space (rev (drop_space s))).

Definition parse_duration_core (s : bytes) : dres := pd_loop (S (length s)) s dzero.
Definition parse_duration (s : bytes) : dres := parse_duration_core (trim_space s).

(* fmt %d *)
Fixpoint digits_fuel (fuel : nat) (n : Z) (acc : bytes) : bytes :=
  match fuel with
  | O => acc
  | S f =>
      let acc' := Z.to_N (48 + n mod 10) :: acc in
      if n / 10 =? 0 then acc' else digits_fuel f (n / 10) acc'
  end.
Definition digits_of (n : Z) : bytes := digits_fuel (S (Z.to_nat (Z.log2 n))) n [].
Definition print_int (z : Z) : bytes := if z <? 0 then 45%N :: digits_of (- z) else digits_of z.
Definition print_field (z : Z) (u : N) : bytes := if z =? 0 then [] else print_int z ++ [u].
Definition dur_string (d : dur) : bytes :=
  print_field (d_years d) 121 ++ print_field (d_months d) 109
  ++ print_field (d_days d) 100 ++ print_field (d_hours d) 104.

(* the grammar: a duration literal is a sequence of items  [-]digits unit *)
Record item := mkitem { i_neg : bool; i_digits : bytes; i_unit : N }.
Definition item_value (it : item) : Z := if i_neg it then - dec (i_digits it) else dec (i_digits it).
Definition is_unit (u : N) : bool := (N.eqb u 121 || N.eqb u 109 || N.eqb u 100 || N.eqb u 104)%bool.
Definition item_wf (it : item) : bool :=
  (negb (is_empty (i_digits it)) && all_digits (i_digits it)
   && (dec (i_digits it) <=? max_i64) && is_unit (i_unit it))%bool.
Definition render_item (it : item) : bytes :=
  (if i_neg it then [45%N] else []) ++ i_digits it ++ [i_unit it].
Definition render (its : list item) : bytes := flat_map render_item its.
(* later items override earlier ones for the same unit *)
Definition apply_item (d : dur) (it : item) : dur :=
  match set_unit d (i_unit it) (item_value it) with Some d' => d' | None => d end.
Definition denote (its : list item) (d : dur) : dur := fold_left apply_item its d.

(* ------------------------------------------------------------------ ParseBytes *)
Inductive bres := BOk (v : Z) | BErr | BPanic.

Definition unit_of (c : N) : option Z :=
  if (N.eqb c 98 || N.eqb c 66)%bool then Some 1
  else if (N.eqb c 107 || N.eqb c 75)%bool then Some 1024
  else if (N.eqb c 109 || N.eqb c 77)%bool then Some (1024 * 1024)
  else if (N.eqb c 103 || N.eqb c 71)%bool then Some (1024 * 1024 * 1024)
  else if (N.eqb c 116 || N.eqb c 84)%bool then Some (1024 * 1024 * 1024 * 1024)
  else None.

(* s[len(s)-1] and s[:len(s)-1] *)
Definition last_byte (s : bytes) : option N := nth_error s (length s - 1).
Definition num_and_unit (s : bytes) (c : N) : bytes * Z :=
  match unit_of c with
  | Some u => (removelast s, u)
  | None => (s, 1)
  end.

Definition parse_bytes (s : bytes) : bres :=
  if is_empty s then BErr
  else
    match last_byte s with
    | None => BPanic
    | Some c =>
        let (numStr, unit) := num_and_unit s c in
        match parse_int numStr with
        | PErr _ => BErr
        | POk value =>
            let u := value mod two64 in                 (* uint64(value) *)
            let hi := (u * unit) / two64 in             (* bits.Mul64 *)
            let lo := (u * unit) mod two64 in
            let v := to_i64 lo in
            if (negb (hi =? 0) || (v <? 0))%bool then BErr else BOk v
        end
    end.

(* ------------------------------------------------------------------ ForgetPolicyCount.Set *)
Definition s_unlimited : bytes := [117; 110; 108; 105; 109; 105; 116; 101; 100]%N.

Inductive cres := COk (v : Z) | CErr | CPanic.
Definition policy_count_set (s : bytes) : cres :=
  if bytes_eqb s s_unlimited then COk (-1)
  else match parse_int s with
       | PErr _ => CErr
       | POk v => if v <? 0 then CErr else COk v
       end.

(* ------------------------------------------------------------------ checkFlags *)
(* strings.Split(s, "/") *)
Fixpoint split_on (sep : N) (s : bytes) (cur : bytes) : list bytes :=
  match s with
  | [] => [rev cur]
  | c :: r => if N.eqb c sep then rev cur :: split_on sep r [] else split_on sep r (c :: cur)
  end.

Fixpoint parse_uints (parts : list bytes) : option (list Z) :=
  match parts with
  | [] => Some []
  | p :: r =>
      match parse_uint p with
      | PErr _ => None
      | POk v => match parse_uints r with Some l => Some (v :: l) | None => None end
      end
  end.

Definition string_to_int_slice (s : bytes) : option (list Z) :=
  if is_empty s then Some [] else parse_uints (split_on 47 s []).

(* classification of strconv.ParseFloat(s[:len-1], 64) passed in by the harness *)
Inductive fclass := FErr | FNaN | FLe0 | FIn | FGt100.

Definition total_buckets_max : Z := ParamsC49.total_buckets_max.

Inductive fres := FOk | FBad | FPanic.

Definition has_suffix_pct (s : bytes) : bool :=
  match last_byte s with Some c => N.eqb c 37 | None => false end.

Definition check_flags (read_data : bool) (subset : bytes) (fc : fclass) : fres :=
  if (read_data && negb (is_empty subset))%bool then FBad
  else if is_empty subset then FOk
  else
    match string_to_int_slice subset with
    | Some l =>
        match l with
        | [n; t] =>
            if ((n =? 0) || (t =? 0) || (n >? t))%bool then FBad
            else if t >? total_buckets_max then FBad
            else FOk
        | _ => FBad
        end
    | None =>
        if has_suffix_pct subset then
          match fc with
          | FIn => FOk            (* percentage > 0 && percentage <= 100 *)
          | _ => FBad             (* parse error, NaN, <= 0, > 100 *)
          end
        else
          match parse_bytes subset with
          | BPanic => FPanic
          | BErr => FBad
          | BOk v => if v <=? 0 then FBad else FOk
          end
    end.

(* ------------------------------------------------------------------ options.Parse *)
Definition to_lower (c : N) : N := if (N.leb 65 c && N.leb c 90)%bool then (c + 32)%N else c.

(* strings.Cut(s, "=") *)
Fixpoint cut_eq (s : bytes) (acc : bytes) : bytes * bytes :=
  match s with
  | [] => (rev acc, [])
  | c :: r => if N.eqb c 61 then (rev acc, r) else cut_eq r (c :: acc)
  end.

Definition split_key_value (s : bytes) : bytes * bytes :=
  let (k, v) := cut_eq s [] in (map to_lower (trim_space k), trim_space v).

Fixpoint bytes_cmp (a b : bytes) : comparison :=
  match a, b with
  | [], [] => Eq
  | [], _ => Lt
  | _, [] => Gt
  | x :: a', y :: b' => match N.compare x y with Eq => bytes_cmp a' b' | c => c end
  end.

Definition omap := list (bytes * bytes).
Fixpoint olookup (m : omap) (k : bytes) : option bytes :=
  match m with
  | [] => None
  | (k', v) :: r => if bytes_eqb k k' then Some v else olookup r k
  end.
(* the Go map, kept sorted by key (the harness prints the map sorted by key) *)
Fixpoint oinsert (k v : bytes) (m : omap) : omap :=
  match m with
  | [] => [(k, v)]
  | (k', v') :: r =>
      match bytes_cmp k k' with
      | Lt => (k, v) :: m
      | Eq => (k, v) :: r
      | Gt => (k', v') :: oinsert k v r
      end
  end.

Inductive ores := OpOk (m : omap) | OpErr.
Fixpoint options_parse_go (l : list bytes) (m : omap) : ores :=
  match l with
  | [] => OpOk m
  | o :: r =>
      let (k, v) := split_key_value o in
      if is_empty k then OpErr
      else match olookup m k with
           | Some v' => if bytes_eqb v' v then options_parse_go r (oinsert k v m) else OpErr
           | None => options_parse_go r (oinsert k v m)
           end
  end.
Definition options_parse (l : list bytes) : ores := options_parse_go l [].

(* ------------------------------------------------------------------ SplitShellStrings *)
Record sstate := mkss { ss_quote : N; ss_last : N }.   (* 0 = no quote / no last char *)

(* isSplitChar: returns (split?, new state) *)
Definition is_split_char (st : sstate) (c : N) : bool * sstate :=
  let q := ss_quote st in
  let not_bs := negb (N.eqb (ss_last st) 92) in
  if (not_bs && negb (N.eqb q 0) && N.eqb c q)%bool then (true, mkss 0 (ss_last st))
  else if (not_bs && N.eqb q 0 && (N.eqb c 34 || N.eqb c 39))%bool then (true, mkss c (ss_last st))
  else
    let st' := mkss q c in
    if negb (N.eqb q 0) then (false, st')
    else ((N.eqb c 92 || is_space c)%bool, st').

(* the FieldsFunc-like loop: [cur] = Some reversed-current-field when fieldStart >= 0 *)
Fixpoint shell_loop (s : bytes) (st : sstate) (cur : option bytes) (acc : list bytes)
  : list bytes * sstate :=
  match s with
  | [] => (rev (match cur with Some f => rev f :: acc | None => acc end), st)
  | c :: r =>
      let (sp, st') := is_split_char st c in
      if sp then
        match cur with
        | Some f => shell_loop r st' None (rev f :: acc)
        | None => shell_loop r st' None acc
        end
      else
        match cur with
        | Some f => shell_loop r st' (Some (c :: f)) acc
        | None => shell_loop r st' (Some [c]) acc
        end
  end.

Inductive sres := SOk (l : list bytes) | SErr | SPanic.
Definition shell_split (s : bytes) : sres :=
  let (strs, st) := shell_loop s (mkss 0 0) None [] in
  if (N.eqb (ss_quote st) 39 || N.eqb (ss_quote st) 34)%bool then SErr
  else if is_empty strs then SErr else SOk strs.


(* ------------------------------------------------------------------ pflag Set on an existing value *)
(* Duration.Set / ForgetPolicyCount.Set: parse into a temporary, assign only on success *)
Definition dur4 := (Z * Z * Z * Z)%type.
Definition dur_of4 (q : dur4) : dur := let '(y, m, d, h) := q in mkdur y m d h.
Definition dur_to4 (d : dur) : dur4 := (d_years d, d_months d, d_days d, d_hours d).
Definition dur_set (cur : dur) (s : bytes) : bool * dur :=
  match parse_duration s with DOk d => (true, d) | _ => (false, cur) end.
Fixpoint dur_set_seq (cur : dur) (l : list bytes) : list (bool * dur4) :=
  match l with
  | [] => []
  | s :: r => let (ok, d) := dur_set cur s in (ok, dur_to4 d) :: dur_set_seq d r
  end.
Definition count_set (cur : Z) (s : bytes) : bool * Z :=
  match policy_count_set s with COk v => (true, v) | _ => (false, cur) end.
Fixpoint count_set_seq (cur : Z) (l : list bytes) : list (bool * Z) :=
  match l with
  | [] => []
  | s :: r => let (ok, v) := count_set cur s in (ok, v) :: count_set_seq v r
  end.

(* ------------------------------------------------------------------ cases *)
Inductive input :=
  | IUint (s : bytes) | IInt (s : bytes) | IAtoi (s : bytes)        (* strconv behaviour relied on *)
  | IDur (s : bytes)                                               (* ParseDuration *)
  | IPrint (y m d h : Z)                                           (* Duration.String, then ParseDuration *)
  | IBytes (s : bytes)                                             (* ui.ParseBytes *)
  | ICount (s : bytes)                                             (* ForgetPolicyCount.Set *)
  | IFlags (rd : bool) (s : bytes) (f : fclass)                    (* checkFlags *)
  | IOpts (l : list bytes)                                         (* options.Parse *)
  | ISplit (s : bytes)                                             (* backend.SplitShellStrings *)
  | ISetSeq (init : dur4) (l : list bytes)                         (* Duration.Set, repeatedly on one variable *)
  | ICountSeq (init : Z) (l : list bytes).                         (* ForgetPolicyCount.Set, repeatedly *)

Inductive obs :=
  | OPanic | OErr | OErrSyntax | OErrRange
  | OZ (v : Z) | ODur (y m d h : Z) | OPrint (p : bytes) (r : obs)
  | OUnit | OMap (l : omap) | OList (l : list bytes)
  | OSeqD (l : list (bool * dur4)) | OSeqC (l : list (bool * Z)).   (* (Set succeeded, value afterwards) *)

Definition obs_of_pres (r : pres) : obs :=
  match r with POk v => OZ v | PErr ESyntax => OErrSyntax | PErr ERange => OErrRange end.
Definition obs_of_dres (r : dres) : obs :=
  match r with DOk d => ODur (d_years d) (d_months d) (d_days d) (d_hours d) | DErr => OErr | _ => OPanic end.

Definition model (i : input) : obs :=
  match i with
  | IUint s => obs_of_pres (parse_uint s)
  | IInt s => obs_of_pres (parse_int s)
  | IAtoi s => obs_of_pres (atoi s)
  | IDur s => obs_of_dres (parse_duration s)
  | IPrint y m d h => let p := dur_string (mkdur y m d h) in OPrint p (obs_of_dres (parse_duration p))
  | IBytes s => match parse_bytes s with BOk v => OZ v | BErr => OErr | BPanic => OPanic end
  | ICount s => match policy_count_set s with COk v => OZ v | CErr => OErr | CPanic => OPanic end
  | IFlags rd s f => match check_flags rd s f with FOk => OUnit | FBad => OErr | FPanic => OPanic end
  | IOpts l => match options_parse l with OpOk m => OMap m | OpErr => OErr end
  | ISplit s => match shell_split s with SOk l => OList l | SErr => OErr | SPanic => OPanic end
  | ISetSeq init l => OSeqD (dur_set_seq (dur_of4 init) l)
  | ICountSeq init l => OSeqC (count_set_seq init l)
  end.

Definition pair_eqb (a b : bytes * bytes) : bool := (bytes_eqb (fst a) (fst b) && bytes_eqb (snd a) (snd b))%bool.

Definition dur4_eqb (a b : dur4) : bool :=
  let '(y1, m1, d1, h1) := a in let '(y2, m2, d2, h2) := b in ((y1 =? y2) && (m1 =? m2) && (d1 =? d2) && (h1 =? h2))%bool.
Definition stepd_eqb (a b : bool * dur4) : bool := (Bool.eqb (fst a) (fst b) && dur4_eqb (snd a) (snd b))%bool.
Definition stepc_eqb (a b : bool * Z) : bool := (Bool.eqb (fst a) (fst b) && (snd a =? snd b))%bool.

Fixpoint obs_eqb (a b : obs) : bool :=
  match a, b with
  | OPanic, OPanic | OErr, OErr | OErrSyntax, OErrSyntax | OErrRange, OErrRange | OUnit, OUnit => true
  | OZ x, OZ y => x =? y
  | ODur y1 m1 d1 h1, ODur y2 m2 d2 h2 => ((y1 =? y2) && (m1 =? m2) && (d1 =? d2) && (h1 =? h2))%bool
  | OPrint p1 r1, OPrint p2 r2 => (bytes_eqb p1 p2 && obs_eqb r1 r2)%bool
  | OMap l1, OMap l2 => list_eqb pair_eqb l1 l2
  | OList l1, OList l2 => list_eqb bytes_eqb l1 l2
  | OSeqD l1, OSeqD l2 => list_eqb stepd_eqb l1 l2
  | OSeqC l1, OSeqC l2 => list_eqb stepc_eqb l1 l2
  | _, _ => false
  end.

Fixpoint has_panic (o : obs) : bool :=
  match o with OPanic => true | OPrint _ r => has_panic r | _ => false end.
(* an error answer (the property allows rejecting) *)
Definition is_err (o : obs) : bool :=
  match o with OErr | OErrSyntax | OErrRange => true | _ => false end.

Definition min_i64 : Z := - two63.
(* the round-trip clause: for (int64) fields above MinInt64 the printed form must parse back *)
Definition fld_ok (z : Z) : bool := ((min_i64 <? z) && (z <=? max_i64))%bool.
Definition roundtrip_ok (i : input) (o : obs) : bool :=
  match i, o with
  | IPrint y m d h, OPrint _ r =>
      if (fld_ok y && fld_ok m && fld_ok d && fld_ok h)%bool
      then obs_eqb r (ODur y m d h) else true
  | _, _ => true
  end.

Record case := mk { c_in : input; c_obs : obs }.

(* verified oracle: no panic; a non-error answer is exactly the model's (= the denoted) value;
   printed durations parse back *)
Definition exact_ok (c : case) : bool :=
  (is_err (c_obs c) || obs_eqb (c_obs c) (model (c_in c)))%bool.
Definition check_C49 (c : case) : bool :=
  (negb (has_panic (c_obs c)) && exact_ok c && roundtrip_ok (c_in c) (c_obs c))%bool.

Definition check_case (c : case) : nat :=
  if has_panic (c_obs c) then 2
  else if negb (exact_ok c) then 3
  else if negb (roundtrip_ok (c_in c) (c_obs c)) then 4
  else if obs_eqb (c_obs c) (model (c_in c)) then 0 else 1.

End C49m.
