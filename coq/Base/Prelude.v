(* Shared executable helpers: bytes as [list N], hex decoding, case-runner. No axioms. *)
From Coq Require Import String Ascii.
From Coq Require Export List NArith ZArith Bool Lia.
Export ListNotations.

Definition byte := N.
Definition bytes := list N.

(* ---- hex decoding used by generated cases files ---- *)
Definition hexval (c : ascii) : option N :=
  let n := N_of_ascii c in
  if andb (N.leb 48 n) (N.leb n 57) then Some (n - 48)%N
  else if andb (N.leb 97 n) (N.leb n 102) then Some (n - 87)%N
  else if andb (N.leb 65 n) (N.leb n 70) then Some (n - 55)%N
  else None.

Fixpoint hex (s : string) : bytes :=
  match s with
  | String a (String b r) =>
      match hexval a, hexval b with
      | Some x, Some y => (16 * x + y)%N :: hex r
      | _, _ => []
      end
  | _ => []
  end.

(* raw ascii string -> char codes *)
Fixpoint str (s : string) : bytes :=
  match s with
  | EmptyString => []
  | String a r => N_of_ascii a :: str r
  end.

Fixpoint bytes_eqb (a b : bytes) : bool :=
  match a, b with
  | [], [] => true
  | x :: a', y :: b' => andb (N.eqb x y) (bytes_eqb a' b')
  | _, _ => false
  end.

Lemma bytes_eqb_spec a b : bytes_eqb a b = true <-> a = b.
Proof.
  revert b; induction a as [|x a IH]; intros [|y b]; cbn [bytes_eqb]; split; intro H;
    try reflexivity; try discriminate.
  - apply andb_true_iff in H as [H1 H2]. apply N.eqb_eq in H1. apply IH in H2. subst; reflexivity.
  - inversion H; subst. apply andb_true_iff; split; [apply N.eqb_refl | apply IH; reflexivity].
Qed.

Lemma bytes_eqb_refl a : bytes_eqb a a = true.
Proof. apply bytes_eqb_spec; reflexivity. Qed.

(* ---- generic case runner: 0 = ok, 1 = model <> implementation, >= 2 = oracle (property) fails ---- *)
Definition filter_bad {A} (chk : A -> nat) (cs : list (nat * A)) : list (nat * nat) :=
  fold_right (fun c acc => let r := chk (snd c) in
                           match r with O => acc | _ => (fst c, r) :: acc end) [] cs.

(* generic list helpers *)
Fixpoint list_eqb {A} (eqb : A -> A -> bool) (a b : list A) : bool :=
  match a, b with
  | [], [] => true
  | x :: a', y :: b' => andb (eqb x y) (list_eqb eqb a' b')
  | _, _ => false
  end.

Lemma list_eqb_spec {A} (eqb : A -> A -> bool) :
  (forall x y, eqb x y = true <-> x = y) ->
  forall a b, list_eqb eqb a b = true <-> a = b.
Proof.
  intros He a; induction a as [|x a IH]; intros [|y b]; cbn [list_eqb]; split; intro H;
    try reflexivity; try discriminate.
  - apply andb_true_iff in H as [H1 H2]. apply He in H1. apply IH in H2. subst; reflexivity.
  - inversion H; subst. apply andb_true_iff; split; [apply He; reflexivity | apply IH; reflexivity].
Qed.

Definition option_eqb {A} (eqb : A -> A -> bool) (a b : option A) : bool :=
  match a, b with
  | None, None => true
  | Some x, Some y => eqb x y
  | _, _ => false
  end.
