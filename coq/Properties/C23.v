(* C23 — forget never removes a whole group and removes only what it reports. Statements only. *)
From Restic Require Import Base.Prelude Model.C22m Model.C24m Model.C23m Proofs.C23p.
Import C23m.

(* policy mode, non-empty policy, successful run: the removal set is exactly the union of the
   groups' remove lists, and in EVERY group the policy keeps at least one snapshot *)
Theorem C23_no_group_emptied : forall now o sel rm,
  o_ids o = false -> policy_empty (o_pol o) = false ->
  run_forget now o sel = Ok rm ->
  rm = concat (map (fun kg : C24m.gkey * list snap => fst (group_remove now (o_pol o) (snd kg))) (group_by (o_group o) sel))
  /\ Forall (fun kg : C24m.gkey * list snap =>
               filter C22m.kept (C22m.apply_policy now (map to22 (snd kg)) (o_pol o)) <> [])
            (group_by (o_group o) sel).
Proof. exact no_group_emptied. Qed.

(* an empty policy removes nothing unless --unsafe-allow-remove-all comes with a snapshot filter *)
Theorem C23_empty_policy_guard : forall now o sel,
  o_ids o = false -> policy_empty (o_pol o) = true ->
  (o_unsafe o = false -> run_forget now o sel = ENoPolicy) /\
  (o_unsafe o = true -> o_filter_empty o = true -> run_forget now o sel = EUnsafeNeedsFilter).
Proof. exact empty_policy_guard. Qed.

Theorem C23_outcomes : forall now o sel,
  o_ids o = false ->
  match run_forget now o sel with
  | ENoPolicy => policy_empty (o_pol o) = true /\ o_unsafe o = false
  | EUnsafeNeedsFilter => policy_empty (o_pol o) = true /\ o_unsafe o = true /\ o_filter_empty o = true
  | EGuard => policy_empty (o_pol o) = false
  | EOther => False
  | Ok _ => policy_empty (o_pol o) = false \/ (o_unsafe o = true /\ o_filter_empty o = false)
  end.
Proof. exact run_forget_outcomes. Qed.

Theorem C23_ids_only : forall now o sel, o_ids o = true -> run_forget now o sel = Ok (map s_id sel).
Proof. exact ids_only. Qed.

Theorem C23_dry_run_no_remove : forall o r, o_dry o = true -> deleted o r = [].
Proof. exact dry_run_no_remove. Qed.

Theorem C23_deleted_eq_reported : forall o rm, o_dry o = false -> deleted o (Ok rm) = rm.
Proof. exact deleted_eq_reported. Qed.

Theorem C23_failing_deletes_nothing : forall o r, (forall rm, r <> Ok rm) -> deleted o r = [].
Proof. exact failing_deletes_nothing. Qed.

Print Assumptions C23_no_group_emptied.
Print Assumptions C23_empty_policy_guard.
Print Assumptions C23_outcomes.
Print Assumptions C23_ids_only.
Print Assumptions C23_dry_run_no_remove.
Print Assumptions C23_deleted_eq_reported.
Print Assumptions C23_failing_deletes_nothing.
