(* C23 — forget never removes a whole group and removes only what it reports. Statements only. *)
From Restic Require Import Base.Prelude Model.C22m Model.C24m Model.C23m Proofs.C23p.
Import C23m.

(* policy mode, non-empty policy, successful run: the removal set is exactly the union of the
   groups' remove lists, and in EVERY group the policy keeps at least one snapshot *)
Theorem C23_no_group_emptied : forall now o sel rm,
  o_ids o = false -> policy_empty (o_pol o) = false ->
  run_forget now o sel = Ok rm ->
  rm = concat (map (fun kg : C24m.gkey * list snap => fst (group_remove now (o_pol o) (snd kg))) (group_by (o_group o) sel))
  /\ Forall (fun kg : C24m.gkey * list snap =>
               filter C22m.kept (C22m.apply_policy now (map to22 (snd kg)) (o_pol o)) <> [])
            (group_by (o_group o) sel).
Proof. exact no_group_emptied. Qed.

(* an empty policy removes nothing unless --unsafe-allow-remove-all comes with a snapshot filter *)
Theorem C23_empty_policy_guard : forall now o sel,
  o_ids o = false -> policy_empty (o_pol o) = true ->
  (o_unsafe o = false -> run_forget now o sel = ENoPolicy) /\
  (o_unsafe o = true -> o_filter_empty o = true -> run_forget now o sel = EUnsafeNeedsFilter).
Proof. exact empty_policy_guard. Qed.

Theorem C23_outcomes : forall now o sel,
  o_ids o = false ->
  match run_forget now o sel with
  | ENoPolicy => policy_empty (o_pol o) = true /\ o_unsafe o = false
  | EUnsafeNeedsFilter => policy_empty (o_pol o) = true /\ o_unsafe o = true /\ o_filter_empty o = true
  | EGuard => policy_empty (o_pol o) = false
  | EOther => False
  | Ok _ => policy_empty (o_pol o) = false \/ (o_unsafe o = true /\ o_filter_empty o = false)
  end.
Proof. exact run_forget_outcomes. Qed.

Theorem C23_ids_bad : forall now o sel fail,
  o_ids o = true -> o_bad_id o = true ->
  run_forget now o sel = EOther /\ x_deleted (execute o fail (run_forget now o sel)) = [].
Proof. exact ids_bad. Qed.

Theorem C23_ids_only : forall now o sel, o_ids o = true -> o_bad_id o = false -> run_forget now o sel = Ok (map s_id sel).
Proof. exact ids_only. Qed.

Theorem C23_dry_run_no_remove : forall o r, o_dry o = true -> deleted o r = [].
Proof. exact dry_run_no_remove. Qed.

Theorem C23_deleted_eq_reported : forall o rm, o_dry o = false -> deleted o (Ok rm) = rm.
Proof. exact deleted_eq_reported. Qed.

Theorem C23_failing_deletes_nothing : forall o r, (forall rm, r <> Ok rm) -> deleted o r = [].
Proof. exact failing_deletes_nothing. Qed.

(* a removal that fails ends the command with an error before the prune hand-off; prune gets the
   removal set only after every reported snapshot file was deleted (or in a dry run) *)
Theorem C23_prune_only_after_complete_removal : forall o fail r,
  x_prune (execute o fail r) = true ->
  exists rm, r = Ok rm /\ rm <> [] /\ x_kind (execute o fail r) = ROk /\
             (o_dry o = true \/ (x_deleted (execute o fail r) = rm /\ forall i, In i rm -> memN i fail = false)).
Proof. exact prune_only_after_complete_removal. Qed.

Theorem C23_failed_removal_reported : forall o fail rm,
  o_dry o = false -> (exists i, In i rm /\ memN i fail = true) ->
  execute o fail (Ok rm) = mkX (diffN rm fail) RFailed false.
Proof. exact failed_removal_reported. Qed.

Print Assumptions C23_prune_only_after_complete_removal.
Print Assumptions C23_failed_removal_reported.
Print Assumptions C23_no_group_emptied.
Print Assumptions C23_empty_policy_guard.
Print Assumptions C23_outcomes.
Print Assumptions C23_ids_bad.
Print Assumptions C23_ids_only.
Print Assumptions C23_dry_run_no_remove.
Print Assumptions C23_deleted_eq_reported.
Print Assumptions C23_failing_deletes_nothing.
