(* C42 — traversals (StreamTrees / FindUsedBlobs) visit exactly the reachable trees and blobs,
   each tree once, for every sharing of subtrees and every worker schedule.  Statements only.
   [run St st0 sch] = the filter goroutine driven by an arbitrary schedule [sch] of worker
   hand-overs and completions; [Reach] = reachability through directory nodes from the roots,
   not passing through trees already in the set ([seen0]). *)
From Restic Require Import Base.Prelude Model.C42m Proofs.C42p.
Import C42m.

Theorem C42_visited_eq_reachable : forall St roots seen0 dat0 sch st,
  run St (init roots seen0 dat0) sch = Ok st -> terminal st ->
  NoDup (processed st) /\ (forall t, In t (processed st) <-> Reach St roots seen0 t).
Proof. exact visited_eq_reachable. Qed.

Theorem C42_used_eq_reachable_blobs : forall St roots seen0 dat0 sch st,
  run St (init roots seen0 dat0) sch = Ok st -> terminal st ->
  (forall t, In t (seen st) <-> In t seen0 \/ Reach St roots seen0 t) /\
  (forall d, In d (dat st) <->
     In d dat0 \/ exists t tr, Reach St roots seen0 t /\ lookup St t = Some tr /\ In d (datas tr)).
Proof. exact used_eq_reachable_blobs. Qed.

Theorem C42_terminates : forall St roots seen0 dat0 sch st,
  run St (init roots seen0 dat0) sch = Ok st -> (length sch <= 2 * length (universe St roots))%nat.
Proof. exact terminates. Qed.

Theorem C42_no_deadlock : forall St roots seen0 dat0 sch st,
  run St (init roots seen0 dat0) sch = Ok st -> ~ terminal st -> exists c, step St st c <> Stuck.
Proof. exact no_deadlock. Qed.

Theorem C42_progress_counter_invariant : forall St roots seen0 dat0 sch st,
  run St (init roots seen0 dat0) sch = Ok st ->
  (forall r, (r < length roots)%nat -> get r (cnt st) = cntr r (jobs st)) /\ prog st = zeros (cnt st).
Proof. exact progress_counter_invariant. Qed.

Theorem C42_progress_counter_exact : forall St roots seen0 dat0 sch st,
  run St (init roots seen0 dat0) sch = Ok st -> terminal st -> prog st = Z.of_nat (length roots).
Proof. exact progress_counter_exact. Qed.

Theorem C42_error_propagates : forall St roots seen0 dat0 sch st,
  (exists t, Reach St roots seen0 t /\ lookup St t = None) ->
  run St (init roots seen0 dat0) sch = Ok st -> ~ terminal st.
Proof. exact error_propagates. Qed.

Theorem C42_error_only_if_missing : forall St roots seen0 dat0 sch,
  run St (init roots seen0 dat0) sch = Err -> exists t, Reach St roots seen0 t /\ lookup St t = None.
Proof. exact error_only_if_missing. Qed.

Theorem C42_result_closed : forall St roots seen0 dat0 sch st,
  run St (init roots seen0 dat0) sch = Ok st -> terminal st ->
  forall t tr s, Reach St roots seen0 t -> lookup St t = Some tr -> In s (subtrees tr) -> s <> null ->
  In s (seen st).
Proof. exact result_closed. Qed.

Theorem C42_oracle_sound : forall c, check_C42 c = true <-> Spec c.
Proof. exact check_C42_iff. Qed.

Print Assumptions C42_visited_eq_reachable.
Print Assumptions C42_used_eq_reachable_blobs.
Print Assumptions C42_terminates.
Print Assumptions C42_no_deadlock.
Print Assumptions C42_progress_counter_invariant.
Print Assumptions C42_progress_counter_exact.
Print Assumptions C42_error_propagates.
Print Assumptions C42_error_only_if_missing.
Print Assumptions C42_result_closed.
Print Assumptions C42_oracle_sound.
