(* C22 — retention policies keep exactly the documented snapshots. Statements only. *)
From Restic Require Import Base.Prelude Model.C22m Proofs.C22p.
From Coq Require Import Permutation.
Import C22m.
Open Scope Z_scope.

(* The model of ApplyPolicy (one loop, shared state arrays) keeps exactly the union of the
   single rules evaluated independently on the newest-first list: tag rule, within rule, the six
   counted rules, the five within-<period> rules (the rules never interact). *)
Theorem C22_keep_is_union_of_rules : forall now l p,
  map kept (apply_policy now l p) =
  match sort l with [] => [] | _ => spec_keep (find_latest now (sort l)) p (sort l) end.
Proof. exact apply_policy_keep. Qed.

(* keep and remove partition the input, processed newest first (stable for ties), and every kept
   snapshot has at least one reason *)
Theorem C22_partition : forall now l p,
  let vs := apply_policy now l p in
  Permutation (map v_snap (filter kept vs) ++ map v_snap (filter (fun v => negb (kept v)) vs)) l
  /\ sorted_desc (map v_snap vs) = true
  /\ (forall v, In v (filter kept vs) -> v_reasons v <> []).
Proof. exact apply_policy_partition. Qed.

(* keep-last / keep-hourly / ... n, closed form: position j is kept iff it is a candidate (first of
   a run of equal period keys, or the oldest snapshot) and fewer than n earlier candidates exist
   (n = -1: unlimited).  For keep-last every position is a candidate: the n newest are kept. *)
Theorem C22_counted_rule_closed_form : forall hs n j, -1 <= n ->
  nth_error (counted_go n hs) j =
  match nth_error (cands hs) j with
  | Some c => Some (c && ((n =? -1) || (cnt (firstn j (cands hs)) <? n)))
  | None => None
  end.
Proof. exact counted_go_closed. Qed.

(* raising any count (or making it unlimited) never drops a kept snapshot *)
Theorem C22_monotone_counts : forall latest p cs' l j,
  Forall2 le_count (p_counts p) cs' ->
  nth_error (spec_keep latest p l) j = Some true ->
  nth_error (spec_keep latest (mkPol cs' (p_within p) (p_withins p) (p_tags p)) l) j = Some true.
Proof. intros latest p cs' l j H. apply implb_list_nth, spec_keep_mono_counts, H. Qed.

(* adding tag lists never drops a kept snapshot *)
Theorem C22_monotone_tags : forall latest p extra l j,
  nth_error (spec_keep latest p l) j = Some true ->
  nth_error (spec_keep latest (mkPol (p_counts p) (p_within p) (p_withins p) (p_tags p ++ extra)) l) j = Some true.
Proof. intros latest p extra l j. apply implb_list_nth, spec_keep_mono_tags. Qed.

(* keep-tag: HasTags = every listed tag present, except that an empty tag reached while the
   snapshot has no tags at all accepts immediately *)
Theorem C22_has_tags_spec : forall tags l,
  has_tags tags l = true <->
  (exists pre post, l = pre ++ [] :: post /\ tags = [] /\ (forall t, In t pre -> In t tags))
  \/ (forall t, In t l -> In t tags).
Proof. exact has_tags_spec. Qed.

(* the reference instant of the within rules: newest snapshot that is not in the future *)
Theorem C22_find_latest_spec : forall now l,
  let r := find_latest now l in
  (r = zero_time \/ exists s, In s l /\ r = sn_time s /\ before (sn_time s) now = true)
  /\ (forall s, In s l -> before (sn_time s) now = true -> inst (sn_time s) <= inst r).
Proof. exact find_latest_spec. Qed.

Theorem C22_sort_stable_sorted : forall l, Permutation (sort l) l /\ sorted_desc (sort l) = true.
Proof. intros; split; [apply sort_perm | apply sort_sorted]. Qed.

Theorem C22_oracle_sound : forall c,
  check_C22 c = true ->
  exists l, reorder (c_order c) (c_list c) = Some l
    /\ perm_ids (c_order c) (map sn_id (c_list c)) = true
    /\ sorted_desc l = true
    /\ (let fl := match l with [] => [] | _ => spec_keep (find_latest (c_now c) l) (c_pol c) l end in
        c_keep c = select fl l true /\ c_remove c = select fl l false)
    /\ length (c_reasons c) = length (c_keep c)
    /\ (forall r, In r (c_reasons c) -> r <> []).
Proof. exact oracle_sound. Qed.

(* raising the keep-within duration (component-wise, non-negative components) moves the threshold
   latest.AddDate(-Y,-M,-D).Add(-H h) back or leaves it, so no kept snapshot is dropped; rests on the
   proved monotonicity of "first day of month k" in the civil-date arithmetic of AddDate *)
Theorem C22_threshold_monotone : forall latest d d',
  DurMono.le_dur d d' -> inst (threshold latest d') <= inst (threshold latest d).
Proof. exact DurMono.threshold_mono. Qed.

Theorem C22_monotone_duration : forall latest p d' l j,
  DurMono.le_dur (p_within p) d' -> DurMono.dur_nonneg (p_within p) ->
  nth_error (spec_keep latest p l) j = Some true ->
  nth_error (spec_keep latest (mkPol (p_counts p) d' (p_withins p) (p_tags p)) l) j = Some true.
Proof. intros latest p d' l j H1 H2. apply implb_list_nth, spec_keep_mono_within; assumption. Qed.

(* the civil-date model is consistent: days_from_civil inverts civil, months and days in range *)
Theorem C22_civil_inverse : forall z,
  days_from_civil (fst (fst (civil z))) (snd (fst (civil z))) (snd (civil z)) = z
  /\ 1 <= snd (fst (civil z)) <= 12 /\ 1 <= snd (civil z) <= 31.
Proof. exact DurMono.civil_inverse. Qed.

(* lengthening keep-within-hourly/.../yearly durations never drops a kept snapshot: on the
   newest-first list the window is a prefix and the run heads inside the old window are unchanged *)
Theorem C22_monotone_within_period_durations : forall latest p ds' l j,
  sorted_desc l = true ->
  Forall2 (fun d d' => DurMono.le_dur d d' /\ DurMono.dur_nonneg d) (p_withins p) ds' ->
  nth_error (spec_keep latest p l) j = Some true ->
  nth_error (spec_keep latest (mkPol (p_counts p) (p_within p) ds' (p_tags p)) l) j = Some true.
Proof. intros latest p ds' l j H1 H2. apply implb_list_nth, spec_keep_mono_withins; assumption. Qed.

Print Assumptions C22_monotone_within_period_durations.
Print Assumptions C22_civil_inverse.
Print Assumptions C22_threshold_monotone.
Print Assumptions C22_monotone_duration.
Print Assumptions C22_keep_is_union_of_rules.
Print Assumptions C22_partition.
Print Assumptions C22_counted_rule_closed_form.
Print Assumptions C22_monotone_counts.
Print Assumptions C22_monotone_tags.
Print Assumptions C22_has_tags_spec.
Print Assumptions C22_find_latest_spec.
Print Assumptions C22_sort_stable_sorted.
Print Assumptions C22_oracle_sound.
