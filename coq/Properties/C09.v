(* C09 - prune never loses data still referenced by a remaining snapshot, at every crash point.
   Statements only. *)
From Restic Require Import Base.Prelude Model.S_Prune Proofs.S_Prunep Model.C09m Proofs.C09p Model.C10m Proofs.C09p_plan.
Import SPrune C09m.
Open Scope N_scope.

(* Crash safety: for every repository state, every used set, every plan and every backend trace that
   has the structure of PrunePlan.Execute (run_ok), the state after EVERY prefix of the trace still
   resolves every used blob (a present index lists it in a present pack that really contains it). *)
Theorem C09_prune_prefix_safe : forall R0 used pl tr,
  Consistent R0 used -> valid_planb R0 used pl = true -> run_ok pl PhA R0 tr = true ->
  forall n, Consistent (run R0 (firstn n tr)) used.
Proof. exact prune_prefix_safe. Qed.

(* ... and no prefix state has an index entry for a missing pack that was not already dangling before. *)
Theorem C09_prune_prefix_no_new_dangling : forall pl tr ph R, run_ok pl ph R tr = true ->
  forall n p, dangling (run R (firstn n tr)) p -> dangling R p.
Proof. exact prune_prefix_no_new_dangling. Qed.

(* Duplicate selection (packInfoFromIndex, three passes, uint8 counter saturating at 255): for every
   ordered entry list and every used handle with at least one index entry, exactly one copy is counted
   as used and the final counter is 1 - for any number of duplicates and any order. *)
Theorem C09_selection_unique : forall k used es h,
  In h used -> (1 <= cnt_h h es)%nat ->
  cnt (final k used es) h = 1 /\ nsel_h h (final k used es) = 1%nat.
Proof. exact selection_unique. Qed.

(* The "internal error during blob selection" panic is unreachable; planning aborts with
   ErrIndexIncomplete exactly when a used blob has no index entry. *)
Theorem C09_pack_info_never_panics : forall k used es, pack_info k used es <> RPanic.
Proof. exact pack_info_never_panics. Qed.

Theorem C09_pack_info_total : forall k used es,
  (forall h, In h used -> (1 <= cnt_h h es)%nat) -> pack_info k used es = ROk (final k used es).
Proof. exact pack_info_total. Qed.

Theorem C09_abort_iff_missing : forall k used es h,
  In h used -> cnt_h h es = 0%nat -> pack_info k used es = RIncomplete.
Proof. exact pack_info_incomplete. Qed.

(* A pack whose usedBlobs counter is 0 holds no selected copy: usedBlobs counts exactly the selected
   entries of the pack, and every used handle has its selected copy in a pack with usedBlobs > 0. *)
Theorem C09_usedB_counts_selected : forall k used es p,
  usedB (ip (final k used es) p) = N.of_nat (nsel_p p (final k used es)).
Proof. exact final_usedB. Qed.

Theorem C09_selected_copy_in_used_pack : forall k used es h,
  In h used -> (1 <= cnt_h h es)%nat ->
  exists e, In e es /\ e_h e = h /\ 0 < usedB (ip (final k used es) (e_pack e)).
Proof. exact selected_copy_in_used_pack. Qed.

(* Oracles used on the implementation's observables mean what they say. *)
Theorem C09_trace_oracle_sound : forall R0 used pl tr,
  check_case (CTrace R0 used pl false tr) = 0%nat ->
  forall n, Consistent (run R0 (firstn n tr)) used /\
            (forall p, dangling (run R0 (firstn n tr)) p -> dangling R0 p).
Proof. exact check_trace_sound. Qed.

Theorem C09_crash_oracle_sound : forall R used c1 c2 c3,
  check_C09 (CCrash R used c1 c2 c3) = true <-> Consistent R used /\ c1 = true /\ c2 = true /\ c3 = true.
Proof. exact check_crash_sound. Qed.

Theorem C09_consistentb_iff : forall R used, consistentb R used = true <-> Consistent R used.
Proof. exact consistentb_iff. Qed.

(* The keepBlobs reduction of PlanPrune (after the fix of F-C09-1), for every choice of the plan's pack
   sets: if index entries outside the removed/repacked/ignored packs are truthful, the plan whose
   keepBlobs come from the reduction is valid - a blob is never dropped from keepBlobs when its other
   copies are only in removed, repacked or missing packs. *)
Theorem C09_keep_reduction_valid : forall R0 used first rmv ex ob,
  forallb (fun p => memN p ex) rmv = true ->
  (forall p h, In (p, h) (ents_of R0) -> ~ In p ex -> pack_has R0 p h = true) ->
  valid_planb R0 used (mkPl first rmv ex (keep_blobs used (ents_of R0) ex) ob) = true.
Proof. exact keep_reduction_valid. Qed.

Theorem C09_keep_blobs_sound : forall used ents ex h,
  In h used -> ~ In h (keep_blobs used ents ex) -> exists p, In (p, h) ents /\ ~ In p ex.
Proof. exact keep_blobs_sound. Qed.

(* Plan derived from the planner model (packInfoFromIndex + decidePackAction + keepBlobs reduction at
   max-unused 0 / no repack limit, C10m.plan_prune): for every index listing, used set and pack listing,
   if the abstract repository lists the same index entries and the index is truthful for the pack files
   that exist, the model's plan is valid ... *)
Theorem C09_model_plan_valid : forall o used es listing R0 f r p i k st ob,
  (forall e, In e es -> In (e_pack e, e_h e) (ents_of R0)) ->
  (forall e, In e es -> In (e_pack e) (map fst listing) -> pack_has R0 (e_pack e) (e_h e) = true) ->
  C10m.plan_prune o used es listing = C10m.Plan f r p i k st ->
  valid_planb R0 used (mkPl f (r ++ p) (r ++ p ++ i) k ob) = true.
Proof. intros. eapply model_plan_valid; eassumption. Qed.

(* ... hence executing the MODEL's plan along any trace with the structure of Execute never loses a used
   blob at any crash prefix. *)
Theorem C09_model_plan_prefix_safe : forall o used es listing R0 f r p i k st ob tr,
  Consistent R0 used ->
  (forall e, In e es -> In (e_pack e, e_h e) (ents_of R0)) ->
  (forall e, In e es -> In (e_pack e) (map fst listing) -> pack_has R0 (e_pack e) (e_h e) = true) ->
  C10m.plan_prune o used es listing = C10m.Plan f r p i k st ->
  run_ok (mkPl f (r ++ p) (r ++ p ++ i) k ob) PhA R0 tr = true ->
  forall n, Consistent (run R0 (firstn n tr)) used.
Proof.
  intros o used es listing R0 f r p i k st ob tr Hc H1 H2 Hp Hr n.
  eapply prune_prefix_safe; [exact Hc | eapply model_plan_valid; eassumption | exact Hr].
Qed.

(* Single-op faults (a backend modification fails permanently, everything else proceeds; any number and
   position of failed ops): every attempted-op sequence accepted by run_okf - in particular one where
   nothing obsolete is removed after a failed Save - keeps every used blob loadable after every step,
   whether prune reports an error or success. *)
Theorem C09_prune_fault_safe : forall R0 used pl ftr,
  Consistent R0 used -> valid_planb R0 used pl = true -> run_okf pl PhA false R0 ftr = true ->
  forall n, Consistent (frun R0 (firstn n ftr)) used.
Proof. exact prune_fault_safe. Qed.

Theorem C09_no_index_removal_after_failed_save : forall pl ph R i r,
  run_okf pl ph true R ((RmI i, true) :: r) = false.
Proof. exact no_index_removal_after_failed_save. Qed.

(* ... and after a failed removal of an obsolete index an accepted trace removes no old pack (the pack
   removal that follows can only be a phase-A removal of an unindexed pack). *)
Theorem C09_no_pack_removal_after_failed_index_removal : forall pl ph sf R i p r,
  run_okf2 pl ph sf false R ((RmI i, false) :: (RmP p, true) :: r) = true ->
  exists q, step_ok pl ph R (RmP p) = Some q /\ q <> PhC.
Proof. exact no_pack_removal_after_failed_index_removal. Qed.

Theorem C09_fault_oracle_sound : forall R0 used pl ftr rep c1 c2 c3,
  check_case (CFault R0 used pl false ftr rep c1 c2 c3) = 0%nat ->
  (forall n, Consistent (frun R0 (firstn n ftr)) used) /\
  (must_report ftr = true -> rep = true) /\ c1 = true /\ c2 = true /\ c3 = true.
Proof. exact check_fault_sound. Qed.

Print Assumptions C09_prune_fault_safe.
Print Assumptions C09_no_index_removal_after_failed_save.
Print Assumptions C09_no_pack_removal_after_failed_index_removal.
Print Assumptions C09_fault_oracle_sound.
Print Assumptions C09_model_plan_valid.
Print Assumptions C09_model_plan_prefix_safe.
Print Assumptions C09_keep_reduction_valid.
Print Assumptions C09_keep_blobs_sound.
Print Assumptions C09_prune_prefix_safe.
Print Assumptions C09_prune_prefix_no_new_dangling.
Print Assumptions C09_selection_unique.
Print Assumptions C09_pack_info_never_panics.
Print Assumptions C09_pack_info_total.
Print Assumptions C09_abort_iff_missing.
Print Assumptions C09_usedB_counts_selected.
Print Assumptions C09_selected_copy_in_used_pack.
Print Assumptions C09_trace_oracle_sound.
Print Assumptions C09_crash_oracle_sound.
Print Assumptions C09_consistentb_iff.
