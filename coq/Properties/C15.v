(* C15 — check reports no errors on any repository restic itself produced. Statements only. *)
From Restic Require Import Base.Prelude Model.C15m Proofs.C15p.
Import C15m.

(* Every backend operation that follows the discipline preserves the invariant
   "index entries describe present packs exactly, snapshots reach only indexed blobs". *)
Theorem C15_inv_step : forall R o, inv R = true -> ok_step R o = true -> inv (apply R o) = true.
Proof. exact inv_step. Qed.

(* For every operation history that follows the discipline, interrupted after any number k of
   backend operations, check --read-data (model) reports no error. *)
Theorem C15_produced_is_clean : forall ops k,
  ok_trace empty ops = true -> errors (run empty (firstn k ops)) = [].
Proof. exact produced_is_clean. Qed.

(* What it may report are hints only (orphaned packs -> prune, duplicate packs -> repair index). *)
Theorem C15_hints_only : forall ops f,
  ok_trace empty ops = true -> In f (findings (run empty ops)) -> is_error f = false.
Proof. exact hints_only. Qed.

Theorem C15_inv_clean : forall R, inv R = true -> errors R = [].
Proof. exact inv_clean. Qed.

Theorem C15_oracle_sound : forall c, check_C15 c = true <-> c_check_failed c = false.
Proof. exact check_C15_iff. Qed.

(* the model explains the verdict: a recorded history that follows the discipline is predicted clean *)
Theorem C15_model_predicts_clean : forall c,
  ok_trace empty (c_ops c) = true -> errors (run empty (c_ops c)) = [].
Proof. exact model_predicts_clean. Qed.

(* Command template: a backup (fresh packs, one index file listing exactly them, then a snapshot that
   reaches only blobs indexed before or by that file) follows the discipline from any state that
   satisfies the invariant; with C15_produced_is_clean every crashed prefix of it keeps check clean. *)
Theorem C15_backup_follows_discipline : forall R ps i s needs,
  inv R = true ->
  NoDup (map fst ps) -> (forall p, In p ps -> find (s_packs R) (fst p) = None) ->
  find (s_idx R) i = None ->
  (forall h, In h needs -> in_index (s_idx R) h = true \/ in_body ps h = true) ->
  ok_trace R (backup_ops ps i s needs) = true.
Proof. exact backup_follows_discipline. Qed.

Print Assumptions C15_inv_step.
Print Assumptions C15_backup_follows_discipline.
Print Assumptions C15_produced_is_clean.
Print Assumptions C15_hints_only.
Print Assumptions C15_inv_clean.
Print Assumptions C15_oracle_sound.
Print Assumptions C15_model_predicts_clean.
