(* C39 — dry runs and lock-free reads never modify the repository. Statements only. *)
From Restic Require Import Base.Prelude Model.C39m Proofs.C39p.
Import C39m.

(* for every request sequence through the dry backend the store is unchanged *)
Theorem C39_dry_no_effect : forall l s, fst (dry_run s l) = s.
Proof. exact dry_no_effect. Qed.

(* ... over any wrapped backend whose read requests do not modify it *)
Theorem C39_wrap_no_effect : forall (S : Type) (inner : S -> op -> S * res),
  (forall s o, modifying o = false -> fst (inner s o) = s) ->
  forall l s, fold_left (fun s o => fst (wrap inner s o)) l s = s.
Proof. exact wrap_no_effect. Qed.

Theorem C39_modifying_never_forwarded : forall (S : Type) (inner inner' : S -> op -> S * res) s o,
  modifying o = true -> wrap inner s o = wrap inner' s o.
Proof. exact wrap_modifying_independent. Qed.

Theorem C39_reads_pass_through : forall s o, modifying o = false -> snd (dry_step s o) = read s o.
Proof. exact dry_reads_pass. Qed.

(* wiring: the decision table of internalOpenWithLocked and of the commands *)
Theorem C39_wiring_dry_iff_unlocked : forall o flag,
  w_dry (open_with o flag) = negb (w_lock (open_with o flag)) /\ w_dry (open_with o flag) = flag.
Proof. exact open_with_dry_iff_unlocked. Qed.

Theorem C39_wiring_dry_run : forall c nolock r,
  cmd_open c true nolock = Some r ->
  (w_dry r = true /\ w_lock r = false) \/
  ((c = CForget \/ c = CPrune \/ c = CCheck \/ c = CReadOnly) /\ nolock = false /\ w_lock r = true).
Proof. exact wiring_dry_run. Qed.

Theorem C39_wiring_backup_like : forall c nolock r,
  (c = CBackup \/ (exists f, c = CRewrite f) \/ c = CRepairSnapshots) ->
  cmd_open c true nolock = Some r -> w_dry r = true /\ w_lock r = false.
Proof. exact wiring_backup_like. Qed.

Theorem C39_wiring_no_lock : forall c dry r,
  cmd_open c dry true = Some r ->
  (c = CCheck \/ c = CReadOnly \/ ((c = CForget \/ c = CPrune) /\ dry = true)) ->
  w_dry r = true /\ w_lock r = false.
Proof. exact wiring_no_lock. Qed.

Theorem C39_wiring_rejects : forall c dry nolock,
  cmd_open c dry nolock = None <-> (c = CForget \/ c = CPrune) /\ nolock = true /\ dry = false.
Proof. exact wiring_rejects. Qed.

Theorem C39_oracle_sound : forall k,
  check_C39 k = true <->
  match k with
  | CDry s0 _ _ s1 => s0 = s1
  | CWire _ flag lt _ isd nleft => (flag = true -> isd = true /\ lt = false) /\ nleft = 0
  | CCmd _ _ _ _ _ mods same nleft => mods = 0 /\ same = true /\ nleft = 0
  end.
Proof. exact check_C39_spec. Qed.

Theorem C39_model_satisfies_oracle : forall s0 ops,
  check_C39 (CDry s0 ops (snd (dry_run s0 ops)) (fst (dry_run s0 ops))) = true.
Proof. exact model_satisfies_oracle. Qed.

Print Assumptions C39_dry_no_effect.
Print Assumptions C39_wrap_no_effect.
Print Assumptions C39_modifying_never_forwarded.
Print Assumptions C39_reads_pass_through.
Print Assumptions C39_wiring_dry_iff_unlocked.
Print Assumptions C39_wiring_dry_run.
Print Assumptions C39_wiring_backup_like.
Print Assumptions C39_wiring_no_lock.
Print Assumptions C39_wiring_rejects.
Print Assumptions C39_oracle_sound.
Print Assumptions C39_model_satisfies_oracle.
