(* C20 — restore includes/excludes and --delete select exactly the matching paths. Statements only.
   Model: Model/C20m.v (selectIncludeFilter / selectExcludeFilter, traverseTreeInner pruning,
   removeUnexpectedFiles) on top of the glob model Model/S_Glob.v. *)
From Restic Require Import Base.Prelude Model.S_Glob Proofs.S_Globp Model.C28m Proofs.C28p Model.C20m Proofs.C20p.
Import S_Glob C20m.

(* for every prune-safe filter, every snapshot tree and every location: the pruned traversal hands exactly
   the selected snapshot entries to visitNode / enterDir (nothing is lost below a skipped directory) *)
Theorem C20_written_exact : forall sel top q d, sel_sound sel ->
  (In (q, d) (w_written (walk_root sel top)) <-> In (q, d) (spec_written sel top)).
Proof. exact walk_written_exact. Qed.

(* the include filter (--include / --iinclude, negations allowed) is prune-safe: include_exact *)
Theorem C20_include_prune_safe : forall ipats pats,
  no_err (map lower ipats) -> no_err pats -> sel_sound (sel_include ipats pats).
Proof. exact include_prune_safe. Qed.

Theorem C20_include_is_disjunction : forall ipats pats item d,
  sel_include ipats pats item d =
  (orb (fst (f_incl_i ipats item)) (fst (f_incl pats item)),
   andb (orb (snd (f_incl_i ipats item)) (snd (f_incl pats item))) d).
Proof. exact sel_include_eq. Qed.

(* the exclude filter without negated patterns is prune-safe: exclude_exact (restore writes exactly the
   entries that match no pattern) *)
Theorem C20_exclude_prune_safe : forall ipats pats,
  no_err (map lower ipats) -> no_err pats ->
  C28m.has_neg (map lower ipats) = false -> C28m.has_neg pats = false ->
  sel_sound (sel_exclude ipats pats).
Proof. exact exclude_prune_safe. Qed.

(* exclude filters in general (negated patterns allowed): restore writes exactly the selected entries whose
   ancestor directories are all selected -- the documented gitignore-like rule "once a directory is excluded,
   it is not possible to include files inside the directory" *)
Theorem C20_exclude_written_exact : forall ipats pats top,
  w_written (walk_root (sel_exclude ipats pats) top) = spec_written_excl (sel_exclude ipats pats) top.
Proof. exact exclude_written_exact. Qed.

Theorem C20_final_state_spec_excl : forall ipats pats delete top extras,
  final_state (sel_exclude ipats pats) delete top extras = spec_final_excl (sel_exclude ipats pats) delete top extras.
Proof. exact final_state_spec_excl. Qed.

(* where --delete acts: leaveDir runs exactly for the directories that are selected or hold a selected entry
   somewhere below (prune-safe filters), resp. for the selected directories below selected directories (exclude) *)
Theorem C20_leave_exact : forall sel top, sel_sound sel -> w_leave (walk_root sel top) = leave_spec_root sel top.
Proof. exact leave_root_exact. Qed.

Theorem C20_leave_excl_exact : forall sel top, excl_form sel -> w_leave (walk_root sel top) = leave_excl_root sel top.
Proof. exact leave_excl_root_exact. Qed.

(* --delete removes a pre-existing entry iff leaveDir runs for its directory, its name is not a child of the
   snapshot directory and the filter selects it *)
Theorem C20_delete_exact : forall sel leave e, deleted sel leave e = true <->
  exists names, In (fst e, names) leave /\ ~ In (snd e) names /\ fst (sel (desc (fst e) (snd e)) false) = true.
Proof. exact delete_exact. Qed.

(* the modelled target contents equal the specification (unpruned filter over all snapshot locations) *)
Theorem C20_final_state_spec : forall sel delete top extras x, sel_sound sel ->
  (In x (final_state sel delete top extras) <-> In x (spec_final sel delete top extras)).
Proof. exact final_state_spec. Qed.

Print Assumptions C20_written_exact.
Print Assumptions C20_include_prune_safe.
Print Assumptions C20_include_is_disjunction.
Print Assumptions C20_exclude_prune_safe.
Print Assumptions C20_exclude_written_exact.
Print Assumptions C20_final_state_spec_excl.
Print Assumptions C20_leave_exact.
Print Assumptions C20_leave_excl_exact.
Print Assumptions C20_delete_exact.
Print Assumptions C20_final_state_spec.
