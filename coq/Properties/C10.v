(* C10 - a full prune leaves no waste and reports accurate statistics. Statements only. *)
From Restic Require Import Base.Prelude Model.S_Prune Proofs.S_Prunep Proofs.S_Prunep2 Model.C10m Proofs.C10p.
Import SPrune C10m.
Open Scope N_scope.

(* The ground-truth oracle evaluated on the implementation's listings after a full prune means: the
   index holds only blobs reachable from a snapshot, each exactly once, every used blob is still
   there, and the pack files are exactly the packs named by the index. *)
Theorem C10_oracle_no_waste : forall c f r p i k s,
  c_obs c = Plan f r p i k s -> o_cacheable (c_opts c) = false -> check_C10 c = true -> no_waste c.
Proof. exact oracle_no_waste. Qed.

(* ... and the reported statistics equal a recount: total = number of index entries, used = number of
   distinct used blobs, pack total = number of pack files, remaining = number of index entries after,
   remaining unused = 0. *)
Theorem C10_oracle_counts : forall c f r p i k s,
  c_obs c = Plan f r p i k s -> o_cacheable (c_opts c) = false -> check_C10 c = true ->
  st_nth s 3 = lenN (c_es c) /\ st_nth s 0 = lenN (dedupN (c_used c) []) /\
  st_nth s 25 = lenN (c_listing c) /\ st_nth s 8 = lenN (c_after_es c) /\ st_nth s 20 = 0.
Proof. exact oracle_counts. Qed.

(* Model of decidePackAction, for every index listing, used set, pack listing and option record: packs
   planned for removal or ignored hold no selected copy (usedBlobs = 0), repacked packs hold one, packs
   removed first are not indexed. *)
Theorem C10_plan_remove_safe : forall o used es listing f r p i k stats,
  plan_prune o used es listing = Plan f r p i k stats ->
  (forall q, In q r -> usedB (ip (final kc used es) q) = 0) /\
  (forall q, In q i -> usedB (ip (final kc used es) q) = 0) /\
  (forall q, In q p -> 0 < usedB (ip (final kc used es) q)) /\
  (forall q, In q f -> ~ In q (packs_of es)).
Proof. exact plan_remove_safe. Qed.

(* Hence every used, indexed blob has an index entry in a pack that the plan neither removes nor ignores. *)
Theorem C10_used_blob_survives_removal : forall o used es listing f r p i k stats h,
  plan_prune o used es listing = Plan f r p i k stats ->
  In h used -> (1 <= cnt_h h es)%nat ->
  exists e, In e es /\ e_h e = h /\ ~ In (e_pack e) r /\ ~ In (e_pack e) i.
Proof. exact used_blob_survives_removal. Qed.

(* The totals reported by PlanPrune are the sums of their parts, and the pack counters are the sizes of
   the plan's sets. *)
Theorem C10_plan_totals : forall o used es listing f r p i k s,
  plan_prune o used es listing = Plan f r p i k s ->
  st_nth s 3 = st_nth s 0 + st_nth s 2 + st_nth s 1 /\
  st_nth s 7 = st_nth s 6 + st_nth s 5 /\
  st_nth s 8 = st_nth s 3 - st_nth s 7 /\
  st_nth s 14 = st_nth s 9 + st_nth s 10 + st_nth s 11 + st_nth s 12 /\
  st_nth s 18 = st_nth s 17 + st_nth s 16 + st_nth s 12 /\
  st_nth s 19 = st_nth s 14 - st_nth s 18 /\
  st_nth s 25 = st_nth s 21 + st_nth s 23 + st_nth s 22 + st_nth s 24 /\
  st_nth s 29 = st_nth s 24 + st_nth s 28 /\
  st_nth s 27 = lenN p /\ st_nth s 28 = lenN r /\ st_nth s 24 = lenN f.
Proof. exact plan_totals. Qed.

(* Model level, for every index listing, used set, pack listing and options without
   --repack-cacheable-only: after the planned full prune no unused blob stays indexed - every index
   entry whose pack is neither removed, repacked nor ignored belongs to a used blob, and every blob kept
   for repacking is used. *)
Theorem C10_no_unused_after_model : forall o used es listing f r p i k stats,
  plan_prune o used es listing = Plan f r p i k stats -> o_cacheable o = false ->
  (forall e, In e es -> ~ In (e_pack e) (r ++ p ++ i) -> In (e_h e) used) /\
  (forall h, In h k -> In h used).
Proof. exact no_unused_after_model. Qed.

(* The counters of packInfoFromIndex are exact for every entry list and used set: per pack
   usedBlobs + unusedBlobs = number of index entries of the pack, globally used + duplicate + unused =
   number of index entries (the decrements of pass 3 never underflow), and the unused counter of a pack
   is at least the number of its entries whose blob is not used at all. *)
Theorem C10_pack_counters_exact : forall k used es,
  (forall q, usedB (ip (final k used es) q) + unusedB (ip (final k used es) q) = N.of_nat (cnt_p q es)) /\
  s_usedB (sts (final k used es)) + s_dupB (sts (final k used es)) + s_unusedB (sts (final k used es))
    = N.of_nat (length es) /\
  (forall q, cntf (fun e => inp q e && isun (pass1 used es) e) es <= unusedB (ip (final k used es) q)).
Proof. exact final_counters_exact. Qed.

(* Blobs.Total reported by the model is the number of index entries. *)
Theorem C10_blobs_total_exact : forall o used es listing f r p i k s,
  plan_prune o used es listing = Plan f r p i k s -> st_nth s 3 = lenN es.
Proof. exact blobs_total_exact. Qed.

Print Assumptions C10_no_unused_after_model.
Print Assumptions C10_pack_counters_exact.
Print Assumptions C10_blobs_total_exact.
Print Assumptions C10_oracle_no_waste.
Print Assumptions C10_oracle_counts.
Print Assumptions C10_plan_remove_safe.
Print Assumptions C10_used_blob_survives_removal.
Print Assumptions C10_plan_totals.
