(* C52 — check --read-data-subset n/t buckets partition all packs. Statements only. *)
From Restic Require Import Base.Prelude Gen.ParamsC52 Model.C52m Proofs.C52p.
From Coq Require Import Permutation.
Import C52m.
Open Scope Z_scope.

(* every pack lies in exactly one of the buckets 1..t (pairwise disjoint + cover), for every t *)
Theorem C52_buckets_partition : forall packs t p, 1 <= t < two64 -> In p packs -> 0 <= fst p < 256 ->
  exists! n, 1 <= n <= t /\ In p (sb packs n t).
Proof. exact buckets_partition. Qed.

Theorem C52_buckets_cover : forall packs t p, 1 <= t < two64 -> In p packs -> 0 <= fst p < 256 ->
  exists n, 1 <= n <= t /\ In p (sb packs n t).
Proof. exact buckets_cover. Qed.

Theorem C52_buckets_disjoint : forall packs t p n1 n2, 1 <= t < two64 -> 0 <= fst p < 256 ->
  1 <= n1 <= t -> 1 <= n2 <= t -> In p (sb packs n1 t) -> In p (sb packs n2 t) -> n1 = n2.
Proof. exact buckets_disjoint. Qed.

Theorem C52_buckets_subset : forall packs n t p, In p (sb packs n t) -> In p packs.
Proof. exact buckets_subset. Qed.

(* why t is capped: buckets above 256 are always empty; bucket 0 wraps to nothing *)
Theorem C52_t_bound_needed : forall packs n t, 256 < n <= t -> t < two64 ->
  (forall p, In p packs -> 0 <= fst p < 256) -> sb packs n t = [].
Proof. exact t_bound_needed. Qed.

Theorem C52_bucket_zero_wraps : forall packs t, 1 <= t < two64 ->
  (forall p, In p packs -> 0 <= fst p < 256) -> sb packs 0 t = [].
Proof. exact bucket_zero_wraps. Qed.

Theorem C52_accept_bounds : forall n t, 0 <= n -> 0 <= t ->
  (accept_nt n t = true <-> 1 <= n <= t /\ t <= ParamsC52.total_buckets_max).
Proof. exact accept_bounds. Qed.

Theorem C52_cap_fits_byte : ParamsC52.total_buckets_max <= nbytes.
Proof. exact cap_fits_byte. Qed.

Theorem C52_every_bucket_reachable : forall n t, 0 <= n -> 0 <= t -> accept_nt n t = true ->
  exists b, 0 <= b < nbytes /\ bucket_test b n t = true.
Proof. exact every_bucket_reachable. Qed.

Theorem C52_accepted_no_panic : forall packs n t, 0 <= n -> 0 <= t -> accept_nt n t = true ->
  select_bucket packs n t = SOk (sb packs n t).
Proof. exact accepted_no_panic. Qed.

(* a percentage / size subset of a non-empty repository reads max(1,k) >= 1 packs of the repository
   (for every permutation the random source may produce), provided k <= count *)
Theorem C52_at_least_one_partial : forall keys perm k,
  Permutation perm (seq 0 (length keys)) -> keys <> [] -> k <= Z.of_nat (length keys) ->
  exists l, select_pct keys perm k = SOk l
            /\ Z.of_nat (length l) = eff_k (Z.of_nat (length keys)) k
            /\ 1 <= Z.of_nat (length l) /\ incl l keys.
Proof. exact pct_at_least_one. Qed.

Theorem C52_oracle_buckets_sound : forall packs t l,
  check_C52 (mk (IBuckets packs t) (OSels l)) = true <->
  existsb is_panic l = false /\ Z.of_nat (length l) = t
  /\ (forall p, In p packs -> occurrences p l = 1)
  /\ (forall s q, In s l -> In q (sel_list s) -> In q packs).
Proof. exact check_C52_buckets_sound. Qed.

Theorem C52_oracle_subset_sound : forall packs k sl,
  check_C52 (mk (IPct packs k) (OSel (SOk sl))) = true <->
  (packs = [] \/ sl <> []) /\ (forall q, In q sl -> In q packs) /\ nodup sl = true.
Proof. exact check_C52_subset_sound. Qed.

Theorem C52_check_case_zero : forall c, check_case c = 0%nat -> check_C52 c = true.
Proof. exact check_case_zero. Qed.

Print Assumptions C52_buckets_partition.
Print Assumptions C52_buckets_cover.
Print Assumptions C52_buckets_disjoint.
Print Assumptions C52_buckets_subset.
Print Assumptions C52_t_bound_needed.
Print Assumptions C52_bucket_zero_wraps.
Print Assumptions C52_accept_bounds.
Print Assumptions C52_cap_fits_byte.
Print Assumptions C52_every_bucket_reachable.
Print Assumptions C52_accepted_no_panic.
Print Assumptions C52_at_least_one_partial.
Print Assumptions C52_oracle_buckets_sound.
Print Assumptions C52_oracle_subset_sound.
Print Assumptions C52_check_case_zero.
