(* C01 — backup then restore reproduces the source tree exactly. Statements only. *)
From Restic Require Import Base.Prelude Model.C01m Proofs.C01p.
Import C01m.

(* For every hash H, chunker, configuration type, blob encoding and pack layout satisfying the
   stated laws, every configuration c and every well-formed source tree (only directories have
   children; all locations of a multiply linked inode — regular file, symlink or device — show the same content / target / device number; no hash collision
   among this backup's blobs): restoring the snapshot from the repository written under c yields
   the source tree, with every name, type, content, link target, device number and metadata record. *)
Theorem C01_restore_backup_id :
  forall (H : bytes -> N) (chunk : bytes -> list bytes) (cfg : Type) (enc : cfg -> bytes -> bytes)
         (dec : bytes -> option bytes) (layout : cfg -> list (N * bytes) -> list (list (N * bytes))),
    (forall d, concat (chunk d) = d) ->
    (forall c b, dec (enc c b) = Some b) ->
    (forall c l e, In e (concat (layout c l)) <-> In e l) ->
    forall fs : tree,
    (forall a b, In a (blobs chunk fs) -> In b (blobs chunk fs) -> H a = H b -> a = b) ->
    forall (c : cfg) (D : key -> bytes) (DS : key -> payload),
    shape_ok fs -> links_ok D DS fs ->
    restore_backup H chunk cfg enc dec layout c fs = Some fs.
Proof. exact restore_backup_id_c. Qed.

(* The configuration cannot matter for what is restored. *)
Theorem C01_backup_cfg_irrelevant :
  forall (H : bytes -> N) (chunk : bytes -> list bytes) (cfg : Type) (enc : cfg -> bytes -> bytes)
         (dec : bytes -> option bytes) (layout : cfg -> list (N * bytes) -> list (list (N * bytes))),
    (forall d, concat (chunk d) = d) ->
    (forall c b, dec (enc c b) = Some b) ->
    (forall c l e, In e (concat (layout c l)) <-> In e l) ->
    forall fs : tree,
    (forall a b, In a (blobs chunk fs) -> In b (blobs chunk fs) -> H a = H b -> a = b) ->
    forall (D : key -> bytes) (DS : key -> payload) (c1 c2 : cfg),
    shape_ok fs -> links_ok D DS fs ->
    restore_backup H chunk cfg enc dec layout c1 fs = restore_backup H chunk cfg enc dec layout c2 fs.
Proof. exact cfg_irrelevant_c. Qed.

(* The snapshot tree is built without looking at the configuration at all. *)
Theorem C01_snapshot_tree_cfg_free :
  forall (H : bytes -> N) (chunk : bytes -> list bytes) (cfg : Type) (enc : cfg -> bytes -> bytes)
         (layout : cfg -> list (N * bytes) -> list (list (N * bytes))) (c1 c2 : cfg) (fs : tree),
    map fst (concat [map (fun b => (H b, enc c1 b)) (blobs chunk fs)]) =
    map fst (concat [map (fun b => (H b, enc c2 b)) (blobs chunk fs)]).
Proof. intros. cbn [concat]. rewrite !app_nil_r, !map_map. reflexivity. Qed.

(* The expected snapshot listing holds exactly the node of every non-socket source entry. *)
Theorem C01_model_snapshot_entries : forall src s,
  In s (model_snapshot src) <-> exists e, In e src /\ is_socket e = false /\ s = node_of_ent e.
Proof. exact model_snapshot_in. Qed.

Theorem C01_model_snapshot_length : forall src, length (model_snapshot src) = length (archived src).
Proof. intros. unfold model_snapshot. rewrite map_length. apply sort_length. Qed.

(* Oracle: every run restored a tree whose entries agree with the archived source entries in all
   listed attributes and whose hard-link grouping is the same; all runs produced one tree id. *)
Theorem C01_oracle_sound : forall c, check_C01 c = true <-> C01_holds c.
Proof. exact check_C01_iff. Qed.

Theorem C01_same_tree_meaning : forall src dst, same_tree src dst = true <-> same_tree_spec src dst.
Proof. exact same_tree_iff. Qed.

Theorem C01_faithful_restore_passes : forall src tid,
  check_case (mk src (model_snapshot src) [mkRun true tid (archived src)]) = 0%nat.
Proof. exact faithful_restore_ok. Qed.

Print Assumptions C01_restore_backup_id.
Print Assumptions C01_backup_cfg_irrelevant.
Print Assumptions C01_snapshot_tree_cfg_free.
Print Assumptions C01_model_snapshot_entries.
Print Assumptions C01_model_snapshot_length.
Print Assumptions C01_oracle_sound.
Print Assumptions C01_same_tree_meaning.
Print Assumptions C01_faithful_restore_passes.
