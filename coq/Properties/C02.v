(* C02 — loaded data always matches its content address. Statements only.
   [hash] is an arbitrary function (SHA-256 in restic), [fetch] an arbitrary call-indexed backend
   (it may answer differently on every call: altered, truncated, stale bytes, errors),
   [dec] an arbitrary decrypt+decompress function. *)
From Restic Require Import Base.Prelude Gen.ParamsC02 Model.C02m Proofs.C02p.
Import C02m.

(* LoadRaw of a non-config file only ever returns bytes whose hash is the requested ID. *)
Theorem C02_load_raw_sound : forall hash fetch i b n f,
  load_raw hash fetch FOther i = (RawOk b, n, f) -> hash b = i.
Proof. exact load_raw_sound. Qed.

Theorem C02_load_raw_bounds : forall hash fetch t i,
  (snd (fst (load_raw hash fetch t i)) <= 2)%nat /\ (snd (load_raw hash fetch t i) <= 1)%nat.
Proof. exact load_raw_bounds. Qed.

Theorem C02_load_raw_first_good : forall hash fetch t i,
  rr_err (fetch 0%nat) = false -> hash (rr_buf (fetch 0%nat)) = i ->
  load_raw hash fetch t i = (RawOk (rr_buf (fetch 0%nat)), 1%nat, 0%nat).
Proof. exact load_raw_first_good. Qed.

Theorem C02_load_raw_heals : forall hash fetch i,
  hash (rr_buf (fetch 0%nat)) <> i -> rr_err (fetch 1%nat) = false -> hash (rr_buf (fetch 1%nat)) = i ->
  load_raw hash fetch FOther i = (RawOk (rr_buf (fetch 1%nat)), 2%nat, 1%nat).
Proof. exact load_raw_heals. Qed.

Theorem C02_load_raw_twice_wrong : forall hash fetch i,
  hash (rr_buf (fetch 0%nat)) <> i -> hash (rr_buf (fetch 1%nat)) <> i ->
  fst (fst (load_raw hash fetch FOther i)) = RawInvalid (rr_buf (fetch 1%nat)) \/
  fst (fst (load_raw hash fetch FOther i)) = RawErr.
Proof. exact load_raw_twice_wrong. Qed.

(* LoadUnpacked hands out only the decoding of bytes stored under the requested ID. *)
Theorem C02_load_unpacked_sound : forall hash dec zero_id fetch i p,
  load_unpacked hash dec zero_id fetch FOther i = UnpOk p ->
  exists b, hash b = i /\ dec FOther b = Some p /\ (Z.to_nat ParamsC02.extension <= length b)%nat.
Proof. exact load_unpacked_sound. Qed.

(* LoadBlob: whatever the backend answers at each index location and on the retry, a returned plaintext hashes to the ID. *)
Theorem C02_load_blob_sound : forall hash fetch nlocs i p k,
  load_blob hash fetch nlocs i = (BlobOk p, k) -> hash p = i.
Proof. exact load_blob_sound. Qed.

Theorem C02_load_blob_fetches : forall hash fetch nlocs i, (snd (load_blob hash fetch nlocs i) <= 2 * nlocs)%nat.
Proof. exact load_blob_fetches. Qed.

Theorem C02_load_blob_complete : forall hash fetch nlocs i j p,
  (j < nlocs)%nat -> fetch j = BPlain p -> hash p = i ->
  exists q k, load_blob hash fetch nlocs i = (BlobOk q, k).
Proof. exact load_blob_complete. Qed.

(* Names: blobs under the hash of their plaintext (the zero-chunk shortcut included), files under the hash of their bytes. *)
Theorem C02_save_blob_names_hash : forall hash b skip, save_blob hash b None skip = SaveOk (hash b).
Proof. exact save_blob_names_hash. Qed.

Theorem C02_save_blob_sound : forall hash b given i, save_blob hash b given false = SaveOk i -> i = hash b.
Proof. exact save_blob_sound. Qed.

Theorem C02_zero_chunk_is_zeros : forall b, is_zero_chunk b = true -> b = repeat 0%N min_size.
Proof. exact zero_chunk_is_zeros. Qed.

Theorem C02_stored_name_is_hash : forall hash zero_id content, stored_name hash zero_id FOther content = hash content.
Proof. exact stored_name_is_hash. Qed.

(* If the hash separates the original from everything else, the original itself is returned. *)
Theorem C02_load_raw_returns_original : forall hash fetch i b n f original,
  hash original = i -> (forall x, hash x = hash original -> x = original) ->
  load_raw hash fetch FOther i = (RawOk b, n, f) -> b = original.
Proof. exact load_raw_returns_original. Qed.

Theorem C02_load_blob_returns_original : forall hash fetch nlocs i p k original,
  hash original = i -> (forall x, hash x = hash original -> x = original) ->
  load_blob hash fetch nlocs i = (BlobOk p, k) -> p = original.
Proof. exact load_blob_returns_original. Qed.

(* Oracle *)
Theorem C02_oracle_raw : forall t i script d n,
  check_C02 (CRaw t i script (ORawOk d) n) = true <-> (t = FConfig \/ d = i).
Proof. exact check_C02_raw. Qed.

Theorem C02_oracle_unpacked : forall i script p,
  check_C02 (CUnp FOther i script (Some p)) = true <-> exists r short, In (r, short, Some p) script /\ rr_buf r = i.
Proof. exact check_C02_unp. Qed.

Theorem C02_oracle_blob : forall i nlocs script d n, check_C02 (CBlob i nlocs script (Some d) n) = true <-> d = i.
Proof. exact check_C02_blob. Qed.

Theorem C02_oracle_saved : forall name digest, check_C02 (CSaved FOther name digest) = true <-> name = digest.
Proof. exact check_C02_saved. Qed.

Theorem C02_oracle_stored_blob : forall i d, check_C02 (CStoredBlob i d) = true <-> i = d.
Proof. exact check_C02_stored_blob. Qed.

Theorem C02_oracle_save_blob : forall digest len zeros given i zd,
  check_C02 (CSaveBlob digest len zeros given false (Some i) zd) = true <-> i = digest.
Proof. exact check_C02_save_blob. Qed.

Theorem C02_oracle_save_blob_computed : forall digest len zeros skip i zd,
  check_C02 (CSaveBlob digest len zeros None skip (Some i) zd) = true <-> i = digest.
Proof. exact check_C02_save_blob_computed. Qed.

(* Save cases without a caller-supplied ID are judged by C02_save_blob_names_hash. *)
Theorem C02_oracle_save_blob_is_names_hash : forall (hash : bytes -> id) b len zeros skip obs zd,
  check_C02 (CSaveBlob (hash b) len zeros None skip obs zd) = true <->
  match obs with Some i => SaveOk i | None => SaveErr end = save_blob hash b None skip.
Proof. exact check_C02_save_blob_is_names_hash. Qed.

Theorem C02_oracle_saved_load : forall digest ret loaded,
  check_C02 (CSavedLoad digest ret loaded) = true <-> ret = digest /\ loaded = Some digest.
Proof. exact check_C02_saved_load. Qed.

Theorem C02_model_raw_satisfies_oracle : forall t i script,
  let '(r, nf, _) := load_raw hid (nth_raw script) t i in check_case (CRaw t i script (to_obs r) nf) = 0%nat.
Proof. exact model_raw_satisfies_oracle. Qed.

Theorem C02_model_blob_satisfies_oracle : forall i nlocs script,
  let '(r, k) := blob_model i nlocs script in check_case (CBlob i nlocs script r k) = 0%nat.
Proof. exact model_blob_satisfies_oracle. Qed.

Print Assumptions C02_load_raw_sound.
Print Assumptions C02_load_raw_bounds.
Print Assumptions C02_load_raw_first_good.
Print Assumptions C02_load_raw_heals.
Print Assumptions C02_load_raw_twice_wrong.
Print Assumptions C02_load_unpacked_sound.
Print Assumptions C02_load_blob_sound.
Print Assumptions C02_load_blob_fetches.
Print Assumptions C02_load_blob_complete.
Print Assumptions C02_save_blob_names_hash.
Print Assumptions C02_save_blob_sound.
Print Assumptions C02_zero_chunk_is_zeros.
Print Assumptions C02_stored_name_is_hash.
Print Assumptions C02_load_raw_returns_original.
Print Assumptions C02_load_blob_returns_original.
Print Assumptions C02_oracle_raw.
Print Assumptions C02_oracle_unpacked.
Print Assumptions C02_oracle_blob.
Print Assumptions C02_oracle_saved.
Print Assumptions C02_oracle_stored_blob.
Print Assumptions C02_oracle_save_blob.
Print Assumptions C02_oracle_save_blob_computed.
Print Assumptions C02_oracle_save_blob_is_names_hash.
Print Assumptions C02_oracle_saved_load.
Print Assumptions C02_model_raw_satisfies_oracle.
Print Assumptions C02_model_blob_satisfies_oracle.
