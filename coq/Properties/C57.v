(* C57 — ID prefixes resolve to the unique matching file or an error. Statements only. *)
From Restic Require Import Base.Prelude Model.C57m Proofs.C57p.
Import C57m.

(* The model of restic.Find equals the declarative spec for every id list and every prefix. *)
Theorem C57_find_refines_spec : forall ids p, find ids p = spec ids p.
Proof. exact find_refines_spec. Qed.

Theorem C57_prefix_meaning : forall p s, is_prefix p s = true <-> exists t, s = p ++ t.
Proof. exact is_prefix_spec. Qed.

Theorem C57_found_iff_unique : forall ids p i,
  find ids p = RFound i <-> filter (is_prefix p) ids = [i].
Proof. intros; rewrite find_refines_spec; apply spec_found. Qed.

Theorem C57_noid_iff_none : forall ids p,
  find ids p = RNoID <-> forall i, In i ids -> is_prefix p i = false.
Proof. intros; rewrite find_refines_spec; apply spec_noid. Qed.

Theorem C57_multiple_iff_many : forall ids p,
  find ids p = RMultiple <-> 2 <= length (filter (is_prefix p) ids).
Proof. intros; rewrite find_refines_spec; apply spec_multiple. Qed.

Theorem C57_oracle_sound : forall c, check_C57 c = true <-> c_obs c = spec (c_ids c) (c_prefix c).
Proof. exact check_C57_iff. Qed.

Print Assumptions C57_find_refines_spec.
Print Assumptions C57_prefix_meaning.
Print Assumptions C57_found_iff_unique.
Print Assumptions C57_noid_iff_none.
Print Assumptions C57_multiple_iff_many.
Print Assumptions C57_oracle_sound.
