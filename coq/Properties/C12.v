(* C12 — an exclusive lock never coexists with another active lock. Statements only.
   run excl sched = the state reached from the empty lock directory by an arbitrary schedule of
   protocol steps of arbitrarily many processes (newLock: list/load.../create (non-atomic)/wait/
   list/load.../hold; refresh = create replacement then remove old; unlock), crashes, transient
   backend failures of any request, damaged lock files, and removals of lock files not in use by a
   live process (stale removal under the property's clock assumption, see props/C12.json). *)
From Restic Require Import Base.Prelude Model.C12m Proofs.C12p Gen.ParamsC12.
Import C12m.

(* two distinct processes that both believe they hold a lock both hold non-exclusive locks *)
Theorem C12_mutex : forall (excl : pid -> bool) (sched : list action) (p q : pid),
  p <> q -> holding (ps (run excl sched) p) = true -> holding (ps (run excl sched) q) = true ->
  excl p = false /\ excl q = false.
Proof. exact mutex. Qed.

(* while a process holds an exclusive lock no other process holds any lock *)
Theorem C12_exclusive_alone : forall (excl : pid -> bool) (sched : list action) (p q : pid),
  excl p = true -> holding (ps (run excl sched) p) = true -> q <> p ->
  holding (ps (run excl sched) q) = false.
Proof. exact exclusive_alone. Qed.

(* a believer always owns a complete lock file in the directory, also in the middle of a refresh *)
Theorem C12_holder_has_file : forall (excl : pid -> bool) (sched : list action) (p : pid),
  holding (ps (run excl sched) p) = true ->
  exists f, f < next (run excl sched) /\
            (files (run excl sched) f = FFile p Full \/ files (run excl sched) f = FFile p Junk).
Proof. exact holder_has_file. Qed.

(* the boolean oracle used on the implementation's observables means the property *)
Theorem C12_oracle_mutex_sound : forall l, mutexb l = true <-> ForallOrdPairs pair_ok l.
Proof. exact mutexb_spec. Qed.

Theorem C12_oracle_files_sound : forall d l a,
  holders_have_files d a l = true <->
  forall i b, nth_error l i = Some b -> b = BHold -> owns_file d (a + i) = true.
Proof. intros; apply hhf_spec. Qed.

Theorem C12_oracle_stale_sound : forall t l rm,
  stale_safe t l rm = true <->
  Forall2 (fun x r => r = true -> snd x = true /\
             stale t (fst (fst (fst x))) (snd (fst (fst x))) (snd (fst x)) = true) l rm.
Proof. exact stale_safe_spec. Qed.

Theorem C12_stale_meaning : forall t age sh al,
  stale t age sh al = true <-> (t < age)%Z \/ (sh = true /\ al = false).
Proof. exact stale_spec. Qed.

(* the model's own observables satisfy the oracle for every schedule / every lock set *)
Theorem C12_model_satisfies_oracle : forall el sched,
  check_C12 (CWorld (mkWorld el sched
     (map (fun p => belief_of (ps (run (excl_of el) (map (fun e => match e with EAct a _ => a | EEnv a => a end) sched)) p))
          (seq 0 (length el)))
     (dir_of (run (excl_of el) (map (fun e => match e with EAct a _ => a | EEnv a => a end) sched))))) = true.
Proof. exact model_satisfies_oracle. Qed.

Theorem C12_model_stale_safe : forall t l, stale_safe t l (model_removed t l) = true.
Proof. exact model_stale_safe. Qed.

Theorem C12_params_sane :
  (0 < ParamsC12.wait_before_lock_check_ms)%Z /\ ParamsC12.stale_lock_timeout_ms = 1800000%Z.
Proof. exact params_sane. Qed.

(* forced refresh of a stale lock (scenario family, not part of the interleaving model above) *)
Theorem C12_forced_oracle_sound : forall f,
  check_C12 (CForced f) = true <-> ~ (f_xok f = true /\ f_yok f = true /\ orb (f_exclx f) (f_excly f) = true).
Proof. exact forced_oracle_spec. Qed.

Theorem C12_forced_ok_meaning : forall old1 saveok old2,
  forced_ok old1 saveok old2 = true <-> old1 = true /\ saveok = true /\ old2 = true.
Proof. exact forced_ok_spec. Qed.

Print Assumptions C12_mutex.
Print Assumptions C12_exclusive_alone.
Print Assumptions C12_holder_has_file.
Print Assumptions C12_oracle_mutex_sound.
Print Assumptions C12_oracle_files_sound.
Print Assumptions C12_oracle_stale_sound.
Print Assumptions C12_stale_meaning.
Print Assumptions C12_model_satisfies_oracle.
Print Assumptions C12_model_stale_safe.
Print Assumptions C12_params_sane.
Print Assumptions C12_forced_oracle_sound.
Print Assumptions C12_forced_ok_meaning.
