(* C51 — self-update installs only a signed, hash-matching binary. Statements only. *)
From Restic Require Import Base.Prelude Model.C51m Proofs.C51p.
Import C51m.

(* For every signature predicate, hash function, decompressor, release metadata and current version:
   an installation implies a valid signature over the selected SHA256SUMS, a first line "<hex>  <name>" for the
   exact name of the downloaded archive whose hex is the archive's SHA-256, and the payload is the unpacked archive. *)
Theorem C51_install_implies : forall sigok sha256 unpack s1 s2 s3 current rel payload version n,
  pipeline sigok sha256 unpack s1 s2 s3 current rel = (OInstalled payload version, n) ->
  verified sigok sha256 unpack s1 s2 s3 rel payload.
Proof. exact install_implies. Qed.

(* otherwise the existing binary is left unchanged *)
Theorem C51_otherwise_unchanged : forall sigok sha256 unpack s1 s2 s3 current rel old,
  target_after old (pipeline sigok sha256 unpack s1 s2 s3 current rel) <> old ->
  exists payload version n,
    pipeline sigok sha256 unpack s1 s2 s3 current rel = (OInstalled payload version, n) /\
    verified sigok sha256 unpack s1 s2 s3 rel payload.
Proof. exact otherwise_unchanged. Qed.

(* findHash: exactly the first line that splits on "  " into two fields with the exact file name decides *)
Theorem C51_find_hash_spec : forall buf name h,
  find_hash buf name = FHFound h <->
  exists pre l post hx, scan_lines buf = pre ++ l :: post /\
     (forall l', In l' pre -> ~ names l' name) /\
     l = hx ++ SP :: SP :: name /\ split2 l = [hx; name] /\ hexdec hx = Some h.
Proof. exact find_hash_spec. Qed.

Theorem C51_split_join : forall s, join2 (split2 s) = s.
Proof. exact split2_join. Qed.

(* the archive (and its name, which keys the hash lookup) is the first asset carrying the platform suffix *)
Theorem C51_asset_choice : forall assets suf name body,
  get_file assets suf = FOk name body ->
  exists pre a post, assets = pre ++ a :: post /\ a_name a = name /\ a_body a = Some body /\
     has_suffix name suf = true /\ forall x, In x pre -> has_suffix (a_name x) suf = false.
Proof. exact get_file_first. Qed.

(* the archive is requested only after the signature has been verified *)
Theorem C51_archive_after_signature : forall sigok sha256 unpack s1 s2 s3 current rel o,
  pipeline sigok sha256 unpack s1 s2 s3 current rel = (o, 4%N) ->
  exists sname sums gname sig, get_file (rel_assets rel) s1 = FOk sname sums /\
     get_file (rel_assets rel) s2 = FOk gname sig /\ sigok sums sig = true.
Proof. exact archive_fetched_only_after_sig. Qed.

(* completeness: valid release data for a different version is installed *)
Theorem C51_verified_installs : forall sigok sha256 unpack s1 s2 s3 current rel payload c version,
  rel_tag rel = Some (c :: version) -> c = 118%N -> version <> current ->
  verified sigok sha256 unpack s1 s2 s3 rel payload ->
  fst (pipeline sigok sha256 unpack s1 s2 s3 current rel) = OInstalled payload version.
Proof. exact verified_installs. Qed.

Theorem C51_oracle_sound : forall sigs shas unp suf current rel old obs reqs tgt,
  check_C51 (CRun sigs shas unp suf current rel old obs reqs tgt) = true ->
  option_map fst tgt <> option_map fst old \/ is_version obs = true ->
  exists cont m, tgt = Some (cont, m) /\
    verified (tab_sigok sigs) (tab_sha shas) (tab_unpack unp) SUMS SUMS_ASC suf rel cont.
Proof. exact oracle_run_sound. Qed.

Theorem C51_model_sat_oracle : forall sigs shas unp suf current rel old,
  let r := pipeline (tab_sigok sigs) (tab_sha shas) (tab_unpack unp) SUMS SUMS_ASC suf current rel in
  check_C51 (CRun sigs shas unp suf current rel old (obs_of current (fst r)) (snd r) (target_after old r)) = true.
Proof. exact model_sat_oracle. Qed.

Print Assumptions C51_install_implies.
Print Assumptions C51_otherwise_unchanged.
Print Assumptions C51_find_hash_spec.
Print Assumptions C51_split_join.
Print Assumptions C51_asset_choice.
Print Assumptions C51_archive_after_signature.
Print Assumptions C51_verified_installs.
Print Assumptions C51_oracle_sound.
Print Assumptions C51_model_sat_oracle.
