(* C17 — content-defined chunking is lossless, bounded and shift-resistant. Statements only. *)
From Restic Require Import Base.Prelude Model.C17m Proofs.C17p Gen.ParamsC17.
Import C17m.
Open Scope N_scope.

(* BaseChunker.nextSplitPoint on any buffer, from any chunker state, is the per-byte machine run over
   that buffer: buffer boundaries (the pre-skip arithmetic, the stored window/count) are invisible. *)
Theorem C17_next_split_point_is_per_byte : forall c s buf,
  nsp c s buf = let '(o, s') := run1 c s buf in (option_map N.of_nat o, s').
Proof. exact nsp_run1. Qed.

(* io.ReadFull delivers exactly min(want, available) bytes for every short-read script. *)
Theorem C17_read_full_any_short_reads : forall sc rm want acc,
  exists sc', read_full sc rm want acc = (acc ++ firstn want rm, mkrd (skipn want rm) sc').
Proof. exact read_full_spec. Qed.

(* saveFile's chunk loop (readNextChunk re-entered until io.EOF) yields the per-byte reference chunking
   of the file for every read-buffer size > 0, every short-read pattern of the source and every state
   the worker's chunker / chunk state was left in by earlier files. *)
Theorem C17_segmentation_irrelevant : forall c bufsz, (0 < bufsz)%nat -> forall k0 s0 d sc,
  exists k2 s2, save_file c bufsz k0 s0 d sc = (Some (spec c d), k2, s2).
Proof. exact save_file_spec. Qed.

(* one worker, any sequence of files, any initial state: file k's chunks depend on file k only *)
Theorem C17_history_irrelevant : forall c bufsz, (0 < bufsz)%nat -> forall files k s,
  worker c bufsz k s files = map (fun f => Some (spec c (fst f))) files.
Proof. exact worker_spec. Qed.

Theorem C17_lossless : forall c d, concat (spec c d) = d.
Proof. intros; unfold spec; apply concat_spec_go. Qed.

(* every chunk but the last has MinSize <= size <= MaxSize; the last is non-empty and <= MaxSize *)
Theorem C17_bounds : forall c, 64 <= mn c -> mn c <= mx c -> forall d, bounded c (spec c d).
Proof. intros c H1 H2 d. unfold spec. apply bounded_spec_go; try assumption. apply inv_reset; assumption. Qed.

(* the chunks cut inside a common prefix P are chunks of every file that starts with P *)
Theorem C17_prefix_stable : forall c P X,
  spec c P = complete c P ++ fin (partial c P) /\ exists t, spec c (P ++ X) = complete c P ++ t.
Proof. intros c P X. split; [apply spec_complete_partial | apply prefix_stable]. Qed.

(* if two files cut exactly where a common suffix S starts, all later chunks are those of S *)
Theorem C17_resync : forall c A1 A2 S, partial c A1 = [] -> partial c A2 = [] ->
  spec c (A1 ++ S) = complete c A1 ++ spec c S /\ spec c (A2 ++ S) = complete c A2 ++ spec c S
  /\ concat (complete c A1) = A1 /\ concat (complete c A2) = A2.
Proof.
  intros c A1 A2 S H1 H2. destruct (resync c A1 S H1) as [E1 C1]. destruct (resync c A2 S H2) as [E2 C2].
  repeat split; assumption.
Qed.

(* cut_is_local: after any prefix d of a file, once a cut is allowed (chunk length incl. the next byte
   >= MinSize, MinSize >= 64), the decision on the next byte b is "the last 64 bytes of the current
   chunk hit, or the chunk has reached MaxSize": the window the chunker hashes IS those 64 bytes
   (the initial slide(1) byte and the skipped pre bytes have left it) *)
Theorem C17_cut_is_local : forall c, 64 <= mn c -> forall d b,
  let s := fst (snd (spec_cuts c (reset_st c) [] d)) in
  let acc := snd (snd (spec_cuts c (reset_st c) [] d)) in
  mn c <= blen acc + 1 ->
  fst (step1 c s b) = (hit c (lastn 64 (acc ++ [b])) || (mx c <=? blen acc + 1)).
Proof. exact cut_is_local. Qed.

Theorem C17_no_cut_before_min : forall c, 64 <= mn c -> forall d b,
  let s := fst (snd (spec_cuts c (reset_st c) [] d)) in
  let acc := snd (snd (spec_cuts c (reset_st c) [] d)) in
  blen acc + 1 < mn c -> fst (step1 c s b) = false.
Proof. exact no_cut_before_min. Qed.

Theorem C17_window_at_decision : forall c, 64 <= mn c -> forall s acc b,
  winv c s acc -> mn c <= cnt s + 1 -> pre s = 0 /\ push (win s) b = lastn 64 (acc ++ [b]).
Proof. exact window_at_decision. Qed.

(* oracle of the byte-level cases: code 0 iff observed chunks = reference chunking (+ the two
   implied clauses, which the oracle reports separately) *)
Theorem C17_oracle_small : forall c f, small_code c f = 0%nat <->
  f_obs f = spec c (f_data f) /\ concat (f_obs f) = f_data f /\ bounds_ok (mn c) (mx c) (lens (f_obs f)) = true.
Proof. exact small_code_zero. Qed.

Theorem C17_oracle_small_config : forall c f, 64 <= mn c -> mn c <= mx c ->
  (small_code c f = 0%nat <-> f_obs f = spec c (f_data f)).
Proof. exact small_code_zero'. Qed.

Theorem C17_hit_in_meaning : forall H lo hi, hit_in H lo hi = true <->
  exists a b, In (a, b) H /\ lo <= hi /\ a <= hi /\ lo <= b.
Proof. exact hit_in_spec. Qed.

(* the production constants satisfy the side conditions of the theorems *)
Theorem C17_production_constants :
  (64 <= ParamsC17.min_size <= ParamsC17.max_size)%Z /\ (0 < ParamsC17.read_buf_size)%Z
  /\ ParamsC17.max_chunk_size = ParamsC17.max_size.
Proof. vm_compute. repeat split; congruence. Qed.

Print Assumptions C17_next_split_point_is_per_byte.
Print Assumptions C17_read_full_any_short_reads.
Print Assumptions C17_segmentation_irrelevant.
Print Assumptions C17_history_irrelevant.
Print Assumptions C17_lossless.
Print Assumptions C17_bounds.
Print Assumptions C17_prefix_stable.
Print Assumptions C17_resync.
Print Assumptions C17_cut_is_local.
Print Assumptions C17_no_cut_before_min.
Print Assumptions C17_window_at_decision.
Print Assumptions C17_oracle_small.
Print Assumptions C17_oracle_small_config.
Print Assumptions C17_hit_in_meaning.
Print Assumptions C17_production_constants.
