(* C46 — reading a mounted file returns exactly the requested byte range. Statements only. *)
From Restic Require Import Base.Prelude Model.C46m Proofs.C46p.
From Coq Require Import Sorted.
Import C46m.

(* Open + Read on a consistent repository (every blob indexed with its real length, loads succeed):
   for every blob list (incl. empty blobs), every stored node.Size, every offset in the uint64 range
   and every size, the handle reports the real size and Read returns exactly bytes [off, off+n) of
   the concatenated content (clipped at the end). *)
Theorem C46_read_spec : forall node_size (bs : list bytes) off n,
  (0 <= off < Z.of_N two64)%Z ->
  exists o, open node_size (map Some (lens bs)) = Some o
    /\ o_size o = N.of_nat (length (concat bs))
    /\ read o (map Some bs) off n = ROk (firstn n (skipn (Z.to_nat off) (concat bs))).
Proof. exact read_spec. Qed.

Theorem C46_past_end_empty : forall node_size (bs : list bytes) off n,
  (Z.of_nat (length (concat bs)) <= off < Z.of_N two64)%Z ->
  exists o, open node_size (map Some (lens bs)) = Some o /\ read o (map Some bs) off n = ROk [].
Proof. exact past_end_empty. Qed.

(* node.Size is replaced by the sum of the indexed blob sizes whatever the tree said *)
Theorem C46_size_fix : forall node_size sizes o,
  open node_size (map Some sizes) = Some o -> o_size o = sumN sizes.
Proof. exact size_fix. Qed.

Theorem C46_open_missing_blob_fails : forall node_size lk, In None lk -> open node_size lk = None.
Proof. exact open_missing. Qed.

(* precondition of sort.Search: cumsize is sorted; and the binary search then finds the same index
   as the linear first-index search used in the model *)
Theorem C46_cumsize_sorted : forall node_size lk o, open node_size lk = Some o -> Sorted N.le (o_cum o).
Proof. exact cumsize_sorted. Qed.

Theorem C46_binary_search_agrees : forall o blobs off n,
  Sorted N.le (o_cum o) -> read_with search_bin o blobs off n = read o blobs off n.
Proof. exact read_bin_eq. Qed.

(* concurrent readers of one file through a shared cache: for every schedule of loop iterations and
   cache evictions, every finished reader returns exactly its requested range *)
Theorem C46_concurrent_reads_spec :
  forall (repo : nat -> bytes) node_size content o (reqs : list (Z * nat)) readers c sched i r,
    open node_size (map Some (lens (map repo content))) = Some o ->
    Forall (fun q => (0 <= fst q < Z.of_N two64)%Z) reqs ->
    Forall2 (fun q r0 => mk_reader o content (fst q) (snd q) = Some r0) reqs readers ->
    cache_ok repo c ->
    nth_error (fst (run repo (readers, c) sched)) i = Some r -> reader_done r = true ->
    exists q, nth_error reqs i = Some q
      /\ reader_resp r = ROk (firstn (snd q) (skipn (Z.to_nat (fst q)) (concat (map repo content)))).
Proof. exact concurrent_reads_spec. Qed.

(* the reader state machine is the sequential Read cut into loop iterations *)
Theorem C46_reader_is_read : forall (repo : nat -> bytes) o content off n,
  match mk_reader o content off n with
  | Some r => reader_result repo r = read o (map (fun id => Some (repo id)) content) off n
  | None => read o (map (fun id => Some (repo id)) content) off n = RPanic
  end.
Proof. exact mk_reader_result. Qed.

Theorem C46_oracle_sound : forall c,
  check_C46 c = true <->
  (forall bs, consistent (c_lookup c) (c_blobs c) = Some bs ->
     exists r, c_obs c = ORead (N.of_nat (length (concat bs))) r
       /\ ((0 <= c_off c)%Z -> r = ROk (firstn (c_size c) (skipn (Z.to_nat (c_off c)) (concat bs))))).
Proof. exact check_C46_iff. Qed.

Theorem C46_model_satisfies_oracle : forall node_size lk blobs off n,
  (off < Z.of_N two64)%Z ->
  check_C46 (mk node_size lk blobs off n (open_read node_size lk blobs off n)) = true.
Proof. exact model_satisfies_oracle. Qed.

Print Assumptions C46_read_spec.
Print Assumptions C46_past_end_empty.
Print Assumptions C46_size_fix.
Print Assumptions C46_open_missing_blob_fails.
Print Assumptions C46_cumsize_sorted.
Print Assumptions C46_binary_search_agrees.
Print Assumptions C46_concurrent_reads_spec.
Print Assumptions C46_reader_is_read.
Print Assumptions C46_oracle_sound.
Print Assumptions C46_model_satisfies_oracle.
