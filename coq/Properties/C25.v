(* C25 — tag edits leave snapshots with exactly the requested tags. Statements only. *)
From Restic Require Import Base.Prelude Model.C25m Proofs.C25p.
From Coq Require Import Permutation.
Import C25m.

(* Snapshot.AddTags: the result carries exactly the old tags and the added ones; the old list is a
   prefix (nothing reordered or dropped); no duplicate is introduced. *)
Theorem C25_add_tags_spec : forall tags A x, In x (fst (add_tags tags A)) <-> In x tags \/ In x A.
Proof. exact add_tags_In. Qed.

Theorem C25_add_tags_extends : forall tags A,
  exists X, fst (add_tags tags A) = tags ++ X /\ (forall x, In x X -> In x A).
Proof. exact add_tags_app. Qed.

Theorem C25_add_tags_nodup : forall tags A, NoDup tags -> NoDup (fst (add_tags tags A)).
Proof. exact add_tags_NoDup. Qed.

(* Snapshot.RemoveTags (swap-remove loop): EVERY occurrence of every removed tag goes, also for
   tag lists with duplicates; the other tags keep their multiplicities. *)
Theorem C25_remove_tags_all_occurrences : forall tags R,
  Permutation (fst (remove_tags tags R)) (filter (fun t => negb (mem t R)) tags).
Proof. exact remove_tags_perm. Qed.

Theorem C25_remove_tags_spec : forall tags R x,
  In x (fst (remove_tags tags R)) <-> In x tags /\ ~ In x R.
Proof. exact remove_tags_In. Qed.

(* the changed flags say exactly whether something had to be done *)
Theorem C25_changed_flags : forall tags L,
  snd (add_tags tags L) = negb (subset L tags) /\ snd (remove_tags tags L) = negb (disjoint L tags).
Proof. intros; split; [apply add_tags_changed | apply remove_tags_changed]. Qed.

(* The property for a whole `restic tag` command on any repository, any selection, any option
   lists (as parsed: lists of comma-separated lists, possibly with empty tags):
   number of snapshots preserved, no snapshot lost, unselected ones untouched, selected ones carry
   exactly flatten(set) resp. exactly the set (old ∪ add) ∖ remove, Original = first id. *)
Theorem C25_run_tag_spec : forall repo sel setL addL remL fs,
  length sel = length repo ->
  run_tag repo sel setL addL remL = Done fs ->
  length fs = length repo /\
  forall i sn s f, nth_error repo i = Some sn -> nth_error sel i = Some s -> nth_error fs i = Some f ->
                   spec_snapshot sn s setL addL remL f.
Proof. exact run_tag_spec. Qed.

Theorem C25_option_checks : forall repo sel setL addL remL,
  (run_tag repo sel setL addL remL = ENothing <-> setL = [] /\ addL = [] /\ remL = []) /\
  (run_tag repo sel setL addL remL = EConflict <-> setL <> [] /\ (addL <> [] \/ remL <> [])).
Proof. intros; split; [apply run_tag_nothing | apply run_tag_conflict]. Qed.

(* `--set` (including `--set ''`): changeTags receives exactly the non-empty tags given *)
Theorem C25_set_exact : forall tags setL addT remT, setL <> [] ->
  change_tags tags (set_arg setL) addT remT = (flatten setL, true).
Proof. exact change_tags_set. Qed.

(* the verified oracle means the property; the model always satisfies it *)
Theorem C25_oracle_sound : forall repo sel setL addL remL extra obs,
  check_C25 (KRun repo sel setL addL remL extra obs) = true ->
  (obs = ENothing <-> setL = [] /\ addL = [] /\ remL = []) /\
  (obs = EConflict -> setL <> [] /\ (addL <> [] \/ remL <> [])) /\
  obs <> EOther /\
  forall fs, obs = Done fs ->
    extra = 0 /\ length fs = length repo /\
    forall i sn s f, nth_error repo i = Some sn -> nth_error sel i = Some s -> nth_error fs i = Some f ->
                     spec_snapshot sn s setL addL remL f.
Proof. exact oracle_run_sound. Qed.

Theorem C25_oracle_units_sound : forall tags L obs ch,
  (check_C25 (KAdd tags L obs ch) = true -> forall x, In x obs <-> In x tags \/ In x L) /\
  (check_C25 (KRemove tags L obs ch) = true -> forall x, In x obs <-> In x tags /\ ~ In x L).
Proof. intros; split; [apply oracle_add_sound | apply oracle_remove_sound]. Qed.

Theorem C25_model_satisfies_oracle : forall repo sel setL addL remL,
  length sel = length repo ->
  check_C25 (KRun repo sel setL addL remL 0 (run_tag repo sel setL addL remL)) = true.
Proof. exact model_satisfies_oracle. Qed.

(* the flag parser: split at commas (pieces joined by commas give the value back, no piece holds a
   comma), each piece trimmed of surrounding ASCII white space *)
Theorem C25_split_tag_list_spec : forall s,
  length (split_tag_list s) = length (split_comma s)
  /\ join_comma (split_comma s) = s
  /\ forall t, In t (split_tag_list s) -> exists p, In p (split_comma s) /\ t = trim p /\ ~ In 44%N t.
Proof. exact split_tag_list_spec. Qed.

Theorem C25_trim_spec : forall s,
  exists pre post, s = pre ++ trim s ++ post
    /\ Forall (fun c => is_space c = true) pre /\ Forall (fun c => is_space c = true) post
    /\ (forall c r, trim s = c :: r -> is_space c = false)
    /\ (forall c r, trim s = r ++ [c] -> is_space c = false).
Proof. exact trim_spec. Qed.

(* backend refuses to save some rewritten snapshots: count unchanged, nothing lost *)
Theorem C25_run_tag_f_no_loss : forall repo sel fail setL addL remL fs',
  length sel = length repo -> length fail = length repo ->
  run_tag_f repo sel fail setL addL remL = Done fs' ->
  length fs' = length repo /\ (forall f, In f fs' -> f <> Lost)
  /\ exists fs, run_tag repo sel setL addL remL = Done fs /\
       forall i b f, nth_error fail i = Some b -> nth_error fs i = Some f ->
                     nth_error fs' i = Some (if b then Same else f).
Proof. exact run_tag_f_no_loss. Qed.

Print Assumptions C25_run_tag_f_no_loss.
Print Assumptions C25_split_tag_list_spec.
Print Assumptions C25_trim_spec.
Print Assumptions C25_add_tags_spec.
Print Assumptions C25_add_tags_extends.
Print Assumptions C25_add_tags_nodup.
Print Assumptions C25_remove_tags_all_occurrences.
Print Assumptions C25_remove_tags_spec.
Print Assumptions C25_changed_flags.
Print Assumptions C25_run_tag_spec.
Print Assumptions C25_option_checks.
Print Assumptions C25_set_exact.
Print Assumptions C25_oracle_sound.
Print Assumptions C25_oracle_units_sound.
Print Assumptions C25_model_satisfies_oracle.
