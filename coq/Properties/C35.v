(* C35 — Retried backend operations return correct results or fail. Statements only.
   Model: Model/C35m.v (retry loop of internal/backend/retry/backend_retry.go + backoff.RetryNotify
   over a scripted faulty backend).  [check_op c sb q o] is the verified oracle for one operation
   [q] issued on inner store [sb] with observation [o]; 0 = every clause of the property holds. *)
From Restic Require Import Base.Prelude Model.C35m Proofs.C35p.
Import C35m.

(* For every configuration, inner state (store, fault script, breaker), and request (operation,
   retry budget, cancelled flag): what the modelled retry backend does satisfies the oracle — result
   Ok only with the error-free result, listing each file once, permanent errors not retried —
   except for the one documented gap (clause 4, F-C35): a failed Save on a backend without atomic
   replace whose last cleanup Remove had no effect. *)
Theorem C35_retry_op_correct : forall c s q,
  let o := snd (run_op c s q) in
  check_op c (s_store s) q o = 0 \/
  (check_op c (s_store s) q o = 4 /\ atomic c = false /\
   exists n d, r_op q = OSave n d /\ o_res o <> ROk /\ ~ cleanup_effective n o).
Proof. exact op_checks. Qed.

(* sequences of operations (shared fault script, circuit breaker state) *)
Theorem C35_retry_seq_correct_atomic : forall c, atomic c = true ->
  forall qs s, check_seq c (s_store s) qs (run_ops c s qs) = 0.
Proof. exact seq_checks_atomic. Qed.

Theorem C35_retry_seq_correct : forall c qs s,
  check_seq c (s_store s) qs (run_ops c s qs) = 0 \/
  (check_seq c (s_store s) qs (run_ops c s qs) = 4 /\ atomic c = false).
Proof. exact seq_checks. Qed.

(* save_fail_clean: a failed Save leaves the final name absent, complete or as before, provided
   the backend replaces atomically or the last cleanup Remove was effective *)
Theorem C35_save_fail_clean : forall c s n d b cn,
  let q := mkreq (OSave n d) b cn in
  let o := snd (run_op c s q) in
  check_op c (s_store s) q o = 0 \/
  (check_op c (s_store s) q o = 4 /\ atomic c = false /\ o_res o <> ROk /\ ~ cleanup_effective n o).
Proof. exact save_checks. Qed.

(* F-C35 (by design): the cleanup Remove failing too leaves the partial file under the final name *)
Theorem C35_save_cleanup_fault_refuted :
  exists c s q n d, r_op q = OSave n d /\ atomic c = false /\
    let o := snd (run_op c s q) in
    o_res o = RErr ETrans /\ sget n (o_store o) = Some (firstn 2 d) /\ firstn 2 d <> d /\
    sget n (s_store s) = None /\ check_op c (s_store s) q o = 4.
Proof. exact save_cleanup_fault_refuted. Qed.

(* permanent_not_retried, at the loop itself: an attempt ending in a permanent-class error (or one
   wrapped by backoff.Permanent) with permanentErrorAttempts = 1 is the last attempt, whatever the budget *)
Theorem C35_permanent_not_retried : forall (S : Type) (att : S -> S * aout) b f s e,
  snd (att s) = AErr e -> is_perm e = true \/ e = EWrap ->
  retry_loop S att b 1 f s = (fst (att s), RErr e, f).
Proof. exact terminal_stops. Qed.

(* a transient error within the budget is retried *)
Theorem C35_transient_retried : forall (S : Type) (att : S -> S * aout) b pa f s,
  snd (att s) = AErr ETrans -> 1 <= pa ->
  retry_loop S att (Datatypes.S b) pa f s = retry_loop S att b pa (Datatypes.S f) (fst (att s)).
Proof. exact transient_continues. Qed.

(* the loop's result is the outcome of its last attempt, which starts from a reachable state *)
Theorem C35_result_is_last_attempt : forall (S : Type) (att : S -> S * aout) (I : S -> Prop),
  (forall s, I s -> I (fst (att s))) ->
  forall b pa f s, I s ->
  exists s0 l, I s0 /\
    retry_loop S att b pa f s = (fst (att s0), res_of (snd (att s0)), f + length l) /\
    outs_loop S att b pa s = l ++ [snd (att s0)].
Proof. exact retry_loop_spec. Qed.

(* what the oracle means, per operation *)
Theorem C35_oracle_save_sound : forall c sb n d b cn o,
  check_op c sb (mkreq (OSave n d) b cn) o = 0 ->
  (forall k, k <> n -> sget k sb = sget k (o_store o)) /\
  (o_res o = ROk -> sget n (o_store o) = Some d) /\
  (o_res o <> ROk -> sget n (o_store o) = None \/ sget n (o_store o) = Some d \/ sget n (o_store o) = sget n sb).
Proof. exact oracle_save_sound. Qed.

Theorem C35_oracle_list_at_most_once : forall c sb fnfail b cn o,
  check_op c sb (mkreq (OList fnfail) b cn) o = 0 ->
  (forall k, sget k sb = sget k (o_store o)) /\
  NoDup (o_names o) /\
  (forall x, In x (o_names o) -> In x (keys sb)) /\
  (o_res o = ROk -> forall x, In x (keys sb) -> In x (o_names o)).
Proof. exact oracle_list_sound. Qed.

Theorem C35_oracle_load_sound : forall c sb n meta len off b cn o,
  check_op c sb (mkreq (OLoad n meta len off) b cn) o = 0 ->
  (forall k, sget k sb = sget k (o_store o)) /\
  (o_res o = ROk -> exists d, sget n sb = Some d /\ o_data o = slice d len off).
Proof. exact oracle_load_sound. Qed.

Theorem C35_oracle_stat_remove_sound : forall c sb n b cn o,
  (check_op c sb (mkreq (OStat n) b cn) o = 0 ->
     (forall k, sget k sb = sget k (o_store o)) /\
     (o_res o = ROk -> exists d, sget n sb = Some d /\ o_size o = N.of_nat (length d))) /\
  (check_op c sb (mkreq (ORemove n) b cn) o = 0 ->
     (forall k, k <> n -> sget k sb = sget k (o_store o)) /\
     (o_res o = ROk -> sget n (o_store o) = None)).
Proof. exact oracle_stat_remove_sound. Qed.

Theorem C35_oracle_no_retry_after_permanent : forall c sb q o,
  check_op c sb q o = 0 ->
  perm_ok (isstat (r_op q)) (perm_attempts c) 0 (primary_calls (r_op q) (o_calls o)) = true /\
  (o_res o = ROk -> (forall b, r_op q <> OExpiry b) ->
     last_out (primary_calls (r_op q) (o_calls o)) = Some IOk).
Proof. exact check_op_head. Qed.

(* liveness, loop level: if the attempts fail transiently k times and then succeed, and the backoff
   policy grants at least k retries, the loop returns Ok after exactly k retries *)
Theorem C35_retry_live : forall (S : Type) (att : S -> S * aout) (good : S -> Prop) (rank : S -> nat),
  (forall s, good s -> rank s = 0 -> snd (att s) = AOk) ->
  (forall s k, good s -> rank s = Datatypes.S k ->
     snd (att s) = AErr ETrans /\ good (fst (att s)) /\ rank (fst (att s)) = k) ->
  forall k b pa f s, good s -> rank s = k -> k <= b -> 1 <= pa ->
  exists s', retry_loop S att b pa f s = (s', ROk, f + k).
Proof. exact retry_live. Qed.

(* liveness, closed: any k transient faults (before / after partial data / after the full effect) followed
   by correct behaviour, k within the budget: Load returns Ok with exactly the error-free data *)
Theorem C35_load_live : forall c s n meta len off b d k,
  lead (s_script s) = Some k -> k <= b ->
  sget n (s_store s) = Some d -> memN n (s_breaker s) = false ->
  let o := snd (run_op c s (mkreq (OLoad n meta len off) b false)) in
  o_res o = ROk /\ o_data o = slice d len off /\ o_succ o = match k with O => None | _ => Some k end.
Proof. exact load_live. Qed.

(* ... and Save stores the complete content and nothing else changes, whatever the cleanup Removes of
   the failed attempts did (atomic or not) *)
Theorem C35_save_live : forall c s n d b k,
  lead_save (atomic c) (s_script s) = Some k -> k <= b ->
  let o := snd (run_op c s (mkreq (OSave n d) b false)) in
  o_res o = ROk /\ sget n (o_store o) = Some d /\
  (forall x, x <> n -> sget x (s_store s) = sget x (o_store o)) /\
  o_succ o = match k with O => None | _ => Some k end.
Proof. exact save_live. Qed.

(* context cancelled during the back-off sleep: same inner effects and oracle verdict as the run stopped
   by the budget; never turns a failure into Ok or vice versa *)
Theorem C35_cancel_in_sleep : forall c s q cz,
  check_op c (s_store s) q (snd (run_op_c c s (q, cz))) = check_op c (s_store s) q (snd (run_op c s q)) /\
  o_store (snd (run_op_c c s (q, cz))) = o_store (snd (run_op c s q)) /\
  (cz = false -> run_op_c c s (q, cz) = run_op c s q) /\
  (o_res (snd (run_op_c c s (q, cz))) = ROk <-> o_res (snd (run_op c s q)) = ROk).
Proof. exact run_op_c_oracle. Qed.

Print Assumptions C35_retry_live.
Print Assumptions C35_load_live.
Print Assumptions C35_save_live.
Print Assumptions C35_cancel_in_sleep.
(* List: de-duplication by NAME — for EVERY sequence of per-attempt listings (any orders, any prefixes,
   files present in some attempts only) the names handed to fn are duplicate-free, among the store's keys,
   and contain every name any attempt listed (so all keys once one attempt was complete) *)
Theorem C35_list_dedup_by_name_any_order : forall keys0 attempts,
  (forall l, In l attempts -> forall x, In x l -> In x keys0) ->
  NoDup (emit_all attempts) /\
  (forall x, In x (emit_all attempts) -> In x keys0) /\
  (forall l, In l attempts -> forall x, In x l -> In x (emit_all attempts)).
Proof. exact emit_seq_sound. Qed.

Print Assumptions C35_list_dedup_by_name_any_order.
Print Assumptions C35_retry_op_correct.
Print Assumptions C35_retry_seq_correct_atomic.
Print Assumptions C35_retry_seq_correct.
Print Assumptions C35_save_fail_clean.
Print Assumptions C35_save_cleanup_fault_refuted.
Print Assumptions C35_permanent_not_retried.
Print Assumptions C35_transient_retried.
Print Assumptions C35_result_is_last_attempt.
Print Assumptions C35_oracle_save_sound.
Print Assumptions C35_oracle_list_at_most_once.
Print Assumptions C35_oracle_load_sound.
Print Assumptions C35_oracle_stat_remove_sound.
Print Assumptions C35_oracle_no_retry_after_permanent.
