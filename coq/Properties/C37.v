(* C37 — backend concurrency limits hold and lock operations are never blocked. Statements only. *)
From Restic Require Import Base.Prelude Model.C37m Proofs.C37p.
Import C37m.

(* for every capacity, every set of calls (lock / non-lock, valid or not, cancelled or not) and
   EVERY schedule of thread steps, Freeze and Unfreeze: the non-lock inner operations running at
   the same time never exceed the tokens out, which never exceed the capacity *)
Theorem C37_limit : forall n ts sched,
  let s := run (init n ts) sched in
  running_nonlock s <= tokens s /\ tokens s <= n.
Proof. exact limit. Qed.

(* a lock-file call moves in every state: all tokens out, mutex frozen or inside the gate *)
Theorem C37_lock_ops_enabled : forall s i t,
  nth_error (thr s) i = Some t -> t_lock t = true -> (t_pc t = PStart \/ t_pc t = PRun) ->
  nth_error (thr (step s (AStep i))) i = Some (with_pc t (lock_next t)).
Proof. exact lock_step_enabled. Qed.

(* whatever the other threads and the controller do in between, a valid lock-file call is inside the
   inner backend after its first own step and has returned after its second *)
Theorem C37_lock_never_blocked : forall s i t o1 o2,
  nth_error (thr s) i = Some t -> t_lock t = true -> t_valid t = true -> t_pc t = PStart ->
  Forall (fun a => a <> AStep i) o1 -> Forall (fun a => a <> AStep i) o2 ->
  nth_error (thr (run s (o1 ++ [AStep i]))) i = Some (with_pc t PRun)
  /\ nth_error (thr (run s (o1 ++ [AStep i] ++ o2 ++ [AStep i]))) i = Some (with_pc t PDone).
Proof. exact lock_never_blocked. Qed.

(* while frozen, no step lets a non-lock inner operation start *)
Theorem C37_frozen_no_start : forall s a i t',
  Inv s -> mx s = MFrozen ->
  nth_error (thr (step s a)) i = Some t' -> t_lock t' = false -> in_inner t' = true ->
  exists t, nth_error (thr s) i = Some t /\ t_lock t = false /\ in_inner t = true.
Proof. exact frozen_no_start. Qed.

(* ... and over a whole frozen interval, for every schedule without Unfreeze, from any reachable state *)
Theorem C37_frozen_interval : forall n ts pre sched,
  let s := run (init n ts) pre in
  mx s = MFrozen -> Forall (fun a => a <> AUnfreeze) sched ->
  forall i t', nth_error (thr (run s sched)) i = Some t' -> t_lock t' = false -> in_inner t' = true ->
  exists t, nth_error (thr s) i = Some t /\ t_lock t = false /\ in_inner t = true.
Proof.
  intros n ts pre sched s Hm HF. exact (frozen_interval sched HF s (inv_run pre _ (inv_init n ts)) Hm).
Qed.

(* Freeze waits for at most one always-enabled step of another thread, never for a token *)
Theorem C37_freeze_wait_bounded : forall n ts pre i,
  let s := run (init n ts) pre in
  mx s = MThread i -> mx (step s (AStep i)) = MFree.
Proof. intros n ts pre i s. exact (freeze_wait_bounded s i (inv_run pre _ (inv_init n ts))). Qed.

(* ---- link between the thread-level model and the count model used for the correspondence ---- *)
(* a stuck thread cannot move (only a running inner operation can complete) *)
Theorem C37_stuck_no_move : forall s i t,
  nth_error (thr s) i = Some t -> stuck s t = true -> t_pc t <> PRun -> step s (AStep i) = s.
Proof. exact stuck_no_move. Qed.

(* every reachable quiescent, unfrozen state, whatever schedule led to it: all tokens are held by
   running inner operations and their number is min(pending calls, capacity) *)
Theorem C37_quiescent_counts : forall n ts sched,
  let s := run (init n ts) sched in
  mx s = MFree -> quiescent s = true ->
  tokens s = running_nonlock s /\ running_nonlock s = Nat.min (pendN s) n.
Proof.
  intros n ts sched s Hm Hq.
  pose proof (quiescent_unfrozen_counts s (inv_run sched _ (inv_init n ts)) Hm Hq) as H.
  assert (Hc : cap s = n) by (unfold s; rewrite cap_run; reflexivity).
  rewrite Hc in H. exact H.
Qed.

(* ... which is exactly what the count model's settle computes from the same number of pending calls *)
Theorem C37_count_model_agrees : forall n ts sched q,
  let s := run (init n ts) sched in
  mx s = MFree -> quiescent s = true ->
  q_frozen q = false -> q_run q <= n -> q_wait q + q_run q = pendN s ->
  q_run (settle n q) = running_nonlock s /\ q_wait (settle n q) = pendN s - running_nonlock s.
Proof.
  intros n ts sched q s Hm Hq Hf Hr Hp.
  assert (Hc : cap s = n) by (unfold s; rewrite cap_run; reflexivity).
  rewrite <- Hc in Hr |- *. exact (count_model_agrees s q (inv_run sched _ (inv_init n ts)) Hm Hq Hf Hr Hp).
Qed.

(* the pending count only moves with the script's commands: a call passing the handle check
   (launch) or an inner operation completing (release); every other step, Freeze and Unfreeze keep it *)
Theorem C37_pending_unchanged : forall s a,
  (forall i t, a = AStep i -> nth_error (thr s) i = Some t -> t_pc t <> PStart /\ t_pc t <> PRun) ->
  pendN (step s a) = pendN s.
Proof. exact pendN_same. Qed.

Theorem C37_settle_run_is_min : forall n q,
  q_frozen q = false -> q_run q <= n ->
  q_run (settle n q) = Nat.min (q_wait q + q_run q) n
  /\ q_wait (settle n q) + q_run (settle n q) = q_wait q + q_run q.
Proof. exact settle_run_is_min. Qed.

Theorem C37_oracle_sound : forall c,
  check_C37 c = true <->
  limit_ok (c_cap c) (c_obs c) = true /\ lock_ok 0 (c_cmds c) (c_obs c) = true
  /\ frozen_ok None (c_cmds c) (c_obs c) = true.
Proof. exact check_C37_iff. Qed.

Theorem C37_oracle_limit_meaning : forall n os,
  limit_ok n os = true <-> forall o, In o os -> o_maxconc o <= n.
Proof. exact limit_ok_meaning. Qed.

Theorem C37_model_satisfies_oracle : forall n cmds, check_C37 (mk n cmds (crun n cinit 0 cmds)) = true.
Proof. exact model_satisfies_oracle. Qed.

Print Assumptions C37_limit.
Print Assumptions C37_lock_ops_enabled.
Print Assumptions C37_lock_never_blocked.
Print Assumptions C37_frozen_no_start.
Print Assumptions C37_frozen_interval.
Print Assumptions C37_freeze_wait_bounded.
Print Assumptions C37_oracle_sound.
Print Assumptions C37_oracle_limit_meaning.
Print Assumptions C37_model_satisfies_oracle.
Print Assumptions C37_stuck_no_move.
Print Assumptions C37_quiescent_counts.
Print Assumptions C37_count_model_agrees.
Print Assumptions C37_pending_unchanged.
Print Assumptions C37_settle_run_is_min.
