(* C43 — Streaming blobs from a pack delivers each requested blob exactly once. Statements only. *)
From Restic Require Import Base.Prelude Gen.ParamsC43 Model.C43m Proofs.C43p.
From Coq Require Import Permutation.
Import C43m.
Open Scope Z_scope.

(* For every request list (unsorted, duplicates, overlaps, gaps, any sizes) and every environment (which
   blobs are intact, pack length, which downloads fail, which fallback copies load, which callback invocation
   fails): the callback invocations are, in order, for exactly the first k requests of the offset-sorted
   request list; each carries an error or the blob's own plaintext (intact in the pack or from the fallback
   copy); a loadable fallback copy is always used; success implies k = all requests. *)
Theorem C43_stream_pack_extends : forall e reqs,
  extends e (mkTr [] []) (fst (stream_pack e reqs)) (sort reqs) (snd (stream_pack e reqs)).
Proof. exact stream_pack_extends. Qed.

(* at most once, in every outcome (error, failed download, failing callback) *)
Theorem C43_at_most_once : forall e reqs, let t := fst (stream_pack e reqs) in
  map fst (t_cbs t) = ids (firstn (length (t_cbs t)) (sort reqs)) /\ (length (t_cbs t) <= length reqs)%nat.
Proof. exact at_most_once. Qed.

(* exactly once on success; the sorted list is a permutation of the requests *)
Theorem C43_once_each : forall e reqs, snd (stream_pack e reqs) = ROk ->
  map fst (t_cbs (fst (stream_pack e reqs))) = ids (sort reqs) /\ Permutation (sort reqs) reqs.
Proof. exact once_each. Qed.

(* payload: never a wrong plaintext, fallback used whenever it is loadable *)
Theorem C43_payload_correct : forall e reqs, let t := fst (stream_pack e reqs) in
  Forall2 (good_cb e) (firstn (length (t_cbs t)) (sort reqs)) (t_cbs t).
Proof. exact payload_correct. Qed.

Theorem C43_oracle_sound : forall c, check_C43 c = true -> C43_holds c.
Proof. exact check_C43_sound. Qed.

Print Assumptions C43_stream_pack_extends.
Print Assumptions C43_at_most_once.
Print Assumptions C43_once_each.
Print Assumptions C43_payload_correct.
Print Assumptions C43_oracle_sound.
