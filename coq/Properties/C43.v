(* C43 — Streaming blobs from a pack delivers each requested blob exactly once. Statements only. *)
From Restic Require Import Base.Prelude Gen.ParamsC43 Model.C43m Proofs.C43p.
From Coq Require Import Permutation.
Import C43m.
Open Scope Z_scope.

(* For every request list (unsorted, duplicates, overlaps, gaps, any sizes) and every environment (which
   blobs are intact, pack length, which downloads fail, which fallback copies load, which callback invocation
   fails): the callback invocations are, in order, for exactly the first k requests of the offset-sorted
   request list; each carries an error or the blob's own plaintext (intact in the pack or from the fallback
   copy); a loadable fallback copy is always used; success implies k = all requests. *)
Theorem C43_stream_pack_extends : forall e reqs,
  extends e (mkTr [] []) (fst (stream_pack e reqs)) (sort reqs) (snd (stream_pack e reqs)).
Proof. exact stream_pack_extends. Qed.

(* at most once, in every outcome (error, failed download, failing callback) *)
Theorem C43_at_most_once : forall e reqs, let t := fst (stream_pack e reqs) in
  map fst (t_cbs t) = ids (firstn (length (t_cbs t)) (sort reqs)) /\ (length (t_cbs t) <= length reqs)%nat.
Proof. exact at_most_once. Qed.

(* exactly once on success; the sorted list is a permutation of the requests *)
Theorem C43_once_each : forall e reqs, snd (stream_pack e reqs) = ROk ->
  map fst (t_cbs (fst (stream_pack e reqs))) = ids (sort reqs) /\ Permutation (sort reqs) reqs.
Proof. exact once_each. Qed.

(* payload: never a wrong plaintext, fallback used whenever it is loadable *)
Theorem C43_payload_correct : forall e reqs, let t := fst (stream_pack e reqs) in
  Forall2 (good_cb e) (firstn (length (t_cbs t)) (sort reqs)) (t_cbs t).
Proof. exact payload_correct. Qed.

(* streamPack is exactly: the parts computed by the split rules (parts_of), each handed to streamPackPart in
   turn until one fails; an overlap found by the loop ends the run with an error *)
Theorem C43_stream_pack_parts : forall e reqs,
  stream_pack e reqs = finish (run_parts e (mkTr [] []) (fst (parts_of reqs))) (snd (parts_of reqs)).
Proof. exact stream_pack_parts. Qed.

(* the parts partition the offset-sorted requests (a prefix of them if an overlap stopped the loop); every
   part is non-empty, in offset order without overlap, with gaps <= maxUnusedRange, and - unless it is a
   single blob - spans less than maxChunkSize = 2*DefaultPackSize *)
Theorem C43_parts_partition : forall reqs, Forall nonneg reqs ->
  Forall part_ok (fst (parts_of reqs)) /\
  exists rest, concat (fst (parts_of reqs)) ++ rest = sort reqs /\ (snd (parts_of reqs) = false -> rest = []).
Proof. exact parts_partition. Qed.

(* no panic: streamPackPart never sees an empty part or a negative range, for all requests with lengths >= 0 *)
Theorem C43_no_panic : forall e reqs, Forall nonneg reqs -> snd (stream_pack e reqs) <> RPanic.
Proof. exact no_panic. Qed.

(* a callback error ends the run: at most j+1 callbacks when invocation j fails, and the result is an error *)
Theorem C43_callback_error_stops : forall e reqs j, e_cbfail e = Some j ->
  (length (t_cbs (fst (stream_pack e reqs))) <= S j)%nat /\
  ((j < length (t_cbs (fst (stream_pack e reqs))))%nat -> snd (stream_pack e reqs) = RErr).
Proof. exact callback_error_stops. Qed.

(* when no download can fail, a blob is reported as error only if it is neither intact in the pack nor
   loadable from the fallback copy *)
Theorem C43_no_failure_all_delivered : forall e reqs, no_load_failure e reqs = true ->
  let t := fst (stream_pack e reqs) in
  Forall2 (strict_cb e) (firstn (length (t_cbs t)) (sort reqs)) (t_cbs t).
Proof. exact no_failure_all_delivered. Qed.

(* Repository.LoadBlob (the fallback loader): it returns the blob exactly when some copy is usable - intact,
   downloadable, inside its pack - whatever the order of the index entries, the stored lengths and damage of
   the other copies, and the buffer passed in; never through a damaged copy; the result does not depend on
   the order of the copies *)
Theorem C43_load_blob_ok_iff : forall cs blen bcap, load_blob cs blen bcap = LOk <-> existsb usable cs = true.
Proof. exact load_blob_ok_iff. Qed.
Theorem C43_load_blob_order_independent : forall cs cs' a b a' b',
  Permutation cs cs' -> load_blob cs a b = load_blob cs' a' b'.
Proof. exact load_blob_order_independent. Qed.

Theorem C43_oracle_sound : forall c, check_C43 c = true -> C43_holds c.
Proof. exact check_C43_sound. Qed.

Print Assumptions C43_stream_pack_extends.
Print Assumptions C43_at_most_once.
Print Assumptions C43_once_each.
Print Assumptions C43_payload_correct.
Print Assumptions C43_stream_pack_parts.
Print Assumptions C43_parts_partition.
Print Assumptions C43_no_panic.
Print Assumptions C43_callback_error_stops.
Print Assumptions C43_no_failure_all_delivered.
Print Assumptions C43_load_blob_ok_iff.
Print Assumptions C43_load_blob_order_independent.
Print Assumptions C43_oracle_sound.
