(* C34 — repair packs and repair snapshots salvage all intact data. Statements only. *)
From Restic Require Import Base.Prelude Model.C34m Proofs.C34p.
Import C34m.

(* repair packs: every entry of a named pack that is known from the index or (when it differs) from
   the pack header and whose bytes are still readable is re-uploaded, for all damage patterns. *)
Theorem C34_salvage_complete : forall packs ids h,
  wf_packs packs = true -> In h (must_salvage packs ids) -> In h (salvaged packs ids).
Proof. exact salvage_complete. Qed.

(* ... and after any prefix of its backend operations (upload new pack, new index, rewritten index,
   old indexes removed, damaged packs removed last) every blob that could be loaded before can
   still be loaded: the damaged packs leave the repository only after their salvage is indexed. *)
Theorem C34_remove_after_upload : forall packs ids newp k h,
  ~ In newp ids -> ld (init packs) h = true ->
  ld (run_a (init packs) (firstn k (trace_a packs ids newp))) h = true.
Proof. exact prefix_safe. Qed.

Theorem C34_no_loss : forall packs ids newp h,
  ~ In newp ids -> ld (init packs) h = true ->
  ld (run_a (init packs) (trace_a packs ids newp)) h = true.
Proof. exact no_loss. Qed.

(* the model's end state satisfies the oracle's salvage clause *)
Theorem C34_model_salvage_resolvable : forall packs ids newp h,
  wf_packs packs = true -> ~ In newp ids -> In h (must_salvage packs ids) ->
  In (newp, h, true) (final_view packs ids newp) /\
  In newp (b_packs (run_a (init packs) (trace_a packs ids newp))).
Proof. exact model_salvage_resolvable. Qed.

(* repair snapshots: the repairing tree rewrite equals the plain walk with invalid nodes dropped and
   every file reduced to its indexed blobs; unloadable subtrees become empty directories. *)
Theorem C34_rewrite_characterised : forall store sizes fuel path tid,
  trav store sizes true fuel path tid = lift sizes (trav store sizes false fuel path tid).
Proof. exact trav_char. Qed.

(* the result passes check: every file references only indexed blobs, with the matching size *)
Theorem C34_repaired_consistent : forall store sizes fuel path tid l p c s,
  trav store sizes true fuel path tid = ROk l -> In (p, IFile c s) l ->
  forallb (has sizes) c = true /\ s = sumsz sizes c.
Proof. exact repaired_blobs_indexed. Qed.

(* files whose data is fully available, directories and special files are kept unchanged *)
Theorem C34_intact_files_unchanged : forall store sizes fuel path tid l l' x,
  trav store sizes false fuel path tid = ROk l' -> trav store sizes true fuel path tid = ROk l ->
  In x l' -> (good_file sizes x = true \/ snd x = IDir \/ snd x = IOther) -> In x l.
Proof. exact intact_files_unchanged. Qed.

(* nothing is invented: every path of the result is a path of the original *)
Theorem C34_paths_subset : forall store sizes fuel path tid l l' x,
  trav store sizes false fuel path tid = ROk l' -> trav store sizes true fuel path tid = ROk l ->
  In x l -> exists y, In y l' /\ fst y = fst x.
Proof. exact repaired_paths_subset. Qed.

(* a completely intact tree is rewritten to itself *)
Theorem C34_intact_identity : forall store sizes fuel path tid,
  intact store sizes fuel tid = true ->
  trav store sizes true fuel path tid = trav store sizes false fuel path tid /\
  exists l, trav store sizes false fuel path tid = ROk l.
Proof. exact intact_identity. Qed.

Theorem C34_oracle_sound : forall c, check_C34 c = true -> C34_holds c.
Proof. exact check_C34_sound. Qed.

Print Assumptions C34_salvage_complete.
Print Assumptions C34_remove_after_upload.
Print Assumptions C34_no_loss.
Print Assumptions C34_model_salvage_resolvable.
Print Assumptions C34_rewrite_characterised.
Print Assumptions C34_repaired_consistent.
Print Assumptions C34_intact_files_unchanged.
Print Assumptions C34_paths_subset.
Print Assumptions C34_intact_identity.
Print Assumptions C34_oracle_sound.
