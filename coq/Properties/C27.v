(* C27 — rewrite --exclude/--include removes exactly the matching paths. Statements only.
   Model: Model/C27m.v (TreeRewriter.RewriteTree as set up by NewSnapshotSizeRewriter, gatherIncludeFilters /
   gatherExcludeFilters) on the glob model S_Glob and the pattern functions of C20m. *)
From Restic Require Import Base.Prelude Model.S_Glob Proofs.S_Globp Model.C28m Proofs.C28p Model.C20m Proofs.C20p Model.C27m Proofs.C27p.
Import S_Glob C27m.

(* exclude: the listing of the rewritten tree is the original listing minus exactly the entries that have a
   rejected path among their ancestors or themselves (order, kinds, sizes, metadata and content untouched) *)
Theorem C27_exclude_exact : forall ipats pats top,
  flat_list [] (rw_list (kn_exclude ipats pats) ke_exclude [] top) = spec_exclude (rejected ipats pats) top.
Proof. exact exclude_exact. Qed.

(* include: the rewritten tree is the unpruned specification: matching entries, and directories that match or
   still hold something; an unmatched directory left empty is dropped (pruning by childMayMatch loses nothing) *)
Theorem C27_include_exact : forall ipats pats top, no_err (map lower ipats) -> no_err pats ->
  rw_list (kn_include ipats pats) (ke_include ipats pats) [] top = sp_list (inc_m ipats pats) [] top.
Proof. exact include_exact. Qed.

Theorem C27_include_exact_gen : forall m c, mc_sound m c -> forall n kids loc, lsize kids <= n ->
  rw_list (kn_mc m c) m loc kids = sp_list m loc kids.
Proof. exact include_exact_gen. Qed.

(* kept entries keep their metadata and data: every entry of the result is an entry of the original *)
Theorem C27_kept_unchanged : forall kn ke n kids loc e, lsize kids <= n ->
  In e (flat_list loc (rw_list kn ke loc kids)) -> In e (flat_list loc kids).
Proof. exact kept_unchanged. Qed.

Theorem C27_include_spec_subset : forall m n kids loc e, lsize kids <= n ->
  In e (flat_list loc (sp_list m loc kids)) -> In e (flat_list loc kids).
Proof. exact sp_kept_meaning. Qed.

(* a rewrite that matches nothing (exclude) / drops nothing leaves the tree unchanged: same tree, same ID *)
Theorem C27_noop_identity : forall kn ke n kids loc, lsize kids <= n ->
  (forall p k s m, In (p, k, s, m) (flat_list loc kids) -> kn p (is_dir k) = true /\ (is_dir k = true -> ke p = true)) ->
  rw_list kn ke loc kids = kids.
Proof. exact noop_identity. Qed.

(* the summary written into the new snapshot counts exactly the files of the rewritten tree *)
Theorem C27_summary_exact : forall kn ke n kids loc, lsize kids <= n ->
  cnt_list kn loc kids = count_files (flat_list loc (rw_list kn ke loc kids)).
Proof. exact summary_exact. Qed.

(* the node cache (off in rewrite, on in repair snapshots): with tree IDs = content hashes and decisions that do
   not depend on where a tree sits, the cached traversal computes the same tree; decisions on the last path
   component only are such; the rewrite filters are not (witness in Proofs/C27p.v: cache_unsound_for_path_filters) *)
Theorem C27_cache_sound : forall kn ke tid, (forall a b, tid a = tid b -> a = b) -> path_independent kn ke ->
  forall top loc, fst (rwc_list kn ke tid [] loc top) = rw_list kn ke loc top.
Proof. exact cache_sound. Qed.

Theorem C27_basename_filters_independent : forall (f : bytes -> bool -> bool) (g : bool) kn ke,
  (forall loc name d, kn (desc loc name) d = f name d) -> (forall p, ke p = g) -> path_independent kn ke.
Proof. exact basename_filters_independent. Qed.

Theorem C27_cache_unsound_for_path_filters : exists kn ke tid top,
  fst (rwc_list kn ke tid [] [] top) <> rw_list kn ke [] top /\ ~ path_independent kn ke.
Proof.
  eexists; eexists; eexists; eexists. destruct cache_unsound_for_path_filters as [H1 [H2 H3]]. split.
  - rewrite H1, H2. discriminate.
  - intro PI. apply H3. apply PI.
Qed.

Print Assumptions C27_cache_sound.
Print Assumptions C27_basename_filters_independent.
Print Assumptions C27_cache_unsound_for_path_filters.
Print Assumptions C27_exclude_exact.
Print Assumptions C27_include_exact.
Print Assumptions C27_include_exact_gen.
Print Assumptions C27_kept_unchanged.
Print Assumptions C27_include_spec_subset.
Print Assumptions C27_noop_identity.
Print Assumptions C27_summary_exact.
