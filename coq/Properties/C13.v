(* C13 — lock holders stop before their lock can be considered stale. Statements only.
   run c (init acq) tr = Some s: s is reached by the timed refresher/monitor model through the event
   trace tr, which respects the timing assumptions (poll ticker never late, every regular / forced
   refresh takes at most D c, an idle refresher takes up a request at once).  Times in ms. *)
From Restic Require Import Base.Prelude Model.C13m Proofs.C13p Gen.ParamsC13.
Import C13m.
Open Scope Z_scope.

(* MAIN: the code as it is now (monitor also takes refresh reports while it waits to hand over a
   forced-refresh request, cfg.patched = true): for every event trace, while the context is alive the
   holder's newest lock file is younger than R + poll + 3 D *)
Theorem C13_alive_implies_fresh : forall c acq tr s,
  cfg_ok c -> patched c = true -> 0 <= acq <= D c -> run c (init acq) tr = Some s ->
  alive s = true -> now s - ftime s < bound c.
Proof. exact patched_alive_implies_fresh. Qed.

(* the two goroutines never end up blocked on each other *)
Theorem C13_never_wedged : forall c tr s s0,
  patched c = true -> stuck s0 = false -> run c s0 tr = Some s -> stuck s = false.
Proof. intros c tr s s0 Hp Hs H. exact (run_patched_not_stuck c tr Hp s0 s Hs H). Qed.

(* history (regression): the protocol before the fix of F-C13-1 (cfg.patched = false) satisfied the bound
   only while not wedged, and could wedge: real constants, every operation <= 3 min, context alive with a
   lock older than the stale timeout *)
Theorem C13_unpatched_alive_implies_fresh_partial : forall c acq tr s,
  cfg_ok c -> 0 <= acq <= D c -> run c (init acq) tr = Some s ->
  alive s = true -> stuck s = false -> now s - ftime s < bound c.
Proof. exact alive_implies_fresh. Qed.

Theorem C13_unpatched_refuted :
  exists s, run (mkCfg Rms pollms 180000 false) (init 200) wedge_trace = Some s /\
            alive s = true /\ stalems < now s - ftime s.
Proof. exact unpatched_refuted. Qed.

(* the bound stays below the stale timeout of the running code with room for clock skew *)
Theorem C13_fresh_lt_stale : forall d skew p,
  0 <= d -> 3 * d + skew <= 449000 -> bound (mkCfg Rms pollms d p) + skew <= stalems.
Proof. exact fresh_lt_stale. Qed.

Theorem C13_params_margin : stalems - Rms - pollms = 449000 /\ 0 < Rms /\ 0 < pollms.
Proof. exact params_margin. Qed.

(* forced refresh: succeeds iff the own lock file exists before and after and the replacement was saved;
   every failure cancels the context before the backend is unfrozen and leaves no replacement behind *)
Theorem C13_forced_success_iff : forall ex1 saveok ex2, snd (forced ex1 saveok ex2) = ex1 && saveok && ex2.
Proof. exact forced_success_iff. Qed.

Theorem C13_removed_lock_cancels : forall ex1 saveok ex2,
  snd (forced ex1 saveok ex2) = false -> before is_cancel is_unfreeze (fst (forced ex1 saveok ex2)) = true.
Proof. exact removed_lock_cancels. Qed.

Theorem C13_forced_failure_cleans_up : forall ex1 saveok ex2,
  snd (forced ex1 saveok ex2) = false ->
  snd (last (states saveok (true, false) (fst (forced ex1 saveok ex2))) (true, false)) = false.
Proof. exact forced_failure_cleans_up. Qed.

(* refreshing never leaves a moment where the holder has no lock file *)
Theorem C13_refresh_never_lockless : forall saveok,
  Forall (fun d => fst d || snd d = true) (states saveok (true, false) (regular saveok)) /\
  Forall (fun d => fst d || snd d = true) (states saveok (true, false) (fst (forced true saveok true))).
Proof. exact refresh_never_lockless. Qed.

(* the boolean oracle means the property on the observed samples *)
Theorem C13_oracle_sound : forall k,
  check_C13 k = true <->
  (forall x, In x (c_samples k) -> s_alive x = true ->
     (forall f, s_newest x = Some f -> s_t x - f < bound (c_cfg k)) /\
     (s_extrem x = false -> s_newest x <> None)) /\
  c_left_behind k = 0 /\ (forall b, In b (c_forced_after_removal k) -> b = true) /\
  (forall b, In b (c_forced_ok_has_file k) -> b = true) /\
  (forall b, In b (c_forced_ok_old_existed k) -> b = true) /\
  (forall b, In b (c_regular_in_time k) -> b = true).
Proof. exact check_C13_spec. Qed.

(* a regular refresh starts only while the last SUCCESSFUL lock write is not older than R; failed attempts
   do not move that timestamp *)
Theorem C13_regular_refresh_in_time : forall c s t s', step c s (RStart t) = Some s' -> t - ftime s <= R c.
Proof. exact regular_refresh_in_time. Qed.

Theorem C13_failed_refresh_keeps_ftime : forall c s t s', step c s (REndFail t) = Some s' -> ftime s' = ftime s.
Proof. exact failed_refresh_keeps_ftime. Qed.

(* a forced refresh reports success only if the old lock file was there at both existence checks, and then
   the replacement is in place; a lock that vanishes between the checks is a failure *)
Theorem C13_forced_success_has_file : forall ex1 saveok ex2,
  snd (forced ex1 saveok ex2) = true ->
  ex1 = true /\ ex2 = true /\
  snd (last (states saveok (true, false) (fst (forced ex1 saveok ex2))) (true, false)) = true.
Proof. exact forced_success_has_file. Qed.

Theorem C13_model_samples_fresh : forall c acq tr s,
  cfg_ok c -> 0 <= acq <= D c -> run c (init acq) tr = Some s -> stuck s = false ->
  sample_fresh c (mkSample (now s) (alive s) (Some (ftime s)) false) = true.
Proof. exact model_samples_fresh. Qed.

Theorem C13_model_samples_fresh_now : forall c acq tr s,
  cfg_ok c -> patched c = true -> 0 <= acq <= D c -> run c (init acq) tr = Some s ->
  sample_fresh c (mkSample (now s) (alive s) (Some (ftime s)) false) = true.
Proof.
  intros c acq tr s Hc Hp Ha Hrun. eapply model_samples_fresh; eauto.
  exact (run_patched_not_stuck c tr Hp (init acq) s eq_refl Hrun).
Qed.

Print Assumptions C13_alive_implies_fresh.
Print Assumptions C13_model_samples_fresh_now.
Print Assumptions C13_never_wedged.
Print Assumptions C13_unpatched_alive_implies_fresh_partial.
Print Assumptions C13_unpatched_refuted.
Print Assumptions C13_fresh_lt_stale.
Print Assumptions C13_params_margin.
Print Assumptions C13_forced_success_iff.
Print Assumptions C13_removed_lock_cancels.
Print Assumptions C13_forced_failure_cleans_up.
Print Assumptions C13_refresh_never_lockless.
Print Assumptions C13_oracle_sound.
Print Assumptions C13_model_samples_fresh.
Print Assumptions C13_forced_success_has_file.
Print Assumptions C13_regular_refresh_in_time.
Print Assumptions C13_failed_refresh_keeps_ftime.
