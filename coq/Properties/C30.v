(* C30 — init never overwrites an existing repository.  Statements only. *)
From Restic Require Import Base.Prelude Gen.ParamsC30 Model.C30m Proofs.C30p.
Import C30m.

(* A location is occupied iff it has a config, or a key / snapshot file whose name is an id. *)
Theorem C30_occupied_meaning : forall l,
  occupied l = true <->
  l_config l = true \/ (exists k, In k (l_keys l) /\ is_id k = true) \/ (exists s, In s (l_snaps l) /\ is_id s = true).
Proof. exact occupied_iff. Qed.

(* Repository.Init refuses every occupied location for every version and performs no operation. *)
Theorem C30_init_refuses : forall v l,
  occupied l = true -> exists r, init_decide v l = Refused r /\ init_ops (init_decide v l) = NoOps.
Proof. exact init_refuses. Qed.

(* It initialises every free location for every supported version: one key, then the config. *)
Theorem C30_init_creates : forall v l,
  occupied l = false -> supported v = true ->
  init_decide v l = Created v /\ init_ops (init_decide v l) = SaveKeyThenConfig v.
Proof. exact init_creates. Qed.

Theorem C30_created_iff : forall v l,
  is_created (init_decide v l) = supported v && negb (occupied l).
Proof. exact init_created_iff. Qed.

(* The created config carries the requested version, which is 1 or 2 (regenerated constants). *)
Theorem C30_version_supported : forall v l v',
  init_decide v l = Created v' -> v' = v /\ (v = 1 \/ v = 2)%Z.
Proof. exact init_version_supported. Qed.

(* Command line: same decisions behind the version option; its defaults are supported versions. *)
Theorem C30_cli_refuses : forall vs l, occupied l = true -> exists r, cli_init vs l = Refused r.
Proof. exact cli_refuses. Qed.

Theorem C30_cli_creates : forall vs l v,
  occupied l = false -> parse_version vs = Some v -> supported v = true -> cli_init vs l = Created v.
Proof. exact cli_creates. Qed.

Theorem C30_cli_defaults_supported :
  parse_version [] = Some max_version /\ parse_version str_latest = Some max_version /\
  parse_version str_stable = Some stable_version /\
  supported max_version = true /\ supported stable_version = true.
Proof. exact cli_defaults_supported. Qed.

(* The polynomial of the new config is irreducible, given the contract of chunker.RandomPolynomial
   and that a copied polynomial passed LoadConfig's check. *)
Theorem C30_polynomial_irreducible :
  forall (irreducible : N -> bool) (random_pol : N -> N),
  (forall seed, irreducible (random_pol seed) = true) ->
  forall given seed, (forall p, given = Some p -> irreducible p = true) ->
  irreducible (create_config_pol random_pol given seed) = true.
Proof. exact created_pol_irreducible. Qed.

Theorem C30_oracle_sound : forall c,
  check_C30 c = true ->
  let o := c_obs c in
  (o_unchanged o = true /\ o_removes o = 0%nat /\ forall s, In s (o_saves o) -> snd s = false) /\
  (occupied (c_loc c) = true -> o_ok o = false /\ o_saves o = []) /\
  (occupied (c_loc c) = false ->
     (o_ok o = true <-> exists v, eff_version c = Some v /\ supported v = true)) /\
  (o_ok o = true ->
     supported (o_cfg_version o) = true /\ eff_version c = Some (o_cfg_version o) /\
     o_pol_irreducible o = true /\ o_id_ok o = true /\ o_new_keys o = 1%nat /\ o_opens o = true /\
     saves_eqb (o_saves o) [(1%N, false); (2%N, false)] = true).
Proof. exact check_C30_sound. Qed.

Theorem C30_model_satisfies_oracle : forall cli vs v l,
  let c0 := mk cli vs v l (mkObs false [] 0 true 0 true true 0 false) in
  check_C30 (mk cli vs v l (model_obs (model_result c0))) = true.
Proof. exact model_satisfies_oracle. Qed.

Print Assumptions C30_occupied_meaning.
Print Assumptions C30_init_refuses.
Print Assumptions C30_init_creates.
Print Assumptions C30_created_iff.
Print Assumptions C30_version_supported.
Print Assumptions C30_cli_refuses.
Print Assumptions C30_cli_creates.
Print Assumptions C30_cli_defaults_supported.
Print Assumptions C30_polynomial_irreducible.
Print Assumptions C30_oracle_sound.
Print Assumptions C30_model_satisfies_oracle.
