(* C14 — readers never see a snapshot whose data is not yet indexed. Statements only. *)
From Restic Require Import Base.Prelude Model.C14m Proofs.C14p.
Import C14m.

(* any interleaving (arbitrary scheduler, any number of writers) of disciplined writer streams is a
   disciplined repository history *)
Theorem C14_interleaving_disciplined : forall sched streams v,
  Forall (fun s => wfb v s = true) streams -> wfb v (run_sched streams sched) = true.
Proof. exact interleave_wf. Qed.

(* a reader that lists snapshots after t1 operations and the index after t2 >= t1 operations finds
   every blob of every listed snapshot in a listed index entry whose pack exists *)
Theorem C14_reader_sees_closed : forall v streams sched t1 t2,
  Forall (fun s => wfb v s = true) streams -> t1 <= t2 ->
  reader_ok v (run_sched streams sched) t1 t2 = true.
Proof. exact reader_sees_closed_interleaved. Qed.

Theorem C14_reader_sees_closed_trace : forall v tr t1 t2,
  wfb v tr = true -> t1 <= t2 -> reader_ok v tr t1 t2 = true.
Proof. exact reader_sees_closed. Qed.

Theorem C14_indexed_meaning : forall v b,
  indexedb v b = true <-> exists p, In (b, p) (v_idx v) /\ In p (v_packs v).
Proof. exact indexedb_spec. Qed.

(* the order is necessary *)
Theorem C14_order_matters_refuted :
  exists tr t1 t2, wfb (mkView [] []) tr = true /\ t2 < t1 /\ reader_ok (mkView [] []) tr t1 t2 = false.
Proof. exact order_matters_refuted. Qed.

(* oracle on an observed reader trace: every index listing/loading and snapshot loading is preceded by
   a snapshot listing, and no snapshot listing follows an index listing *)
Theorem C14_reader_order_meaning : forall tr, reader_orderb false false tr = true ->
  forall i, nth_error tr i = Some RListIdx \/ (exists n, nth_error tr i = Some (RLoadIdx n)) \/
            (exists n, nth_error tr i = Some (RLoadSnap n)) ->
  exists j, j < i /\ nth_error tr j = Some RListSnap.
Proof. exact reader_order_meaning. Qed.

Theorem C14_no_snapshot_listing_after_index : forall tr s, reader_orderb s true tr = true -> ~ In RListSnap tr.
Proof. exact reader_no_snaplist_after_idx. Qed.

Theorem C14_writer_index_between_pack_and_snapshot : forall l1 d l2 r,
  writer_orderb d (l1 ++ WPack :: l2 ++ WSnap :: r) = true -> In WIdx l2.
Proof. exact writer_index_between. Qed.

Theorem C14_oracle_sound : forall c,
  check_C14 c = true <->
  match c with
  | CReader tr failed => reader_orderb false false tr = true /\ failed = false
  | CMount tr failed => reader_freshb true tr = true /\ failed = false
  | CWriter tr n => writer_orderb false tr = true /\ n = 0
  | CWriterSem v0 tr => wfb v0 tr = true
  end.
Proof. exact check_C14_spec. Qed.

(* mount-like readers: between a snapshot listing and a later use of repository data the index is listed *)
Theorem C14_reader_fresh_between : forall l1 f l2 r,
  reader_freshb f (l1 ++ RListSnap :: l2 ++ RUse :: r) = true -> In RListIdx l2.
Proof. exact reader_fresh_between. Qed.

(* writer streams accepted by the oracle (decoded real uploads) are premises of the reader theorem *)
Theorem C14_accepted_writers_give_reader_guarantee : forall v streams sched t1 t2,
  Forall (fun s => check_C14 (CWriterSem v s) = true) streams -> t1 <= t2 ->
  reader_ok v (run_sched streams sched) t1 t2 = true.
Proof. exact accepted_writers_give_reader_guarantee. Qed.

Print Assumptions C14_interleaving_disciplined.
Print Assumptions C14_reader_sees_closed.
Print Assumptions C14_reader_sees_closed_trace.
Print Assumptions C14_indexed_meaning.
Print Assumptions C14_order_matters_refuted.
Print Assumptions C14_reader_order_meaning.
Print Assumptions C14_no_snapshot_listing_after_index.
Print Assumptions C14_writer_index_between_pack_and_snapshot.
Print Assumptions C14_oracle_sound.
Print Assumptions C14_accepted_writers_give_reader_guarantee.
Print Assumptions C14_reader_fresh_between.
