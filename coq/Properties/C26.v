(* C26 — snapshot rewrites (tag, rewrite, repair snapshots) never lose the snapshot at any
   crash point.  Statements only. *)
From Restic Require Import Base.Prelude Model.C26m Proofs.C26p.
Import C26m.

(* For every command mode, every list of replaced snapshots, every pattern of failing backend
   operations (a crash after k operations is one such pattern) and every prefix of the resulting
   operation sequence: each replaced snapshot still has its old file, or its new file together
   with all data uploaded for it. *)
Theorem C26_old_or_new_at_every_prefix : forall m plan s0 fs,
  wf plan s0 ->
  forall p, prefix p (exec m plan fs) ->
  forall it, In it plan -> safe_item_P (run s0 p) it.
Proof. exact old_or_new_at_every_prefix. Qed.

(* The decidable trace structure evaluated on real recorded traces implies the same at every prefix. *)
Theorem C26_structure_implies_safe_at_every_prefix : forall plan s0 tr,
  wf plan s0 -> ok_trace plan tr = true ->
  forall p, prefix p tr -> forall it, In it plan -> safe_item_P (run s0 p) it.
Proof. exact ok_safe_every_prefix. Qed.

(* ... and no other file (snapshot, pack, index, key, config) is ever removed. *)
Theorem C26_others_untouched : forall plan s0 tr,
  ok_trace plan tr = true ->
  forall p, prefix p tr -> forall f, In f s0 ->
  (forall it, In it plan -> f <> (FSnap, p_old it)) -> In f (run s0 p).
Proof. exact ok_others_untouched. Qed.

(* Every trace of the model has that structure. *)
Theorem C26_model_traces_structured : forall m plan fs, ok_trace plan (exec m plan fs) = true.
Proof. exact exec_ok_trace. Qed.

(* tag: Original = the first snapshot's id (kept if already set), tree and metadata kept. *)
Theorem C26_original_kept_tag : forall id sn set add rm sn',
  change_tags id sn set add rm = Some sn' ->
  sn_orig sn' = Some (first_of id sn) /\ sn_tree sn' = sn_tree sn /\
  sn_host sn' = sn_host sn /\ sn_time sn' = sn_time sn.
Proof. exact change_tags_fields. Qed.

(* any chain of tag edits starting at a snapshot without Original ends at that snapshot or at one
   whose Original is the first snapshot's id *)
Theorem C26_original_kept_tag_chain : forall steps id0 sn0,
  sn_orig sn0 = None ->
  let fin := fold_left tag_step steps (id0, sn0) in
  fin = (id0, sn0) \/ sn_orig (snd fin) = Some id0.
Proof. exact tag_chain_original. Qed.

(* rewrite / repair: a replacement happens only for a non-null filtered tree and not in dry-run
   mode; Original = id of the snapshot that was rewritten; the tree is the filter's result. *)
Theorem C26_original_and_tree_rewrite : forall id sn fr o sn' f,
  rewrite_action id sn fr o = AReplace sn' f ->
  sn_orig sn' = Some id /\ f = r_forget o /\ r_dry o = false /\
  exists t, fr = FTree t /\ t <> 0%N /\ sn_tree sn' = t.
Proof. exact rewrite_replace_fields. Qed.

Theorem C26_tree_kept_unless_changed : forall id sn o sn' f,
  rewrite_action id sn (FTree (sn_tree sn)) o = AReplace sn' f -> sn_tree sn' = sn_tree sn.
Proof. exact rewrite_tree_kept. Qed.

(* F-C26: read as "first snapshot of the whole chain", the Original clause fails for a rewrite
   that follows a tag edit. *)
Theorem C26_original_first_in_chain_refuted :
  exists id0 sn0 id1 sn1 sn2 o,
    sn_orig sn0 = None /\
    change_tags id0 sn0 [] [[97%N]] [] = Some sn1 /\
    rewrite_action id1 sn1 (FTree 7) o = AReplace sn2 true /\
    sn_orig sn1 = Some id0 /\ sn_orig sn2 = Some id1 /\ id1 <> id0.
Proof. exact original_first_in_chain_refuted. Qed.

(* the only way a snapshot is removed without a successor: empty result, not kept, not dry-run *)
Theorem C26_remove_only_iff : forall id sn fr o,
  rewrite_action id sn fr o = ARemoveOnly <->
  fr = FTree 0 /\ r_keep_empty o = false /\ r_dry o = false.
Proof. exact rewrite_remove_only_iff. Qed.

(* complete decision table over commands and items, incl. handleUnreadableSnapshotFile: a snapshot file is
   removed without a saved successor exactly when (a) its load failed, the command is repair snapshots
   --forget (not dry-run) and its id was named, or (b) it was loaded and the result is an empty snapshot
   that is not kept (not dry-run). Every other removal is covered by C26_old_or_new_at_every_prefix. *)
Theorem C26_item_remove_only_iff : forall c it,
  item_action c it = ARemoveOnly <->
  exists o, c = CRewrite o /\ r_dry o = false /\
    ((i_unreadable it = true /\ r_repair o = true /\ r_forget o = true /\ i_named it = true) \/
     (i_unreadable it = false /\ i_fres it = FTree 0 /\ r_keep_empty o = false)).
Proof. exact item_remove_only_iff. Qed.

Theorem C26_plan_entry_without_successor : forall c its p,
  In p (plan_of c its) -> p_new p = None ->
  exists it, In it its /\ p_old p = i_old it /\ item_action c it = ARemoveOnly.
Proof. exact plan_entry_without_successor. Qed.

Theorem C26_unreadable_untouched : forall c it,
  i_unreadable it = true -> item_action c it <> ARemoveOnly -> plan_of c [it] = [].
Proof. exact unreadable_untouched. Qed.

Theorem C26_dry_run_no_ops : forall id sn fr o,
  r_dry o = true ->
  rewrite_action id sn fr o = AErr \/ exists b, rewrite_action id sn fr o = ANone b.
Proof. exact rewrite_dry_no_ops. Qed.

Theorem C26_unmodified_no_ops : forall id sn o,
  sn_tree sn <> 0%N -> r_meta o = false -> r_summary_match o = true ->
  rewrite_action id sn (FTree (sn_tree sn)) o = ANone false.
Proof. exact rewrite_unmodified_no_ops. Qed.

(* the oracle run on the implementation's observables means the property *)
Theorem C26_oracle_sound : forall c,
  check_C26 c = true ->
  let plan := plan_of (c_cmd c) (c_items c) in
  wf plan (c_s0 c) /\
  (forall p, prefix p (c_trace c) -> forall it, In it plan -> safe_item_P (run (c_s0 c) p) it) /\
  (forall p, prefix p (c_trace c) -> forall f, In f (c_s0 c) ->
     (forall it, In it plan -> f <> (FSnap, p_old it)) -> In f (run (c_s0 c) p)) /\
  (forall it, In it (c_items c) -> orig_ok (c_cmd c) it = true /\ tree_ok (c_cmd c) it = true) /\
  (forall cut, In cut (c_cuts c) -> cut_ok c cut = true).
Proof. exact check_C26_sound. Qed.

Print Assumptions C26_old_or_new_at_every_prefix.
Print Assumptions C26_structure_implies_safe_at_every_prefix.
Print Assumptions C26_others_untouched.
Print Assumptions C26_model_traces_structured.
Print Assumptions C26_original_kept_tag.
Print Assumptions C26_original_kept_tag_chain.
Print Assumptions C26_original_and_tree_rewrite.
Print Assumptions C26_tree_kept_unless_changed.
Print Assumptions C26_original_first_in_chain_refuted.
Print Assumptions C26_remove_only_iff.
Print Assumptions C26_item_remove_only_iff.
Print Assumptions C26_plan_entry_without_successor.
Print Assumptions C26_unreadable_untouched.
Print Assumptions C26_dry_run_no_ops.
Print Assumptions C26_unmodified_no_ops.
Print Assumptions C26_oracle_sound.
