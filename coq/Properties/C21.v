(* C21 — restore --verify reports exactly the files that differ. Statements only. *)
From Restic Require Import Base.Prelude Model.C21m Proofs.C21p.
Import C21m.

(* verifyFile in fail-fast mode (as VerifyFiles calls it) succeeds iff the file has exactly the snapshot's
   bytes: for every hash function H, repository bt stored under its hashes, node n whose blob sizes add up
   to n.Size, and every file content f.  sp_free: no other string hashes to one of the node's blob IDs. *)
Theorem C21_verify_iff : forall H bt n d f mt,
  repo_ok H bt -> sp_free H bt (n_content n) -> wf_node bt n d ->
  (verify_file H (lookup_size bt) true false mt (FReg f) n <> VErr <-> f = d).
Proof. exact verify_fast_iff. Qed.

(* any single changed byte, at any position, is reported *)
Theorem C21_byte_change_reported : forall H bt n pre a b post mt,
  repo_ok H bt -> sp_free H bt (n_content n) -> wf_node bt n (pre ++ a :: post) -> a <> b ->
  verify_file H (lookup_size bt) true false mt (FReg (pre ++ b :: post)) n = VErr.
Proof.
  intros H bt n pre a b post mt Hok Hsp Hwf Hab.
  apply (verify_fast_changed H bt n _ _ mt Hok Hsp Hwf). apply byte_change_ne. exact Hab.
Qed.

(* any truncation (to any shorter length) is reported *)
Theorem C21_truncation_reported : forall H bt n keep cut mt,
  repo_ok H bt -> sp_free H bt (n_content n) -> wf_node bt n (keep ++ cut) -> cut <> [] ->
  verify_file H (lookup_size bt) true false mt (FReg keep) n = VErr.
Proof.
  intros H bt n keep cut mt Hok Hsp Hwf Hc.
  apply (verify_fast_changed H bt n _ _ mt Hok Hsp Hwf). apply truncation_ne. exact Hc.
Qed.

(* any extension is reported *)
Theorem C21_extension_reported : forall H bt n d ext mt,
  repo_ok H bt -> sp_free H bt (n_content n) -> wf_node bt n d -> ext <> [] ->
  verify_file H (lookup_size bt) true false mt (FReg (d ++ ext)) n = VErr.
Proof.
  intros H bt n d ext mt Hok Hsp Hwf Hc.
  apply (verify_fast_changed H bt n _ _ mt Hok Hsp Hwf). intros He. symmetry in He.
  apply (truncation_ne d ext Hc). exact He.
Qed.

(* a missing file, a symlink (even to a correct file) or a directory in place of the file is reported *)
Theorem C21_not_regular_reported : forall H bt n o trust mt fast,
  (forall f, o <> FReg f) -> verify_file H (lookup_size bt) fast trust mt o n = VErr.
Proof. exact verify_fast_not_regular. Qed.

(* the non-fail-fast mode used by RestoreTo's overwrite check: NeedsRestore() is false iff the file is intact *)
Theorem C21_needs_restore_iff : forall H bt n d f mt,
  repo_ok H bt -> sp_free H bt (n_content n) -> wf_node bt n d ->
  (needs_restore (verify_file H (lookup_size bt) false false mt (FReg f) n) = false <-> f = d).
Proof. exact verify_slow_iff. Qed.

(* VerifyFiles (default Error callback): nil error iff every restored regular file is intact; count = all on success *)
Theorem C21_verify_all_iff : forall H bt ow fl es,
  repo_ok H bt -> jobs_wf H bt fl es ->
  let r := verify_files_abort H (lookup_size bt) ow fl es in
  (fst r = true <-> forall e, In e (jobs fl es) -> e_intact bt e = true) /\
  (fst r = true -> snd r = N.of_nat (length (jobs fl es))) /\
  (fst r = false -> (snd r < N.of_nat (length (jobs fl es)))%N /\
                    (snd r <= N.of_nat (length (filter (e_intact bt) (jobs fl es))))%N).
Proof. exact verify_all_iff. Qed.

(* meaning of "intact": the target is a regular file holding the concatenation of the node's blobs *)
Theorem C21_intact_meaning : forall bt o n d,
  blob_data bt (n_content n) = Some d -> (intact bt o n = true <-> o = FReg d).
Proof. exact intact_iff. Qed.

(* VerifyFiles with cmd_restore's error-swallowing callback reports exactly the differing files *)
Theorem C21_collect_reports_exactly_differing : forall H bt ow fl es,
  repo_ok H bt -> jobs_wf H bt fl es ->
  fst (verify_files_collect H (lookup_size bt) ow fl es)
  = map e_loc (filter (fun e => negb (e_intact bt e)) (jobs fl es)).
Proof. exact verify_collect_exact. Qed.

(* the verdict does not depend on the order in which the workers take the jobs *)
Theorem C21_schedule_independent : forall H sz ow js js',
  Permutation.Permutation js js' -> forallb (job_ok H sz ow) js = forallb (job_ok H sz ow) js'.
Proof. exact verdict_perm. Qed.

(* files RestoreTo leaves out of verification as "metadata only" are intact at that moment *)
Theorem C21_metadata_only_is_intact : forall H bt ow newer mteq o n d,
  repo_ok H bt -> sp_free H bt (n_content n) -> wf_node bt n d -> ow <> OwIfChanged ->
  track H (lookup_size bt) ow newer mteq o n = Some true -> o = FReg d.
Proof. exact track_metadata_only_intact. Qed.

(* oracle meaning *)
Theorem C21_oracle_file_sound : forall bt ht hl mteq o n obs nr d,
  check_C21 (CFile bt ht hl true false mteq o n obs nr) = true -> wf_node bt n d ->
  (x_is_err obs = false <-> o = FReg d).
Proof. exact oracle_file_fast_sound. Qed.

Theorem C21_oracle_file_slow_sound : forall bt ht hl mteq o n obs nr d,
  check_C21 (CFile bt ht hl false false mteq o n obs nr) = true -> wf_node bt n d ->
  (nr = false <-> o = FReg d).
Proof. exact oracle_file_slow_sound. Qed.

Theorem C21_oracle_all_sound : forall bt ht ow fl es ok cnt rep cnt2,
  check_C21 (CAll bt ht ow fl es ok cnt rep cnt2) = true ->
  (forall e, In e (jobs fl es) -> exists d, wf_node bt (e_node e) d) ->
  (ok = true <-> forall e, In e (jobs fl es) -> e_intact bt e = true) /\
  (ok = true -> cnt = N.of_nat (length (jobs fl es))) /\
  (ok = false -> (cnt < N.of_nat (length (jobs fl es)))%N) /\
  rep = map e_loc (filter (fun e => negb (e_intact bt e)) (jobs fl es)).
Proof. exact oracle_all_sound. Qed.

(* the model's own outputs always satisfy the oracle *)
Theorem C21_model_sat_oracle_file : forall H bt ht hl fast trust mteq o n,
  repo_ok H bt -> sp_free H bt (n_content n) ->
  check_C21 (CFile bt ht hl fast trust mteq o n (verify_file_x H (lookup_size bt) hl fast trust mteq o n)
                    (x_needs_restore (verify_file_x H (lookup_size bt) hl fast trust mteq o n))) = true.


Proof. exact model_sat_oracle_file. Qed.

(* the hard-link rule added to verifyFile (nil state for a reused multi-link file that needs restoring) never changes
   the rewrite decision, and is inactive in the fail-fast mode used by VerifyFiles *)
Theorem C21_hardlink_rule_same_decision : forall H bt hl fast trust mteq o n,
  x_needs_restore (verify_file_x H (lookup_size bt) hl fast trust mteq o n)
  = needs_restore (verify_file H (lookup_size bt) fast trust mteq o n).
Proof. exact x_needs_restore_verify. Qed.

Theorem C21_hardlink_rule_not_in_failfast : forall H bt hl trust mteq o n,
  verify_file_x H (lookup_size bt) hl true trust mteq o n = XRes (verify_file H (lookup_size bt) true trust mteq o n).
Proof. exact verify_file_x_fast. Qed.

Theorem C21_model_sat_oracle_all : forall H bt ow ht fl es,
  repo_ok H bt -> (forall e, In e (jobs fl es) -> sp_free H bt (n_content (e_node e))) ->
  let a := verify_files_abort H (lookup_size bt) ow fl es in
  let k := verify_files_collect H (lookup_size bt) ow fl es in
  check_C21 (CAll bt ht ow fl es (fst a) (snd a) (fst k) (snd k)) = true.


Proof. exact model_sat_oracle_all. Qed.

(* the verification never uses the size+mtime shortcut, whatever --overwrite says: the outcome is independent of the
   overwrite option and of the files' mtimes *)
Theorem C21_verify_ignores_overwrite_mode : forall H sz ow ow' fl es,
  verify_files_abort H sz ow fl es = verify_files_abort H sz ow' fl es /\
  verify_files_collect H sz ow fl es = verify_files_collect H sz ow' fl es.
Proof. intros. split; reflexivity. Qed.

Theorem C21_model_sat_oracle_track : forall H bt ht ow newer mteq o n,
  repo_ok H bt -> sp_free H bt (n_content n) ->
  check_C21 (CTrack bt ht ow newer mteq o n (track H (lookup_size bt) ow newer mteq o n)) = true.
Proof. exact model_sat_oracle_track. Qed.

Print Assumptions C21_verify_iff.
Print Assumptions C21_byte_change_reported.
Print Assumptions C21_truncation_reported.
Print Assumptions C21_extension_reported.
Print Assumptions C21_not_regular_reported.
Print Assumptions C21_needs_restore_iff.
Print Assumptions C21_verify_all_iff.
Print Assumptions C21_intact_meaning.
Print Assumptions C21_collect_reports_exactly_differing.
Print Assumptions C21_schedule_independent.
Print Assumptions C21_metadata_only_is_intact.
Print Assumptions C21_oracle_file_sound.
Print Assumptions C21_oracle_file_slow_sound.
Print Assumptions C21_oracle_all_sound.
Print Assumptions C21_model_sat_oracle_file.
Print Assumptions C21_model_sat_oracle_all.
Print Assumptions C21_model_sat_oracle_track.
Print Assumptions C21_verify_ignores_overwrite_mode.
Print Assumptions C21_hardlink_rule_same_decision.
Print Assumptions C21_hardlink_rule_not_in_failfast.
