(* C31 — upgrading a repository to format v2 preserves all data.  Statements only. *)
From Restic Require Import Base.Prelude Model.C31m Proofs.C31p.
Import C31m.

(* The model only ever operates on the config handle (cop has no other operation); result, final
   config and operation sequence are consistent for every backend kind and fault pattern. *)
Theorem C31_result_final : forall atomic fs,
  let m := upgrade atomic fs in
  run C1 (trace_of m) = final_of m /\
  (result_of m = ROk -> final_of m = C2) /\
  (result_of m = RRecovered -> final_of m = C1) /\
  (result_of m = RLost -> final_of m = CNone \/ final_of m = C1) /\
  result_of m <> RNotV1.
Proof. exact result_final. Qed.

Theorem C31_no_faults :
  upgrade true [] = ([CSave2], C2, ROk) /\ upgrade false [] = ([CRemove; CSave2], C2, ROk).
Proof. exact upgrade_no_faults. Qed.

(* atomic backends: every crash point of the failure-free run, and every "all operations fail from
   k on" pattern, leaves the old or the new config *)
Theorem C31_atomic_crash_safe :
  forall p, prefix p (trace_of (upgrade true [])) -> present (run C1 p).
Proof. exact atomic_crash_safe. Qed.

Theorem C31_atomic_crash_pattern_safe : forall k,
  present (final_of (upgrade true (repeat false k ++ repeat true 8))).
Proof. exact atomic_crash_pattern_safe. Qed.

(* both backend kinds: any single failing Save/Remove ends with the old or new config, and the
   result says so *)
Theorem C31_single_failure_safe : forall atomic fs,
  (count_true fs <= 1)%nat -> present (final_of (upgrade atomic fs)).
Proof. exact single_failure_safe. Qed.

Theorem C31_single_failure_result : forall atomic fs,
  (count_true fs <= 1)%nat ->
  result_of (upgrade atomic fs) = ROk \/ result_of (upgrade atomic fs) = RRecovered.
Proof. exact single_failure_result. Qed.

(* F-C31 (by design): non-atomic backends *)
Theorem C31_nonatomic_crash_refuted :
  exists p, prefix p (trace_of (upgrade false [])) /\ run C1 p = CNone.
Proof. exact nonatomic_crash_refuted. Qed.

Theorem C31_nonatomic_double_failure_refuted :
  exists fs, count_true fs = 2%nat /\ final_of (upgrade false fs) = CNone /\ result_of (upgrade false fs) = RLost.
Proof. exact nonatomic_double_failure_refuted. Qed.

(* atomic-replace backends: every fault pattern, every prefix: old or new config present; never Lost;
   at most the one Save of the new config (formerly refuted: F-C31b, fixed in /repo 70c3c2bee) *)
Theorem C31_atomic_all_faults_safe : forall fs,
  (forall p, prefix p (trace_of (upgrade true fs)) -> present (run C1 p)) /\
  present (final_of (upgrade true fs)) /\
  result_of (upgrade true fs) <> RLost /\
  (trace_of (upgrade true fs) = [] \/ trace_of (upgrade true fs) = [CSave2]).
Proof. exact atomic_all_faults_safe. Qed.

Theorem C31_oracle_sound : forall c,
  check_C31 c = true ->
  present (c_final c) /\ c_other_ops c = 0%nat /\ c_others_unchanged c = true /\ c_data_ok c = true.
Proof. exact check_C31_sound. Qed.

Print Assumptions C31_result_final.
Print Assumptions C31_no_faults.
Print Assumptions C31_atomic_crash_safe.
Print Assumptions C31_atomic_crash_pattern_safe.
Print Assumptions C31_single_failure_safe.
Print Assumptions C31_single_failure_result.
Print Assumptions C31_nonatomic_crash_refuted.
Print Assumptions C31_nonatomic_double_failure_refuted.
Print Assumptions C31_atomic_all_faults_safe.
Print Assumptions C31_oracle_sound.
