(* C47 — the in-memory blob cache (internal/bloblru) stays within its budget and returns correct
   blobs. Statements only.  [cinv c]: 0 <= free, free = size - sum of (cap+overhead) over the
   cached entries, distinct keys, caps >= 0.  Sequential scripts: [run]; concurrent
   GetOrCompute calls: [sched (ginit c0 calls) s] for an arbitrary schedule [s] of the atomic
   sections of the calls. *)
From Restic Require Import Base.Prelude Gen.ParamsC47 Model.C47m Proofs.C47p.
Import C47m.
Open Scope Z_scope.

(* budget after every operation of every script; the eviction loop never spins on an empty LRU *)
Theorem C47_budget : forall size c0 ops, new size = Some c0 -> Forall wf_op ops ->
  Forall (fun rc => cinv (snd rc) /\ c_size (snd rc) = size /\ fst rc <> RHang) (snd (run c0 ops)).
Proof.
  intros size c0 ops Hn Hw. destruct (new_inv size c0 Hn) as [HI Hs].
  destruct (run_inv ops c0 HI Hw) as [_ H]. rewrite Hs in H. exact H.
Qed.

(* the entry count stays within maxEntries, so simplelru never evicts behind the cache's back *)
Theorem C47_lru_limit_never_hit : forall c, cinv c -> Z.of_nat (length (c_lru c)) <= max_entries (c_size c).
Proof. exact len_le_max. Qed.

(* a lookup returns exactly the blob bound to the id; a blob that was added is found by the next
   lookup; oversized blobs are not cached *)
Theorem C47_get_returns_binding : forall c id b, cinv c -> (snd (get c id) = Some b <-> In (id, b) (c_lru c)).
Proof. exact get_returns_binding. Qed.
Theorem C47_add_then_get : forall c id b old, cinv c -> wf_blob b -> snd (add c id b) = AAdded old ->
  snd (get (fst (add c id b)) id) = Some b.
Proof. exact add_then_get. Qed.
Theorem C47_oversized_not_cached : forall c id b, c_size c < cost b -> add c id b = (c, ASkipBig).
Proof. exact oversized_not_cached. Qed.

(* every interleaving of concurrent GetOrCompute calls (failing and succeeding computes, eviction) *)
Theorem C47_concurrent_invariant : forall c0 calls s, cinv c0 ->
  (forall id b, In (id, Some b) calls -> wf_blob b) ->
  ginv c0 calls (sched (ginit c0 calls) s).
Proof. intros c0 calls s H1 H2. apply sched_inv; auto. apply ginit_inv; auto. Qed.

Theorem C47_budget_concurrent : forall c0 calls s, cinv c0 ->
  (forall id b, In (id, Some b) calls -> wf_blob b) ->
  let g := sched (ginit c0 calls) s in
  cinv (g_c g) /\ c_size (g_c g) = c_size c0 /\ g_hang g = false.
Proof.
  intros c0 calls s H1 H2 g. pose proof (C47_concurrent_invariant c0 calls s H1 H2) as HI.
  split; [apply (gi_c _ _ _ HI) | split; [apply (gi_size _ _ _ HI) | apply (gi_hang _ _ _ HI)]].
Qed.

(* a call for id returns only a blob that was cached initially for id or computed by a call for id *)
Theorem C47_value_correct : forall c0 calls s t th b, cinv c0 ->
  (forall id b, In (id, Some b) calls -> wf_blob b) ->
  nth_error (g_thr (sched (ginit c0 calls) s)) t = Some th -> t_pc th = PDone (Some b) ->
  In (t_id th, b) (c_lru c0) \/ In (t_id th, Some b) calls.
Proof.
  intros c0 calls s t th b H1 H2 Hth Hpc. pose proof (C47_concurrent_invariant c0 calls s H1 H2) as HI.
  destruct (gi_thr _ _ _ HI t th Hth) as (Hv & _). apply Hv. rewrite Hpc. reflexivity.
Qed.

(* at most one registered computation per id at any time *)
Theorem C47_owner_unique : forall c0 calls s, cinv c0 ->
  (forall id b, In (id, Some b) calls -> wf_blob b) ->
  NoDup (map fst (g_inprog (sched (ginit c0 calls) s))).
Proof. intros c0 calls s H1 H2. apply (gi_nodup _ _ _ (C47_concurrent_invariant c0 calls s H1 H2)). Qed.

(* no lost wake-up / no deadlock *)
Theorem C47_no_deadlock : forall c0 calls s, cinv c0 ->
  (forall id b, In (id, Some b) calls -> wf_blob b) ->
  let g := sched (ginit c0 calls) s in
  (exists t th, nth_error (g_thr g) t = Some th /\ (forall r, t_pc th <> PDone r)) ->
  exists t, tstep g t <> None.
Proof. intros c0 calls s H1 H2 g. apply (no_deadlock c0 calls). apply C47_concurrent_invariant; auto. Qed.

(* the oracle means exactly the property clauses: budget of every observed state, every cached blob
   was produced for its id, every lookup returns what the cache held for the id just before
   (a miss in GetOrCompute returns the computed outcome, a hit does not compute); for a wave:
   every call returned a blob produced for its id, or an error only if some compute for the id failed *)
Theorem C47_oracle_sound : forall c, check_C47 c = true <-> case_spec c.
Proof. exact check_C47_iff. Qed.

(* the model's own observations of any script satisfy the oracle *)
Theorem C47_model_satisfies_oracle : forall size c0 ops, new size = Some c0 -> Forall wf_op ops ->
  check_C47 (CSeq size ops (model_obs c0 ops)) = true.
Proof. exact model_satisfies_oracle. Qed.

(* ... and so do the final observations of any wave of concurrent calls, for every schedule after
   which all calls have returned *)
Theorem C47_model_wave_satisfies_oracle : forall size c00 prefill calls s,
  new size = Some c00 -> Forall wf_op prefill -> (forall id b, In (id, Some b) calls -> wf_blob b) ->
  let g := sched (ginit (fst (run c00 prefill)) calls) s in
  (forall th, In th (g_thr g) -> exists r, t_pc th = PDone r) ->
  check_C47 (CWave size prefill calls s (map thread_result (g_thr g)) [] (snap_of (g_c g))) = true.
Proof. exact model_wave_satisfies_oracle. Qed.

Print Assumptions C47_budget.
Print Assumptions C47_lru_limit_never_hit.
Print Assumptions C47_get_returns_binding.
Print Assumptions C47_add_then_get.
Print Assumptions C47_oversized_not_cached.
Print Assumptions C47_concurrent_invariant.
Print Assumptions C47_budget_concurrent.
Print Assumptions C47_value_correct.
Print Assumptions C47_owner_unique.
Print Assumptions C47_no_deadlock.
Print Assumptions C47_oracle_sound.
Print Assumptions C47_model_satisfies_oracle.
Print Assumptions C47_model_wave_satisfies_oracle.
