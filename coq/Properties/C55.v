(* C55 — backups that skip source items are reported as incomplete. Statements only. *)
From Restic Require Import Base.Prelude Model.C55m Proofs.C55p.
Import C55m.

(* When at least one target exists: exit status 3 iff a target is missing or some reached item
   failed with an error that is not "vanished"; otherwise 0; the snapshot is saved either way. *)
Theorem C55_exit_spec : forall ts, some_target_exists ts ->
  (exit_code (r_err (backup ts)) = 3%N <-> some_missing ts \/ some_failed ts)
  /\ (exit_code (r_err (backup ts)) = 0%N <-> ~ (some_missing ts \/ some_failed ts))
  /\ r_snapshot (backup ts) = true.
Proof. exact exit_spec. Qed.

(* The snapshot holds exactly the reached items that could be read. *)
Theorem C55_snapshot_contains_readable : forall ts id, some_target_exists ts ->
  (In id (r_saved (backup ts)) <-> exists k f, reached_ts ts id k f /\ save_outcome k f = Saved).
Proof. exact snapshot_contains_readable. Qed.

(* Exactly the reached failing items are reported through arch.Error. *)
Theorem C55_errors_reported : forall ts id, some_target_exists ts ->
  (In id (r_errors (backup ts)) <-> exists k f, reached_ts ts id k f /\ save_outcome k f = Failed).
Proof. exact errors_reported. Qed.

(* Items that vanished between readdir and open/lstat never change the status. *)
Theorem C55_vanished_is_not_error : forall ts,
  ts <> [] -> (forall t, In t ts -> t_exists t = true) ->
  (forall id k f, reached_ts ts id k f -> benign f) ->
  r_err (backup ts) = ENone /\ exit_code (r_err (backup ts)) = 0%N.
Proof. exact vanished_is_not_error. Qed.

(* A directory whose listing breaks off part-way (names so far plus an error) is reported and gives exit 3. *)
Theorem C55_partial_listing_incomplete : forall ts id, some_target_exists ts ->
  reached_ts ts id KDir ErrReaddirPartial ->
  exit_code (r_err (backup ts)) = 3%N /\ In id (r_errors (backup ts)).
Proof. exact partial_listing_incomplete. Qed.

Theorem C55_no_source_is_fatal : forall ts, (forall t, In t ts -> t_exists t = false) ->
  backup ts = mkRes EFatal false [] [].
Proof. exact no_source_is_fatal. Qed.

Theorem C55_exit3_only_incomplete : forall e, exit_code e = 3%N <-> e = EInvalidSource.
Proof. exact exit3_iff. Qed.

Theorem C55_oracle_sound : forall c, check_C55 c = true <-> C55_holds c.
Proof. exact check_C55_iff. Qed.

Theorem C55_model_meets_oracle : forall ts, check_case (model_case ts) = 0%nat.
Proof. exact model_case_ok. Qed.

Print Assumptions C55_exit_spec.
Print Assumptions C55_snapshot_contains_readable.
Print Assumptions C55_errors_reported.
Print Assumptions C55_vanished_is_not_error.
Print Assumptions C55_partial_listing_incomplete.
Print Assumptions C55_no_source_is_fatal.
Print Assumptions C55_exit3_only_incomplete.
Print Assumptions C55_oracle_sound.
Print Assumptions C55_model_meets_oracle.
