(* C05 — authenticated encryption round-trips and rejects forgeries. Statements only.
   [E] is an arbitrary block function (key -> block -> block); [aes] is the Gallina AES the
   correspondence check runs against crypto.Key.Seal / Key.Open. *)
From Restic Require Import Base.Prelude Gen.ParamsC05 Model.C05m Proofs.C05p Proofs.C05p_wf.
Import C05m.

(* Round trip: whatever Seal returns (for every plaintext of every length, every usable key and nonce,
   every dst prefix) is dst ++ ct where Open of ct gives back the plaintext. *)
Theorem C05_open_seal : forall E k n dst dst' p out,
  seal E k n dst p [] = SOk out -> exists ct, out = dst ++ ct /\ open E k n dst' ct = OOk (dst' ++ p).
Proof. exact open_seal. Qed.

Theorem C05_seal_overhead : forall E k n dst p ad out,
  seal E k n dst p ad = SOk out -> length out = (length dst + length p + 16)%nat.
Proof. exact seal_overhead. Qed.

(* Seal refuses exactly: invalid key, additional data, wrong nonce length, all-zero nonce. *)
Theorem C05_seal_guards : forall E k n dst p ad,
  seal E k n dst p ad = SPanic <->
  (valid_key k = false \/ ad <> [] \/ length n <> iv_size \/ valid_nonce n = false).
Proof. exact seal_guards. Qed.

Theorem C05_seal_never_zero_nonce : forall E k dst p ad l, seal E k (repeat 0%N l) dst p ad = SPanic.
Proof. exact seal_never_zero_nonce. Qed.

Theorem C05_seal_never_invalid_key : forall E k n dst p ad, valid_key k = false -> seal E k n dst p ad = SPanic.
Proof. exact seal_never_invalid_key. Qed.

Theorem C05_valid_key_meaning : forall k,
  valid_key k = true <->
  (exists x, In x (kE k) /\ x <> 0%N) /\ (exists x, In x (kK k) /\ x <> 0%N) /\ (exists x, In x (kR k) /\ x <> 0%N).
Proof. exact valid_key_spec. Qed.

Theorem C05_valid_nonce_meaning : forall n, valid_nonce n = true <-> exists x, In x n /\ x <> 0%N.
Proof. exact valid_nonce_spec. Qed.

(* Open never accepts: inputs shorter than the overhead, invalid keys, the zero nonce. *)
Theorem C05_open_short : forall E k n dst ct, (length ct < 16)%nat -> forall x, open E k n dst ct <> OOk x.
Proof. exact open_short. Qed.

Theorem C05_open_bad_key : forall E k n dst ct, valid_key k = false -> open E k n dst ct = OErr.
Proof. exact open_bad_key. Qed.

Theorem C05_open_zero_nonce : forall E k dst ct, valid_key k = true -> open E k (repeat 0%N 16) dst ct = OErr.
Proof. exact open_zero_nonce. Qed.

Theorem C05_open_panics_iff : forall E k n dst ct,
  open E k n dst ct = OPanic <-> valid_key k = true /\ length n <> iv_size.
Proof. exact open_panics_iff. Qed.

(* Open accepts exactly the inputs whose last 16 bytes are the MAC of the rest. *)
Theorem C05_open_ok_iff : forall E k n dst ct x,
  open E k n dst ct = OOk x <->
  valid_key k = true /\ length n = iv_size /\ valid_nonce n = true /\ (16 <= length ct)%nat /\
  mac E k n (firstn (length ct - 16) ct) = skipn (length ct - 16) ct /\
  x = dst ++ ctr E (kE k) n (firstn (length ct - 16) ct).
Proof. exact open_ok_iff. Qed.

(* Every change of the tag is rejected. *)
Theorem C05_tag_flip_rejected : forall E k n dst c t',
  valid_key k = true -> length n = iv_size -> valid_nonce n = true -> length t' = 16%nat ->
  t' <> mac E k n c -> open E k n dst (c ++ t') = OUnauth.
Proof. exact tag_flip_rejected. Qed.

(* A changed / truncated / extended ciphertext is rejected unless the two Poly1305 values collide modulo 2^128;
   the event depends on R and the two ciphertexts only. *)
Theorem C05_ct_change_accepted_iff_collision : forall E k n dst c c',
  valid_key k = true -> length n = iv_size -> valid_nonce n = true ->
  (open E k n dst (c' ++ mac E k n c) <> OUnauth <-> poly_collision (kR k) c c').
Proof. exact ct_change_accepted_iff_collision. Qed.

Theorem C05_ct_flip_rejected_unless_collision : forall E k n dst c c',
  valid_key k = true -> length n = iv_size -> valid_nonce n = true ->
  ~ poly_collision (kR k) c c' -> open E k n dst (c' ++ mac E k n c) = OUnauth.
Proof. exact ct_flip_rejected_unless_collision. Qed.

(* The polynomial evaluated with partial reductions is the textbook Poly1305 polynomial. *)
Theorem C05_poly_is_textbook : forall r m, poly r m = poly_spec r m.
Proof. exact poly_is_poly_spec. Qed.

(* A changed nonce is rejected whenever the block cipher separates the two nonces. *)
Theorem C05_nonce_flip_rejected : forall E k n n' dst c,
  valid_key k = true -> length n' = iv_size -> valid_nonce n' = true ->
  wf_block (E (kK k) n) -> wf_block (E (kK k) n') -> E (kK k) n' <> E (kK k) n ->
  open E k n' dst (c ++ mac E k n c) = OUnauth.
Proof. exact nonce_flip_rejected. Qed.

(* The Gallina AES (128/256) maps well-formed keys and blocks to well-formed 16-byte blocks; hence for the
   concrete cipher the only premise left for a changed nonce is that AES_K separates the two nonces. *)
Theorem C05_aes_wf : forall k b,
  (length k = 16 \/ length k = 32)%nat -> Forall byte_ok k -> wfl 16 b -> wfl 16 (aes k b).
Proof. exact aes_wf. Qed.

Theorem C05_nonce_flip_rejected_aes : forall k n n' dst c,
  valid_key k = true -> length (kK k) = 16%nat -> Forall byte_ok (kK k) ->
  wfl 16 n -> wfl 16 n' -> valid_nonce n' = true ->
  aes (kK k) n' <> aes (kK k) n ->
  open aes k n' dst (c ++ mac aes k n c) = OUnauth.
Proof. exact nonce_flip_rejected_aes. Qed.

(* Another key is accepted exactly when its MAC of the ciphertext is the same. *)
Theorem C05_key_swap_accepted_iff : forall E k k' n dst c,
  valid_key k' = true -> length n = iv_size -> valid_nonce n = true ->
  (open E k' n dst (c ++ mac E k n c) <> OUnauth <-> mac E k' n c = mac E k n c).
Proof. exact key_swap_accepted_iff. Qed.

(* The literal statement ("every forgery / every other key is rejected") is false of the construction: *)
Theorem C05_forgery_rejection_refuted :
  exists k n c c', valid_key k = true /\ length n = iv_size /\ valid_nonce n = true /\ c' <> c /\
    forall E dst, open E k n dst (c' ++ mac E k n c) = OOk (dst ++ ctr E (kE k) n c').
Proof. exact forgery_rejection_refuted. Qed.

Theorem C05_key_swap_rejection_refuted :
  exists k k' n c, valid_key k = true /\ valid_key k' = true /\ k' <> k /\ length n = iv_size /\ valid_nonce n = true /\
    forall E dst, open E k' n dst (c ++ mac E k n c) = OOk (dst ++ ctr E (kE k') n c).
Proof. exact key_swap_rejection_refuted. Qed.

(* KDF: accepted parameters lie in the documented domain. *)
Theorem C05_kdf_accepts_sound : forall saltlen n r p,
  kdf_accepts saltlen n r p = true ->
  (saltlen = ParamsC05.salt_length /\ 1 < n /\ n mod 2 = 0 /\ Z.land n (n - 1) = 0 /\
   1 <= r /\ 1 <= p /\ r * p < 1073741824 /\ 128 * n * r <= max_int /\ 128 * r * p <= max_int)%Z.
Proof. exact kdf_accepts_sound. Qed.

Theorem C05_extension_is_iv_plus_mac : (ParamsC05.extension = ParamsC05.iv_size + ParamsC05.mac_size)%Z.
Proof. exact extension_is_iv_plus_mac. Qed.

(* The oracle run on the implementation's observations means the property clauses, and the model passes it. *)
Theorem C05_oracle_group_meaning : forall k n pt sealed opens,
  check_C05 (CGroup k n pt sealed opens) = true ->
  (seal_guard k n [] = false -> sealed = SPanic) /\
  (seal_guard k n [] = true -> exists s, sealed = SOk s /\ forall o, In (MNone, o) opens -> o = OOk pt) /\
  (forall s m x, sealed = SOk s -> In (m, OOk x) opens -> exists y, mopen k n s m = OOk y).
Proof. exact check_C05_group_meaning. Qed.

Theorem C05_oracle_seal_meaning : forall k n dst pt ad obs,
  check_C05 (CSeal k n dst pt ad obs) = true ->
  (valid_key k = false \/ ad <> [] \/ length n <> iv_size \/ valid_nonce n = false) -> obs = SPanic.
Proof. exact check_C05_seal_meaning. Qed.

Theorem C05_oracle_open_meaning : forall k n dst ct x,
  check_C05 (COpen k n dst ct (OOk x)) = true -> exists y, open aes k n dst ct = OOk y.
Proof. exact check_C05_open_meaning. Qed.

Theorem C05_oracle_literal_meaning : forall k n pt s opens,
  literal_ok (CGroup k n pt (SOk s) opens) = true ->
  forall m x, In (m, OOk x) opens -> is_mod k n s m = false.
Proof. exact literal_ok_meaning. Qed.

Theorem C05_model_satisfies_oracle : forall k n pt muts, check_C05 (model_group k n pt muts) = true.
Proof. exact model_satisfies_oracle. Qed.

Print Assumptions C05_open_seal.
Print Assumptions C05_seal_overhead.
Print Assumptions C05_seal_guards.
Print Assumptions C05_seal_never_zero_nonce.
Print Assumptions C05_seal_never_invalid_key.
Print Assumptions C05_valid_key_meaning.
Print Assumptions C05_valid_nonce_meaning.
Print Assumptions C05_open_short.
Print Assumptions C05_open_bad_key.
Print Assumptions C05_open_zero_nonce.
Print Assumptions C05_open_panics_iff.
Print Assumptions C05_open_ok_iff.
Print Assumptions C05_tag_flip_rejected.
Print Assumptions C05_ct_change_accepted_iff_collision.
Print Assumptions C05_ct_flip_rejected_unless_collision.
Print Assumptions C05_poly_is_textbook.
Print Assumptions C05_nonce_flip_rejected.
Print Assumptions C05_key_swap_accepted_iff.
Print Assumptions C05_aes_wf.
Print Assumptions C05_nonce_flip_rejected_aes.
Print Assumptions C05_forgery_rejection_refuted.
Print Assumptions C05_key_swap_rejection_refuted.
Print Assumptions C05_kdf_accepts_sound.
Print Assumptions C05_extension_is_iv_plus_mac.
Print Assumptions C05_oracle_group_meaning.
Print Assumptions C05_oracle_seal_meaning.
Print Assumptions C05_oracle_open_meaning.
Print Assumptions C05_oracle_literal_meaning.
Print Assumptions C05_model_satisfies_oracle.
