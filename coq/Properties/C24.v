(* C24 — snapshot filters, grouping and 'latest' select the right snapshots. Statements only. *)
From Restic Require Import Base.Prelude Model.C24m Proofs.C24p.
From Coq Require Import Permutation.
Import C24m.
Open Scope Z_scope.

(* the filter accepts exactly: host listed (or no host filter), some tag list satisfied (or no tag
   filter), every requested path present *)
Theorem C24_matches_spec : forall f s,
  matches f s = true <->
  (f_hosts f = [] \/ In (sn_host s) (f_hosts f))
  /\ (f_tags f = [] \/ exists l, In l (f_tags f) /\ has_tags (sn_tags s) l = true)
  /\ (forall p, In p (f_paths f) -> In p (sn_paths s)).
Proof. exact matches_spec. Qed.

(* a tag list is satisfied iff all its tags are present — except that an empty tag reached while
   the snapshot has no tags accepts at once *)
Theorem C24_has_tags_spec : forall tags l,
  has_tags tags l = true <->
  (exists pre post, l = pre ++ [] :: post /\ tags = [] /\ (forall t, In t pre -> In t tags))
  \/ (forall t, In t l -> In t tags).
Proof. exact has_tags_spec. Qed.

Theorem C24_filter_exact : forall f l s, In s (find_all f l) <-> In s l /\ matches f s = true.
Proof. exact find_all_exact. Qed.

(* 'latest', for every processing order of the snapshot set *)
Theorem C24_latest_spec : forall f l order,
  Permutation order l ->
  match find_latest f order with
  | None => forall s, In s l -> ~ cand f s
  | Some b => In b l /\ cand f b /\ forall s, In s l -> cand f s -> sn_time s <= sn_time b
  end.
Proof. exact find_latest_spec. Qed.

(* grouping is a partition by the selected key *)
Theorem C24_groups_partition : forall o l,
  let gs := group_by o l in
  Permutation (concat (map snd gs)) (map sn_id l)
  /\ distinct_keys (map fst gs) = true
  /\ forall k ids j, In (k, ids) gs -> In j ids -> exists s, In s l /\ sn_id s = j /\ key_of o s = k.
Proof. exact groups_partition. Qed.

Theorem C24_key_equality_decided : forall a b, gkey_eqb a b = true <-> a = b.
Proof. exact gkey_eqb_spec. Qed.

Theorem C24_sorted_key_same_elements : forall l, Permutation (ssort l) l.
Proof. exact ssort_perm. Qed.

Theorem C24_oracle_latest_sound : forall f l obs,
  check_C24 (KLatest f l obs) = true ->
  match obs with
  | None => forall s, In s l -> ~ cand f s
  | Some i => exists r, lookup i l = Some r /\ cand f r /\ forall s, In s l -> cand f s -> sn_time s <= sn_time r
  end.
Proof. exact oracle_latest_sound. Qed.

Theorem C24_oracle_findall_sound : forall f l obs,
  check_C24 (KFindAll f l obs) = true -> Permutation obs (map sn_id (find_all f l)).
Proof. exact oracle_findall_sound. Qed.

Theorem C24_oracle_group_sound : forall o l obs,
  check_C24 (KGroup o l obs) = true ->
  Permutation (concat (map snd obs)) (map sn_id l)
  /\ (forall k ids, In (k, ids) obs ->
        ids <> [] /\ forall i, In i ids -> exists s, lookup i l = Some s /\ key_of o s = k)
  /\ distinct_keys (map fst obs) = true.
Proof. exact oracle_group_sound. Qed.

(* FindAll with explicit snapshot arguments and no 'latest': exactly the resolvable plain ids, each
   once, in order of first mention *)
Theorem C24_find_ids_no_latest : forall f l args,
  has_latest args = false ->
  snaps_of (find_ids f l args) = dedup_from [] (plain_ids args)
  /\ NoDup (snaps_of (find_ids f l args))
  /\ forall i, In i (snaps_of (find_ids f l args)) <-> In i (plain_ids args).
Proof. exact find_ids_no_latest. Qed.

Print Assumptions C24_find_ids_no_latest.
Print Assumptions C24_oracle_findall_sound.
Print Assumptions C24_oracle_group_sound.
Print Assumptions C24_matches_spec.
Print Assumptions C24_has_tags_spec.
Print Assumptions C24_filter_exact.
Print Assumptions C24_latest_spec.
Print Assumptions C24_groups_partition.
Print Assumptions C24_key_equality_decided.
Print Assumptions C24_sorted_key_same_elements.
Print Assumptions C24_oracle_latest_sound.
