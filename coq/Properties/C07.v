(* C07 — index, snapshot, lock (key) and config files decode to what was saved. Statements only.
   zstd (zenc/zdec), the AEAD (seal/open) and the hash are universally quantified functions; their
   laws are explicit premises. *)
From Restic Require Import Base.Prelude Model.C07m Proofs.C07p.
Import C07m.

(* For every repository version, every file type (config included), every payload (empty, starting with
   2, '[' or '{', anything), every compressor (= every compression mode) and every nonce: saveUnpacked
   succeeds, stores nonce||seal(encode payload) under the returned id, and LoadUnpacked of that id
   returns exactly the payload. *)
Theorem C07_load_save_unpacked :
  forall (zenc : bytes -> bytes) (zdec : bytes -> option bytes) (seal : bytes -> bytes -> bytes)
         (open : bytes -> bytes -> option bytes) (hash : bytes -> bytes),
  (forall p, zdec (zenc p) = Some p) -> (forall n p, open n (seal n p) = Some p) ->
  (forall n p, length (seal n p) = (length p + 16)%nat) ->
  forall v t buf nonce st, length nonce = nonce_size ->
  exists id, save_unpacked zenc zdec seal open hash v t buf nonce st
             = (Ok id, (t, id, nonce ++ seal nonce (encode_plain zenc v t buf)) :: st)
          /\ load_unpacked zdec open hash v t id (snd (save_unpacked zenc zdec seal open hash v t buf nonce st)) = Ok buf.
Proof. exact load_save_unpacked. Qed.

(* the config file is stored uncompressed under the fixed (zero) id and loads back whatever id is asked *)
Theorem C07_config_roundtrip :
  forall zenc zdec seal open hash,
  (forall p, zdec (zenc p) = Some p) -> (forall n p, open n (seal n p) = Some p) ->
  (forall n p, length (seal n p) = (length p + 16)%nat) ->
  forall v buf nonce st id, length nonce = nonce_size ->
  load_unpacked zdec open hash v TConfig id (snd (save_unpacked zenc zdec seal open hash v TConfig buf nonce st)) = Ok buf
  /\ lookup TConfig zero_id (snd (save_unpacked zenc zdec seal open hash v TConfig buf nonce st)) = Some (nonce ++ seal nonce buf).
Proof. exact config_roundtrip. Qed.

Theorem C07_decode_encode_plain : forall zenc zdec, (forall p, zdec (zenc p) = Some p) ->
  forall v t p, decode_plain zdec v t (encode_plain zenc v t p) = Ok p.
Proof. exact decode_encode_plain. Qed.

(* version >= 2, not config, authenticated plaintext non-empty with first byte not 2 / '[' / '{': rejected *)
Theorem C07_v2_unknown_version_rejected : forall zdec open hash v t id st pl,
  classify open hash t id st = FPlain pl -> unknown_version v t pl = true ->
  load_unpacked zdec open hash v t id st = Err ENotSupported.
Proof. exact v2_unknown_version_rejected. Qed.

(* LoadUnpacked is load_obs of the file's state: missing / wrong hash / short / bad MAC are errors *)
Theorem C07_load_factors : forall zdec open hash v t id st,
  load_unpacked zdec open hash v t id st = load_obs zdec v t (classify open hash t id st).
Proof. exact load_factors. Qed.

(* the pre-upload self check accepts exactly the ciphertexts that open and decode to the expected bytes *)
Theorem C07_verify_unpacked_complete : forall zdec open v t buf expected,
  verify_unpacked zdec open v t buf expected = None <->
  exists pl, open (firstn nonce_size buf) (skipn nonce_size buf) = Some pl /\ decode_plain zdec v t pl = Ok expected.
Proof. exact verify_unpacked_complete. Qed.

Theorem C07_oracle_sound : forall c, check_C07 c = true <-> oracle_meaning c.
Proof. exact check_C07_sound. Qed.
Theorem C07_model_ok_save : forall zenc zdec, (forall p, zdec (zenc p) = Some p) -> forall v t p tb,
  check_C07 (CSave v t p tb (encode_plain zenc v t p) true true (decode_plain zdec v t (encode_plain zenc v t p))) = true.
Proof. exact model_ok_save. Qed.
Theorem C07_model_ok_load : forall zdec v t fs tb, check_C07 (CLoad v t fs tb (load_obs zdec v t fs)) = true.
Proof. exact model_ok_load. Qed.

Print Assumptions C07_load_save_unpacked.
Print Assumptions C07_config_roundtrip.
Print Assumptions C07_decode_encode_plain.
Print Assumptions C07_v2_unknown_version_rejected.
Print Assumptions C07_load_factors.
Print Assumptions C07_verify_unpacked_complete.
Print Assumptions C07_oracle_sound.
Print Assumptions C07_model_ok_save.
Print Assumptions C07_model_ok_load.
