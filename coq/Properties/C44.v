(* C44 — Every saved blob ends up in exactly one uploaded, indexed pack. Statements only. *)
From Restic Require Import Base.Prelude Gen.ParamsC44 Model.C44m Proofs.C44p.
From Coq Require Import Permutation.
Import C44m.
Open Scope Z_scope.

(* For every pack size, packer count, sequence of SaveBlob/Flush operations with arbitrary slot choices
   (= every interleaving of concurrent savers, SaveBlob and Flush being atomic under the manager's mutex)
   that ends with Flush: the queued (uploaded) packs contain exactly the accepted blobs, each once; no
   open packer is left; no pack got a blob after it was full (size >= packSize or HeaderFull) and every
   pack has at most MaxHeaderEntries entries. *)
Theorem C44_session_exactly_once : forall ps n ops s,
  run ps (init n) (ops ++ [OFlush]) = Some s ->
  Permutation (concat (queued s)) (accepted ops) /\
  (forall o, In o (slots s) -> o = None) /\
  (forall p, In p (queued s) -> qpack_ok ps p).
Proof. exact session_exactly_once. Qed.

(* the invariant at every point of every run: open packers are non-full, queued packs are well formed,
   and open + queued blobs are exactly the accepted ones (none lost, none duplicated) *)
Theorem C44_run_invariant : forall ps ops s s', Inv ps s -> run ps s ops = Some s' ->
  Inv ps s' /\ Permutation (blobs_of s') (accepted ops ++ blobs_of s).
Proof. exact run_inv. Qed.

(* the index entries StorePack derives from the queued packs (offset = running sum) cover exactly the
   accepted blobs, once each, whatever the upload completion order (index_of does not depend on it) *)
Theorem C44_session_indexed_once : forall ps n ops s,
  run ps (init n) (ops ++ [OFlush]) = Some s ->
  Permutation (map ie_blob (index_of 0 (queued s))) (accepted ops).
Proof. exact session_indexed_once. Qed.

(* header limit: at most MaxHeaderEntries entries means the pack header fits MaxHeaderSize; HeaderFull is exact *)
Theorem C44_header_limit : forall n, 0 <= n <= max_header_entries -> header_size + n * entry_size <= max_header_size.
Proof. exact header_fits. Qed.
Theorem C44_header_full_spec : forall n, header_full n = false <-> n + 1 <= max_header_entries.
Proof. exact header_full_spec. Qed.

(* flush merging keeps the no-add-after-full rule and the header limit *)
Theorem C44_merge_ok : forall ps l acc, (forall p, acc = Some p -> qpack_ok ps p) ->
  (forall q, In (Some q) l -> slot_ok ps q) -> forall p, In p (merge_go ps acc l) -> qpack_ok ps p.
Proof. exact merge_ok. Qed.

(* an oversized blob's own packer is always queued (never silently dropped) *)
Theorem C44_oversize_always_queued : forall ps b, Z.of_N (pb_len b) >= ps -> nonfull ps [b] = false.
Proof. exact oversize_always_queued. Qed.

(* tree and data blobs never share a pack (two managers, routing by type) *)
Theorem C44_no_mix : forall ps ops s s', Inv ps (fst s) -> Inv ps (snd s) -> typed true (fst s) -> typed false (snd s) ->
  run2 ps s ops = Some s' -> typed true (fst s') /\ typed false (snd s').
Proof. exact no_mix. Qed.

(* the (size,count) model used for the 409k-blob boundary runs is the projection of mergePackers' model *)
Theorem C44_merge_counts : forall ps l acc,
  map proj (merge_go ps acc l) = counts_go ps (option_map proj acc) (map proj (somes l)).
Proof. exact merge_counts. Qed.

Theorem C44_oracle_sound : forall c, check_C44 c = true -> C44_holds c.
Proof. exact check_C44_sound. Qed.
Theorem C44_model_packs_ok : forall ps n ops s, run ps (init n) (ops ++ [OFlush]) = Some s ->
  forallb (pack_ok ps) (queued s) = true.
Proof. exact model_packs_ok. Qed.

(* the oracle accepts exactly what the theorems give: for the model's own session output (distinct ids, one
   blob type) every oracle clause holds and the model comparison succeeds *)
Theorem C44_model_meets_oracle : forall ps n tree ops s,
  run ps (init n) (ops ++ [OFlush]) = Some s ->
  NoDup (map pb_id (accepted ops)) -> (forall b, In b (accepted ops) -> pb_tree b = tree) ->
  check_case (CP ps n tree (ops ++ [OFlush]) (slots s) (queued s) true) = 0%nat.
Proof. exact model_meets_oracle. Qed.
Theorem C44_exactly_once_complete : forall acc packs,
  Permutation (concat packs) acc -> NoDup (map pb_id acc) -> exactly_once acc packs = true.
Proof. exact exactly_once_complete. Qed.

Print Assumptions C44_model_meets_oracle.
Print Assumptions C44_exactly_once_complete.
Print Assumptions C44_session_exactly_once.
Print Assumptions C44_run_invariant.
Print Assumptions C44_session_indexed_once.
Print Assumptions C44_header_limit.
Print Assumptions C44_header_full_spec.
Print Assumptions C44_merge_ok.
Print Assumptions C44_oversize_always_queued.
Print Assumptions C44_no_mix.
Print Assumptions C44_merge_counts.
Print Assumptions C44_oracle_sound.
Print Assumptions C44_model_packs_ok.
