(* C08 — the loaded index matches exactly the index files in the repository. Statements only. *)
From Restic Require Import Base.Prelude Model.C08m Proofs.C08p.
From Coq Require Import Permutation.
Import C08m.

(* Index.merge = set union by value: nothing lost, nothing invented, exact duplicates collapse *)
Theorem C08_merge_union : forall b a e, In e (merge_ents a b) <-> In e a \/ In e b.
Proof. exact merge_ents_in. Qed.
Theorem C08_merge_nodup : forall b a, NoDup a -> NoDup (merge_ents a b).
Proof. exact merge_ents_nodup. Qed.

(* After ANY history of listings (files added / removed / superseded between reloads, each listing in
   any callback order), a Load with listing L leaves: entries = exactly the entries of the files in L
   (each distinct (pack, type, id, offset, length, uncompressed length) once), packs = exactly the packs
   those files name, ids = L. *)
Theorem C08_loaded_is_union : forall r hist L,
  let mi := load r (run r hist) L in
  NoDup (i_ents mi)
  /\ (forall e, In e (i_ents mi) <-> exists fid, In fid L /\ In e (flat (content r fid)))
  /\ (forall p, In p (i_packs mi) <-> exists fid, In fid L /\ In p (file_packs (content r fid)))
  /\ (forall x, In x (i_ids mi) <-> In x L).
Proof. exact loaded_is_union. Qed.

(* Lookup of any handle: exactly the locations recorded for it across the files present *)
Theorem C08_lookup_fresh : forall r hist L t i,
  let mi := load r (run r hist) L in
  NoDup (lookup mi t i)
  /\ forall e, In e (lookup mi t i) <->
       (exists fid, In fid L /\ In e (flat (content r fid))) /\ e_typ e = t /\ e_id e = i.
Proof. exact lookup_spec. Qed.

(* incremental reload after any history = fresh load of the same set of files, whatever the delivery order *)
Theorem C08_incremental_eq_fresh : forall r hist L L2, (forall x, In x L <-> In x L2) ->
  Permutation (i_ents (load r (run r hist) L)) (i_ents (load_fresh r L2))
  /\ forall t i, Permutation (lookup (load r (run r hist) L) t i) (lookup (load_fresh r L2) t i).
Proof. exact incremental_eq_fresh. Qed.

Theorem C08_merge_order_irrelevant : forall r L L2, Permutation L L2 ->
  Permutation (i_ents (load_fresh r L)) (i_ents (load_fresh r L2)).
Proof. exact merge_order_irrelevant. Qed.

(* encoding any index then decoding it preserves every entry *)
Theorem C08_decode_encode : forall fid l, Permutation (i_ents (decode fid (encode l))) l.
Proof. exact decode_encode. Qed.

(* DecodeIndex rejects exactly the files holding a value above 2^32-1; Load fails iff such a file is to be merged *)
Theorem C08_decode_checked : forall fid f,
  (file_fits f = true -> decode_checked fid f = Some (decode fid f)) /\ (file_fits f = false -> decode_checked fid f = None).
Proof. exact decode_checked_spec. Qed.
Theorem C08_load_checked : forall r mi L,
  (load_checked r mi L = Some (load r mi L) <-> forall fid, In fid (to_load mi L) -> file_fits (content r fid) = true)
  /\ (load_checked r mi L = None <-> exists fid, In fid (to_load mi L) /\ file_fits (content r fid) = false).
Proof. exact load_checked_spec. Qed.

Theorem C08_oracle_sound : forall c, check_C08 c = true ->
  match c with
  | CHist r steps => forall L o, In (L, o) steps -> step_meaning r L o
  | CCodec ents decoded dpacks => Permutation ents decoded /\ (forall p, In p dpacks <-> In p (map e_pack ents))
  | CReject f crashed errored => crashed = false /\ errored = negb (file_fits f)
  end.
Proof. exact check_C08_sound. Qed.
Theorem C08_step_ok_iff : forall r L o, step_ok r L o = true <-> step_meaning r L o.
Proof. exact step_ok_spec. Qed.
Theorem C08_model_ok_step : forall r hist L fetched,
  step_ok r L (mkO (i_ents (load r (run r hist) L)) (i_ents (load_fresh r L))
                   (i_packs (load r (run r hist) L)) (i_ids (load r (run r hist) L)) fetched true true) = true.
Proof. exact model_ok_step. Qed.

Print Assumptions C08_merge_union.
Print Assumptions C08_merge_nodup.
Print Assumptions C08_loaded_is_union.
Print Assumptions C08_lookup_fresh.
Print Assumptions C08_incremental_eq_fresh.
Print Assumptions C08_merge_order_irrelevant.
Print Assumptions C08_decode_encode.
Print Assumptions C08_decode_checked.
Print Assumptions C08_load_checked.
Print Assumptions C08_oracle_sound.
Print Assumptions C08_step_ok_iff.
Print Assumptions C08_model_ok_step.
