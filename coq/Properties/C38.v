(* C38 — the local cache never changes what restic reads. Statements only. *)
From Restic Require Import Base.Prelude Model.C38m Proofs.C38p.
Import C38m.

(* LoadRaw answers Ok only with bytes whose hash is the requested id — for every file type except
   config, every cache content, every circuit-breaker state, every interference by other processes
   at every interference point, and every sequence of backend answers. *)
Theorem C38_cached_load_sound : forall (hash_ok : bytes -> bool) t st e script b st' s' rm,
  t <> TConfig ->
  load_raw hash_ok t st e script = (ROk b, st', s', rm) -> hash_ok b = true.
Proof. exact load_raw_sound. Qed.

(* ... hence (no hash collision with the repository's bytes) the same bytes as the repository *)
Theorem C38_load_same_bytes_or_fail : forall (hash_ok : bytes -> bool) truth t st e script b st' s' rm,
  t <> TConfig -> (forall x, hash_ok x = true -> x = truth) ->
  load_raw hash_ok t st e script = (ROk b, st', s', rm) -> b = truth.
Proof. exact load_raw_same_bytes. Qed.

(* a corrupted cached copy of an auto-cached file is detected, removed and replaced by the backend's bytes *)
Theorem C38_corrupt_cache_healed : forall (hash_ok : bytes -> bool) t C B pre rest,
  auto_cache t = true -> hash_ok C = false -> hash_ok B = true ->
  load_raw hash_ok t (mkSt (Some C) false) no_renv (mkCall pre (Some B) ENone false :: rest)
  = (ROk B, mkSt (Some B) true, rest, true).
Proof. exact corrupt_cache_healed. Qed.

(* Forget removes a cached file at most once per handle: afterwards the breaker is set and no
   LoadRaw removes it again *)
Theorem C38_forget_once : forall (hash_ok : bytes -> bool) t st e script r st' s' rm,
  load_raw hash_ok t st e script = (r, st', s', rm) ->
  (s_forgotten st = true -> rm = false /\ s_forgotten st' = true)
  /\ (rm = true -> s_forgotten st' = true).
Proof. exact load_raw_forget_once. Qed.

(* ranged loads (pack reads): as long as cache, other processes and backend only ever show the true
   content (deletions at any interference point allowed), cacheBackend.Load returns exactly what
   the backend alone returns, for every type, length and offset *)
Theorem C38_clean_cache_transparent : forall truth t len off c p1 k1 k2 rest,
  cache_clean truth c = true -> env_clean truth p1 = true ->
  call_clean truth k1 = true -> call_clean truth k2 = true ->
  exists c' s', load t len off c p1 (k1 :: k2 :: rest) = (want truth len off, c', s')
    /\ cache_clean truth c' = true.
Proof. exact load_clean_transparent. Qed.

Theorem C38_oracle_sound : forall c,
  check_C38 c = true <->
  raw_ok (c_truth c) (c_ops c) (c_obs c) = true
  /\ clean_prefix_ok (c_truth c) (cache_clean (c_truth c) (c_cache0 c)) (c_ops c) (c_obs c) = true
  /\ heal_ok (c_truth c) (c_type c) (mkSt (c_cache0 c) false) (c_ops c) (c_obs c) = true.
Proof. exact check_C38_iff. Qed.

(* healing from ANY cache content: with an unspent breaker and a backend that serves the true
   content twice, LoadRaw answers the repository's bytes *)
Theorem C38_raw_heals_any_cache : forall truth t c k1 k2 rest,
  t <> TConfig -> call_clean truth k1 = true -> call_clean truth k2 = true ->
  exists st' s' rm, load_raw (bytes_eqb truth) t (mkSt c false) no_renv (k1 :: k2 :: rest) = (ROk truth, st', s', rm).
Proof. exact raw_heals. Qed.

Theorem C38_oracle_raw_meaning : forall truth ops obs,
  raw_ok truth ops obs = true ->
  forall i o ob b, nth_error ops i = Some o -> nth_error obs i = Some ob ->
    o_kind o = OpRaw -> ob_res ob = OOk b -> b = truth.
Proof. exact raw_ok_meaning. Qed.

Theorem C38_model_satisfies_raw_clause : forall truth t, t <> TConfig ->
  forall ops st, raw_ok truth ops (run_ops truth t st ops) = true.
Proof. exact model_raw_ok. Qed.

(* honest environment (cache and other processes only ever show the true content or delete it;
   backend calls serve it, fail, or fail late after streaming a prefix): every ranged Load, for
   every type, range, cache state and script, returns the backend's range or an error -- never other
   bytes -- and leaves the cache clean *)
Theorem C38_load_honest_env : forall truth t len off c p1 script r c' rest,
  cache_clean truth c = true -> env_clean truth p1 = true -> forallb (call_honest truth) script = true ->
  load t len off c p1 script = (r, c', rest) ->
  res_fine truth len off r /\ cache_clean truth c' = true /\ forallb (call_honest truth) rest = true.
Proof. exact load_honest. Qed.

(* whole operation sequences (LoadRaw and ranged Loads mixed, interference before every op): the
   transparency clause of the oracle holds for the model on every sequence, from every clean start *)
Theorem C38_clean_sequences_transparent : forall truth t ops st clean,
  (clean = true -> cache_clean truth (s_cache st) = true) ->
  clean_prefix_ok truth clean ops (run_ops truth t st ops) = true.
Proof. exact model_clean_ok. Qed.

Theorem C38_model_satisfies_oracle : forall truth t c0 ops, t <> TConfig ->
  check_C38 (mk t truth c0 ops (run_ops truth t (mkSt c0 false) ops)) = true.
Proof. exact model_satisfies_oracle. Qed.

Print Assumptions C38_cached_load_sound.
Print Assumptions C38_load_same_bytes_or_fail.
Print Assumptions C38_corrupt_cache_healed.
Print Assumptions C38_forget_once.
Print Assumptions C38_clean_cache_transparent.
Print Assumptions C38_oracle_sound.
Print Assumptions C38_oracle_raw_meaning.
Print Assumptions C38_model_satisfies_raw_clause.
Print Assumptions C38_load_honest_env.
Print Assumptions C38_clean_sequences_transparent.
Print Assumptions C38_model_satisfies_oracle.
Print Assumptions C38_raw_heals_any_cache.
