(* C53 — diff reports exactly the paths that differ between two snapshots.  Statements only.
   [diff_tree sm d [] t1 t2] = the lines printed by Comparer.diffTree for root trees t1, t2
   ([sm] = --metadata, [d] = depth fuel); [find t p] = the node a path denotes in a snapshot;
   [wfb d t] = names strictly increasing on every level and depth <= d.
   The model follows /repo after the F-C53 fix (8fb513213): the statements need no
   restriction on directory <-> non-directory changes any more. *)
From Restic Require Import Base.Prelude Model.C53m Proofs.C53p.
Import C53m.

(* a line is printed iff the path's status in the two snapshots demands it *)
Theorem C53_diff_exact : forall sm d t1 t2, wfb d t1 = true -> wfb d t2 = true ->
  forall l, In l (diff_tree sm d [] t1 t2) <-> Demanded sm t1 t2 l.
Proof. exact diff_exact. Qed.

Theorem C53_added_exact : forall sm d t1 t2, wfb d t1 = true -> wfb d t2 = true ->
  forall p s, In (Plus, p, s) (diff_tree sm d [] t1 t2) <->
              find t1 p = None /\ exists n, find t2 p = Some n /\ s = isdir n.
Proof. exact added_exact. Qed.

Theorem C53_removed_exact : forall sm d t1 t2, wfb d t1 = true -> wfb d t2 = true ->
  forall p s, In (Minus, p, s) (diff_tree sm d [] t1 t2) <->
              find t2 p = None /\ exists n, find t1 p = Some n /\ s = isdir n.
Proof. exact removed_exact. Qed.

Theorem C53_type_change_exact : forall sm d t1 t2, wfb d t1 = true -> wfb d t2 = true ->
  forall p a b, find t1 p = Some a -> find t2 p = Some b ->
  ((exists m q u s, In (Mod true m q u, p, s) (diff_tree sm d [] t1 t2)) <-> nty a <> nty b).
Proof. exact type_change_exact. Qed.

Theorem C53_content_change_exact : forall sm d t1 t2, wfb d t1 = true -> wfb d t2 = true ->
  forall p a b, find t1 p = Some a -> find t2 p = Some b ->
  ((exists t q u s, In (Mod t true q u, p, s) (diff_tree sm d [] t1 t2)) <->
   isfile a = true /\ isfile b = true /\ ncontent a <> ncontent b).
Proof. exact content_change_exact. Qed.

Theorem C53_identical_trees_silent : forall sm d pre t, diff_tree sm d pre t t = [].
Proof. exact identical_trees_silent. Qed.

Theorem C53_identical_subtree_silent : forall sm d t1 t2,
  wfb d t1 = true -> wfb d t2 = true ->
  forall p n, find t1 p = Some n -> find t2 p = Some n ->
  forall r m s, ~ In (m, p ++ r, s) (diff_tree sm d [] t1 t2).
Proof. exact identical_subtree_silent. Qed.

(* DualTreeIterator pairs the nodes by name *)
Theorem C53_dual_pairs_by_name : forall l1 l2, sortedb l1 = true -> sortedb l2 = true -> forall o1 o2,
  In (o1, o2) (dual l1 l2) <->
  exists x, o1 = lookup x l1 /\ o2 = lookup x l2 /\ (o1 <> None \/ o2 <> None).
Proof. exact dual_spec. Qed.

(* a directory replaced by a non-directory (former F-C53): the paths below it are listed *)
Theorem C53_kind_change_children_listed : forall sm d t1 t2,
  wfb d t1 = true -> wfb d t2 = true ->
  forall x a b r n, lookup x t1 = Some a -> lookup x t2 = Some b -> isdir a = true -> isdir b = false ->
  find (nsub a) r = Some n -> In (Minus, x :: r, isdir n) (diff_tree sm d [] t1 t2).
Proof. exact kind_change_children_listed. Qed.

Theorem C53_oracle_sound : forall c,
  wfb (c_fuel c) (c_t1 c) = true -> wfb (c_fuel c) (c_t2 c) = true ->
  (check_C53 c = true <->
   (forall l, In l (o_lines c) <-> Demanded (c_meta c) (c_t1 c) (c_t2 c) l) /\ NoDup (o_lines c)).
Proof. exact check_C53_iff. Qed.

Theorem C53_model_meets_oracle : forall sm d t1 t2,
  wfb d t1 = true -> wfb d t2 = true ->
  lset_eqb (diff_tree sm d [] t1 t2) (expected sm d t1 t2) = true.
Proof. exact model_meets_oracle. Qed.

Print Assumptions C53_diff_exact.
Print Assumptions C53_added_exact.
Print Assumptions C53_removed_exact.
Print Assumptions C53_type_change_exact.
Print Assumptions C53_content_change_exact.
Print Assumptions C53_identical_trees_silent.
Print Assumptions C53_identical_subtree_silent.
Print Assumptions C53_dual_pairs_by_name.
Print Assumptions C53_kind_change_children_listed.
Print Assumptions C53_oracle_sound.
Print Assumptions C53_model_meets_oracle.
