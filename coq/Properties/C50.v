(* C50 — repository passwords embedded in locations are never displayed. Statements only. *)
From Restic Require Import Base.Prelude Model.C50m Proofs.C50p.
Import C50m.
Open Scope N_scope.

(* strings.Replace(u.String(), userinfo+"@", user+":***@", 1) replaces the userinfo itself: nothing
   before it can contain an '@' *)
Theorem C50_replace_hits_userinfo : forall pre ui post new,
  ~ In 64 pre -> ~ In 64 ui ->
  replace_first (pre ++ ui ++ [64] ++ post) (ui ++ [64]) new = pre ++ new ++ post.
Proof. exact replace_hits_userinfo. Qed.

Theorem C50_escaped_userinfo_has_no_at : forall s, ~ In 64 (escape_up s).
Proof. exact escape_up_no_at. Qed.

(* for every string: the displayed form is the string itself (no rest: prefix), the raw echo (no password found / URL rejected) or
   rest:<scheme>://<user>:***@<rest of the URL> — the password does not occur in the second form *)
Theorem C50_strip_rest_shape : forall loc post o, strip_rest loc post = ROut o ->
  o = loc
  \/ o = firstn 5 loc ++ prepare (skipn 5 loc)
  \/ exists pre u p po, post = Some po /\ locate (prepare (skipn 5 loc)) = UPw pre u p
                        /\ o = firstn 5 loc ++ pre ++ u ++ mask ++ po.
Proof. exact strip_rest_shape. Qed.

(* the URL parser finds exactly PW in  scheme://un:PW@h/r *)
Theorem C50_parser_locates_password : forall sch un pw h r u p,
  good_scheme sch -> clean un -> clean pw -> clean h -> ~ In 58 un -> ~ In 64 h ->
  existsb is_ctl (mkurl sch un pw h r) = false ->
  valid_userinfo (un ++ 58 :: pw) = true -> unescape un = Some u -> unescape pw = Some p ->
  locate (mkurl sch un pw h r) = UPw (map to_lower sch ++ [58; 47; 47]) u p.
Proof. exact locate_mkurl. Qed.

Theorem C50_displayed_form : forall sch un pw h r u p post,
  good_scheme sch -> clean un -> clean pw -> clean h -> ~ In 58 un -> ~ In 64 h ->
  existsb is_ctl (mkurl sch un pw h r) = false ->
  valid_userinfo (un ++ 58 :: pw) = true -> unescape un = Some u -> unescape pw = Some p ->
  ends_slash (mkurl sch un pw h r) = true ->
  strip_rest (rest_scheme ++ 58 :: mkurl sch un pw h r) (Some post)
  = ROut (rest_scheme ++ 58 :: map to_lower sch ++ [58; 47; 47] ++ u ++ mask ++ post).
Proof. exact strip_rest_mkurl. Qed.

(* non-interference: locations that differ only in the password are displayed identically *)
Theorem C50_noninterference : forall sch un pw1 pw2 h r u p1 p2 post,
  good_scheme sch -> clean un -> clean pw1 -> clean pw2 -> clean h -> ~ In 58 un -> ~ In 64 h ->
  existsb is_ctl (mkurl sch un pw1 h r) = false -> existsb is_ctl (mkurl sch un pw2 h r) = false ->
  valid_userinfo (un ++ 58 :: pw1) = true -> valid_userinfo (un ++ 58 :: pw2) = true ->
  unescape un = Some u -> unescape pw1 = Some p1 -> unescape pw2 = Some p2 ->
  ends_slash (mkurl sch un pw1 h r) = true -> ends_slash (mkurl sch un pw2 h r) = true ->
  strip_rest (rest_scheme ++ 58 :: mkurl sch un pw1 h r) (Some post)
  = strip_rest (rest_scheme ++ 58 :: mkurl sch un pw2 h r) (Some post).
Proof. exact noninterference. Qed.

(* location.StripPassword panics on no string at all (F-C50-1 fixed: "rest" without colon is echoed) *)
Theorem C50_no_panic : forall loc post, strip_location loc post <> RPanic.
Proof. exact strip_location_no_panic. Qed.

Theorem C50_oracle_sound : forall c,
  check_C50 c = true <->
  c_obs c <> RPanic
  /\ (forall l2 o2, c_twin c = Some (l2, o2) -> c_haspw c = true -> c_obs c = o2)
  /\ (forall m o, c_marker c = Some m -> c_obs c = ROut o -> (c_accepted c = true \/ c_haspw c = true) ->
        ~ exists a b, o = a ++ m ++ b).
Proof. exact check_C50_sound. Qed.

(* which strings location.Parse accepts: no trimming of white space *)
Theorem C50_leading_whitespace_rejected : forall c r post ok, is_ws c = true -> has_colon (c :: r) = true ->
  parse_accepts (c :: r) post false ok = false.
Proof. exact leading_ws_rejected. Qed.

Theorem C50_rest_rejected_when_url_invalid : forall loc reg ok,
  fst (cut 58 loc) = rest_scheme -> parse_accepts loc None reg ok = false.
Proof. exact rest_rejected_when_url_invalid. Qed.

(* accepted loc -> no_password (strip loc) *)
Theorem C50_accepted_no_password : forall loc post reg ok pre u p,
  fst (cut 58 loc) = rest_scheme -> parse_accepts loc post reg ok = true ->
  locate (prepare (skipn 5 loc)) = UPw pre u p ->
  exists po, post = Some po /\ strip_location loc post = ROut (firstn 5 loc ++ pre ++ u ++ mask ++ po).
Proof. exact accepted_no_password. Qed.

Theorem C50_accepted_mkurl : forall sch un pw h r post reg ok,
  parse_accepts (rest_scheme ++ 58 :: mkurl sch un pw h r) (Some post) reg ok = true.
Proof. exact accepted_mkurl. Qed.

Theorem C50_model_twin_ok : forall sch un pw1 pw2 h r u p1 p2 post,
  good_scheme sch -> clean un -> clean pw1 -> clean pw2 -> clean h -> ~ In 58 un -> ~ In 64 h ->
  existsb is_ctl (mkurl sch un pw1 h r) = false -> existsb is_ctl (mkurl sch un pw2 h r) = false ->
  valid_userinfo (un ++ 58 :: pw1) = true -> valid_userinfo (un ++ 58 :: pw2) = true ->
  unescape un = Some u -> unescape pw1 = Some p1 -> unescape pw2 = Some p2 ->
  ends_slash (mkurl sch un pw1 h r) = true -> ends_slash (mkurl sch un pw2 h r) = true ->
  let l1 := rest_scheme ++ 58 :: mkurl sch un pw1 h r in
  let l2 := rest_scheme ++ 58 :: mkurl sch un pw2 h r in
  twin_ok (mk l1 (Some post) (strip_rest l1 (Some post)) true true true true (Some (l2, strip_rest l2 (Some post))) None) = true.
Proof. exact model_twin_ok. Qed.

Print Assumptions C50_replace_hits_userinfo.
Print Assumptions C50_escaped_userinfo_has_no_at.
Print Assumptions C50_strip_rest_shape.
Print Assumptions C50_parser_locates_password.
Print Assumptions C50_displayed_form.
Print Assumptions C50_noninterference.
Print Assumptions C50_no_panic.
Print Assumptions C50_oracle_sound.
Print Assumptions C50_model_twin_ok.
Print Assumptions C50_leading_whitespace_rejected.
Print Assumptions C50_rest_rejected_when_url_invalid.
Print Assumptions C50_accepted_no_password.
Print Assumptions C50_accepted_mkurl.
