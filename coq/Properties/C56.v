(* C56 — the index hash table (indexMap) behaves as a multimap. Statements only.
   [run hash empty ops] executes a script of add/preallocate calls on the model of
   internal/repository/index/indexmap.go ([None] = a Go panic); [log_of ops] is the insertion log;
   [small ops] says fewer than 2^36 insertions (the code's own overflow limit).  Every statement
   holds for EVERY hash function, i.e. for every maphash seed and every collision pattern. *)
From Restic Require Import Base.Prelude Model.C56m Proofs.C56p.
Import C56m.

(* no panic, and all observables are those of the insertion log: len, iteration in insertion
   order (each entry once), lookups = exactly the entries inserted for the id (newest first),
   get = the newest such entry, firstIndex = 1 + rank of the first insertion of the id *)
Theorem C56_refines_multimap : forall hash ops, small ops ->
  exists m, run hash empty ops = Some m /\
    len m = length (log_of ops) /\ values m = Some (log_of ops) /\
    forall id,
      valuesWithID hash m id = Some (rev (vals_of (log_of ops) id)) /\
      get hash m id = Some (hd_error (rev (vals_of (log_of ops) id))) /\
      firstIndex hash m id = Some (spec_first (log_of ops) id).
Proof. exact refinement. Qed.

(* the first-entry position of a key never changes, whatever is added or preallocated later *)
Theorem C56_first_index_stable : forall hash ops1 ops2 id m1 m2 k,
  small (ops1 ++ ops2) -> run hash empty ops1 = Some m1 -> run hash empty (ops1 ++ ops2) = Some m2 ->
  firstIndex hash m1 id = Some k -> k <> (-1)%Z -> firstIndex hash m2 id = Some k.
Proof. exact first_index_stable. Qed.

(* meaning of the abstract lookups *)
Theorem C56_vals_of_meaning : forall l id,
  vals_of l id = map snd (filter (fun p => N.eqb (fst p) id) l).
Proof. exact vals_of_filter. Qed.

Theorem C56_first_pos_meaning : forall l id k,
  (first_pos l id k = (-1)%Z /\ vals_of l id = []) \/
  (exists l1 v l2, l = l1 ++ (id, v) :: l2 /\ vals_of l1 id = [] /\
                   first_pos l id k = (k + Z.of_nat (length l1))%Z).
Proof. exact first_pos_meaning. Qed.

(* the bloom bits in the bucket word never hide an inserted id (early exit is sound) *)
Theorem C56_bloom_no_false_negative : forall hash ops m id w, small ops ->
  run hash empty ops = Some m -> head_word hash m id = Some w -> bloomHasID w id = false ->
  vals_of (log_of ops) id = [].
Proof. exact bloom_no_false_negative. Qed.

(* the hashed array tree keeps every stored entry across growth: Ref(pos) reads the flat view,
   and doubling (pairwise block merge) preserves the flat view *)
Theorem C56_hat_ref_stable : forall h, hat_ok h ->
  hat_ok (hat_double h) /\ (forall p, hat_ref (hat_double h) p = hat_ref h p).
Proof.
  intros h H. destruct (hat_double_ok h H) as (H1 & H2 & H3). split; [exact H1|].
  intro p. rewrite !hat_ref_flat, H2 by assumption. reflexivity.
Qed.

(* the doubling loop of preallocate reaches its target within the model's fuel *)
Theorem C56_grow_size_reaches_target : forall t ns, 0 < ns -> t <= grow_size t ns t.
Proof. intros t ns H. apply grow_size_ge; [exact H | lia]. Qed.

(* the oracle means the property; the model's own observations satisfy it *)
Theorem C56_oracle_sound : forall c, check_C56 c = true <-> ckpts_spec [] (c_ckpts c).
Proof. exact check_C56_spec. Qed.

Theorem C56_model_satisfies_oracle : forall hash script, small (concat (map fst script)) ->
  check_C56 (mk true (model_ckpts hash (Some empty) script)) = true.
Proof. exact model_satisfies_oracle. Qed.

Print Assumptions C56_refines_multimap.
Print Assumptions C56_first_index_stable.
Print Assumptions C56_vals_of_meaning.
Print Assumptions C56_first_pos_meaning.
Print Assumptions C56_bloom_no_false_negative.
Print Assumptions C56_hat_ref_stable.
Print Assumptions C56_grow_size_reaches_target.
Print Assumptions C56_oracle_sound.
Print Assumptions C56_model_satisfies_oracle.
