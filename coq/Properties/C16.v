(* C16 — identical content is stored once per repository. Statements only. *)
From Restic Require Import Base.Prelude Model.C16m Proofs.C16p.
Import C16m.

(* For every interleaving of any number of savers, pack uploads included (= every event list of the
   transition system, within one session): a blob is stored at most once by savers that did not ask for a
   duplicate explicitly, and never if it was in the loaded index. *)
Theorem C16_store_once : forall idx0 evs h, no_clear evs ->
  (firsts h (log (run (init idx0) evs)) <= 1)%nat
  /\ (In h idx0 -> firsts h (log (run (init idx0) evs)) = 0%nat).
Proof. exact store_once. Qed.

(* "known" answers are schedule independent: exactly one request per new blob is answered "not known" *)
Theorem C16_known_answers : forall idx0 evs h, no_clear evs ->
  let s := run (init idx0) evs in
  U h (res s) = if mem h idx0 then 0%nat else Nat.min 1 (calls h (res s)).
Proof. exact known_answers. Qed.

Theorem C16_calls_are_requests : forall evs s h,
  calls h (res (run s evs)) = (calls h (res s) +
    length (filter (fun e => match e with EAdd h' _ => N.eqb h h' | _ => false end) evs))%nat.
Proof. exact calls_run. Qed.

(* after the flush the index has, per blob, the old entries + one per "not known" answer + one per
   explicitly requested duplicate: with storeDuplicate = false everywhere, one entry per new blob *)
Theorem C16_final_entries : forall idx0 evs h, no_clear evs ->
  let s := run (init idx0) evs in
  tick s = [] -> dupq s = [] -> packer s = [] ->
  cnt h (idx s) = (cnt h idx0 + U h (res s) + D h (res s))%nat.
Proof. exact final_entries. Qed.

(* a run over blobs that are all indexed stores nothing: second backup of unchanged data *)
Theorem C16_second_backup_adds_nothing : forall idx0 evs, no_clear evs ->
  (forall h d, In (EAdd h d) evs -> In h idx0) ->
  forall h, In h idx0 \/ calls h (res (run (init idx0) evs)) = 0%nat ->
  firsts h (log (run (init idx0) evs)) = 0%nat.
Proof. exact second_backup_adds_nothing. Qed.

(* a blob whose pack was never uploaded is not known in the next session; within a session knowledge is never lost *)
Theorem C16_failed_upload_not_known : forall s h, known (step s EClear) h = mem h (idx s).
Proof. exact failed_upload_not_known. Qed.

Theorem C16_known_monotone : forall s e h, e <> EClear -> known s h = true -> known (step s e) h = true.
Proof. exact known_monotone. Qed.

Theorem C16_oracle_api : forall idx0 rs final, check_C16 (CApi idx0 rs final) = true <->
  Forall (fun h => (U h rs <= 1)%nat /\ (mem h idx0 = true -> U h rs = 0%nat)
                   /\ lookup h final = N.of_nat (cnt h idx0 + U h rs + D h rs)) (handles_api idx0 rs final).
Proof. exact check_C16_api. Qed.

Theorem C16_model_satisfies_oracle : forall idx0 rs h,
  let s := run (init idx0) (seq_sched rs) in
  (U h (res s) <= 1)%nat /\ (mem h idx0 = true -> U h (res s) = 0%nat).
Proof. exact model_answers. Qed.

(* refinement obligation discharged by the atomic storePack (pending removed and index entry added in
   ONE critical section = the single event EPack): at every instant of a session, a handle that was
   accepted, is in a packer or is about to be stored is pending or indexed *)
Theorem C16_accepted_always_known : forall idx0 evs h, no_clear evs ->
  let s := run (init idx0) evs in
  ((1 <= U h (res s))%nat \/ (1 <= cnt h (packer s))%nat \/ (1 <= cnt h (tick s))%nat
   \/ (1 <= cnt h (dupq s))%nat \/ (1 <= firsts h (log s))%nat) ->
  known s h = true.
Proof. exact accepted_always_known. Qed.

Theorem C16_requested_accepted_once : forall idx0 evs h, no_clear evs ->
  let s := run (init idx0) evs in
  (1 <= calls h (res s))%nat -> mem h idx0 = false -> U h (res s) = 1%nat.
Proof. exact requested_accepted_once. Qed.

(* splitting storePack into "remove pending" and "insert into index" is outside the model: with the two
   halves as separate events the obligation and store-once are false (explicit schedule) *)
Theorem C16_split_storepack_breaks :
  let evs := [XE (EAdd 7%N false); XE (EStoreT 7%N); XRemovePending [7%N];
              XE (EAdd 7%N false); XInsertPack [7%N]; XE (EStoreT 7%N); XE (EPack [7%N])] in
  let mid := xrun (init []) (firstn 3 evs) in
  let s := xrun (init []) evs in
  ((1 <= U 7%N (res mid))%nat /\ known mid 7%N = false)
  /\ U 7%N (res s) = 2%nat /\ firsts 7%N (log s) = 2%nat /\ cnt 7%N (idx s) = 2%nat.
Proof. exact split_storepack_breaks. Qed.

Theorem C16_oracle_stress : forall r hn maxu never, check_C16 (CStress r hn maxu never) = true <->
  (maxu <= 1)%N /\ never = 0%N.
Proof. exact check_C16_stress. Qed.

(* backup runs (nobody asks for duplicates): after the flush every blob has its old index entries plus
   exactly one new entry iff it was requested and not indexed before *)
Theorem C16_backup_entries : forall idx0 evs h, no_clear evs -> no_dup evs ->
  let s := run (init idx0) evs in
  tick s = [] -> dupq s = [] -> packer s = [] ->
  cnt h (idx s) = (cnt h idx0 + (if mem h idx0 then 0 else Nat.min 1 (calls h (res s))))%nat.
Proof. exact backup_entries. Qed.

Theorem C16_oracle_cli : forall idx0 cs newblobs final, check_C16 (CCli idx0 cs newblobs final) = true <->
  newblobs = expected_new idx0 cs /\
  Forall (fun h => lookup h final = N.of_nat (cnt h idx0 + (if mem h cs && negb (mem h idx0) then 1 else 0)))
         (nodup_n (idx0 ++ cs ++ map fst final)).
Proof. exact check_C16_cli. Qed.

(* Refinement: MasterIndex as a list of in-memory indexes (open / final without id = upload in flight /
   final saved), storePack into the first open one, finalize, upload finished, MergeFinalIndexes.
   The abstract index multiset is the content of ALL of them (invariant Rinv), so: *)
Theorem C16_index_transitions_preserve_known : forall sm e h,
  (exists k, e = RFinalize k) \/ (exists k, e = RSaved k) \/ e = RMerge ->
  rknown (rstep sm e) h = rknown sm h.
Proof. exact index_transitions_preserve_known. Qed.

Theorem C16_refined_projects : forall evs sm, fst (rrun sm evs) = run (fst sm) (abs_events evs).
Proof. exact rrun_fst. Qed.

Theorem C16_refined_accepted_always_known : forall idx0 evs h, no_clear (abs_events evs) ->
  let sm := rrun (rinit idx0) evs in
  ((1 <= U h (res (fst sm)))%nat \/ (1 <= cnt h (packer (fst sm)))%nat \/ (1 <= firsts h (log (fst sm)))%nat) ->
  rknown sm h = true.
Proof. exact refined_accepted_always_known. Qed.

Theorem C16_refined_store_once : forall idx0 evs h, no_clear (abs_events evs) ->
  (firsts h (log (fst (rrun (rinit idx0) evs))) <= 1)%nat.
Proof. exact refined_store_once. Qed.

(* dropping a finalized index whose upload is still in flight during a merge is outside the model *)
Theorem C16_merge_must_keep_unsaved :
  let m := [(IFinalSaved, []); (IFinalNoId, [7%N]); (IOpen, [8%N])] in
  mem 7%N (flat (merge_final m)) = true /\ mem 7%N (flat (merge_final_dropping_unsaved m)) = false.
Proof. exact merge_must_keep_unsaved. Qed.

Print Assumptions C16_index_transitions_preserve_known.
Print Assumptions C16_refined_projects.
Print Assumptions C16_refined_accepted_always_known.
Print Assumptions C16_refined_store_once.
Print Assumptions C16_merge_must_keep_unsaved.
Print Assumptions C16_backup_entries.
Print Assumptions C16_oracle_cli.
Print Assumptions C16_accepted_always_known.
Print Assumptions C16_requested_accepted_once.
Print Assumptions C16_split_storepack_breaks.
Print Assumptions C16_oracle_stress.
Print Assumptions C16_store_once.
Print Assumptions C16_known_answers.
Print Assumptions C16_calls_are_requests.
Print Assumptions C16_final_entries.
Print Assumptions C16_second_backup_adds_nothing.
Print Assumptions C16_failed_upload_not_known.
Print Assumptions C16_known_monotone.
Print Assumptions C16_oracle_api.
Print Assumptions C16_model_satisfies_oracle.
