(* C36 — The local backend never exposes a partially written file. Statements only.
   Model: Model/C36m.v — Local.Save (internal/backend/local/local.go) as the list of file-system
   syscalls it issues, executed on an inode-level file-system model; a crash after any prefix of the
   syscalls leaves the state that prefix produced. *)
From Restic Require Import Base.Prelude Model.C36m Proofs.C36p.
Import C36m.

(* For every target (directory, final name, payload length) and every environment choice (directory
   missing or not, temp name, fd numbers, chunking of the writes whose sizes add up to the payload):
   at every prefix of Local.Save's syscall sequence the final name is absent or bound to the complete,
   fsynced payload, no other name parses as a repository ID; at the end the final name is present and
   its directory has been fsynced after the rename. *)
Theorem C36_final_absent_or_complete : forall g p,
  is_id (p_tmp p) = false -> bytes_eqb (t_name g) (p_tmp p) = false ->
  sumN (p_chunks p) = t_total g ->
  (forall k, state_code g (run fs0 (firstn k (local_save g p))) = 0) /\
  end_code g (run fs0 (local_save g p)) = 0.
Proof.
  intros g p H1 H2 H3. destruct (local_save_safe g p H1 H2 H3) as [A B].
  split; [apply run_code_prefixes; exact A | exact B].
Qed.

(* the oracle run on observed syscall traces: one pass = every crash prefix *)
Theorem C36_oracle_all_prefixes : forall g t s,
  run_code g s t = 0 <-> (forall k, state_code g (run s (firstn k t)) = 0).
Proof. intros; apply run_code_prefixes. Qed.

(* what a safe state is: final name absent, or complete (size = written = total, contiguous) and
   fsynced (fsync_before_rename); every other directory entry fails ParseID (tmp_never_listed) *)
Theorem C36_safe_state_meaning : forall g s,
  state_code g s = 0 ->
  unknown s = false /\
  (forall i, alookup key_eqb (t_dir g, t_name g) (dents s) = Some i ->
     exists nd, alookup N.eqb i (inodes s) = Some nd /\
       i_size nd = t_total g /\ i_written nd = t_total g /\ i_bad nd = false /\ i_dirty nd = false) /\
  (forall d n i, In ((d, n), i) (dents s) -> (d, n) = (t_dir g, t_name g) \/ is_id n = false).
Proof. exact state_code_safe. Qed.

(* tmp_never_listed: whatever the final name and the random suffix, "<final>-tmp-<suffix>" is not an ID *)
Theorem C36_tmp_never_listed : forall final rnd,
  is_id (final ++ [45; 116; 109; 112; 45]%N ++ rnd) = false.
Proof. exact tmp_name_not_id. Qed.

(* error paths of Save: when a write, the fsync or the rename fails (after any chunks written so far,
   fallocate having worked or not), every prefix of the syscall sequence incl. the deferred cleanup is
   safe, and at the end neither the final name nor the temporary file exists *)
Theorem C36_failed_save_leaves_nothing : forall g p fp,
  is_id (p_tmp p) = false -> bytes_eqb (t_name g) (p_tmp p) = false ->
  (forall k, state_code g (run fs0 (firstn k (local_save_fail g p fp))) = 0) /\
  dents (run fs0 (local_save_fail g p fp)) = [] /\
  fail_end_code g (run fs0 (local_save_fail g p fp)) = 0.
Proof.
  intros g p fp H1 H2. destruct (local_save_fail_safe g p H1 H2 fp) as [A B].
  split; [apply run_code_prefixes; exact A|]. split; [exact B|].
  unfold fail_end_code. rewrite B. reflexivity.
Qed.

Print Assumptions C36_failed_save_leaves_nothing.
Print Assumptions C36_final_absent_or_complete.
Print Assumptions C36_oracle_all_prefixes.
Print Assumptions C36_safe_state_meaning.
Print Assumptions C36_tmp_never_listed.
