(* C18 — restore never touches anything outside the target directory. Statements only. *)
From Restic Require Import Base.Prelude Model.C18m Proofs.C18p Proofs.C18p_main Proofs.C18p_top Proofs.C18p_static Proofs.C18p_final.
Import C18m.

(* Main theorem.  For every file system [fs] (arbitrary pre-existing content: symlinks to anywhere at any
   position, files where directories are expected, ...), every target T = P/t whose parent P consists of
   real directories, every snapshot tree (arbitrary names: '..', '.', with separators, duplicates, unordered;
   symlink, fifo, socket nodes), every SelectFilter (include, exclude, none), --delete and every overwrite
   mode: RestoreTo leaves every path that is not T or below T exactly as it was. *)
Theorem C18_confined : forall o sel P t tree fs,
  physdir fs P ->
  forall q, prefixb (P ++ [t]) q = false ->
    look (restore o sel (P ++ [t]) tree fs) q = look fs q.
Proof. intros o sel P t tree fs HP. exact (restore_local_all o sel P t tree fs HP). Qed.

(* The traversal (with its ascending-name check and name check) always yields a well-formed event list:
   visited leaves never lie above a directory that is used, leaf positions are pairwise distinct, a
   leaveDir keeps every name below which something is used, every left directory has an ensured
   directory at or below it. *)
Theorem C18_traverse_wellformed : forall sel tree, Good (t_evs (traverse sel tree)).
Proof. exact traverse_good. Qed.

(* ensureDir below a real directory always succeeds, yields a real directory, changes only that path and
   never turns a directory into something else. *)
Theorem C18_ensure_dir : forall fs D n, physdir fs D ->
  exists fs', ensure_dir fs (D ++ [n]) = (fs', Ok) /\ local (D ++ [n]) fs fs' /\ mono fs fs' /\
              physdir fs' (D ++ [n]) /\ (forall q, q <> D ++ [n] -> look fs' q = look fs q).
Proof. exact ensure_dir_snoc. Qed.

(* ensureDirBelow: the whole chain below a real base directory becomes real directories; nothing at or
   outside the base changes (this is what closes F-C18a for include filters). *)
Theorem C18_ensure_chain : forall rel fs base, physdir fs base ->
  exists fs', ensure_chain fs base rel = (fs', Ok) /\ mono fs fs' /\ physdir fs' (base ++ rel) /\
              (forall q, prefixb base q = false \/ q = base -> look fs' q = look fs q).
Proof. exact ensure_chain_ok. Qed.

(* a path through real directories resolves to itself: no symlink is followed *)
Theorem C18_resolve_real : forall fs P, physdir fs P -> resolve_dir fs P = ROk P.
Proof. exact resolve_dir_physdir. Qed.

(* restoring a file below a real directory touches only that path and never leaves a symlink there *)
Theorem C18_restore_file : forall fs D n c ar, physdir fs D ->
  exists fs' s, restore_file fs (D ++ [n]) c ar = (fs', s) /\ local (D ++ [n]) fs fs' /\ notlink fs' (D ++ [n]).
Proof. exact restore_file_spec. Qed.

(* the oracle used on the implementation's observation means: nothing outside the target changed *)
Theorem C18_oracle_sound : forall c, check_C18 c = true ->
  (forall q, prefixb (c_T c) q = false -> look (fs_of_view (c_pre c)) q = look (fs_of_view (c_post c)) q) /\
  c_out_xattr c = false.
Proof. exact check_C18_sound. Qed.

Print Assumptions C18_confined.
Print Assumptions C18_traverse_wellformed.
Print Assumptions C18_ensure_dir.
Print Assumptions C18_ensure_chain.
Print Assumptions C18_resolve_real.
Print Assumptions C18_restore_file.
Print Assumptions C18_oracle_sound.
