(* C41 — trees are encoded deterministically and without loss. Statements only. *)
From Restic Require Import Base.Prelude Model.C41m Proofs.C41p_utf8 Proofs.C41p_esc Proofs.C41p Proofs.C41p_json.
Import C41m.

(* UTF-8 kit: a decode step that is not (RuneError,1) yields a valid rune whose canonical encoding is
   exactly the consumed bytes; decoding an encoded valid rune gives it back. *)
Theorem C41_utf8_decode_good : forall s r w, s <> [] -> decode_rune s = (r, w) -> is_bad (r, w) = false ->
  (valid_rune r = true /\ s = encode_rune r ++ skipn w s /\ w = length (encode_rune r)) /\ (1 <= w)%nat.
Proof. exact decode_good. Qed.
Theorem C41_utf8_decode_encode : forall r X, valid_rune r = true ->
  decode_rune (encode_rune r ++ X) = (r, length (encode_rune r)).
Proof. exact decode_encode. Qed.

(* names: strconv.Unquote undoes strconv.Quote for every byte string and every IsPrint table *)
Theorem C41_unquote_quote : forall (pr : N -> bool) (s : bytes),
  (forall b, In b s -> (b < 256)%N) -> unquote (quote pr s) = Some s.
Proof. exact unquote_quote. Qed.

(* link targets: any bytes come back (linktarget_raw carries invalid UTF-8) *)
Theorem C41_linktarget_roundtrip : forall target t0, (valid_utf8 target = true -> t0 = target) ->
  (match snd (enc_target target) with Some r => r | None => t0 end) = target.
Proof. exact linktarget_roundtrip. Qed.

(* name + link target through MarshalJSON/UnmarshalJSON; the encoding/json string layer enters as premises
   (lossless on the quoted name, lossless on valid UTF-8 targets) *)
Theorem C41_node_roundtrip_partial : forall pr name target,
  (forall b, In b name -> (b < 256)%N) ->
  junesc (jesc (quote pr name)) = Some (quote pr name) ->
  (exists t0, junesc (jesc target) = Some t0 /\ (valid_utf8 target = true -> t0 = target)) ->
  roundtrip_node pr name target = DOk name target.
Proof. exact node_roundtrip_partial. Qed.

(* timestamps with years 0..9999 are not touched by fixTime; everything else is clamped into range *)
Theorem C41_fix_time_id : forall ymd, in_years ymd = true -> fix_time ymd = ymd.
Proof. exact fix_time_id. Qed.
Theorem C41_fix_time_range : forall ymd, in_years (fix_time ymd) = true.
Proof. exact fix_time_range. Qed.

(* builder: accepted iff names strictly increasing (bytewise, non-empty); bytes are the canonical rendering *)
Theorem C41_builder_spec : forall l,
  build l = if strictly_sorted [] (map fst l) then Some (render l) else None.
Proof. exact build_spec. Qed.
(* same entries in any insertion order the builder accepts: same list, same bytes *)
Theorem C41_builder_deterministic : forall l1 l2 b1 b2, Permutation.Permutation l1 l2 -> NoDup (map fst l1) ->
  build l1 = Some b1 -> build l2 = Some b2 -> l1 = l2 /\ b1 = b2.
Proof. exact build_deterministic. Qed.

(* treeSaver.save: a successful save wrote the canonical rendering of the submitted nodes (identical
   adjacent repeats dropped), strictly sorted *)
Theorem C41_save_sorted_canonical : forall l b w, save l = SOk b w ->
  strictly_sorted [] (map fst (kept_go None l)) = true /\ b = render (kept_go None l).
Proof. exact save_spec. Qed.
Theorem C41_duplicate_identical_tolerated : forall st name cls enc w r, b_last st = name ->
  save_go st (Some (name, cls)) w (INode name cls enc :: r) = save_go st (Some (name, cls)) (S w) r.
Proof. exact duplicate_identical_tolerated. Qed.

(* iterator: unknown keys before and after the first nodes key are skipped *)
Theorem C41_iterator_skips_unknown : forall pre ns post,
  (forall k v, In (k, v) pre -> bytes_eqb k nodes_key = false) ->
  iter_nodes (pre ++ (nodes_key, JNodes ns) :: post) = IOk ns.
Proof. exact iterator_skips_unknown. Qed.

(* oracle *)
Theorem C41_oracle_sound : forall c, check_C41 c = true <-> oracle_meaning c.
Proof. exact check_C41_sound. Qed.
Theorem C41_model_ok_build : forall l, check_C41 (CBuild l (build l) (IOk (map fst l))) = true.
Proof. exact model_ok_build. Qed.
Theorem C41_model_ok_save : forall l, check_C41 (CSave l (save l) (save l)) = true.
Proof. exact model_ok_save. Qed.
Theorem C41_model_ok_iter : forall ms, check_C41 (CIter ms (iter_nodes ms)) = true.
Proof. exact model_ok_iter. Qed.
Theorem C41_model_ok_time : forall ymd, check_C41 (CTime ymd (fix_time ymd) (in_years ymd)) = true.
Proof. exact model_ok_time. Qed.

(* encoding/json string layer: decoding the escaped text gives the string back for valid UTF-8, and never
   fails on escaped text (invalid bytes come back as U+FFFD) *)
Theorem C41_junesc_jesc : forall s, valid_utf8 s = true -> junesc (jesc s) = Some s.
Proof. exact junesc_jesc. Qed.
Theorem C41_junesc_jesc_total : forall s, exists out, junesc (jesc s) = Some out.
Proof. exact junesc_jesc_total. Qed.
(* strconv.Quote output is valid UTF-8, so the JSON layer is lossless on quoted names *)
Theorem C41_quote_is_json_safe : forall pr s, (forall b, In b s -> (b < 256)%N) ->
  junesc (jesc (quote pr s)) = Some (quote pr s).
Proof. exact quote_is_json_safe. Qed.
(* names with any bytes and link targets with any bytes survive MarshalJSON + UnmarshalJSON (no premises) *)
Theorem C41_node_roundtrip : forall pr name target, (forall b, In b name -> (b < 256)%N) ->
  roundtrip_node pr name target = DOk name target.
Proof. exact node_roundtrip. Qed.

Print Assumptions C41_model_ok_iter.
Print Assumptions C41_junesc_jesc.
Print Assumptions C41_junesc_jesc_total.
Print Assumptions C41_quote_is_json_safe.
Print Assumptions C41_node_roundtrip.
Print Assumptions C41_utf8_decode_good.
Print Assumptions C41_utf8_decode_encode.
Print Assumptions C41_unquote_quote.
Print Assumptions C41_linktarget_roundtrip.
Print Assumptions C41_node_roundtrip_partial.
Print Assumptions C41_fix_time_id.
Print Assumptions C41_fix_time_range.
Print Assumptions C41_builder_spec.
Print Assumptions C41_builder_deterministic.
Print Assumptions C41_save_sorted_canonical.
Print Assumptions C41_duplicate_identical_tolerated.
Print Assumptions C41_iterator_skips_unknown.
Print Assumptions C41_oracle_sound.
Print Assumptions C41_model_ok_build.
Print Assumptions C41_model_ok_save.
Print Assumptions C41_model_ok_time.
