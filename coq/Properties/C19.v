(* C19 — restore leaves each selected file with exactly the snapshot content. Statements only. *)
From Restic Require Import Base.Prelude Gen.ParamsC19 Model.C19m Proofs.C19p.
Import C19m.

(* if-newer / never: an existing destination is left exactly as it is, and the mode decides exactly when *)
Theorem C19_skip_untouched : forall o p blobs,
  should_overwrite o p = false -> restore_file o p blobs = (state_of p, false).
Proof. exact skip_untouched. Qed.

Theorem C19_skip_exactly_when : forall o p,
  should_overwrite o p = false <->
  exists_pre p = true /\ (o_ow o = OwNever \/ (o_ow o = OwIfNewer /\ o_newer o = false)).
Proof. exact should_overwrite_spec. Qed.

(* the verified oracle applied to the implementation's observation is the property statement *)
Theorem C19_oracle_sound : forall c,
  check_C19 c = true <-> property (c_opts c) (c_pre c) (c_blobs c) (c_final c) (c_err c) (c_other_intact c).
Proof. exact check_C19_iff. Qed.

(* Core of the property: after a successful restore with --overwrite always / if-changed (outside the
   documented equal-size-and-mtime shortcut) the path holds exactly the snapshot content -- for every old
   state of the path (absent, any old bytes shorter/longer/different, unreadable, second hard link, directory
   or symlink in the way), every blob layout, sparse on or off, root or not, every verifyFile outcome. *)
Theorem C19_always_if_changed_exact : forall o p blobs f,
  should_overwrite o p = true -> trusted o p blobs = false ->
  restore_file o p blobs = (f, false) -> f = FReg (concat blobs).
Proof. exact restore_exact. Qed.

(* --overwrite if-changed with equal size and mtime leaves the file alone (documented) *)
Theorem C19_if_changed_trust : forall o p blobs,
  trusted o p blobs = true -> restore_file o p blobs = (state_of p, false).
Proof. exact trusted_untouched. Qed.

(* the model's outcome satisfies the whole property statement for all inputs *)
Theorem C19_model_satisfies_property : forall o p blobs,
  property o p blobs (fst (restore_file o p blobs)) (snd (restore_file o p blobs)) true.
Proof. exact model_satisfies_property. Qed.

Print Assumptions C19_skip_untouched.
Print Assumptions C19_skip_exactly_when.
Print Assumptions C19_oracle_sound.
Print Assumptions C19_always_if_changed_exact.
Print Assumptions C19_if_changed_trust.
Print Assumptions C19_model_satisfies_property.
