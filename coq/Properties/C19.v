(* C19 — restore leaves each selected file with exactly the snapshot content. Statements only. *)
From Restic Require Import Base.Prelude Gen.ParamsC19 Model.C19m Proofs.C19p.
Import C19m.

(* if-newer / never: an existing destination is left exactly as it is, and the mode decides exactly when *)
Theorem C19_skip_untouched : forall o p blobs,
  should_overwrite o p = false -> restore_file o p blobs = (state_of p, false).
Proof. exact skip_untouched. Qed.

Theorem C19_skip_exactly_when : forall o p,
  should_overwrite o p = false <->
  exists_pre p = true /\ (o_ow o = OwNever \/ (o_ow o = OwIfNewer /\ o_newer o = false)).
Proof. exact should_overwrite_spec. Qed.

(* the verified oracle applied to the implementation's observation is the property statement *)
Theorem C19_oracle_sound : forall c,
  check_C19 c = true <-> property (c_opts c) (c_pre c) (c_blobs c) (c_final c) (c_err c) (c_other_intact c).
Proof. exact check_C19_iff. Qed.

(* F-C19b (genuine defect, confirmed on the real code by the engine): the property fails for the faithful model *)
Theorem C19_hardlinked_reuse_refuted :
  exists o p blobs d, restore_file o p blobs = (FReg d, false) /\ should_overwrite o p = true /\
                      trusted o p blobs = false /\ d <> concat blobs.
Proof. exact hardlinked_reuse_refuted. Qed.

Print Assumptions C19_skip_untouched.
Print Assumptions C19_skip_exactly_when.
Print Assumptions C19_oracle_sound.
Print Assumptions C19_hardlinked_reuse_refuted.
