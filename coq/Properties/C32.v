(* C32 — copy transfers snapshots faithfully and idempotently. Statements only.
   Model: Model/C32m.v — (a) snapshot selection / the snapshot copy writes (cmd/restic/cmd_copy.go:
   collectAllSnapshots, similarSnapshots, copySaveSnapshot); (b) the destination's write trace
   (copyTreeBatched: packs and indexes of a batch are flushed before its snapshots are saved). *)
From Restic Require Import Base.Prelude Model.C32m Proofs.C32p Gen.ParamsC32.
Import C32m.

(* copy_idempotent: after a run that wrote one snapshot per selected source snapshot, a second run
   selects nothing — for all source and destination snapshot lists and all new snapshot ids *)
Theorem C32_copy_idempotent : forall ids src dst,
  length (select src dst) <= length ids ->
  select src (copy_run ids src dst) = [].
Proof. exact copy_idempotent. Qed.

(* copy_faithful (snapshot level): each selected snapshot gets a copy with the same tree and fields,
   registered under its persistent id (Original, else its id) *)
Theorem C32_copy_faithful : forall ids src dst s,
  length (select src dst) <= length ids -> In s (select src dst) ->
  exists d, In d (copy_run ids src dst) /\ s_tree d = s_tree s /\ s_key d = s_key s /\
            s_orig d = Some (persistent s) /\ has_faithful_copy (copy_run ids src dst) s = true.
Proof. exact copy_faithful. Qed.

(* existing destination snapshots are kept, skipped snapshots stay skipped *)
Theorem C32_copy_monotone : forall ids src dst,
  (forall d, In d dst -> In d (copy_run ids src dst)) /\
  (forall s, is_copied dst s = true -> is_copied (copy_run ids src dst) s = true).
Proof. exact copy_monotone. Qed.

(* the skip rule: a similar snapshot registered under the same persistent id exists in the destination *)
Theorem C32_skip_rule_meaning : forall dst s,
  is_copied dst s = true <->
  exists d, In d dst /\ (s_orig d = Some (persistent s) \/ s_id d = persistent s) /\
            s_key d = s_key s /\ s_tree d = s_tree s.
Proof. exact is_copied_spec. Qed.

(* copy_prefix_safe: if the destination was consistent, the batch's packs and indexes come first and
   every snapshot of the batch only needs blobs resolvable once they are all written, then after EVERY
   prefix of the trace (crash point) every snapshot present has all its data *)
Theorem C32_copy_prefix_safe : forall st data snaps,
  consistentb st = true ->
  forallb is_data_op data = true ->
  (forall o, In o snaps -> exists sid needs, o = DSnap sid needs /\
                           forallb (resolvable (drun st data)) needs = true) ->
  forall k, consistentb (drun st (firstn k (data ++ snaps))) = true.
Proof. exact phase_safe. Qed.

(* the oracle run on observed traces: one pass = every crash prefix *)
Theorem C32_oracle_all_prefixes : forall t st,
  run_ok st t = true <-> (forall k, consistentb (drun st (firstn k t)) = true).
Proof. exact run_ok_prefixes. Qed.

(* consistency means: each needed blob is listed by a present index entry in a present pack containing it *)
Theorem C32_consistent_meaning : forall st,
  consistentb st = true ->
  forall sid needs h, In (sid, needs) (d_snaps st) -> In h needs ->
  exists p bl, In (p, h) (d_idx st) /\ In (p, bl) (d_packs st) /\ In h bl.
Proof. exact consistentb_spec. Qed.

(* visited_skip_sound: a tree found in visitedTrees has its whole closure in the destination's blob set *)
Theorem C32_visited_skip_sound : forall g visited dst t b,
  covered g visited dst -> In t visited -> reach g t b -> In b dst.
Proof. exact visited_skip_sound. Qed.

(* one copyTree + CopyBlobs (worklist over trees, visitedTrees shared, blobs known to the destination
   skipped): keeps the invariant [covered], visits the root, forgets nothing, and uploads only blobs the
   destination did not have, each reachable from a visited tree *)
Theorem C32_copy_tree_sound : forall g fuel visited dst root v' d',
  covered g visited dst ->
  copy_tree g fuel (visited, dst) root = Some (v', d') ->
  covered g v' d' /\ In root v' /\ (forall x, In x visited -> In x v') /\ (forall x, In x dst -> In x d') /\
  (forall x, In x d' -> In x dst \/ (~ In x dst /\ exists t, In t v' /\ reach g t x)).
Proof. exact copy_tree_sound. Qed.

(* copy_faithful at the data level: after a run over the selected roots every blob reachable from any
   of them is in the destination's blob set — for every source graph and every prior destination *)
Theorem C32_copy_run_closure : forall g fuel roots dst v' d',
  copy_trees g fuel ([], dst) roots = Some (v', d') ->
  forall r b, In r roots -> reach g r b -> In b d'.
Proof. exact copy_run_closure. Qed.

Print Assumptions C32_visited_skip_sound.
Print Assumptions C32_copy_tree_sound.
Print Assumptions C32_copy_run_closure.
(* the field set similarSnapshots really compares (probed on the running code, regenerated into
   Gen/ParamsC32.v on every run) is the one the model's s_key/similar stand for: the tree and the time are
   compared, Parent and Original are not (copy rewrites exactly these two, so C32_copy_idempotent's
   'the copy is similar to its source' rests on this), Paths/Tags as sets, Excludes in order *)
Theorem C32_similar_field_set :
  ParamsC32.similar_mask = expected_similar_mask /\
  ParamsC32.snapshot_fields = expected_field_count /\
  Z.testbit ParamsC32.similar_mask ParamsC32.idx_tree = true /\
  Z.testbit ParamsC32.similar_mask ParamsC32.idx_time = true /\
  Z.testbit ParamsC32.similar_mask ParamsC32.idx_parent = false /\
  Z.testbit ParamsC32.similar_mask ParamsC32.idx_original = false /\
  ParamsC32.paths_order_sensitive = 0%Z /\ ParamsC32.tags_order_sensitive = 0%Z /\
  ParamsC32.excludes_order_sensitive = 1%Z.
Proof. exact similar_field_set_pinned. Qed.

Print Assumptions C32_similar_field_set.
(* a tree whose blob is already in the destination is still walked and its whole closure ends up in the
   destination (presence of a TREE blob says nothing about its data: interrupted copies leave tree packs
   without data packs) *)
Theorem C32_tree_in_destination_still_walked : forall g fuel dst root v' d',
  In root dst ->
  copy_trees g fuel ([], dst) [root] = Some (v', d') ->
  In root v' /\ forall b, reach g root b -> In b d'.
Proof. exact tree_in_destination_still_walked. Qed.

Print Assumptions C32_tree_in_destination_still_walked.
Print Assumptions C32_copy_idempotent.
Print Assumptions C32_copy_faithful.
Print Assumptions C32_copy_monotone.
Print Assumptions C32_skip_rule_meaning.
Print Assumptions C32_copy_prefix_safe.
Print Assumptions C32_oracle_all_prefixes.
Print Assumptions C32_consistent_meaning.
