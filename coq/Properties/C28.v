(* C28 — path patterns match per the documented glob semantics (internal/filter). Statements only.
   Model: Model/S_Glob.v (filter.go, filepath.Match, filepath.Clean); reference semantics: S_Glob.ref_match
   (component-wise globs, "**" = any number of components, absolute patterns anchored at the root,
   relative ones at any depth, a matching prefix covers everything below). *)
From Restic Require Import Base.Prelude Model.S_Glob Proofs.S_Globp Model.C28m Proofs.C28p.
Import S_Glob C28m.

(* filter.match agrees with the reference semantics for every pattern (any number of "**") and every
   non-empty path, whenever it answers at all (no bad-pattern error); generic in the component matcher *)
Theorem C28_match_parts_spec : forall cm parts strs b,
  strs <> [] -> wf parts -> match_parts cm parts strs = Ok b -> b = ref_match cm parts strs.
Proof. exact match_parts_spec. Qed.

(* filter.Match on strings *)
Theorem C28_Match_spec : forall ps s b, ps <> [] -> s <> [] ->
  gMatch ps s = Ok b -> b = ref_match cm_full (parts_of ps) (split_path s).
Proof. exact match_spec. Qed.

(* a match on a directory covers everything inside it *)
Theorem C28_match_extends : forall cm parts strs e,
  strs <> [] -> ref_match cm parts strs = true -> ref_match cm parts (strs ++ e) = true.
Proof. exact ref_match_extends. Qed.

Theorem C28_dir_covers : forall ps s t b, s <> [] ->
  gMatch ps s = Ok true -> gMatch ps (desc s t) = Ok b -> b = true.
Proof. exact dir_covers. Qed.

(* relative patterns match at any depth *)
Theorem C28_relative_any_depth : forall parts strs x pre,
  is_abs parts = false -> ref_match cm_full parts strs = true -> ref_match cm_full parts (x :: pre ++ strs) = true.
Proof. exact relative_any_depth. Qed.

(* "children may match" is never false when some path below the directory matches *)
Theorem C28_child_match_sound : forall cm parts strs e b,
  strs <> [] -> wf parts -> ref_match cm parts (strs ++ e) = true -> child_match cm parts strs = Ok b -> b = true.
Proof. exact child_match_sound. Qed.

Theorem C28_ChildMatch_sound : forall ps s t b, s <> [] ->
  gMatch ps (desc s t) = Ok true -> gChildMatch ps s = Ok b -> b = true.
Proof. exact child_sound. Qed.

(* pattern lists: List / ListWithChild compute the plain fold in which later negated patterns take a
   selected path out again (the early exit of the loop is sound) *)
Theorem C28_list_spec : forall pats chk s m c, s <> [] ->
  m_list pats chk s = Ok (m, c) -> m = spec_fold (pats_of pats) (split_path s) false.
Proof. exact list_spec. Qed.

Theorem C28_negation_spec : forall cm pats strs,
  S_Globp.spec_fold cm pats strs false = true <->
  exists l1 p l2, pats = l1 ++ p :: l2 /\ p_neg p = false /\ ref_match cm (p_parts p) strs = true
                  /\ forall q, In q l2 -> p_neg q = true -> ref_match cm (p_parts q) strs = false.
Proof. exact spec_fold_meaning. Qed.

Theorem C28_list_child_sound : forall pats s t m c c', s <> [] ->
  m_list pats true s = Ok (m, c) -> m_list pats false (desc s t) = Ok (true, c') -> c = true.
Proof. exact list_child_sound_impl. Qed.

(* no pattern or path makes Match / ChildMatch / ParsePatterns+List / ListWithChild panic
   (index expressions patternStr[0], parts[0], strs[offset+i], newPat[:pos+i] are modelled as Panic) *)
Theorem C28_no_panic : forall ps s, answers (gMatch ps s) /\ answers (gChildMatch ps s).
Proof. exact match_no_panic. Qed.

Theorem C28_list_no_panic : forall pats chk s, answers (m_list pats chk s).
Proof. exact list_no_panic. Qed.

Theorem C28_cm_total : forall p c, cm_full p c <> CMFuel.
Proof. exact cm_full_nofuel. Qed.

(* the oracle applied to the implementation's answers means the property clauses *)
Theorem C28_oracle_sound : forall c, check_C28 c = true ->
  (c_m c <> Panic /\ c_m2 c <> Panic /\ c_c c <> Panic /\ ~ In Panic (c_dm c)) /\
  (c_path c <> [] -> forall b, c_m c = Ok b -> b = spec_match (c_api c) (c_pats c) (c_path c)) /\
  (c_path c <> [] -> In (Ok true) (firstn (length (c_exts c)) (c_dm c)) -> c_c c <> Ok false).
Proof. exact check_C28_meaning. Qed.

Print Assumptions C28_match_parts_spec.
Print Assumptions C28_Match_spec.
Print Assumptions C28_match_extends.
Print Assumptions C28_dir_covers.
Print Assumptions C28_relative_any_depth.
Print Assumptions C28_child_match_sound.
Print Assumptions C28_ChildMatch_sound.
Print Assumptions C28_list_spec.
Print Assumptions C28_negation_spec.
Print Assumptions C28_list_child_sound.
Print Assumptions C28_no_panic.
Print Assumptions C28_list_no_panic.
Print Assumptions C28_cm_total.
Print Assumptions C28_oracle_sound.
