(* C29 — a repository opens with exactly the passwords of its current keys.  Statements only. *)
From Restic Require Import Base.Prelude Gen.ParamsC29 Model.C29m Proofs.C29p.
Import C29m.

(* With at most maxKeys key files (or no limit), all of them proper key files: a password opens the
   repository iff some key file was created with it — with or without a key hint. *)
Theorem C29_opens_iff : forall keys pw maxk hint_given hint_matches,
  all_good keys = true -> (maxk = 0 \/ length keys <= maxk)%nat ->
  ((exists id m, search_key keys pw maxk hint_given hint_matches = SFound id m) <->
   exists k, In k keys /\ k_pw k = pw).
Proof. exact opens_iff. Qed.

(* Whatever number of keys: what is found is a key of the repository with that password, and the
   master key that comes out is that key's. *)
Theorem C29_found_sound : forall keys pw maxk hg hm id m,
  search_key keys pw maxk hg hm = SFound id m ->
  exists k, In k keys /\ k_id k = id /\ k_pw k = pw /\ k_master k = m.
Proof. exact search_key_found_sound. Qed.

(* A hint naming a key made with the password opens the repository whatever the number of keys. *)
Theorem C29_hinted_key_opens : forall keys pw maxk id k,
  lookup keys id = Some k -> k_good k = true -> k_pw k = pw ->
  search_key keys pw maxk true [id] = SFound (k_id k) (k_master k).
Proof. exact hinted_key_opens. Qed.

Theorem C29_no_key_no_open : forall keys pw maxk hg hm,
  all_good keys = true -> (maxk = 0 \/ length keys <= maxk)%nat ->
  pw_present keys pw = false -> search_key keys pw maxk hg hm = SNoKey.
Proof. exact no_key_no_open. Qed.

(* key add / passwd / remove: at every interruption point the key in use or the new key exists. *)
Theorem C29_always_one_key : forall master st cur newid vok c,
  has_key st cur = true -> newid <> cur ->
  forall p, prefix p (cmd_ops cur newid vok c) -> alive cur newid (krun master st p) = true.
Proof. exact always_one_key. Qed.

Theorem C29_current_not_removable : forall cur newid vok, cmd_ops cur newid vok (CRemove cur) = [].
Proof. exact current_not_removable. Qed.

Theorem C29_remove_keeps_current : forall master st cur newid vok t,
  has_key st cur = true -> has_key (krun master st (cmd_ops cur newid vok (CRemove t))) cur = true.
Proof. exact remove_keeps_current. Qed.

(* every key unlocks the same master key, after any sequence of key operations *)
Theorem C29_same_master : forall master tr st,
  (forall k, In k st -> k_master k = master) ->
  forall k, In k (krun master st tr) -> k_master k = master.
Proof. exact same_master. Qed.

Theorem C29_passwd_new_password_opens : forall master st cur newid pw maxk,
  newid <> cur -> all_good st = true ->
  let st' := krun master st (cmd_ops cur newid true (CPasswd pw)) in
  (maxk = 0 \/ length st' <= maxk)%nat ->
  exists id m, search_key st' pw maxk false [] = SFound id m.
Proof. exact passwd_new_password_opens. Qed.

(* The key limit made explicit (max_keys regenerated from global.maxKeys): with up to max_keys proper key
   files and ANY hint a password opens iff a key has it; a hint naming a key with another password costs
   nothing, so even the last listed of exactly maxk keys is reached. *)
Theorem C29_opens_iff_at_limit : forall keys pw hg hm,
  all_good keys = true -> (length keys <= max_keys)%nat ->
  ((exists id m, search_key keys pw max_keys hg hm = SFound id m) <-> exists k, In k keys /\ k_pw k = pw).
Proof. exact opens_iff_at_limit. Qed.

Theorem C29_wrong_hint_costs_nothing : forall keys pw maxk id k,
  lookup keys id = Some k -> k_good k = true -> k_pw k <> pw ->
  search_key keys pw maxk true [id] = search_list keys pw maxk 0.
Proof. exact wrong_hint_costs_nothing. Qed.

Theorem C29_last_key_reached : forall keys k pw maxk id kh,
  all_good (keys ++ [k]) = true -> length (keys ++ [k]) = maxk -> k_pw k = pw ->
  lookup (keys ++ [k]) id = Some kh -> k_pw kh <> pw ->
  exists i m, search_key (keys ++ [k]) pw maxk true [id] = SFound i m.
Proof. exact last_key_reached. Qed.

(* The verification of a new key (SearchKey with the new password, hint = new key) can succeed through
   ANOTHER key with the same password when the new key file is unreadable.  Whatever the listing
   order and whichever files are readable: the key in use is not removed, or key passwd removes it
   and a readable key with the new password (not the removed one) stays; and the key the session
   then uses was created with the new password. *)
Theorem C29_verification_never_locks_out : forall listing cur newid c,
  newid <> cur ->
  let ops := cmd_ops_listing listing cur newid c in
  (~ In (KRemove cur) ops) \/
  (exists pw k, c = CPasswd pw /\ In k listing /\ k_good k = true /\ k_pw k = pw /\ k_id k <> cur /\
                ~ In (KRemove (k_id k)) ops).
Proof. exact listing_verification_never_locks_out. Qed.

Theorem C29_verification_sound : forall listing pw newid f m,
  search_key listing pw 0 true [newid] = SFound f m ->
  exists k, In k listing /\ k_id k = f /\ k_pw k = pw /\ k_good k = true.
Proof. exact listing_verification_sound. Qed.

(* the oracles mean the property *)
Theorem C29_search_oracle_sound : forall c,
  check_search c = true -> all_good (s_keys c) = true ->
  match s_obs c with
  | SFound id m => exists k, In k (s_keys c) /\ k_id k = id /\ k_pw k = s_pw c /\ k_master k = m
  | SNoKey => ~ exists k, In k (s_keys c) /\ k_pw k = s_pw c
  | SMaxKeys => (max_keys < length (s_keys c))%nat /\ hinted_right c = false
  | SErr => False
  end.
Proof. exact check_search_sound. Qed.

Theorem C29_history_oracle_sound : forall h,
  check_C29 (CH h) = true ->
  (forall p, prefix p (h_trace h) -> alive (h_cur h) (h_newid h) (krun (h_master h) (h_before h) p) = true) /\
  (forall k, In k (krun (h_master h) (h_before h) (h_trace h)) -> k_master k = h_master h) /\
  h_same_master h = true /\
  (forall pw b, In (pw, b) (h_opens_after h) ->
     b = pw_present (krun (h_master h) (h_before h) (h_trace h)) pw) /\
  (exists pw, In (pw, true) (h_opens_after h)) /\
  (h_ret_ok h = true -> forall pw, cmd_newpw (h_cmd h) = Some pw -> In (pw, true) (h_opens_after h)).
Proof. exact check_history_sound. Qed.

Theorem C29_model_traces_alive : forall master st cur newid vok c,
  has_key st cur = true -> newid <> cur ->
  alive_all_prefixes master cur newid st (cmd_ops cur newid vok c) = true.
Proof. exact model_trace_alive. Qed.

Print Assumptions C29_opens_iff.
Print Assumptions C29_found_sound.
Print Assumptions C29_hinted_key_opens.
Print Assumptions C29_no_key_no_open.
Print Assumptions C29_always_one_key.
Print Assumptions C29_current_not_removable.
Print Assumptions C29_remove_keeps_current.
Print Assumptions C29_same_master.
Print Assumptions C29_passwd_new_password_opens.
Print Assumptions C29_opens_iff_at_limit.
Print Assumptions C29_wrong_hint_costs_nothing.
Print Assumptions C29_last_key_reached.
Print Assumptions C29_verification_never_locks_out.
Print Assumptions C29_verification_sound.
Print Assumptions C29_search_oracle_sound.
Print Assumptions C29_history_oracle_sound.
Print Assumptions C29_model_traces_alive.
