(* C54 — stats in restore-size mode reports what a restore would write. Statements only. *)
From Restic Require Import Base.Prelude Model.C54m Proofs.C54p.
Import C54m.
Local Open Scope N_scope.

(* TotalFileCount = number of entries of the selected snapshots' trees (every snapshot, every tree shape). *)
Theorem C54_count_eq_entries : forall snaps, s_count (run_stats snaps) = sumN (map entries snaps).
Proof. exact count_eq_entries. Qed.

(* TotalSize = the bytes the restorer hands to its file writer, for all well-formed snapshot lists. *)
Theorem C54_size_eq_restore_bytes : forall snaps,
  forallb wf_snap snaps = true ->
  s_size (run_stats snaps) = sumN (map restore_bytes_snap snaps).
Proof. exact size_eq_restore_bytes. Qed.

(* per snapshot, for arbitrary (also ill-formed) node lists: the size is the sum over the "counted" entries *)
Theorem C54_size_counted : forall l, stats_size_nodes l = sum_counted [] l.
Proof. exact stats_size_counted. Qed.

(* ... where entries outside hard-link bookkeeping always count, the first of a link group counts, *)
Theorem C54_counted_unlinked : forall pre a, linked a = false -> counted pre a = true.
Proof. exact counted_unlinked. Qed.

Theorem C54_counted_first : forall pre a,
  (forall b, In b pre -> linked b = true -> key_of b <> key_of a) -> counted pre a = true.
Proof. exact counted_first. Qed.

(* ... and a later member of the same (inode <> 0, device) group does not count again. *)
Theorem C54_counted_once : forall pre a b,
  linked a = true -> a_inode a <> 0 -> In b pre -> linked b = true -> key_of b = key_of a ->
  counted pre a = false.
Proof. exact counted_repeat. Qed.

(* the restorer's accounting read the same way *)
Theorem C54_restore_bytes_counted : forall l, restore_bytes_nodes l = rsum_counted [] l.
Proof. exact restore_bytes_counted. Qed.

Theorem C54_oracle_sound : forall c, check_C54 c = true <-> C54_holds c.
Proof. exact check_C54_iff. Qed.

Theorem C54_model_meets_oracle : forall snaps, check_case (mk snaps (Some (run_stats snaps)) []) = 0%nat.
Proof. exact model_case_ok. Qed.

Print Assumptions C54_count_eq_entries.
Print Assumptions C54_size_eq_restore_bytes.
Print Assumptions C54_size_counted.
Print Assumptions C54_counted_unlinked.
Print Assumptions C54_counted_first.
Print Assumptions C54_counted_once.
Print Assumptions C54_restore_bytes_counted.
Print Assumptions C54_oracle_sound.
Print Assumptions C54_model_meets_oracle.
