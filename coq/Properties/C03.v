(* C03 — any corruption of repository data is reported, never silently used. Statements only. *)
From Restic Require Import Base.Prelude Model.C03m Proofs.C03p.
Import C03m.

(* For every original repository and every tampering (any set of packs, index files, snapshot files,
   key/config changed, truncated, extended or deleted): the model of `check --read-data` reports an
   error exactly when the declarative condition "something a listed snapshot depends on is damaged
   or unreachable" holds. *)
Theorem C03_check_reports_iff_damaged : forall R t,
  wf_tamper R t = true -> (check R t = [] <-> must_report R t = false).
Proof. exact check_nil_iff. Qed.

(* Contrapositive reading: a clean check means every listed snapshot is intact and every blob it
   needs has an indexed copy inside a completely intact pack. *)
Theorem C03_clean_implies_intact : forall R t,
  wf_tamper R t = true -> check R t = [] ->
  t_open_bad t = false /\
  forall s, In s (r_snaps R) -> ust (t_snaps t) (sn_id s) <> UGone ->
    ust (t_snaps t) (sn_id s) = UIntact /\
    forall h, In h (sn_trees s ++ sn_data s) ->
      exists k, In k (mem_packs R t) /\ In h (pk_blobs k) /\ pst (t_packs t) (pk_id k) = PIntact.
Proof. exact clean_implies_intact. Qed.

(* Direct reading: each kind of damage is detected. *)
Theorem C03_tamper_detected : forall R t,
  wf_tamper R t = true ->
  ( t_open_bad t = true
    \/ (exists f, In f (r_idx R) /\ ust (t_idx t) (ix_id f) = UBad)
    \/ (exists k, In k (mem_packs R t) /\ pst (t_packs t) (pk_id k) <> PIntact)
    \/ (exists s, In s (r_snaps R) /\ ust (t_snaps t) (sn_id s) = UBad)
    \/ (exists s h, In s (r_snaps R) /\ ust (t_snaps t) (sn_id s) = UIntact /\ In h (sn_trees s ++ sn_data s) /\
                    in_index R t h = false) ) ->
  check R t <> [].
Proof. exact tamper_detected. Qed.

(* LoadBlob, for arbitrary stored bytes, arbitrary decryption / decompression functions and any
   candidate list: whatever is returned hashes to the requested ID ... *)
Theorem C03_load_blob_verified : forall (H : bytes -> N) open_ unz h cands b,
  load_blob H open_ unz h cands = Some b -> H b = h.
Proof. exact load_blob_verified. Qed.

(* ... hence equals the original unless SHA-256 has a second preimage for it. *)
Theorem C03_no_wrong_plaintext : forall (H : bytes -> N) open_ unz orig cands b,
  (forall x, H x = H orig -> x = orig) ->
  load_blob H open_ unz (H orig) cands = Some b -> b = orig.
Proof. exact no_wrong_plaintext. Qed.

(* An intact duplicate anywhere in the candidate list is used. *)
Theorem C03_intact_duplicate_used : forall (H : bytes -> N) (open_ unz : bytes -> option bytes) h cands (ct pt : bytes) (z : bool),
  In (Some ct, z) cands -> open_ ct = Some pt ->
  (if z then unz pt else Some pt) <> None ->
  (forall b, (if z then unz pt else Some pt) = Some b -> H b = h) ->
  load_blob H open_ unz h cands <> None.
Proof. exact load_blob_uses_intact. Qed.

(* A restore that succeeds had a readable, unchanged copy of every blob it needed. *)
Theorem C03_restore_ok_sound : forall R t s,
  restore_ok R t s = true ->
  t_open_bad t = false /\ ust (t_snaps t) (sn_id s) = UIntact /\
  forall h, In h (sn_trees s ++ sn_data s) ->
    exists k, In k (mem_packs R t) /\ In h (pk_blobs k) /\ copy_ok (pst (t_packs t) (pk_id k)) h = true.
Proof. exact restore_ok_sound. Qed.

(* A mounted-file read that succeeds had a readable, unchanged copy of every blob it spans. *)
Theorem C03_read_ok_sound : forall R t bs,
  read_ok R t bs = true ->
  t_open_bad t = false /\
  forall h, In h bs -> exists k, In k (mem_packs R t) /\ In h (pk_blobs k) /\ copy_ok (pst (t_packs t) (pk_id k)) h = true.
Proof. exact read_ok_sound. Qed.

Theorem C03_oracle_sound : forall c, check_C03 c = true <-> C03_holds c.
Proof. exact check_C03_iff. Qed.

Theorem C03_model_satisfies_oracle : forall R t, check_C03 (model_case R t) = true.
Proof. exact model_satisfies_oracle. Qed.

Print Assumptions C03_check_reports_iff_damaged.
Print Assumptions C03_clean_implies_intact.
Print Assumptions C03_tamper_detected.
Print Assumptions C03_load_blob_verified.
Print Assumptions C03_no_wrong_plaintext.
Print Assumptions C03_intact_duplicate_used.
Print Assumptions C03_restore_ok_sound.
Print Assumptions C03_read_ok_sound.
Print Assumptions C03_oracle_sound.
Print Assumptions C03_model_satisfies_oracle.
