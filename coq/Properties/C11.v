(* C11 - an interrupted or failed backup leaves the repository consistent. Statements only. *)
From Restic Require Import Base.Prelude Model.S_Prune Model.C09m Proofs.C09p Model.C11m Proofs.C11p.
Import SPrune C09m C11m.

(* For every state in which all present snapshots are closed under the index, and every backend trace
   with the structure of a backup (ok_backup: fresh packs; index files name only present packs with
   their real content; a snapshot file only when everything it needs is loadable; no removals), the
   state after EVERY prefix (= every crash point) has all present snapshots - old ones and a newly
   saved one - closed under the index. *)
Theorem C11_backup_prefix_safe : forall tr S, SnapsOk S -> ok_backup S tr = true ->
  forall n, SnapsOk (brun S (firstn n tr)).
Proof. exact backup_prefix_safe. Qed.

(* No file that existed before the backup disappears at any prefix. *)
Theorem C11_backup_never_removes : forall tr S, ok_backup S tr = true -> forall n,
  (forall ix, In ix (idxs (repo_of S)) -> In ix (idxs (repo_of (brun S (firstn n tr))))) /\
  (forall pk, In pk (packs (repo_of S)) -> In pk (packs (repo_of (brun S (firstn n tr))))) /\
  (forall sn, In sn (snaps S) -> In sn (snaps (brun S (firstn n tr)))).
Proof. exact backup_never_removes. Qed.

(* Later operations: a second backup - complete or interrupted anywhere - on the state an interrupted
   backup left behind keeps every present snapshot closed under the index; ... *)
Theorem C11_backup_rerun_safe : forall tr1 tr2 S n1,
  SnapsOk S -> ok_backup S tr1 = true -> ok_backup (brun S (firstn n1 tr1)) tr2 = true ->
  forall n2, SnapsOk (brun (brun S (firstn n1 tr1)) (firstn n2 tr2)).
Proof. exact backup_rerun_safe. Qed.

(* ... and a prune with any valid plan and any trace with the structure of Execute (C09), interrupted
   anywhere, on that state never loses a blob needed by a present snapshot. *)
Theorem C11_prune_after_interrupted_backup_safe : forall tr S n1 pl ptr,
  SnapsOk S -> ok_backup S tr = true ->
  let S1 := brun S (firstn n1 tr) in
  valid_planb (repo_of S1) (used_of S1) pl = true -> run_ok pl PhA (repo_of S1) ptr = true ->
  forall n2, Consistent (run (repo_of S1) (firstn n2 ptr)) (used_of S1).
Proof. exact prune_after_interrupted_backup_safe. Qed.

Theorem C11_trace_oracle_sound : forall S0 tr, check_case (CTrace S0 tr) = 0%nat ->
  forall n, SnapsOk (brun S0 (firstn n tr)).
Proof. exact check_trace_sound. Qed.

Theorem C11_crash_oracle_sound : forall S rep c1 c2 c3,
  check_C11 (CCrash S rep c1 c2 c3) = true <-> SnapsOk S /\ rep = true /\ c1 = true /\ c2 = true /\ c3 = true.
Proof. exact check_crash_sound. Qed.

Theorem C11_snaps_okb_iff : forall S, snaps_okb S = true <-> SnapsOk S.
Proof. exact snaps_okb_iff. Qed.

Print Assumptions C11_backup_prefix_safe.
Print Assumptions C11_backup_never_removes.
Print Assumptions C11_backup_rerun_safe.
Print Assumptions C11_prune_after_interrupted_backup_safe.
Print Assumptions C11_trace_oracle_sound.
Print Assumptions C11_crash_oracle_sound.
Print Assumptions C11_snaps_okb_iff.
