(* C49 — user-supplied durations, sizes and counts parse totally and exactly. Statements only. *)
From Restic Require Import Base.Prelude Gen.ParamsC49 Model.C49m Proofs.C49p.
Import C49m.
Open Scope Z_scope.

(* No input makes any of the modelled parsers panic (or run out of fuel). *)
Theorem C49_no_parser_panics : forall i, has_panic (model i) = false.
Proof. exact model_no_panic. Qed.

Theorem C49_parse_duration_total : forall s, parse_duration s <> DPanic /\ parse_duration s <> DFuel.
Proof. exact parse_duration_total. Qed.

(* ParseDuration accepts exactly the literals  ([-]digits unit)*  with digits <= MaxInt64 (after
   TrimSpace) and returns their denotation (later items override earlier ones of the same unit). *)
Theorem C49_parse_duration_exact : forall s d,
  parse_duration s = DOk d <->
  exists its, Forall (fun it => item_wf it = true) its /\ trim_space s = render its /\ d = denote its dzero.
Proof. exact parse_duration_exact. Qed.

Theorem C49_parse_duration_accepts_wellformed : forall its,
  Forall (fun it => item_wf it = true) its -> parse_duration (render its) = DOk (denote its dzero).
Proof. exact parse_duration_render. Qed.

(* Durations print back in a form that parses to the same value (all int64 fields above MinInt64). *)
Theorem C49_print_parse : forall d, dur_ok d = true -> parse_duration (dur_string d) = DOk d.
Proof. exact print_parse. Qed.

(* strconv.ParseUint / ParseInt (base 10, 64 bit), on which every other parser rests *)
Theorem C49_parse_uint_exact : forall s v,
  parse_uint s = POk v <-> digits_val s = Some v /\ v <= max_u64.
Proof. exact parse_uint_ok. Qed.

Theorem C49_parse_int_exact : forall s v,
  parse_int s = POk v <-> int_denote s = Some v /\ min_i64 <= v <= max_i64.
Proof. exact parse_int_ok. Qed.

(* ui.ParseBytes: accepted iff the literal denotes n*unit with 0 <= n*unit < 2^63, and then exactly that *)
Theorem C49_parse_bytes_exact : forall s v,
  parse_bytes s = BOk v <-> bytes_denote s = Some v /\ 0 <= v <= max_i64.
Proof. exact parse_bytes_ok. Qed.

Theorem C49_policy_count_exact : forall s v,
  policy_count_set s = COk v <->
  (s = s_unlimited /\ v = -1) \/ (s <> s_unlimited /\ int_denote s = Some v /\ 0 <= v <= max_i64).
Proof. exact policy_count_ok. Qed.

(* checkFlags: n/t accepted iff 1 <= n <= t <= totalBucketsMax; x% iff 0 < x <= 100 (NaN rejected);
   sizes iff the literal denotes a positive int64 *)
Theorem C49_check_flags_nt : forall ns ts fc,
  digits_val ns <> None -> digits_val ts <> None -> dec ns <= max_u64 -> dec ts <= max_u64 ->
  (check_flags false (ns ++ 47%N :: ts) fc = FOk <-> 1 <= dec ns <= dec ts /\ dec ts <= ParamsC49.total_buckets_max).
Proof. exact check_flags_nt. Qed.

Theorem C49_check_flags_bucket_bounds : forall rd s fc l,
  string_to_int_slice s = Some l -> s <> [] ->
  (check_flags rd s fc = FOk <->
   rd = false /\ exists n t, l = [n; t] /\ 1 <= n <= t /\ t <= ParamsC49.total_buckets_max /\ 0 <= n).
Proof. exact check_flags_bucket_bounds. Qed.

Theorem C49_check_flags_percentage : forall s fc,
  s <> [] -> string_to_int_slice s = None -> has_suffix_pct s = true ->
  (check_flags false s fc = FOk <-> fc = FIn).
Proof. exact check_flags_percentage. Qed.

Theorem C49_check_flags_size : forall s fc,
  s <> [] -> string_to_int_slice s = None -> has_suffix_pct s = false ->
  (check_flags false s fc = FOk <-> exists v, bytes_denote s = Some v /\ 1 <= v <= max_i64).
Proof. exact check_flags_size. Qed.

(* SplitShellStrings: a successful split yields at least one field and no empty field *)
Theorem C49_shell_split_fields : forall s l,
  shell_split s = SOk l -> l <> [] /\ Forall (fun f => f <> []) l.
Proof. exact shell_split_fields. Qed.

(* the oracle run on the implementation's observables means the property; the model satisfies it *)
Theorem C49_oracle_sound : forall c,
  check_C49 c = true <->
  has_panic (c_obs c) = false
  /\ (is_err (c_obs c) = true \/ c_obs c = model (c_in c))
  /\ (forall y m d h p r, c_in c = IPrint y m d h -> c_obs c = OPrint p r ->
        dur_ok (mkdur y m d h) = true -> r = ODur y m d h).
Proof. exact check_C49_sound. Qed.

Theorem C49_model_satisfies_oracle : forall i, check_C49 (mk i (model i)) = true.
Proof. exact model_satisfies_oracle. Qed.

Theorem C49_check_case_zero : forall c, check_case c = 0%nat -> check_C49 c = true /\ c_obs c = model (c_in c).
Proof. exact check_case_zero. Qed.

(* options.Parse: accepted iff all keys are non-empty and no key has two different values; then the map
   holds exactly the (lower-cased trimmed key, trimmed value) pairs of the input *)
Theorem C49_options_parse_exact : forall l,
  match options_parse l with
  | OpOk m => (forall k v, olookup m k = Some v <-> In (k, v) (map kv_of l)) /\ keys_ok l /\ functional (map kv_of l)
  | OpErr => ~ (keys_ok l /\ functional (map kv_of l))
  end.
Proof. exact options_parse_exact. Qed.

(* SplitShellStrings, exactness: the fields concatenated are the input minus quote / backslash / white-space
   characters (nothing invented, nothing reordered); an unterminated quote is an error; without quotes and
   backslashes it is strings.Fields on ASCII white space; a quoted text without its quote character and
   without backslashes is exactly one field *)
Theorem C49_shell_split_preserves : forall s l, shell_split s = SOk l -> dsub s (concat l).
Proof. exact shell_split_preserves. Qed.

Theorem C49_shell_split_open_quote : forall s, quote_open (final_state s st0) = true -> shell_split s = SErr.
Proof. exact shell_split_open_quote. Qed.

Theorem C49_shell_split_plain : forall s, plain s = true ->
  shell_split s = if is_empty (split_ws s []) then SErr else SOk (split_ws s []).
Proof. exact shell_split_plain. Qed.

Theorem C49_fields_spec : forall s f, forallb (fun c => negb (is_space c)) f = true ->
  Forall (fun t => t <> [] /\ forallb (fun c => negb (is_space c)) t = true) (split_ws s f)
  /\ concat (split_ws s f) = f ++ filter (fun c => negb (is_space c)) s.
Proof. exact split_ws_fields. Qed.

Theorem C49_shell_split_quoted : forall q body, (q = 34 \/ q = 39)%N -> body <> [] -> ~ In q body -> ~ In 92%N body ->
  shell_split (q :: body ++ [q]) = SOk [body].
Proof. exact shell_split_quoted. Qed.

(* pflag Set on an existing value: success => the value is ParseDuration / the count of that string alone
   (independent of what the variable held); failure => the variable is unchanged *)
Theorem C49_duration_set_spec : forall cur s,
  (forall d, parse_duration s = DOk d -> dur_set cur s = (true, d))
  /\ ((forall d, parse_duration s <> DOk d) -> dur_set cur s = (false, cur)).
Proof. exact dur_set_spec. Qed.

Theorem C49_duration_set_independent : forall cur1 cur2 s, fst (dur_set cur1 s) = true -> dur_set cur1 s = dur_set cur2 s.
Proof. exact dur_set_independent. Qed.

Theorem C49_count_set_spec : forall cur s,
  (forall v, policy_count_set s = COk v -> count_set cur s = (true, v))
  /\ ((forall v, policy_count_set s <> COk v) -> count_set cur s = (false, cur)).
Proof. exact count_set_spec. Qed.

Print Assumptions C49_no_parser_panics.
Print Assumptions C49_parse_duration_total.
Print Assumptions C49_parse_duration_exact.
Print Assumptions C49_parse_duration_accepts_wellformed.
Print Assumptions C49_print_parse.
Print Assumptions C49_parse_uint_exact.
Print Assumptions C49_parse_int_exact.
Print Assumptions C49_parse_bytes_exact.
Print Assumptions C49_policy_count_exact.
Print Assumptions C49_check_flags_nt.
Print Assumptions C49_check_flags_bucket_bounds.
Print Assumptions C49_check_flags_percentage.
Print Assumptions C49_check_flags_size.
Print Assumptions C49_shell_split_fields.
Print Assumptions C49_oracle_sound.
Print Assumptions C49_model_satisfies_oracle.
Print Assumptions C49_check_case_zero.
Print Assumptions C49_options_parse_exact.
Print Assumptions C49_shell_split_preserves.
Print Assumptions C49_shell_split_open_quote.
Print Assumptions C49_shell_split_plain.
Print Assumptions C49_fields_spec.
Print Assumptions C49_shell_split_quoted.
Print Assumptions C49_duration_set_spec.
Print Assumptions C49_duration_set_independent.
Print Assumptions C49_count_set_spec.
