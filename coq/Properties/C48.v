(* C48 — blob sets (AssociatedSet) report each member once. Statements only.
   [main] / [rest]: handles of the entries of idx[0] / of the other indexes, in position order,
   with arbitrary duplicates (the same blob stored in several packs); [cap] = len(value) fixed
   when the set was made; [ops] any sequence of Set/Insert/Delete; [ref_run ops] = the bindings
   a plain map would hold after the same sequence. *)
From Restic Require Import Base.Prelude Model.C48m Proofs.C48p.
Import C48m.

(* Get/Set/Delete have map semantics, for every index content and every capacity *)
Theorem C48_get_set_delete_spec : forall main cap ops h,
  get main (run main (new_set cap) ops) h = assoc h (ref_run ops).
Proof. intros. apply (proj2 (proj2 (model_spec main cap ops))). Qed.

(* All()/Keys() enumerate exactly the members, each one exactly once *)
Theorem C48_all_nodup : forall main rest cap ops,
  NoDup (map fst (all main rest (run main (new_set cap) ops))) /\
  forall h v, In (h, v) (all main rest (run main (new_set cap) ops)) <-> assoc h (ref_run ops) = Some v.
Proof. exact model_all. Qed.

(* Len() = number of distinct members *)
Theorem C48_len_eq_card : forall main rest cap ops,
  len main rest (run main (new_set cap) ops) = length (ref_run ops) /\ NoDup (map fst (ref_run ops)).
Proof. intros. split; [apply model_len | apply (proj1 (proj2 (model_spec main cap ops)))]. Qed.

(* in any state satisfying the representation invariant (also a set produced by Intersect/Sub) *)
Theorem C48_all_spec_inv : forall main rest a, Inv main a ->
  NoDup (map fst (all main rest a)) /\ forall h v, In (h, v) (all main rest a) <-> get main a h = Some v.
Proof. exact all_spec. Qed.

(* Intersect (keep = other.Has) and Sub (keep = not other.Has): the result is again a well-formed
   set holding exactly the bindings of [a] whose handle is kept (so C48_all_spec_inv applies to it) *)
Theorem C48_intersect_sub_spec : forall main rest a keep, Inv main a ->
  Inv main (restrict main rest a keep) /\
  forall h, get main (restrict main rest a keep) h = if keep h then get main a h else None.
Proof. exact restrict_spec. Qed.

(* the oracle means exactly: All() lists the reference bindings once each, Len() is their number,
   every Get agrees with them, and Intersect / Sub list exactly the kept / not kept bindings *)
Theorem C48_oracle_sound : forall c, check_C48 c = true <-> case_spec_full c.
Proof. exact check_C48_iff. Qed.

(* TWO blob types, one overflow map, Values() in its real order (concatenation over the sub-indexes,
   each listing data then tree entries), seen[] per type: every member of a mixed-type set is
   enumerated exactly once, Len() is the number of distinct members, Get has map semantics per
   handle — whatever is duplicated within or across sub-indexes, whatever lies in between *)
Theorem C48_two_typed_spec : forall main2 rest2 capD capT ops,
  let a := run2 main2 (new_set2 capD capT) ops in
  NoDup (map fst (all2 main2 rest2 a)) /\
  (forall h v, In (h, v) (all2 main2 rest2 a) <-> assoc (snd h) (ref_run (ops_of (fst h) ops)) = Some v) /\
  len2 main2 rest2 a = length (ref_run (ops_of false ops)) + length (ref_run (ops_of true ops)) /\
  (forall h, get2 main2 a h = assoc (snd h) (ref_run (ops_of (fst h) ops))).
Proof. exact model2_spec. Qed.

(* the interleaved two-type enumeration, viewed per type, is the one-type enumeration *)
Theorem C48_two_typed_projection : forall main2 rest2 a t,
  projr t (all2 main2 rest2 a) = all (proj t main2) (proj t rest2) (sel a t).
Proof. exact all2_proj. Qed.

Theorem C48_oracle2_sound : forall c, check_C48_2 c = true <-> case2_spec c.
Proof. exact check_C48_2_iff. Qed.

Print Assumptions C48_two_typed_spec.
Print Assumptions C48_two_typed_projection.
Print Assumptions C48_oracle2_sound.
Print Assumptions C48_get_set_delete_spec.
Print Assumptions C48_all_nodup.
Print Assumptions C48_len_eq_card.
Print Assumptions C48_all_spec_inv.
Print Assumptions C48_intersect_sub_spec.
Print Assumptions C48_oracle_sound.
