(* C33 — repair index rebuilds an index that describes the stored packs exactly. Statements only. *)
From Restic Require Import Base.Prelude Gen.ParamsC33 Model.C33m Proofs.C33p.
Import C33m.

(* With --read-all-packs: whatever the old index files were (missing, undecodable, duplicated,
   partial, wrong), the index after the run lists exactly the header entries of the readable packs. *)
Theorem C33_repair_exact_read_all : forall c s,
  wf s -> read_all c = true -> forall x, In x (final_view c s) <-> In x (truth s).
Proof. exact repair_exact_read_all. Qed.

(* Without it: the same, provided every pack whose size computed from the loaded index equals its
   real size is described exactly by the loaded index (hypothesis [trusted]). *)
Theorem C33_repair_exact : forall c s,
  wf s -> trusted c s -> forall x, In x (final_view c s) <-> In x (truth s).
Proof. exact repair_exact. Qed.

(* No pack file is written or deleted by the run. *)
Theorem C33_no_pack_removed : forall c s,
  b_packs (run (init_bst s) (trace c s)) = map p_id (s_packs s) /\
  forall o, In o (trace c s) -> is_pack_op o = false.
Proof. exact no_pack_touched. Qed.

(* Crash safety: after any prefix of the run's backend operations every correct index entry that
   was visible before the run is still visible (new index files are saved before old ones go). *)
Theorem C33_prefix_safe : forall c s k,
  wf s -> forall x, In x (view (init_bst s)) -> In x (truth s) ->
  In x (view (run (init_bst s) (firstn k (trace c s)))).
Proof. exact prefix_safe. Qed.

(* The boolean oracle run on the implementation's observations means the property. *)
Theorem C33_oracle_sound : forall c, check_C33 c = true <-> C33_holds c.
Proof. exact check_C33_iff. Qed.

Theorem C33_trustedb_iff : forall c s, trustedb c s = true <-> trusted c s.
Proof. intros; split; [apply trustedb_sound | apply trustedb_complete]. Qed.

(* The model's own run always satisfies the oracle. *)
Theorem C33_model_satisfies_oracle : forall c s, check_C33 (model_case c s) = true.
Proof. exact model_satisfies_oracle. Qed.

Print Assumptions C33_repair_exact_read_all.
Print Assumptions C33_repair_exact.
Print Assumptions C33_no_pack_removed.
Print Assumptions C33_prefix_safe.
Print Assumptions C33_oracle_sound.
Print Assumptions C33_trustedb_iff.
Print Assumptions C33_model_satisfies_oracle.
