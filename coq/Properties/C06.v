(* C06 — Pack files list back exactly the blobs written into them. Statements only. *)
From Restic Require Import Base.Prelude Gen.ParamsC06 Model.C06m Proofs.C06p.
Import C06m.
Open Scope Z_scope.

(* Writing then listing: for every sequence of well-formed Adds (valid type, 32-byte id, data < 4 GiB,
   uncompressed length < 2^32) whose header fits MaxHeaderSize, every nonce, and every AE with
   Open(Seal(p)) = p: Finalize succeeds (its verifyHeader self-check passes), List of the file returns
   exactly the added blobs in order with types, running offsets, stored and uncompressed lengths, the
   reported header size is the real one, and header size + data = file size. *)
Theorem C06_list_finalize :
  forall (seal : sealer) (open : opener),
    (forall n p, open n (seal n p) = Some p) -> (forall n p, len (seal n p) = len p + mac_size) ->
  forall adds nonce, let p := padds new_packer adds in
    len nonce = nonce_size -> Forall wf_add adds -> adds <> [] -> hdr_len (p_blobs p) <= max_header_size ->
    exists f, finalize seal open nonce p = Ok f /\
              list_pack open f (len f) = Ok (p_blobs p, hdr_len (p_blobs p)) /\
              len f = sum_len (p_blobs p) + hdr_len (p_blobs p) /\
              with_offsets (p_blobs p) 0 = p_blobs p.
Proof. exact finalize_list. Qed.

(* readHeader's eager read + optional second read returns exactly the region the trailing length field
   designates (or the documented error), for every file and size argument. *)
Theorem C06_read_header_refines : forall f size, read_header f size = read_header_spec f size.
Proof. exact read_header_refines. Qed.

(* List never panics: every slice expression of readRecords/readHeader/List/parseHeaderEntry is in range,
   for every file content, size argument and decryption function. *)
Theorem C06_list_total : forall (open : opener) f size, list_pack open f size <> Panic.
Proof. exact list_total. Qed.

(* Never a wrong listing: whenever List returns entries, they are exactly the entries encoded by a header
   that the key authenticated and that sits at the very end of the file, with running-sum offsets, and the
   header size is that region's size. Truncated/extended/mutated files can therefore only yield an error
   or the listing of a header the key holder sealed. *)
Theorem C06_list_ok_authentic : forall (open : opener) f size es hs,
  list_pack open f size = Ok (es, hs) -> authentic open es hs f size = true.
Proof. exact list_ok_authentic. Qed.

(* Header-entry limit: adding only while HeaderFull() is false keeps the count <= MaxHeaderEntries, any such
   count yields a header <= MaxHeaderSize (so C06_list_finalize applies), the boundary is exact. *)
Theorem C06_guarded_count : forall l p, cnt (p_blobs p) <= max_header_entries ->
  cnt (p_blobs (padds_guarded p l)) <= max_header_entries.
Proof. exact guarded_count. Qed.
Theorem C06_header_full_bound : forall bs, cnt bs <= max_header_entries -> hdr_len bs <= max_header_size.
Proof. exact header_full_bound. Qed.
Theorem C06_header_full_exact :
  header_full (max_header_entries - 1) = false /\ header_full max_header_entries = true /\
  max_header_entries = (max_header_size - header_size) / entry_size.
Proof. split; [|split]; [apply header_full_exact | apply header_full_exact | exact max_header_entries_def]. Qed.

(* distinct entry lists give distinct headers *)
Theorem C06_parse_entries_inj : forall bs1 bs2 h, wfbs bs1 -> wfbs bs2 ->
  make_header bs1 = Some h -> make_header bs2 = Some h -> with_offsets bs1 0 = with_offsets bs2 0.
Proof. exact parse_entries_inj. Qed.

(* converse of verifyHeader: whenever Finalize succeeds, the packer's blobs are exactly what a header can
   carry (lengths < 2^32, running offsets), the pack is non-empty and the header fits MaxHeaderSize *)
Theorem C06_finalize_ok_wf :
  forall (seal : sealer) (open : opener),
    (forall n p, open n (seal n p) = Some p) -> (forall n p, len (seal n p) = len p + mac_size) ->
  forall nonce p f,
    finalize seal open nonce p = Ok f -> len nonce = nonce_size -> ids32 (p_blobs p) -> hdr_len (p_blobs p) < two32 ->
    p_blobs p <> [] /\ hdr_len (p_blobs p) <= max_header_size /\
    with_offsets (p_blobs p) 0 = p_blobs p /\
    Forall (fun b => 0 <= b_len b < two32 /\ 0 <= b_ulen b < two32) (p_blobs p).
Proof. exact finalize_ok_wf. Qed.

(* Add's error paths: a write error or short write breaks the packer; from then on every Add fails without
   writing, and Finalize fails, for every script of writer faults and every later call sequence *)
Theorem C06_broken_packer_stays_broken : forall seal open nonce sc pf adds, pf_err pf = true ->
  fst (runF sc pf adds) = pf /\ Forall (fun ok => ok = false) (snd (runF sc pf adds)) /\
  finalizeF seal open nonce sc (fst (runF sc pf adds)) = Err EOther.
Proof. exact broken_packer_stays_broken. Qed.
Theorem C06_failed_add_breaks : forall sc pf a, snd (addF sc pf a) = false -> pf_err (fst (addF sc pf a)) = true.
Proof. exact addF_fail_breaks. Qed.
(* so a Finalize that succeeds on a faulty writer means no Add failed and the file is the fault-free one, to
   which C06_list_finalize applies *)
Theorem C06_finalizeF_ok : forall seal open nonce sc adds f,
  finalizeF seal open nonce sc (fst (runF sc (mkPF new_packer false 0) adds)) = Ok f ->
  Forall (fun ok => ok = true) (snd (runF sc (mkPF new_packer false 0) adds)) /\
  finalize seal open nonce (padds new_packer adds) = Ok f.
Proof. exact finalizeF_ok. Qed.

(* the oracle run on the implementation's observables means the property *)
Theorem C06_oracle_sound : forall c, check_C06 c = true -> C06_holds c.
Proof. exact check_C06_sound. Qed.
Theorem C06_model_meets_oracle : forall t f size,
  check_C06 (CL None false f size t (list_pack (tab_open t) f size)) = true.
Proof. exact model_meets_oracle. Qed.

Print Assumptions C06_list_finalize.
Print Assumptions C06_read_header_refines.
Print Assumptions C06_list_total.
Print Assumptions C06_list_ok_authentic.
Print Assumptions C06_guarded_count.
Print Assumptions C06_header_full_bound.
Print Assumptions C06_header_full_exact.
Print Assumptions C06_parse_entries_inj.
Print Assumptions C06_finalize_ok_wf.
Print Assumptions C06_broken_packer_stays_broken.
Print Assumptions C06_failed_add_breaks.
Print Assumptions C06_finalizeF_ok.
Print Assumptions C06_oracle_sound.
Print Assumptions C06_model_meets_oracle.
