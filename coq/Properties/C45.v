(* C45 — dump writes exactly the snapshot's content.  Statements only.
   [wrun bs (winit content) evs] = Dumper.writeNode under an arbitrary schedule of loader
   spawns, loader completions and writer steps; [send_trees root t] = the nodes sent to the
   archive writer by sendTrees/sendNodes/walker.Walk; [spec_nodes] = pre-order list of all nodes
   filtered to files, directories and symlinks. *)
From Restic Require Import Base.Prelude Model.C45m Proofs.C45p.
Import C45m.

Theorem C45_file_dump_exact : forall bs content evs st,
  wrun bs (winit content) evs = WOk st -> wterminal st -> w_out st = file_bytes bs content.
Proof. exact file_dump_exact. Qed.

Theorem C45_file_dump_error_only_if_missing : forall bs content evs,
  wrun bs (winit content) evs = WErr -> exists i, In i content /\ blob_of bs i = None.
Proof. exact file_dump_error_only_if_missing. Qed.

Theorem C45_file_dump_complete : forall bs content, all_present bs content = true ->
  exists st, wrun bs (winit content) (seq_sched content) = WOk st /\ wterminal st.
Proof. exact file_dump_complete. Qed.

Theorem C45_archive_entries : forall root t, send_trees root t = spec_nodes root t.
Proof. exact archive_entries. Qed.

Theorem C45_no_other_types : forall root t p n, In (p, n) (send_trees root t) ->
  isfile n = true \/ isdir n = true \/ issym n = true.
Proof. exact no_other_types. Qed.

Theorem C45_every_dumpable_node_listed : forall root t p n,
  In (p, n) (flat_map (preorder root) t) -> dumpable n = true -> In (p, n) (send_trees root t).
Proof. exact every_dumpable_node_listed. Qed.

Theorem C45_tar_entry_faithful : forall bs p n,
  e_ty (tar_entry bs p n) = nty n /\ e_slash (tar_entry bs p n) = isdir n /\
  e_content (tar_entry bs p n) = file_bytes bs (ncontent n) /\
  (issym n = true -> e_link (tar_entry bs p n) = nlink n) /\
  (issym n = false -> e_link (tar_entry bs p n) = []).
Proof. exact tar_entry_faithful. Qed.

Theorem C45_zip_entry_faithful : forall bs p n,
  e_ty (zip_entry bs p n) = nty n /\ e_slash (zip_entry bs p n) = isdir n /\
  (issym n = true -> e_content (zip_entry bs p n) = nlink n) /\
  (issym n = false -> e_content (zip_entry bs p n) = file_bytes bs (ncontent n)).
Proof. exact zip_entry_faithful. Qed.

Theorem C45_model_eq_expected : forall c, model c = expected c.
Proof. exact model_eq_expected. Qed.

Theorem C45_oracle_sound : forall c, check_C45 c = true <->
  (if forallb (all_present_tree (c_blobs c)) (c_tree c)
   then o_err c = false /\ o_entries c = expected c
   else o_err c = true).
Proof. exact check_C45_iff. Qed.

Print Assumptions C45_file_dump_exact.
Print Assumptions C45_file_dump_error_only_if_missing.
Print Assumptions C45_file_dump_complete.
Print Assumptions C45_archive_entries.
Print Assumptions C45_no_other_types.
Print Assumptions C45_every_dumpable_node_listed.
Print Assumptions C45_tar_entry_faithful.
Print Assumptions C45_zip_entry_faithful.
Print Assumptions C45_model_eq_expected.
Print Assumptions C45_oracle_sound.
