(* C04 — repository contents leak no plaintext and never reuse a nonce. Statements only.
   [rng] is the stream of crypto/rand reads, [seal] the AEAD, [header_of] / [keyjson] the pack-header and
   key-file encodings: all arbitrary. Secrecy of [seal] itself is the IND-CPA assumption on AES-CTR and is
   not a theorem here. *)
From Restic Require Import Base.Prelude Model.C04m Proofs.C04p.
Import C04m.

(* Every Seal call of every op sequence uses its own draw of the stream, never a draw used for a salt or key material. *)
Theorem C04_nonce_indices_fresh : forall rng seal header_of keyjson master_json ops,
  let st := run rng seal header_of keyjson master_json ops in
  NoDup (map snd (uses st)) /\
  (forall i, In i (map snd (uses st)) -> (i < calls st)%nat /\ ~ In i (others st)).
Proof. intros. apply nonce_indices_fresh. Qed.

(* If the stream's outputs are pairwise distinct, all nonces and all (key, nonce) pairs are pairwise distinct. *)
Theorem C04_nonces_distinct : forall rng seal header_of keyjson master_json ops,
  let st := run rng seal header_of keyjson master_json ops in
  (forall i j, (i < calls st)%nat -> (j < calls st)%nat -> rng i = rng j -> i = j) ->
  NoDup (map (fun u => rng (snd u)) (uses st)) /\ NoDup (used_pairs rng st).
Proof. intros. apply nonces_distinct. assumption. Qed.

(* Every file handed to the backend is exactly the rendering of its layout: nonces, sealed segments,
   the header length field, key-file public JSON around salt and sealed data. *)
Theorem C04_files_are_layouts : forall rng seal header_of keyjson master_json ops b l,
  In (b, l) (files (run rng seal header_of keyjson master_json ops)) -> b = render_all rng seal keyjson l.
Proof. intros. eapply files_are_layouts. eassumption. Qed.

(* Every sealed segment in any file is one of the recorded Seal calls (so the two theorems above apply to it). *)
Theorem C04_sealed_segments_are_seal_calls : forall rng seal header_of keyjson master_json ops b l u,
  In (b, l) (files (run rng seal header_of keyjson master_json ops)) -> In u (sealed_of l) ->
  In u (uses (run rng seal header_of keyjson master_json ops)).
Proof. intros. eapply sealed_segments_are_seal_calls; eassumption. Qed.

(* The checker applied to real pack files: every byte lies in a blob segment, the encrypted header or the length field. *)
Theorem C04_pack_ok_covers : forall L hlen entries p,
  pack_ok L hlen entries = true -> (p < L)%N ->
  (exists off len, In (off, len) entries /\ (off <= p < off + len)%N /\ (32 <= len)%N) \/
  ((L - 4 - hlen <= p < L - 4)%N /\ (32 <= hlen)%N) \/
  (L - 4 <= p < L)%N.
Proof. exact pack_ok_covers. Qed.

Theorem C04_oracle_meaning : forall c,
  check_C04 c = true ->
  (forall f, In f (c_files c) -> file_ok f = true) /\
  NoDup (all_nonces c) /\
  (forall n, In n (all_nonces c) -> length n = 16%nat /\ exists b, In b n /\ b <> 0%N) /\
  (forall h, In h (c_hits c) -> h = (true, true)) /\
  (forall expected collected distinct dups, In (expected, collected, distinct, dups) (c_conc c) ->
     (expected <= collected)%N /\ collected = distinct /\ dups = []).
Proof. exact check_C04_meaning. Qed.

(* Concurrency. [run] accepts every interleaving of the goroutines' ops; the freshness theorems then need the
   draws to be linearisable: with an atomic draw every schedule of any number of goroutines gives distinct
   positions, while a generator whose read and advance steps can interleave does not. *)
Theorem C04_atomic_draws_distinct : forall sched,
  atomic_only sched = true -> NoDup (map snd (ggot (grun sched))).
Proof. exact atomic_draws_distinct. Qed.

Theorem C04_nonatomic_draws_refuted :
  exists sched g1 g2 p, g1 <> g2 /\ In (g1, p) (ggot (grun sched)) /\ In (g2, p) (ggot (grun sched)).
Proof. exact nonatomic_draws_refuted. Qed.

Theorem C04_oracle_pack_meaning : forall L hlen entries hok hn same,
  file_ok (FPack L hlen entries hok hn same) = true ->
  pack_ok L hlen (map (fun e => (fst (fst (fst e)), snd (fst (fst e)))) entries) = true /\ hok = true /\ same = true /\
  forall e, In e entries -> snd (fst e) = true.
Proof. exact file_ok_pack_meaning. Qed.

Theorem C04_nodupb_spec : forall l, nodupb l = true <-> NoDup l.
Proof. exact nodupb_spec. Qed.

Print Assumptions C04_nonce_indices_fresh.
Print Assumptions C04_nonces_distinct.
Print Assumptions C04_files_are_layouts.
Print Assumptions C04_sealed_segments_are_seal_calls.
Print Assumptions C04_pack_ok_covers.
Print Assumptions C04_oracle_meaning.
Print Assumptions C04_oracle_pack_meaning.
Print Assumptions C04_nodupb_spec.
Print Assumptions C04_atomic_draws_distinct.
Print Assumptions C04_nonatomic_draws_refuted.
