(* C40 — incremental backups store the same tree as full backups. Statements only. *)
From Restic Require Import Base.Prelude Model.C40m Proofs.C40p.
From Coq Require Import Sorting.Sorted.
Import C40m.
Open Scope N_scope.

(* For every source tree, every parent tree (equal, older, unrelated, with other types at the same
   names), every index content (parent blobs present or missing) and every --ignore-inode /
   --ignore-ctime setting: if the change-detection inputs are truthful along the pairing the archiver
   uses (a file whose compared fields equal those of the parent node has that node's content), the
   incremental backup produces exactly the tree of a --force backup. *)
Theorem C40_incr_eq_full : forall fl idx it prev,
  truthfulb fl it prev = true -> save fl idx it prev = full fl idx it.
Proof. exact incr_eq_full. Qed.

(* the hypothesis is necessary: same size/mtime/ctime/inode with changed content keeps the stale blobs *)
Theorem C40_truthfulness_needed :
  exists fl idx it prev, truthfulb fl it prev = false /\ save fl idx it prev <> full fl idx it.
Proof. exact truthfulness_needed. Qed.

(* what "unchanged" means, per option set *)
Theorem C40_file_changed_false : forall fl m p, file_changed fl m p = false <->
  exists pm c, p = NFile pm c /\ size m = size pm /\ mtime m = mtime pm
     /\ (ign_ctime fl = true \/ ctime m = ctime pm) /\ (ign_inode fl = true \/ inode pm = inode m).
Proof. exact file_changed_false. Qed.

Theorem C40_cli_flags : forall ii ic,
  ign_inode (flags_of_cli ii ic) = ii /\ ign_ctime (flags_of_cli ii ic) = (ii || ic).
Proof. exact cli_flags. Qed.

(* the shortcut is taken exactly for unchanged files whose blobs are all indexed *)
Theorem C40_unchanged_reuse : forall fl idx m c p,
  file_changed fl m p = false -> all_blobs_present idx p = true ->
  save fl idx (IFile m c) (Some p) = NFile m (content_of p).
Proof. exact unchanged_reuse. Qed.

Theorem C40_missing_blobs_rechunk : forall fl idx m c p,
  all_blobs_present idx p = false -> save fl idx (IFile m c) (Some p) = NFile m c.
Proof. exact missing_blobs_rechunk. Qed.

Theorem C40_changed_reread : forall fl idx m c p,
  file_changed fl m p = true -> save fl idx (IFile m c) (Some p) = NFile m c.
Proof. exact changed_reread. Qed.

(* TreeFinder's forward cursor pairs entries by name: for ascending requests over an ascending tree the
   answers are the lookups by name (never by position) *)
Theorem C40_finder_pairs_by_name : forall names cur, ascending cur ->
  StronglySorted (fun a b => name_ltb a b = true) names ->
  finds cur names = map (fun n => lookup n cur) names.
Proof. exact finds_lookup. Qed.

Theorem C40_skip_iff : forall hp sf te,
  snapshot_saved hp sf te = false <-> hp = true /\ sf = true /\ te = true.
Proof. exact skip_iff. Qed.

Theorem C40_oracle : forall fl idx src parent oi of' ids compl,
  check_C40 (CTree fl idx src parent oi of' ids compl) = true <->
  (truthfulb fl src parent = true -> node_eqb oi of' = true /\ ids = true) /\ compl = true.
Proof. exact oracle_tree. Qed.

Theorem C40_model_passes_oracle : forall fl idx src parent,
  check_C40 (CTree fl idx src parent (save fl idx src parent) (full fl idx src)
                   (node_eqb (save fl idx src parent) (full fl idx src)) true) = true.
Proof. exact model_passes. Qed.

(* a reused content list consists of indexed blobs only *)
Theorem C40_reused_content_indexed : forall fl idx m p h,
  file_changed fl m p = false -> all_blobs_present idx p = true ->
  In h (content_of p) -> mem h idx = true.
Proof. exact reused_content_indexed. Qed.

(* parent selection: --force none; --parent ID that snapshot; otherwise the newest snapshot whose path
   list contains every requested path (a snapshot of other paths is never picked) *)
Theorem C40_select_parent : forall snaps paths force expl,
  (force = true -> select_parent snaps paths force expl = None)
  /\ (force = false -> forall i, expl = Some i -> select_parent snaps paths force expl = Some i)
  /\ (force = false -> expl = None -> forall i, select_parent snaps paths force expl = Some i ->
        exists ps t, In (i, ps, t) snaps /\ subset paths ps = true
          /\ forall j ps' t', In (j, ps', t') snaps -> subset paths ps' = true -> t' <= t)
  /\ (force = false -> expl = None -> select_parent snaps paths force expl = None ->
        forall j ps t, In (j, ps, t) snaps -> subset paths ps = false).
Proof. exact select_parent_spec. Qed.

Print Assumptions C40_select_parent.
Print Assumptions C40_reused_content_indexed.
Print Assumptions C40_incr_eq_full.
Print Assumptions C40_truthfulness_needed.
Print Assumptions C40_file_changed_false.
Print Assumptions C40_cli_flags.
Print Assumptions C40_unchanged_reuse.
Print Assumptions C40_missing_blobs_rechunk.
Print Assumptions C40_changed_reread.
Print Assumptions C40_finder_pairs_by_name.
Print Assumptions C40_skip_iff.
Print Assumptions C40_oracle.
Print Assumptions C40_model_passes_oracle.
