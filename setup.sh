#!/bin/sh
# Build the framework offline from files on disk: full Coq build (.vo) and a warm harness build.
set -e
cd "$(dirname "$0")"
mkdir -p work evidence replay
python3 - <<'PY'
import sys, os
sys.path.insert(0, "lib")
import vlib
vlib.coq_project()
PY
# -k: one broken file must not stop the others; every check rebuilds (and judges) its own cone anyway
timeout 3000 make -C coq -k -j16 >work/setup-coq.log 2>&1 || { echo "WARNING: some Coq files failed to build (each check reports its own cone)"; grep -B2 -A8 "^Error" work/setup-coq.log | head -60; }
python3 - <<'PY'
import sys, os
sys.path.insert(0, "lib")
import vlib
b, log = vlib.build_harness("setup")
print("harness:", b)
if b is None:
    print(log[-3000:])
PY
echo setup done
