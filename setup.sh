#!/bin/sh
# Build the framework offline from files on disk: full Coq build (.vo) and a warm harness build.
set -e
cd "$(dirname "$0")"
mkdir -p work evidence replay
python3 - <<'PY'
import sys, os
sys.path.insert(0, "lib")
import vlib
vlib.coq_project()
PY
timeout 3000 make -C coq -j16 >work/setup-coq.log 2>&1 || { tail -50 work/setup-coq.log; exit 1; }
python3 - <<'PY'
import sys, os
sys.path.insert(0, "lib")
import vlib
b, log = vlib.build_harness("setup")
print("harness:", b)
if b is None:
    print(log[-3000:])
PY
echo setup done
