#!/usr/bin/env python3
"""Run registered checks against seeded (bug-introducing) changes.

  lib/seedrun.py [--scratch] [--tier quick|thorough] [seed-id ...]

Each /verif/seeded/<id>/ holds patch.diff (git diff against /repo), the demonstration, and
meta.json {"property": "Cxx", ...}.  Default mode applies the patch to /repo itself
(git -C /repo apply), runs ./check <property>, and undoes it straight afterwards
(git -C /repo checkout -- . plus removal of files the patch added).  --scratch instead
applies it to a throw-away copy of /repo under /tmp (VERIF_REPO=...), which is safe while
other work is reading /repo.  Prints one line per seed: CAUGHT / MISSED, and writes
seeded/RESULTS.json.  Never leaves /repo modified.
"""
import argparse, json, os, shutil, subprocess, sys, tempfile, time

V = os.path.dirname(os.path.dirname(os.path.abspath(__file__)))
REPO = "/repo"


def sh(cmd, **kw):
    return subprocess.run(cmd, stdout=subprocess.PIPE, stderr=subprocess.STDOUT, text=True, **kw)


def added_files(patch):
    out = []
    prev = None
    for line in open(patch, errors="replace"):
        if line.startswith("--- "):
            prev = line[4:].strip()
        elif line.startswith("+++ ") and prev == "/dev/null":
            p = line[4:].strip()
            if p.startswith("b/"):
                p = p[2:]
            out.append(p)
    return out


def run_one(sid, scratch, tier, extra_props):
    d = os.path.join(V, "seeded", sid)
    meta = json.load(open(os.path.join(d, "meta.json")))
    patch = os.path.join(d, "patch.diff")
    props = [meta["property"]] + [p for p in extra_props if p != meta["property"]]
    res = {"seed": sid, "property": meta["property"], "checks": {}}
    env = dict(os.environ)
    env.setdefault("VERIF_NO_COQCHK", "1")
    if scratch:
        tmp = tempfile.mkdtemp(prefix="seed-%s-" % sid, dir="/tmp")
        repo = os.path.join(tmp, "repo")
        sh(["rsync", "-a", "--exclude", ".git", REPO + "/", repo + "/"])
        p = sh(["patch", "-p1", "-s", "-i", patch], cwd=repo)
        if p.returncode != 0:
            shutil.rmtree(tmp, ignore_errors=True)
            res["error"] = "patch does not apply: " + p.stdout[-500:]
            return res
        env["VERIF_REPO"] = repo
    else:
        st = sh(["git", "-C", REPO, "status", "--porcelain", "--untracked-files=no"]).stdout
        p = sh(["git", "-C", REPO, "apply", patch])
        if p.returncode != 0:
            res["error"] = "patch does not apply: " + p.stdout[-500:]
            return res
    try:
        for prop in props:
            t0 = time.time()
            p = sh([os.path.join(V, "check"), prop, "--tier", tier], cwd=V, env=env)
            viol = [l for l in p.stdout.splitlines() if l.startswith("VIOLATION")]
            res["checks"][prop] = {"rc": p.returncode, "caught": p.returncode == 1 and bool(viol),
                                   "violation": viol[:1], "wall_s": round(time.time() - t0, 1)}
    finally:
        if scratch:
            shutil.rmtree(tmp, ignore_errors=True)
        else:
            sh(["git", "-C", REPO, "checkout", "--", "."])
            for f in added_files(patch):
                try:
                    os.remove(os.path.join(REPO, f))
                except FileNotFoundError:
                    pass
    # restore evidence / generated params of the unchanged tree
    for prop in props:
        for f in ("evidence/%s.json" % prop, "coq/Gen/Params%s.v" % prop):
            if sh(["git", "-C", V, "ls-files", "--error-unmatch", f]).returncode == 0:
                sh(["git", "-C", V, "checkout", "--", f])
    return res


def main():
    ap = argparse.ArgumentParser()
    ap.add_argument("--scratch", action="store_true")
    ap.add_argument("--tier", default="quick")
    ap.add_argument("--also", default="", help="comma list of further properties to run on every seed")
    ap.add_argument("-j", type=int, default=1, help="run seeds of different properties in parallel (scratch mode only)")
    ap.add_argument("seeds", nargs="*")
    a = ap.parse_args()
    seeds = a.seeds or sorted(s for s in os.listdir(os.path.join(V, "seeded")) if os.path.exists(os.path.join(V, "seeded", s, "meta.json")))
    results = []
    extra = [x for x in a.also.split(",") if x]

    def report(s, r):
        if "error" in r:
            print("%-28s ERROR %s" % (s, r["error"]))
            return
        for prop, c in r["checks"].items():
            print("%-28s %-4s %s  (%.0fs) %s" % (s, prop, "CAUGHT" if c["caught"] else "MISSED rc=%d" % c["rc"], c["wall_s"], " ".join(c["violation"])))
        sys.stdout.flush()

    if a.j > 1 and a.scratch:
        from concurrent.futures import ThreadPoolExecutor
        groups = {}
        for s in seeds:
            prop = json.load(open(os.path.join(V, "seeded", s, "meta.json")))["property"]
            groups.setdefault(prop, []).append(s)

        def run_group(ss):
            out = []
            for s in ss:
                r = run_one(s, True, a.tier, extra)
                report(s, r)
                out.append(r)
            return out
        with ThreadPoolExecutor(a.j) as ex:
            for rs in ex.map(run_group, groups.values()):
                results += rs
    else:
        for s in seeds:
            r = run_one(s, a.scratch, a.tier, extra)
            results.append(r)
            report(s, r)
    out = os.path.join(V, "seeded", "RESULTS.json")
    old = {}
    if os.path.exists(out):
        old = {r["seed"]: r for r in json.load(open(out))}
    for r in results:
        old[r["seed"]] = r
    json.dump([old[k] for k in sorted(old)], open(out, "w"), indent=1)


if __name__ == "__main__":
    main()
