#!/usr/bin/env python3
"""Confirm a seeded change produced by an independent sub-agent, then keep it under /verif/seeded/<id>/.

  lib/seedconfirm.py --baseline              run restic's suite once in the confirm worktree (warms the test cache,
                                             records which tests pass here)
  lib/seedconfirm.py <outdir> <seed-id>      e.g. /tmp/seed-out/C28-a C28-childmatch-prefix

Steps (all in the scratch worktree /tmp/wt-confirm, never in /repo): demo passes without the change; patch
applies and builds; demo fails with the change; the existing test suite (go test ./..., cached for packages the
change does not reach) has no test that passed in the baseline run and fails now.  Only then the seed is copied.
The worktree is reset after every seed; remove it at the end with
  git -C /repo worktree remove --force /tmp/wt-confirm
"""
import json, os, shutil, subprocess, sys, time

V = os.path.dirname(os.path.dirname(os.path.abspath(__file__)))
WT = "/tmp/wt-confirm"
BASE = "/tmp/wt-confirm-baseline.json"
ENV = dict(os.environ, GOFLAGS="-mod=mod", GOPROXY="off")
for k in ("GOTOOLCHAIN", "GOSUMDB"):
    ENV.pop(k, None)


def sh(cmd, cwd=WT, timeout=3600, shell=False):
    p = subprocess.run(cmd, cwd=cwd, env=ENV, stdout=subprocess.PIPE, stderr=subprocess.STDOUT, text=True, timeout=timeout, shell=shell)
    return p.returncode, p.stdout


def ensure_wt():
    head = subprocess.run(["git", "-C", "/repo", "rev-parse", "HEAD"], stdout=subprocess.PIPE, text=True).stdout.strip()
    if not os.path.exists(WT):
        subprocess.run(["git", "-C", "/repo", "worktree", "add", "--detach", WT, "HEAD"], check=True, stdout=subprocess.DEVNULL, stderr=subprocess.DEVNULL)
    reset()
    sh(["git", "checkout", "-q", "--detach", head])
    # same emptied testdata files as /repo's working tree
    st = subprocess.run(["git", "-C", "/repo", "status", "--porcelain"], stdout=subprocess.PIPE, text=True).stdout
    for line in st.splitlines():
        if line.startswith(" M "):
            f = line[3:]
            shutil.copy2(os.path.join("/repo", f), os.path.join(WT, f))
    return head


def reset():
    sh(["git", "checkout", "-q", "--", "."])
    sh(["git", "clean", "-fdq"])


def run_suite():
    """go test -json ./... ; returns {pkg::test: 'pass'|'fail'} plus package-level failures."""
    rc, out = sh(["go", "test", "-vet=off", "-json", "-timeout", "25m", "./..."], timeout=5400)
    res = {}
    for line in out.splitlines():
        try:
            e = json.loads(line)
        except Exception:
            continue
        if e.get("Action") in ("pass", "fail") :
            key = e["Package"] + "::" + e.get("Test", "<package>")
            res[key] = e["Action"]
    return res


def main():
    import fcntl
    lockf = open("/tmp/wt-confirm.lock", "w")
    fcntl.flock(lockf, fcntl.LOCK_EX)  # one confirmation at a time in the shared scratch worktree
    if sys.argv[1] == "--baseline":
        head = ensure_wt()
        t0 = time.time()
        res = run_suite()
        json.dump({"head": head, "results": res}, open(BASE, "w"))
        print("baseline at %s: %d pass, %d fail (%.0fs)" % (head[:9], sum(v == "pass" for v in res.values()), sum(v == "fail" for v in res.values()), time.time() - t0))
        print("failing here:", sorted(k for k, v in res.items() if v == "fail")[:40])
        return
    outd, sid = sys.argv[1], sys.argv[2]
    meta = json.load(open(os.path.join(outd, "meta.json")))
    head = ensure_wt()
    base = json.load(open(BASE))
    if base["head"] != head:
        print("WARNING: baseline was taken at", base["head"][:9], "HEAD is", head[:9])
    log = {}
    import re
    demo = meta["demo_run"]
    # seeders sometimes write absolute paths of their own worktree / output dir into the command
    demo = re.sub(r"/tmp/seed-out/[A-Za-z0-9_-]+/demo", WT + "/demo", demo)
    demo = re.sub(r"/tmp/wt-seed-[A-Za-z0-9_-]+", WT, demo)
    # demo directory available as ./demo inside the worktree
    shutil.copytree(os.path.join(outd, "demo"), os.path.join(WT, "demo"))
    # demo files laid out like the repository (demo/internal/x/y_test.go) are also placed there
    for dp, _, fs_ in os.walk(os.path.join(outd, "demo")):
        rel = os.path.relpath(dp, os.path.join(outd, "demo"))
        if rel != "." and os.path.isdir(os.path.join(WT, rel)):
            for f in fs_:
                if f.endswith(".go"):
                    shutil.copy2(os.path.join(dp, f), os.path.join(WT, rel, f))
    rc0, out0 = sh(["timeout", "1500", "sh", "-c", demo])
    log["demo_without_change"] = {"rc": rc0, "tail": out0[-600:]}
    rc, out = sh(["git", "apply", os.path.join(outd, "patch.diff")])
    rebased = False
    if rc != 0:
        # /repo HEAD moved since the seed was written (fix commits): try with fuzz, keep the rebased diff
        rc, out2 = sh(["patch", "-p1", "-F3", "--no-backup-if-mismatch", "-i", os.path.join(outd, "patch.diff")])
        if rc != 0:
            print("patch does not apply:", out, out2[-500:])
            reset(); return 1
        rebased = True
        _, newdiff = sh(["git", "diff"])
    rcb, outb = sh(["go", "build", "./cmd/...", "./internal/..."])
    log["build_with_change"] = {"rc": rcb, "tail": outb[-600:]}
    rc1, out1 = sh(["timeout", "1500", "sh", "-c", demo])
    log["demo_with_change"] = {"rc": rc1, "tail": out1[-800:]}
    # remove demo files (everything untracked) but keep the patch
    sh(["git", "clean", "-fdq"])
    t0 = time.time()
    res = run_suite()
    regress = sorted(k for k, v in res.items() if v == "fail" and base["results"].get(k) == "pass")
    # timing-sensitive tests fail under load: a regression counts only if it also fails when re-run alone
    still = []
    for k in regress:
        pkg, test = k.split("::")
        if test == "<package>":
            continue
        top = test.split("/")[0]
        ok_alone = False
        for _ in range(2):
            rcx, _o = sh(["go", "test", "-vet=off", "-count=1", "-run", "^%s$" % top, pkg.replace("github.com/restic/restic", ".")], timeout=1800)
            if rcx == 0:
                ok_alone = True
                break
        if not ok_alone:
            still.append(k)
    log["flaky_under_load"] = [k for k in regress if k not in still and not k.endswith("<package>")]
    regress = still
    log["suite_with_change"] = {"pass": sum(v == "pass" for v in res.values()), "fail": sum(v == "fail" for v in res.values()),
                                "regressions_vs_baseline": regress, "wall_s": round(time.time() - t0)}
    reset()
    ok = rc0 == 0 and rcb == 0 and rc1 != 0 and not regress
    print(json.dumps(log, indent=1)[:3000])
    print("CONFIRMED" if ok else "REJECTED", sid)
    if ok:
        dst = os.path.join(V, "seeded", sid)
        shutil.rmtree(dst, ignore_errors=True)
        shutil.copytree(outd, dst)
        if rebased:
            shutil.copy2(os.path.join(dst, "patch.diff"), os.path.join(dst, "patch.orig.diff"))
            open(os.path.join(dst, "patch.diff"), "w").write(newdiff)
        meta["confirmed_by_coordinator"] = {"repo_head": head, "worktree": WT, "commands": [
            "demo without change: " + demo + " -> rc 0",
            "git apply patch.diff && go build ./... -> rc 0",
            "demo with change -> rc %d" % rc1,
            "go test -vet=off -json -timeout 25m ./... with change: %d pass, no test that passes on the unchanged tree fails" % log["suite_with_change"]["pass"]],
            "demo_failure_tail": out1[-400:]}
        json.dump(meta, open(os.path.join(dst, "meta.json"), "w"), indent=1)
    return 0 if ok else 1


if __name__ == "__main__":
    sys.exit(main())
