#!/usr/bin/env python3
"""lib/mkseeder.py Cxx [tag]: create a scratch git worktree of /repo and a prompt file for an independent
seeding sub-agent (which gets only the property text, nothing from /verif). Prints the prompt path."""
import json, os, subprocess, sys
pid = sys.argv[1]
tag = sys.argv[2] if len(sys.argv) > 2 else "a"
prop = next(json.loads(l) for l in open("/verif/properties.jsonl") if json.loads(l)["id"] == pid)
wt = "/tmp/wt-seed-%s-%s" % (pid, tag)
outd = "/tmp/seed-out/%s-%s" % (pid, tag)
os.makedirs("/tmp/seed-prompts", exist_ok=True)
os.makedirs(outd, exist_ok=True)
if not os.path.exists(wt):
    subprocess.run(["git", "-C", "/repo", "worktree", "add", "--detach", wt, "HEAD"], check=True, stdout=subprocess.DEVNULL, stderr=subprocess.DEVNULL)
txt = """You are helping to evaluate verification tooling for restic (a Go backup program). Your task is independent: you are given ONE semantic property of restic and your own scratch git worktree of the restic repository at %(wt)s. Work ONLY inside %(wt)s and %(outd)s. Do not read or touch /repo, /verif or any other worktree (what you write must be independent of what exists elsewhere).

The property (this is all you get):
%(prop)s

Task: produce a change to restic's (non-test) source code that BREAKS this property while restic still compiles and its existing test suite still passes, together with a demonstration (a new Go test file or a small program) that FAILS with your change and PASSES without it.

Requirements for the change:
- Realistic: the kind of bug a developer could plausibly introduce or a refactoring could leave behind (off-by-one, dropped or weakened check, wrong comparison or index, reordered steps, missed branch, stale variable, error swallowed, two cooperating sites that each look fine alone). No sabotage that is obviously silly, no `if input == magic` special-casing, no changes to tests or testdata, no build-tag or dependency changes.
- Subtle: it must need something specific to manifest — a particular interleaving, a crash or fault at a particular point, a multi-step sequence of operations, an unusual input or boundary value, or two cooperating sites — NOT something ordinary use (a plain backup/restore/forget run, or the existing tests) would expose at once.
- It must clearly violate the property as stated (explain why in one or two sentences), not merely change behaviour.
- Small: a few lines in one to three files.

Procedure:
1. Read the property, find the code (anchors are hints), understand the existing tests around it.
2. Make the change in %(wt)s. Build: `cd %(wt)s && GOFLAGS=-mod=mod GOPROXY=off go build ./...` (leave GOTOOLCHAIN and GOSUMDB unset; the sandbox is offline; first compile of a package is slow, later ones are cached).
3. Run the existing tests of every package you touched and of the packages that use it most directly (always include `./cmd/restic/` when command behaviour could be affected): `GOFLAGS=-mod=mod GOPROXY=off go test -vet=off -count=1 -timeout 25m <pkgs>`. All must pass with your change. If time permits run `./...`.
4. Write the demonstration; run it with the change (must fail) and without (do NOT use `git stash` — the stash is shared between all worktrees of this repository and other agents use it concurrently; instead `git diff > /tmp/mychange.diff && git apply -R /tmp/mychange.diff`, run the demo, then `git apply /tmp/mychange.diff`; must pass).
5. Deliver into %(outd)s/ : `patch.diff` (output of `git diff` for the source change ONLY — no test files, no demo), `demo/` (the test file(s) or program, with the package directory they belong in noted), and `meta.json` = {"property": "%(pid)s", "summary": "<what was changed>", "why_violates": "...", "needs": "<what it needs in order to manifest>", "files_changed": [...], "demo_run": "<exact command>", "demo_with_change": "<observed failure line>", "demo_without_change": "PASS", "tests_run": "<packages tested with the change and result>"}.
6. If you have time left, produce a second, mechanically different change for the same property in %(outd)s-2/ (same layout; reset the worktree with `git checkout -- . && git clean -fdq` between the two).
7. Leave the worktree clean at the end (`git checkout -- . && git clean -fdq`). Final message: 5 lines per change (what, why subtle, demo result, tests run).
Budget: about 60-90 minutes. Run anything that might hang under `timeout`.
""" % {"wt": wt, "outd": outd, "pid": pid, "prop": json.dumps({k: prop[k] for k in ("id", "title", "statement", "quantifier", "why_tests_cant", "anchors")}, indent=1)}
import glob
tried = []
for m in sorted(glob.glob("/verif/seeded/%s-*/meta.json" % pid)):
    try:
        tried.append("- " + json.load(open(m)).get("summary", "")[:300])
    except Exception:
        pass
if tried:
    txt += "\nALREADY TRIED by earlier rounds (do NOT repeat these or close variants; find a different mechanism, a different code site, or a different kind of trigger — e.g. if earlier ones needed an unusual input, look for one that needs an interleaving, a fault at a specific point, or a multi-step history):\n" + "\n".join(tried) + "\n"
pp = "/tmp/seed-prompts/%s-%s.txt" % (pid, tag)
open(pp, "w").write(txt)
print(pp)
