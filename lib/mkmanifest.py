#!/usr/bin/env python3
"""Assemble MANIFEST.json from props/Cxx.json fragments."""
import glob, json, os, subprocess
V = os.path.dirname(os.path.dirname(os.path.abspath(__file__)))
props = [json.loads(l) for l in open(os.path.join(V, "properties.jsonl"))]
def committed(rel):
    return subprocess.run(["git", "-C", V, "cat-file", "-e", "HEAD:" + rel], stderr=subprocess.DEVNULL).returncode == 0
frags = {}
for f in sorted(glob.glob(os.path.join(V, "props", "C*.json"))):
    j = json.load(open(f))
    pid = j["property_id"]
    # claim only what is committed (builders commit a property when its check passes)
    if all(committed(r) for r in ("props/%s.json" % pid, "coq/Properties/%s.v" % pid, "evidence/%s.json" % pid)):
        frags[pid] = j
checks, na = [], []
for p in props:
    pid = p["id"]
    f = frags.get(pid)
    if f is None or f.get("not_applicable"):
        na.append({"property_id": pid, "reason": (f or {}).get("not_applicable", "no check built yet in this round; design in DESIGN.md §5 %s" % pid)})
        continue
    checks.append({
        "property_id": pid,
        "quick_cmd": "./check %s --tier quick" % pid,
        "thorough_cmd": "./check %s --tier thorough" % pid,
        "evidence_file": "/verif/evidence/%s.json" % pid,
        "replay_cmd_template": "./check %s --replay {path}" % pid,
        "engine": "coq+harness",
        "level_claimed": {"category": "proof", "text": f["level_text"], "design_ref": f.get("design_ref", "DESIGN.md §5 " + pid)},
        "level_note": f["level_note"] + (" PARTIAL: " + "; ".join(f["partial"]) if f.get("partial") else ""),
        "technique": f["technique"],
    })
m = {
    "version": 1,
    "setup_cmd": "./setup.sh",
    "hooks": {
        "guard": "verif",
        "enable": "cd /repo && GOFLAGS=-mod=mod GOPROXY=off go build -tags verif -overlay /verif/work/overlay-all.json ./cmd/restic  (harness sources live in /verif/harness/overlay and are injected with -overlay; /repo carries no hook code)",
        "baseline_off_cmd": "cd /repo && GOFLAGS=-mod=mod GOPROXY=off go test -vet=off -count=1 -timeout 25m ./...",
        "source_commits": [],
        "add_only": True,
    },
    "engines": [
        {"name": "coq+harness", "path": "/verif/check", "serves_properties": [c["property_id"] for c in checks],
         "kind_free_text": "Coq 8.16 development (coq/) with hand-written executable models + theorems; Go harness injected into /repo via -overlay drives the real code, its observables are evaluated by vm_compute inside Coq against the model and a verified boolean oracle"}
    ],
    "checks": checks,
    "not_applicable": na,
    "notes": "All checks: ./check Cxx [--tier quick|thorough] [--seed N | VERIF_SEED]. Fix commits in /repo are listed in known_findings.json (status fixed).",
}
json.dump(m, open(os.path.join(V, "MANIFEST.json"), "w"), indent=1)
print("checks:", len(checks), "not_applicable:", len(na))
