#!/bin/bash
# lib/seedq.sh "<outdir-name> <seed-id>" ... : confirm each seed serially, then run the owning check against it (scratch copy).
# Appends one line per step to /tmp/seedq.log.
cd /verif
for x in "$@"; do
  set -- $x
  if timeout 5000 python3 lib/seedconfirm.py /tmp/seed-out/$1 $2 > /tmp/seedconfirm3-$2.log 2>&1; then
    echo "CONFIRMED $2" >> /tmp/seedq.log
    VERIF_DEV=1 timeout 5000 python3 lib/seedrun.py --scratch $2 >> /tmp/seedq.log 2>&1
  else
    echo "REJECTED $2 (see /tmp/seedconfirm3-$2.log)" >> /tmp/seedq.log
  fi
done
