#!/usr/bin/env python3
"""lib/runall.py [--tier quick] [-j N] [Cxx ...]: run the registered checks, print one line each."""
import argparse, json, os, subprocess, sys, time
from concurrent.futures import ThreadPoolExecutor
V = os.path.dirname(os.path.dirname(os.path.abspath(__file__)))
ap = argparse.ArgumentParser()
ap.add_argument("--tier", default="quick")
ap.add_argument("-j", type=int, default=1)
ap.add_argument("props", nargs="*")
a = ap.parse_args()
m = json.load(open(os.path.join(V, "MANIFEST.json")))
props = a.props or [c["property_id"] for c in m["checks"]]
def one(p):
    t0 = time.time()
    r = subprocess.run([os.path.join(V, "check"), p, "--tier", a.tier], cwd=V, stdout=subprocess.PIPE, stderr=subprocess.PIPE, text=True)
    lines = [l for l in r.stdout.splitlines() if l.startswith(("VIOLATION", "KNOWN-FINDING", "OK "))]
    return p, r.returncode, time.time() - t0, lines, r.stderr[-1500:]
bad = 0
with ThreadPoolExecutor(a.j) as ex:
    for p, rc, dt, lines, err in ex.map(one, props):
        print("%s rc=%d %.0fs %s" % (p, rc, dt, " | ".join(l[:160] for l in lines)))
        if rc != 0:
            bad += 1
            print("   stderr tail:", err.replace("\n", "\n   "))
        sys.stdout.flush()
print("failed:", bad, "of", len(props))
