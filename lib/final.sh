#!/bin/bash
# Final pass on a quiet machine: full Coq build, every check on the unchanged tree (fresh evidence),
# every seeded change against its check (scratch copies), manifest + DESIGN, commit.
cd /verif
set -x
git -C /repo status --short | grep -v testdata
./setup.sh > work/final-setup.log 2>&1; tail -3 work/final-setup.log
grep -c "^Error" work/setup-coq.log
python3 lib/runall.py -j 3 > work/final-runall.log 2>&1; tail -3 work/final-runall.log
grep -v "rc=0" work/final-runall.log | head -20
