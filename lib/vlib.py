#!/usr/bin/env python3
"""Driver library for /verif checks: build harness from /repo's working tree (Go overlay),
build the Coq cone of a property, run the engine (implementation side), evaluate the
generated cases against the proved model inside Coq, write evidence, decide the verdict."""
import fcntl
import glob
import hashlib
import json
import os
import re
import shutil
import subprocess
import sys
import time

VERIF = os.path.dirname(os.path.dirname(os.path.abspath(__file__)))
REPO = os.environ.get("VERIF_REPO", "/repo")
WORK = os.path.join(VERIF, "work")
COQ = os.path.join(VERIF, "coq")
OVERLAY = os.path.join(VERIF, "harness", "overlay")
GOENV = dict(os.environ, GOFLAGS="-mod=mod", GOPROXY="off")
for k in ("GOTOOLCHAIN", "GOSUMDB"):
    GOENV.pop(k, None)

ALLOWED_AXIOMS = {
    # stdlib axioms that may appear; each use is named in the evidence
    "functional_extensionality_dep", "eq_rect_eq", "JMeq_eq", "classic",
    "proof_irrelevance", "propositional_extensionality",
}
GATE_RE = re.compile(r"\b(Admitted|admit|Axiom|Axioms|Parameter|Parameters|Conjecture|Conjectures|bypass_check)\b|Unset\s+Guard|Unset\s+Positivity|Unset\s+Universe|Admit\s+Obligations|type-in-type|impredicative-set")
STMT_RE = re.compile(r"^\s*(?:Local\s+|Global\s+|#\[[^\]]*\]\s*)*(Theorem|Lemma|Corollary|Example|Fact|Remark|Proposition)\s+([A-Za-z0-9_']+)", re.M)


def log(*a):
    print(*a, file=sys.stderr, flush=True)


class Lock:
    def __init__(self, name):
        os.makedirs(WORK, exist_ok=True)
        self.path = os.path.join(WORK, name + ".lock")

    def __enter__(self):
        self.f = open(self.path, "w")
        fcntl.flock(self.f, fcntl.LOCK_EX)

    def __exit__(self, *a):
        fcntl.flock(self.f, fcntl.LOCK_UN)
        self.f.close()


def strip_comments(src):
    out, depth, i, n = [], 0, 0, len(src)
    instr = False
    while i < n:
        if not instr and src.startswith("(*", i):
            depth += 1
            i += 2
            continue
        if not instr and depth and src.startswith("*)", i):
            depth -= 1
            i += 2
            continue
        if depth == 0:
            if src[i] == '"':
                instr = not instr
            out.append(src[i])
        i += 1
    return "".join(out)


# ---------------------------------------------------------------- harness build

def overlay_files(prop=None):
    """All overlay .go files, or (prop given) only core/lib files and that property's files."""
    m = {}
    for d, _, fs in os.walk(OVERLAY):
        for f in fs:
            if not f.endswith(".go"):
                continue
            if prop is not None:
                base = f.lower()
                mm = re.match(r"zz_verif_(c\d+)", base)
                if mm and mm.group(1) != prop.lower():
                    continue
            p = os.path.join(d, f)
            m[os.path.join(REPO, os.path.relpath(p, OVERLAY))] = p
    return m


def build_harness(prop):
    """Build the real restic code + overlay harness from /repo's current working tree.
    Returns (binary_path or None, log).  Normal mode: one binary with every engine (shared
    build cache across checks), falling back to this property's engine alone when some other
    engine no longer compiles.  VERIF_DEV=1 (development, several people editing engines at
    once): this property's engine alone, under a per-property lock."""
    dev = os.environ.get("VERIF_DEV") == "1"
    with Lock("gobuild-" + prop if dev else "gobuild"):
        os.makedirs(WORK, exist_ok=True)
        logs = []
        for scope in ((prop,) if dev else (None, prop)):
            tag = "all" if scope is None else scope
            ov = os.path.join(WORK, "overlay-%s.json" % tag)
            with open(ov, "w") as f:
                json.dump({"Replace": overlay_files(scope)}, f, indent=1)
            out = os.path.join(WORK, "restic-verif-%s" % tag)
            cmd = ["go", "build", "-p", "4", "-trimpath", "-tags", "verif", "-overlay", ov, "-o", out, "./cmd/restic"]
            t0 = time.time()
            p = subprocess.run(cmd, cwd=REPO, env=GOENV, stdout=subprocess.PIPE, stderr=subprocess.STDOUT, text=True, timeout=1500)
            logs.append("$ %s  (%.1fs, rc=%d)\n%s" % (" ".join(cmd), time.time() - t0, p.returncode, p.stdout[-4000:]))
            if p.returncode == 0:
                # private copy so a later build for another property cannot swap the binary under us
                mine = os.path.join(WORK, prop, "restic-verif")
                os.makedirs(os.path.dirname(mine), exist_ok=True)
                shutil.copy2(out, mine)
                return mine, "\n".join(logs)
        return None, "\n".join(logs)


def regen_params(binary, prop):
    """Gen/Params<prop>.v is regenerated from the running code; rewritten only when changed."""
    p = subprocess.run([binary, "params", prop], env=dict(os.environ, RESTIC_VERIF="1"), stdout=subprocess.PIPE, stderr=subprocess.PIPE, text=True, timeout=120)
    if p.returncode != 0:
        return False, p.stderr
    if not p.stdout.strip():
        return True, "no parameters registered"
    path = os.path.join(COQ, "Gen", "Params%s.v" % prop)
    old = open(path).read() if os.path.exists(path) else None
    if old != p.stdout:
        with open(path, "w") as f:
            f.write(p.stdout)
        return True, "Params%s.v changed" % prop
    return True, "Params%s.v unchanged" % prop


# ---------------------------------------------------------------- Coq build

def coq_project():
    with Lock("coqmake"):
        files = []
        for sub in ("Base", "Gen", "Model", "Proofs", "Properties"):
            files += sorted(glob.glob(os.path.join(COQ, sub, "*.v")))
        txt = "-Q . Restic\n" + "\n".join(os.path.relpath(f, COQ) for f in files) + "\n"
        cp = os.path.join(COQ, "_CoqProject")
        old = open(cp).read() if os.path.exists(cp) else None
        if old != txt or not os.path.exists(os.path.join(COQ, "Makefile")):
            with open(cp, "w") as f:
                f.write(txt)
            subprocess.run(["coq_makefile", "-f", "_CoqProject", "-o", "Makefile"], cwd=COQ, check=True, stdout=subprocess.DEVNULL)


def coq_deps(prop):
    """Transitive cone (list of .v files, relative to coq/) of Properties/<prop>.v."""
    p = subprocess.run(["coqdep", "-Q", ".", "Restic"] + [os.path.relpath(f, COQ) for f in glob.glob(os.path.join(COQ, "*", "*.v"))],
                       cwd=COQ, stdout=subprocess.PIPE, stderr=subprocess.DEVNULL, text=True)
    dep = {}
    for line in p.stdout.splitlines():
        if ":" not in line:
            continue
        lhs, rhs = line.split(":", 1)
        tgt = lhs.split()[0]
        if not tgt.endswith(".vo"):
            continue
        src = tgt[:-1]
        dep[src] = [x[:-1] for x in rhs.split() if x.endswith(".vo") and not x.startswith("/")]
    root = "Properties/%s.v" % prop
    seen, todo = [], [root]
    while todo:
        x = todo.pop()
        if x in seen:
            continue
        seen.append(x)
        todo += dep.get(x, [])
    return sorted(seen)


def build_coq(prop, clean=False):
    """Returns dict(ok, log, assumptions{thm: text}, obligations, discharged, theorems, gate_hits, cone)."""
    coq_project()
    res = {"ok": False, "log": "", "assumptions": {}, "obligations": 0, "discharged": 0, "theorems": [], "gate_hits": [], "cone": []}
    cone = coq_deps(prop)
    res["cone"] = cone
    # source gate
    for f in cone:
        src = strip_comments(open(os.path.join(COQ, f)).read())
        for m in GATE_RE.finditer(src):
            res["gate_hits"].append("%s: %s" % (f, m.group(0)))
        # Variable/Hypothesis outside a Section
        stack = []
        for line in src.splitlines():
            s = line.strip()
            if re.match(r"Section\s+\w+", s):
                stack.append("S")
            elif re.match(r"Module\s+(Type\s+)?\w+", s) and ":=" not in s:
                stack.append("M")
            elif re.match(r"End\s+\w+\s*\.", s) and stack:
                stack.pop()
            if "S" not in stack and re.match(r"(Variable|Variables|Hypothesis|Hypotheses|Context)\b", s):
                res["gate_hits"].append("%s: %s outside a Section" % (f, s[:40]))
        names = STMT_RE.findall(src)
        res["obligations"] += len(names)
        res["discharged"] += len(re.findall(r"\b(Qed|Defined)\s*\.", src))
    with Lock("coqmake"):
        if clean:
            # only this property's own files: shared files (Base/, S_*, other properties' models in the
            # cone) may be in use by a concurrently running check; make rebuilds them when out of date
            for f in [f for f in cone if os.path.basename(f).startswith(prop)]:
                for ext in ("o", "ok", "os"):
                    try:
                        os.remove(os.path.join(COQ, f + ext))
                    except FileNotFoundError:
                        pass
        t0 = time.time()
        p = subprocess.run(["timeout", "1500", "make", "-j16", "Properties/%s.vo" % prop], cwd=COQ, stdout=subprocess.PIPE, stderr=subprocess.STDOUT, text=True)
        res["log"] = "$ make -j16 Properties/%s.vo (%.1fs rc=%d)\n%s" % (prop, time.time() - t0, p.returncode, p.stdout[-6000:])
        if p.returncode != 0:
            return res
        # re-run the property file itself to capture Print Assumptions output fresh
        p = subprocess.run(["timeout", "600", "coqc", "-Q", ".", "Restic", "Properties/%s.v" % prop], cwd=COQ, stdout=subprocess.PIPE, stderr=subprocess.STDOUT, text=True)
        res["log"] += "\n$ coqc Properties/%s.v rc=%d\n%s" % (prop, p.returncode, p.stdout[-3000:])
        if p.returncode != 0:
            return res
    src = strip_comments(open(os.path.join(COQ, "Properties", prop + ".v")).read())
    thms = [n for _, n in STMT_RE.findall(src)]
    res["theorems"] = thms
    printed = re.findall(r"Print\s+Assumptions\s+([A-Za-z0-9_'.]+)\s*\.", src)
    # split output into blocks: each block is either 'Closed under the global context' or 'Axioms:\n...'
    blocks = re.split(r"(?=^Closed under the global context|^Axioms:|^Section Variables:)", p.stdout, flags=re.M)
    blocks = [b.strip() for b in blocks if b.strip().startswith(("Closed", "Axioms", "Section"))]
    for i, name in enumerate(printed):
        res["assumptions"][name] = blocks[i] if i < len(blocks) else "MISSING"
    bad = []
    for name in thms:
        if name not in res["assumptions"]:
            bad.append("%s: no Print Assumptions" % name)
    for name, b in res["assumptions"].items():
        if b.startswith("Closed"):
            continue
        axs = re.findall(r"^([A-Za-z0-9_'.]+)\s*:", b, flags=re.M)
        for a in axs:
            if a.split(".")[-1] not in ALLOWED_AXIOMS:
                bad.append("%s depends on %s" % (name, a))
    res["assumption_problems"] = bad
    res["ok"] = (not bad) and (not res["gate_hits"]) and res["obligations"] > 0 and res["discharged"] >= res["obligations"]
    return res


# ---------------------------------------------------------------- engine + cases

def run_engine(binary, prop, tier, seed, only=None, timeout=3000):
    d = os.path.join(WORK, prop, "run-%s" % tier)
    shutil.rmtree(d, ignore_errors=True)
    os.makedirs(d)
    cmd = [binary, prop, tier, str(seed), d] + ([str(only)] if only is not None else [])
    env = dict(os.environ, RESTIC_VERIF="1", VERIF_WORK=d, RESTIC_CACHE_DIR=os.path.join(d, "cache"))
    t0 = time.time()
    try:
        p = subprocess.run(cmd, env=env, cwd=d, stdout=subprocess.PIPE, stderr=subprocess.PIPE, text=True, timeout=timeout)
        rc, err = p.returncode, (p.stdout[-2000:] + p.stderr[-4000:])
    except subprocess.TimeoutExpired as e:
        rc, err = 124, "engine timeout"
    return d, rc, err, time.time() - t0


def eval_cases(d, timeout=3000):
    """Run coqc on the generated cases.v. Returns (ok, bad list[(id, code)], log)."""
    t0 = time.time()
    try:
        p = subprocess.run(["coqc", "-Q", COQ, "Restic", "cases.v"], cwd=d, stdout=subprocess.PIPE, stderr=subprocess.STDOUT, text=True, timeout=timeout)
    except subprocess.TimeoutExpired:
        return False, [], "coqc cases.v timeout"
    out = p.stdout
    if p.returncode != 0:
        return False, [], out[-4000:]
    meta = json.load(open(os.path.join(d, "meta.json")))
    nprinted = len(re.findall(r"^bad_\d+ =", out, flags=re.M))
    if nprinted != meta["chunks"]:
        return False, [], "expected %d result chunks, got %d\n%s" % (meta["chunks"], nprinted, out[-2000:])
    flat = " ".join(out.split())
    bad = []
    nlists = 0
    for m in re.finditer(r"bad_\d+ = (?:\[(.*?)\]|nil)\s*: list", flat):
        nlists += 1
        body = (m.group(1) or "").strip()
        pairs = re.findall(r"\(\s*(\d+)(?:%\w+)?\s*,\s*(\d+)(?:%\w+)?\s*\)", body)
        if body and not pairs:
            return False, [], "cannot parse non-empty result list: %s" % body[:300]
        if body and len(pairs) != body.count("("):
            return False, [], "result list parsed only partly: %s" % body[:300]
        bad += [(int(a), int(b)) for a, b in pairs]
    if nlists != meta["chunks"]:
        return False, [], "parsed %d result lists, expected %d\n%s" % (nlists, meta["chunks"], out[-2000:])
    return True, bad, "coqc cases.v ok (%.1fs)" % (time.time() - t0)


def load_known(prop):
    out = []
    paths = [os.path.join(VERIF, "known_findings.json")] + sorted(glob.glob(os.path.join(VERIF, "known_findings.d", "*.json")))
    for path in paths:
        if os.path.exists(path):
            out += [f for f in json.load(open(path))["findings"] if f["property"] == prop and f.get("status") == "known"]
    return out


def match_known(known, kind, code):
    for k in known:
        if re.search(k["kind_regex"], kind) and (k.get("code") in (None, code)):
            return k
    return None


# ---------------------------------------------------------------- main check

def prop_meta(prop):
    return json.load(open(os.path.join(VERIF, "props", prop + ".json")))


def write_evidence(prop, ev):
    os.makedirs(os.path.join(VERIF, "evidence"), exist_ok=True)
    with open(os.path.join(VERIF, "evidence", prop + ".json"), "w") as f:
        json.dump(ev, f, indent=1, sort_keys=True)


def write_replay(prop, seed, tier, what, payload):
    os.makedirs(os.path.join(VERIF, "replay"), exist_ok=True)
    path = os.path.join(VERIF, "replay", "%s-%s-%s.json" % (prop, seed, what))
    payload = dict(payload, property=prop, seed=seed, tier=tier)
    with open(path, "w") as f:
        json.dump(payload, f, indent=1)
    return path


def explain_case(d, cid):
    terms = {c["id"]: c for c in json.load(open(os.path.join(d, "terms.json")))}
    return terms.get(cid, {})


def check(prop, tier="quick", seed=None, replay=None):
    t_start = time.time()
    if seed is None:
        seed = int(os.environ.get("VERIF_SEED", "1") or "1")
    meta = prop_meta(prop)
    known = load_known(prop)
    only = None
    if replay:
        r = json.load(open(replay))
        seed, tier, only = r["seed"], r["tier"], r.get("case_id")
    violations = []       # (replay_path, suffix)
    known_hits = {}
    notes = []

    # 1. harness from the current working tree
    binary, blog = build_harness(prop)
    harness_ok = binary is not None
    if harness_ok and meta.get("uses_params", True):
        ok, msg = regen_params(binary, prop)
        notes.append(msg if ok else "params failed: " + msg)

    # 2. proofs
    coq = build_coq(prop, clean=(tier == "thorough"))
    coqchk_log = None
    if coq["ok"] and tier == "thorough" and os.environ.get("VERIF_NO_COQCHK") != "1":
        with Lock("coqmake"):
            p = subprocess.run(["timeout", "3000", "coqchk", "-silent", "-o", "-Q", ".", "Restic", "Restic.Properties." + prop], cwd=COQ, stdout=subprocess.PIPE, stderr=subprocess.STDOUT, text=True)
        coqchk_log = p.stdout[-3000:]
        if p.returncode != 0:
            coq["ok"] = False
            coq["log"] += "\ncoqchk failed:\n" + coqchk_log

    # 3. correspondence + oracle on implementation observables
    engine = {"evaluations": 0, "distinct_nontrivial": 0, "distribution": {}, "samples": [], "info": {}}
    mismatches, oracle_fail = [], []
    corr_ok = False
    corr_log = ""

    def run_tier(t, s, only_id=None):
        nonlocal corr_log
        d, rc, err, dt = run_engine(binary, prop, t, s, only_id, timeout=meta.get("engine_timeout_" + t, 3000))
        if rc != 0:
            corr_log += "engine rc=%d: %s\n" % (rc, err)
            return None
        ok, bad, clog = eval_cases(d)
        corr_log += clog + "\n"
        if not ok:
            return None
        m = json.load(open(os.path.join(d, "meta.json")))
        return d, m, bad

    if harness_ok:
        r = run_tier(tier, seed, only)
        if r is not None:
            d, m, bad = r
            corr_ok = True
            cases = {c["id"]: c for c in m["cases"]}
            engine.update(evaluations=m["evaluations"], distinct_nontrivial=m["distinct_nontrivial"], distribution=m["distribution"], info=m.get("info", {}))
            ids = sorted(cases)
            pick = ids[:3] + ids[len(ids) // 2: len(ids) // 2 + 2] + ids[-2:]
            engine["samples"] = [{"case": i, "kind": cases[i]["kind"], "input_and_observation": cases[i]["human"]} for i in dict.fromkeys(pick)]
            for cid, code in bad:
                c = cases[cid]
                k = match_known(known, c["kind"], code)
                if k is not None:
                    known_hits.setdefault(k["id"], (k, c))
                    continue
                (mismatches if code == 1 else oracle_fail).append((cid, code, c))
            if oracle_fail:
                oracle_fail.sort(key=lambda x: (x[2]["size"], x[0]))
                cid, code, c = oracle_fail[0]
                path = write_replay(prop, seed, tier, "case%d" % cid, {
                    "case_id": cid, "kind": c["kind"], "oracle_code": code, "input_and_observation": c["human"],
                    "coq_term": explain_case(d, cid).get("term"), "failing_cases": len(oracle_fail),
                    "meaning": "verified oracle check_%s is false on the implementation's observable (code>=2: property clause violated)" % prop})
                violations.append((path, ""))

    # 4. broken proof / correspondence without an oracle failure: search, then report
    broken = []
    if not coq["ok"]:
        broken.append("proof obligations of Properties/%s.v no longer check" % prop)
    if not harness_ok:
        broken.append("harness no longer builds against /repo (export wrappers / call sites changed)")
    elif not corr_ok:
        broken.append("correspondence run failed (engine or cases.v evaluation)")
    elif mismatches:
        broken.append("model and implementation disagree on %d case(s) while the oracle holds" % len(mismatches))
    if broken and not violations:
        found = None
        if harness_ok and tier == "quick" and not replay:
            for s2 in (seed + 1000,):
                r = run_tier("thorough", s2)
                if r is None:
                    continue
                d2, m2, bad2 = r
                cases2 = {c["id"]: c for c in m2["cases"]}
                of = [(cid, code, cases2[cid]) for cid, code in bad2 if code >= 2 and not match_known(known, cases2[cid]["kind"], code)]
                if of:
                    of.sort(key=lambda x: (x[2]["size"], x[0]))
                    found = (s2, d2, of[0])
                    break
        if found:
            s2, d2, (cid, code, c) = found
            path = write_replay(prop, s2, "thorough", "case%d" % cid, {
                "case_id": cid, "kind": c["kind"], "oracle_code": code, "input_and_observation": c["human"],
                "coq_term": explain_case(d2, cid).get("term"), "broken": broken})
            violations.append((path, ""))
        else:
            first = None
            if mismatches:
                mismatches.sort(key=lambda x: (x[2]["size"], x[0]))
                cid, code, c = mismatches[0]
                first = {"case_id": cid, "kind": c["kind"], "input_and_observation": c["human"], "coq_term": explain_case(d, cid).get("term")}
            path = write_replay(prop, seed, tier, "broken", {
                "broken": broken, "first_diverging_case": first,
                "theorems": coq["theorems"], "coq_log": coq["log"][-3000:] if not coq["ok"] else None,
                "gate_hits": coq["gate_hits"], "assumption_problems": coq.get("assumption_problems"),
                "harness_log": blog[-3000:] if not harness_ok else None, "correspondence_log": corr_log[-3000:]})
            violations.append((path, " no-failing-input-found"))

    # 5. evidence
    tb = [
        "Coq 8.16.1 kernel (coqc); vm_compute used, native_compute not used" + ("; coqchk re-check passed" if coqchk_log is not None and coq["ok"] else ""),
        "Print Assumptions: " + "; ".join("%s: %s" % (k, " ".join(v.split())[:200]) for k, v in coq["assumptions"].items()),
        "correspondence check: Go harness (overlay, tag verif) built from /repo working tree drives the real code; observables evaluated in Coq by vm_compute against the model and the verified oracle",
        "hand-written model of: " + meta.get("modelled", ""),
    ] + meta.get("section_hypotheses", [])
    ev = {
        "property_id": prop, "tier": tier, "seed": seed, "level": "proof",
        "coverage": {
            "obligations": coq["obligations"], "discharged": coq["obligations"] if coq["ok"] else 0, "qed_count": coq["discharged"],
            "checker_cmd": "make -C coq -j16 Properties/%s.vo && coqc -Q coq Restic coq/Properties/%s.v%s" % (prop, prop, " && coqchk -silent -o -Q coq Restic Restic.Properties.%s" % prop if tier == "thorough" else ""),
            "trusted_base": tb,
            "theorems": coq["theorems"], "cone": coq["cone"],
            "evaluations": engine["evaluations"], "distinct_nontrivial": engine["distinct_nontrivial"],
            "rule": meta.get("rule", ""), "samples": engine["samples"],
            "distribution": engine["distribution"], "engine_info": engine["info"],
            "model_impl_mismatches": len(mismatches), "oracle_failures": len(oracle_fail),
            "known_findings_hit": sorted(known_hits), "partial": meta.get("partial", []),
            "notes": notes,
        },
        "assumptions": meta.get("assumptions", []),
        "wall_s": round(time.time() - t_start, 2),
        "violations": len(violations),
    }
    write_evidence(prop, ev)

    # 6. verdict
    for fid, (k, c) in sorted(known_hits.items()):
        print("KNOWN-FINDING: property=%s %s: %s [case kind %s]" % (prop, fid, k["what"], c["kind"]))
    if replay:
        print("replay of %s: %s" % (replay, "property fails / correspondence broken" if violations else "no failure reproduced"))
    for path, suffix in violations:
        print("VIOLATION property=%s replay=%s%s" % (prop, path, suffix))
    if not violations:
        print("OK property=%s tier=%s seed=%s theorems=%d obligations=%d cases=%d wall=%.1fs" % (prop, tier, seed, len(coq["theorems"]), coq["obligations"], engine["evaluations"], time.time() - t_start))
    if not coq["ok"]:
        log(coq["log"][-3000:])
        log(coq["gate_hits"], coq.get("assumption_problems"))
    if not harness_ok:
        log(blog[-3000:])
    if corr_log and (not corr_ok or mismatches):
        log(corr_log[-3000:])
    return 1 if violations else 0
