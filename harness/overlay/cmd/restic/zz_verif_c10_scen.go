//go:build verif

package main

// C10 engine, extra scenarios: (a) the only repair needed is a missing, unneeded pack; (b) a used blob
// duplicated across two partly used packs that are both repacked by concurrently running repack
// workers (backend connection limit raised, the two pack downloads released together).

import (
	"context"
	"fmt"
	"io"
	"os"
	"path/filepath"
	"sync"
	"time"

	"github.com/restic/restic/internal/backend"
	"github.com/restic/restic/internal/restic"
)

// buildPureMissing: pack files of a forgotten snapshot are deleted from the backend; nothing else is
// unused, so the full prune has nothing to remove or repack - only the index has to forget the packs.
func (h *c10H) buildPureMissing() error {
	if _, err := h.backupFiles(map[string][]byte{"fa": h.rng.bytes(20000), "fb": h.rng.bytes(30000)}); err != nil {
		return err
	}
	before := h.e.repoFiles()
	s2, err := h.backupFiles(map[string][]byte{"fu1": h.rng.bytes(15000), "fu2": h.rng.bytes(25000)})
	if err != nil {
		return err
	}
	if err := h.forget(s2); err != nil {
		return err
	}
	removed := 0
	for rel := range h.e.repoFiles() {
		if _, old := before[rel]; !old && filepath.Dir(filepath.Dir(rel)) == "data" {
			if os.Remove(filepath.Join(h.e.repo, rel)) == nil {
				removed++
			}
		}
	}
	if removed < 2 {
		return fmt.Errorf("pure-missing: removed %d packs", removed)
	}
	return nil
}

// c10Gate lets the first two pack downloads after arm() start together.
type c10Gate struct {
	backend.Backend
	mu      sync.Mutex
	armed   bool
	waiting int
	release chan struct{}
}

func (g *c10Gate) Unwrap() backend.Backend { return g.Backend }

func (g *c10Gate) arm() {
	g.mu.Lock()
	defer g.mu.Unlock()
	g.armed, g.waiting, g.release = true, 0, make(chan struct{})
}

func (g *c10Gate) Load(ctx context.Context, h backend.Handle, length int, offset int64, fn func(rd io.Reader) error) error {
	if h.Type == backend.PackFile {
		g.mu.Lock()
		var wait chan struct{}
		if g.armed {
			g.waiting++
			wait = g.release
			if g.waiting == 2 {
				g.armed = false
				close(g.release)
			}
		}
		g.mu.Unlock()
		if wait != nil {
			select {
			case <-wait:
			case <-time.After(2 * time.Second):
			}
		}
	}
	return g.Backend.Load(ctx, h, length, offset, fn)
}

// buildDupRace: packs A = {a, h.., u1} and B = {b, h.., u2}; a, b, h used; u1, u2 unused; h (several
// large chunks) stored twice. The environment gets 5 backend connections (4 repack workers) and a gate.
func (h *c10H) buildDupRace() error {
	h.e.gopts.Extended["local.connections"] = "5"
	gate := &c10Gate{}
	rec := h.e.rec
	h.e.gopts.BackendInnerTestHook = func(be backend.Backend) (backend.Backend, error) {
		gate.mu.Lock()
		gate.Backend = &vrecBackend{Backend: be, r: rec}
		gate.mu.Unlock()
		return gate, nil
	}
	h.beforeExecute = gate.arm
	fa, fb, fu1, fu2 := h.rng.bytes(1000), h.rng.bytes(1000), h.rng.bytes(1000), h.rng.bytes(1000)
	fh := h.rng.bytes(3 * 1024 * 1024)
	before := h.idxFiles()
	s1, err := h.backupFiles(map[string][]byte{"fa": fa, "fh": fh, "fu1": fu1})
	if err != nil {
		return err
	}
	back := h.hideNewIndexes(before)
	s2, err := h.backupFiles(map[string][]byte{"fb": fb, "fh": fh, "fu2": fu2})
	if err != nil {
		return err
	}
	back()
	if _, err := h.backupFiles(map[string][]byte{"fa": fa, "fb": fb, "fh": fh}); err != nil {
		return err
	}
	if err := h.forget(s1); err != nil {
		return err
	}
	return h.forget(s2)
}

var _ = restic.ID{}
