//go:build verif

package main

// C37 engine: the real sema.NewBackend over a gate backend whose operations block until the
// engine releases them.  Scripts of commands (launch a Save/Load/Stat/Remove of some file type in
// its own goroutine, release a running inner op, Freeze, Unfreeze); after every command the engine
// waits for quiescence and records counts: inner ops started / running per class (lock, non-lock),
// calls returned, and the highest number of non-lock inner ops ever seen running at once.

import (
	"context"
	"fmt"
	"io"
	"runtime"
	"sync"
	"sync/atomic"
	"time"

	"github.com/restic/restic/internal/backend"
	"github.com/restic/restic/internal/backend/sema"
)

var _ = verifRegister("C37", engineC37)

type c37Gate struct {
	backend.Backend // nil: only the four limited operations are used
	n               uint
	mu              sync.Mutex
	run             [2]int // 0 non-lock, 1 lock
	started         [2]int
	maxN            int
	rel             [2][]chan struct{}
}

func (g *c37Gate) Properties() backend.Properties {
	return backend.Properties{Connections: g.n}
}

func (g *c37Gate) enter(t backend.FileType) {
	cls := 0
	if t == backend.LockFile {
		cls = 1
	}
	ch := make(chan struct{})
	g.mu.Lock()
	g.run[cls]++
	g.started[cls]++
	if cls == 0 && g.run[0] > g.maxN {
		g.maxN = g.run[0]
	}
	g.rel[cls] = append(g.rel[cls], ch)
	g.mu.Unlock()
	<-ch
	g.mu.Lock()
	g.run[cls]--
	g.mu.Unlock()
}

func (g *c37Gate) release(cls int) bool {
	g.mu.Lock()
	defer g.mu.Unlock()
	if len(g.rel[cls]) == 0 {
		return false
	}
	ch := g.rel[cls][0]
	g.rel[cls] = g.rel[cls][1:]
	close(ch)
	return true
}

func (g *c37Gate) Save(_ context.Context, h backend.Handle, _ backend.RewindReader) error {
	g.enter(h.Type)
	return nil
}
func (g *c37Gate) Load(_ context.Context, h backend.Handle, _ int, _ int64, _ func(rd io.Reader) error) error {
	g.enter(h.Type)
	return nil
}
func (g *c37Gate) Stat(_ context.Context, h backend.Handle) (backend.FileInfo, error) {
	g.enter(h.Type)
	return backend.FileInfo{}, nil
}
func (g *c37Gate) Remove(_ context.Context, h backend.Handle) error {
	g.enter(h.Type)
	return nil
}

type c37Cmd struct {
	kind                int // 0 launch, 1 release, 2 freeze, 3 unfreeze
	lock, valid, cancel bool
	op                  int // 0 Save 1 Load 2 Stat 3 Remove
	ft                  backend.FileType
}

func (c c37Cmd) coq() string {
	switch c.kind {
	case 0:
		return fmt.Sprintf("(CLaunch %s %s %s)", coqBool(c.lock), coqBool(c.valid), coqBool(c.cancel))
	case 1:
		return fmt.Sprintf("(CRelease %s)", coqBool(c.lock))
	case 2:
		return "CFreeze"
	}
	return "CUnfreeze"
}

func (c c37Cmd) human() string {
	switch c.kind {
	case 0:
		s := []string{"Save", "Load", "Stat", "Remove"}[c.op] + "(" + c.ft.String() + ")"
		if !c.valid {
			s += "!invalid"
		}
		if c.cancel {
			s += "!cancelled"
		}
		return s
	case 1:
		if c.lock {
			return "release-lock"
		}
		return "release"
	case 2:
		return "Freeze"
	}
	return "Unfreeze"
}

// expected counts (wait targets only; the observation is what the gate really counted)
type c37Q struct {
	wait, waitc, run, runl                int
	frozen                                bool
	started, startedl, returned, launched int
}

func (q *c37Q) apply(n int, c c37Cmd) {
	switch c.kind {
	case 0:
		switch {
		case !c.valid:
			q.returned++
		case c.lock && c.cancel:
			q.returned++
		case c.lock:
			q.runl++
			q.startedl++
		case c.cancel:
			q.waitc++
		default:
			q.wait++
		}
	case 1:
		if c.lock && q.runl > 0 {
			q.runl--
			q.returned++
		} else if !c.lock && q.run > 0 {
			q.run--
			q.returned++
		}
	case 2:
		q.frozen = true
	case 3:
		q.frozen = false
	}
	if q.frozen {
		return
	}
	k := min(q.wait, max(n-q.run, 0))
	q.wait -= k
	q.run += k
	q.started += k
	if q.run < n {
		q.returned += q.waitc
		q.waitc = 0
	}
}

type c37Snap struct{ started, startedl, run, runl, returned, maxc int }

func (s c37Snap) coq() string {
	return fmt.Sprintf("(mkO %d %d %d %d %d %d)", s.started, s.startedl, s.run, s.runl, s.returned, s.maxc)
}

// set once any script has diverged from the expected counts: later scripts wait less (the run fails anyway)
var c37Diverged bool

func c37RunScript(n int, cmds []c37Cmd) (obs []c37Snap, freezeStuck bool) {
	g := &c37Gate{n: uint(n)}
	be := sema.NewBackend(g)
	fb, _ := be.(backend.FreezeBackend)
	var returned atomic.Int64
	var freezeDone atomic.Bool
	snap := func() c37Snap {
		g.mu.Lock()
		defer g.mu.Unlock()
		return c37Snap{g.started[0], g.started[1], g.run[0], g.run[1], int(returned.Load()), g.maxN}
	}
	q := &c37Q{}
	slow := 5 * time.Second
	if c37Diverged {
		slow = 300 * time.Millisecond
	}
	for _, c := range cmds {
		switch c.kind {
		case 0:
			h := backend.Handle{Type: c.ft, Name: "aa11"}
			if !c.valid {
				if c.op%2 == 0 && c.ft != backend.ConfigFile {
					h.Name = ""
				} else {
					h.Type = backend.FileType(99)
				}
			}
			ctx, cancel := context.WithCancel(context.Background())
			if c.cancel {
				cancel()
			}
			go func(c c37Cmd) {
				defer cancel()
				switch c.op {
				case 0:
					_ = be.Save(ctx, h, nil)
				case 1:
					_ = be.Load(ctx, h, 0, 0, func(io.Reader) error { return nil })
				case 2:
					_, _ = be.Stat(ctx, h)
				default:
					_ = be.Remove(ctx, h)
				}
				returned.Add(1)
			}(c)
		case 1:
			cls := 0
			if c.lock {
				cls = 1
			}
			g.release(cls)
		case 2:
			freezeDone.Store(false)
			go func() {
				fb.Freeze()
				freezeDone.Store(true)
			}()
		case 3:
			if freezeDone.Load() {
				fb.Unfreeze()
			}
		}
		q.apply(n, c)
		want := c37Snap{q.started, q.startedl, q.run, q.runl, q.returned, 0}
		deadline := time.Now().Add(slow)
		for {
			s := snap()
			s.maxc = 0
			if s == want && (c.kind != 2 || freezeDone.Load()) {
				break
			}
			if time.Now().After(deadline) {
				slow = 30 * time.Millisecond // already diverged: do not wait long again in this script
				c37Diverged = true
				if c.kind == 2 && !freezeDone.Load() {
					freezeStuck = true
				}
				break
			}
			runtime.Gosched()
			time.Sleep(40 * time.Microsecond)
		}
		// grace period: anything that is going to overshoot gets its chance
		for i := 0; i < 3; i++ {
			runtime.Gosched()
			time.Sleep(300 * time.Microsecond)
		}
		obs = append(obs, snap())
	}
	// let every goroutine end
	if q.frozen && freezeDone.Load() {
		fb.Unfreeze()
	}
	for i := 0; i < 2000; i++ {
		r0, r1 := g.release(0), g.release(1)
		if !r0 && !r1 {
			if i > 20 {
				break
			}
			time.Sleep(100 * time.Microsecond)
		}
	}
	return obs, freezeStuck
}

func engineC37(c *vctx) error {
	c.Header("Model.C37m", "C37m.case", "C37m.check_case")
	c.Preamble("Import C37m.")
	nonlock := []backend.FileType{backend.PackFile, backend.KeyFile, backend.SnapshotFile, backend.IndexFile, backend.ConfigFile}

	emit := func(kind string, n int, cmds []c37Cmd) {
		obs, stuck := c37RunScript(n, cmds)
		ct := make([]string, len(cmds))
		ot := make([]string, len(obs))
		hu := fmt.Sprintf("cap=%d:", n)
		hasFreeze, hasLock := false, false
		for i := range cmds {
			ct[i] = cmds[i].coq()
			ot[i] = obs[i].coq()
			hu += fmt.Sprintf(" %s->[n %d/%d l %d/%d ret %d]", cmds[i].human(), obs[i].run, obs[i].started, obs[i].runl, obs[i].startedl, obs[i].returned)
			hasFreeze = hasFreeze || cmds[i].kind == 2
			hasLock = hasLock || (cmds[i].kind == 0 && cmds[i].lock)
		}
		if stuck {
			hu += " FREEZE-DID-NOT-RETURN"
			kind += "-freeze-stuck"
		}
		if len(obs) > 0 {
			hu += fmt.Sprintf(" maxconc=%d", obs[len(obs)-1].maxc)
		}
		c.Hist(fmt.Sprintf("cap=%d", n))
		c.Case(kind, hasFreeze || hasLock, len(cmds), fmt.Sprintf("C37m.mk %s %s %s", coqNat(n), coqList(ct), coqList(ot)), hu)
	}
	L := func(op int, ft backend.FileType) c37Cmd {
		return c37Cmd{kind: 0, lock: ft == backend.LockFile, valid: true, op: op, ft: ft}
	}
	rel := c37Cmd{kind: 1}
	rell := c37Cmd{kind: 1, lock: true}
	frz := c37Cmd{kind: 2}
	unf := c37Cmd{kind: 3}

	// ---- corpus: per operation kind and capacity ----
	for op := 0; op < 4; op++ {
		for _, n := range []int{1, 2, 4} {
			ft := nonlock[(op+n)%len(nonlock)]
			// A: exhaust the tokens, lock ops still start; freeze; lock op still starts; releases
			// do not start waiting ops while frozen; unfreeze starts them
			var a []c37Cmd
			for i := 0; i < n+2; i++ {
				a = append(a, L(op, ft))
			}
			a = append(a, L(op, backend.LockFile), L(op, backend.LockFile), frz, L(op, backend.LockFile), rel, rel, L(op, ft), rell, unf, rel, rel, rel, rel, rell, rell, rel, rel)
			emit("corpus-exhaust-freeze", n, a)
			// B: freeze first
			b := []c37Cmd{frz}
			for i := 0; i < n+1; i++ {
				b = append(b, L(op, ft))
			}
			b = append(b, L(op, backend.LockFile), rell, unf, rel, rel)
			for i := 0; i < n; i++ {
				b = append(b, rel)
			}
			emit("corpus-freeze-first", n, b)
			// C: invalid handles and cancelled contexts neither take nor leak tokens
			inv := c37Cmd{kind: 0, valid: false, op: op, ft: ft}
			invl := c37Cmd{kind: 0, valid: false, lock: true, op: op, ft: backend.LockFile}
			can := c37Cmd{kind: 0, valid: true, cancel: true, op: op, ft: ft}
			canl := c37Cmd{kind: 0, valid: true, cancel: true, lock: true, op: op, ft: backend.LockFile}
			cc := []c37Cmd{inv, invl, can, canl, can}
			for i := 0; i < n; i++ {
				cc = append(cc, L(op, ft))
			}
			cc = append(cc, inv, canl, L(op, ft), rel, rel)
			for i := 0; i < n; i++ {
				cc = append(cc, can, rel)
			}
			emit("corpus-invalid-cancelled", n, cc)
		}
	}

	// ---- random scripts ----
	rounds := c.n(40, 1500)
	for r := 0; r < rounds; r++ {
		rng := c.rng.fork()
		n := []int{1, 2, 3, 5}[rng.intn(4)]
		q := &c37Q{}
		var cmds []c37Cmd
		add := func(cm c37Cmd) {
			cmds = append(cmds, cm)
			q.apply(n, cm)
		}
		steps := 8 + rng.intn(18)
		for i := 0; i < steps; i++ {
			x := rng.intn(100)
			switch {
			case x < 40:
				add(L(rng.intn(4), nonlock[rng.intn(len(nonlock))]))
			case x < 52:
				add(L(rng.intn(4), backend.LockFile))
			case x < 70:
				add(rel)
			case x < 76:
				add(rell)
			case x < 84:
				if q.frozen {
					add(unf)
				} else {
					add(frz)
				}
			case x < 90:
				lock := rng.chance(30)
				ft := nonlock[rng.intn(len(nonlock))]
				if lock {
					ft = backend.LockFile
				}
				add(c37Cmd{kind: 0, valid: false, lock: lock, op: rng.intn(4), ft: ft})
			default:
				// cancelled context; a non-lock one only where it cannot compete for a token
				if rng.chance(40) {
					add(c37Cmd{kind: 0, valid: true, cancel: true, lock: true, op: rng.intn(4), ft: backend.LockFile})
				} else if !q.frozen && q.run < n {
					add(c37Cmd{kind: 0, valid: true, cancel: true, op: rng.intn(4), ft: nonlock[rng.intn(len(nonlock))]})
				}
			}
		}
		if q.frozen {
			add(unf)
		}
		for q.run > 0 || q.runl > 0 {
			if q.run > 0 {
				add(rel)
			} else {
				add(rell)
			}
		}
		emit("random", n, cmds)
	}
	return nil
}
