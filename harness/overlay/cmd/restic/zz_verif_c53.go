//go:build verif

package main

// C53 engine: drives the real Comparer.diffTree (cmd/restic/cmd_diff.go, over
// data.DualTreeIterator) on generated pairs of snapshot trees served by a mock
// blob loader (trees are real tree JSON addressed by their SHA-256, so shared
// subtrees have equal IDs).  The second tree is an edited copy of the first:
// additions, removals, content / metadata / type changes at all depths,
// including directory <-> non-directory changes (kind "kindchange": regression cases
// for the former defect F-C53, fixed in /repo: the paths below the directory must be
// listed as removed / added).
// Observable: the sequence of printChange calls (modifier, path).

import (
	"context"
	"fmt"
	"iter"
	"strconv"
	"strings"

	"github.com/restic/restic/internal/data"
	"github.com/restic/restic/internal/restic"
)

var _ = verifRegister("C53", engineC53)

type c53Node struct {
	name    int
	ty      int // 0 file, 1 dir, 2 symlink, 3 fifo
	content []uint64
	meta    uint64
	sub     []*c53Node
}

type c53Loader struct{ blobs map[restic.ID][]byte }

func (l *c53Loader) LoadBlob(_ context.Context, h restic.BlobHandle, _ []byte) ([]byte, error) {
	b, ok := l.blobs[h.ID]
	if !ok {
		return nil, fmt.Errorf("c53: blob %v not found", h)
	}
	return b, nil
}

type c53Set map[restic.BlobHandle]struct{}

func (s c53Set) Has(h restic.BlobHandle) bool { _, ok := s[h]; return ok }
func (s c53Set) Insert(h restic.BlobHandle)   { s[h] = struct{}{} }
func (s c53Set) Delete(h restic.BlobHandle)   { delete(s, h) }
func (s c53Set) Len() int                     { return len(s) }
func (s c53Set) Keys() iter.Seq[restic.BlobHandle] {
	return func(yield func(restic.BlobHandle) bool) {
		for h := range s {
			if !yield(h) {
				return
			}
		}
	}
}
func (s c53Set) Intersect(o restic.AssociatedBlobSet) restic.AssociatedBlobSet {
	r := c53Set{}
	for h := range s {
		if o.Has(h) {
			r.Insert(h)
		}
	}
	return r
}
func (s c53Set) Sub(o restic.AssociatedBlobSet) restic.AssociatedBlobSet {
	r := c53Set{}
	for h := range s {
		if !o.Has(h) {
			r.Insert(h)
		}
	}
	return r
}

func c53Name(rank int) string { return fmt.Sprintf("n%03d", rank) }

func c53DataID(n uint64) restic.ID {
	var id restic.ID
	id[0] = byte(n)
	id[1] = byte(n >> 8)
	id[31] = 0x53
	return id
}

// c53Save serialises a tree (children first) into the loader and returns its ID.
func c53Save(l *c53Loader, nodes []*c53Node) restic.ID {
	b := data.NewTreeJSONBuilder()
	types := []data.NodeType{data.NodeTypeFile, data.NodeTypeDir, data.NodeTypeSymlink, data.NodeTypeFifo}
	for _, n := range nodes {
		node := &data.Node{Name: c53Name(n.name), Type: types[n.ty], UID: uint32(n.meta)}
		for _, c := range n.content {
			node.Content = append(node.Content, c53DataID(c))
		}
		if n.ty == 1 {
			id := c53Save(l, n.sub)
			node.Subtree = &id
		}
		if n.ty == 2 {
			node.LinkTarget = "target"
		}
		if err := b.AddNode(node); err != nil {
			panic(err)
		}
	}
	buf, _ := b.Finalize()
	id := restic.Hash(buf)
	l.blobs[id] = buf
	return id
}

func c53Term(nodes []*c53Node) string {
	items := make([]string, len(nodes))
	for i, n := range nodes {
		cs := make([]string, len(n.content))
		for j, c := range n.content {
			cs[j] = coqN(c)
		}
		sub := "[]"
		if n.ty == 1 {
			sub = c53Term(n.sub)
		}
		items[i] = fmt.Sprintf("Node %s %s %s %s %s", coqN(uint64(n.name)), coqN(uint64(n.ty)), coqList(cs), coqN(n.meta), sub)
	}
	return coqList(items)
}

func c53Depth(nodes []*c53Node) int {
	d := 0
	for _, n := range nodes {
		if n.ty == 1 {
			if k := c53Depth(n.sub); k > d {
				d = k
			}
		}
	}
	return d + 1
}

func c53Count(nodes []*c53Node) int {
	k := len(nodes)
	for _, n := range nodes {
		if n.ty == 1 {
			k += c53Count(n.sub)
		}
	}
	return k
}

func c53Clone(nodes []*c53Node) []*c53Node {
	out := make([]*c53Node, len(nodes))
	for i, n := range nodes {
		m := *n
		m.content = append([]uint64(nil), n.content...)
		m.sub = c53Clone(n.sub)
		out[i] = &m
	}
	return out
}

func c53GenTree(rng *vrng, depth, maxNames int) []*c53Node {
	var out []*c53Node
	for name := 0; name < maxNames; name++ {
		if !rng.chance(62) {
			continue
		}
		out = append(out, c53GenNode(rng, name, depth, maxNames))
	}
	return out
}

func c53GenNode(rng *vrng, name, depth, maxNames int) *c53Node {
	n := &c53Node{name: name, meta: uint64(rng.intn(3))}
	r := rng.intn(100)
	switch {
	case r < 40 && depth > 0:
		n.ty = 1
		n.sub = c53GenTree(rng, depth-1, maxNames)
	case r < 85:
		n.ty = 0
		for k := rng.intn(3); k > 0; k-- {
			n.content = append(n.content, uint64(rng.intn(6)))
		}
	case r < 95:
		n.ty = 2
	default:
		n.ty = 3
	}
	return n
}

// c53Edit returns an edited copy; *kc is set when a directory <-> non-directory change was made.
func c53Edit(rng *vrng, nodes []*c53Node, depth, maxNames, rate int, allowKind bool, kc *bool) []*c53Node {
	var out []*c53Node
	have := map[int]*c53Node{}
	for _, n := range nodes {
		have[n.name] = n
	}
	for name := 0; name < maxNames; name++ {
		n, ok := have[name]
		if !ok {
			if rng.chance(rate / 2) {
				out = append(out, c53GenNode(rng, name, depth, maxNames)) // addition
			}
			continue
		}
		if !rng.chance(rate) {
			if n.ty == 1 && rng.chance(60) {
				m := *n
				m.sub = c53Edit(rng, n.sub, depth-1, maxNames, rate, allowKind, kc)
				out = append(out, &m)
			} else {
				out = append(out, n) // untouched (shared subtree)
			}
			continue
		}
		m := *n
		m.content = append([]uint64(nil), n.content...)
		switch q := rng.intn(100); {
		case q < 25: // removal
			continue
		case q < 45: // content change (files), metadata otherwise
			if n.ty == 0 {
				switch rng.intn(4) {
				case 0:
					m.content = append(m.content, uint64(rng.intn(6)))
				case 1:
					if len(m.content) > 0 {
						m.content = m.content[:len(m.content)-1]
					} else {
						m.content = []uint64{7}
					}
				case 2:
					if len(m.content) > 0 {
						m.content[rng.intn(len(m.content))] += 10
					} else {
						m.content = []uint64{8}
					}
				default:
					m.content = append(m.content, uint64(rng.intn(6)))
					m.meta++
				}
			} else {
				m.meta++
			}
		case q < 60: // metadata only
			m.meta += 1 + uint64(rng.intn(2))
		case q < 75: // type change among non-directories
			if n.ty != 1 {
				m.ty = []int{2, 0, 3, 0}[n.ty]
				if m.ty != 0 {
					m.content = nil
				}
				if rng.chance(50) {
					m.meta++
				}
			} else {
				m.meta++
			}
		default: // directory <-> non-directory
			if !allowKind {
				m.meta++
				break
			}
			*kc = true
			if n.ty == 1 {
				m.ty = []int{0, 2}[rng.intn(2)]
				m.sub = nil
				if m.ty == 0 {
					m.content = []uint64{uint64(rng.intn(6))}
				}
			} else {
				m.ty = 1
				m.content = nil
				m.sub = c53GenTree(rng, depth-1, maxNames)
			}
		}
		if m.ty == 1 && n.ty == 1 {
			m.sub = c53Edit(rng, n.sub, depth-1, maxNames, rate, allowKind, kc)
		}
		out = append(out, &m)
	}
	return out
}

func c53Run(t1, t2 []*c53Node, showMeta bool) (lines []string, human []string, errs int) {
	l := &c53Loader{blobs: map[restic.ID][]byte{}}
	id1, id2 := c53Save(l, t1), c53Save(l, t2)
	cmp := &Comparer{
		repo:       l,
		opts:       DiffOptions{ShowMetadata: showMeta},
		printError: func(string, ...any) { errs++ },
		printChange: func(ch *Change) {
			human = append(human, ch.Modifier+" "+ch.Path)
			var md string
			switch ch.Modifier {
			case "+":
				md = "Plus"
			case "-":
				md = "Minus"
			default:
				// the modifier string is built in the order T, M, ?, U
				rest := ch.Modifier
				flag := func(c string) bool {
					if strings.HasPrefix(rest, c) {
						rest = rest[len(c):]
						return true
					}
					return false
				}
				t, m, q, u := flag("T"), flag("M"), flag("?"), flag("U")
				if rest != "" {
					md = "Plus" // unparsable: will not match anything expected
					human = append(human, "UNPARSABLE MODIFIER "+ch.Modifier)
				} else {
					md = fmt.Sprintf("(Mod %s %s %s %s)", coqBool(t), coqBool(m), coqBool(q), coqBool(u))
				}
			}
			slash := strings.HasSuffix(ch.Path, "/")
			var comps []string
			for _, p := range strings.Split(strings.Trim(ch.Path, "/"), "/") {
				k, err := strconv.Atoi(strings.TrimPrefix(p, "n"))
				if err != nil || !strings.HasPrefix(p, "n") || !strings.HasPrefix(ch.Path, "/") {
					k = 999999
				}
				comps = append(comps, coqN(uint64(k)))
			}
			lines = append(lines, fmt.Sprintf("(%s, %s, %s)", md, coqList(comps), coqBool(slash)))
		},
	}
	stats := &DiffStatsContainer{BlobsBefore: c53Set{}, BlobsAfter: c53Set{}, BlobsCommon: c53Set{}}
	func() {
		defer func() {
			if r := recover(); r != nil {
				errs += 1000
				human = append(human, fmt.Sprint("PANIC ", r))
			}
		}()
		if err := cmp.diffTree(context.Background(), stats, "/", id1, id2); err != nil {
			errs += 100
		}
	}()
	return
}

func engineC53(c *vctx) error {
	c.Header("Model.C53m", "C53m.case", "C53m.check_case")
	c.Preamble("Import C53m.")
	emit := func(kind string, t1, t2 []*c53Node, showMeta bool) {
		lines, human, errs := c53Run(t1, t2, showMeta)
		if errs > 0 {
			lines = append(lines, "(Plus, [], false)") // never expected: load errors / panics are not modelled
			human = append(human, fmt.Sprintf("ERRORS=%d", errs))
		}
		fuel := c53Depth(t1)
		if d := c53Depth(t2); d > fuel {
			fuel = d
		}
		term := fmt.Sprintf("C53m.mk %s %s %s %s %s", coqBool(showMeta), coqNat(fuel), c53Term(t1), c53Term(t2), coqList(lines))
		sz := c53Count(t1) + c53Count(t2)
		c.Hist(fmt.Sprintf("lines=%d", min(len(lines), 8)/2*2))
		if len(human) > 14 {
			human = append(human[:14], "...")
		}
		c.Case(kind, sz >= 6 && len(lines) >= 2, sz, term,
			fmt.Sprintf("meta=%v t1=%d nodes t2=%d nodes depth<=%d -> %s", showMeta, c53Count(t1), c53Count(t2), fuel, strings.Join(human, "; ")))
	}
	f := func(name int, content ...uint64) *c53Node { return &c53Node{name: name, ty: 0, content: content} }
	d := func(name int, sub ...*c53Node) *c53Node { return &c53Node{name: name, ty: 1, sub: sub} }
	// corpus
	base := []*c53Node{d(1, f(1, 1), d(2, f(1, 2), f(3, 3))), f(2, 4), {name: 3, ty: 2}, d(4)}
	for _, sm := range []bool{false, true} {
		emit("identical", base, c53Clone(base), sm)
		emit("empty", nil, nil, sm)
		emit("all-added", nil, base, sm)
		emit("all-removed", base, nil, sm)
		// content change deep, bitrot-like change (content only), metadata only, file<->symlink
		t2 := c53Clone(base)
		t2[0].sub[1].sub[0].content = []uint64{9}
		t2[0].sub[1].sub[0].meta = 1
		t2[1].content = []uint64{5}
		t2[2].meta = 7
		emit("edits", base, t2, sm)
		t3 := c53Clone(base)
		t3[2].ty = 0
		t3[1].ty = 3
		t3[1].content = nil
		emit("edits", base, t3, sm)
		// former F-C53: directory replaced by a file and file replaced by a directory
		k1 := []*c53Node{d(1, f(1, 1), d(2, f(1, 2))), f(2, 4)}
		k2 := []*c53Node{f(1, 7), d(2, f(5, 1))}
		emit("kindchange", k1, k2, sm)
		emit("kindchange", k2, k1, sm)
		// dir -> symlink with nested dirs below, and fifo -> dir
		k3 := []*c53Node{d(1, d(1, d(1, f(1, 1)), f(2, 2)), f(3)), {name: 2, ty: 3}}
		k4 := []*c53Node{{name: 1, ty: 2}, d(2, f(1, 3), d(2))}
		emit("kindchange", k3, k4, sm)
		emit("kindchange", k4, k3, sm)
	}
	rounds := c.n(420, 5000)
	for r := 0; r < rounds; r++ {
		rng := c.rng.fork()
		depth := 1 + rng.intn(4)
		maxNames := 3 + rng.intn(4)
		if depth >= 3 && maxNames > 4 {
			maxNames = 4
		}
		t1 := c53GenTree(rng, depth, maxNames)
		kc := false
		allowKind := rng.chance(25)
		t2 := c53Edit(rng, t1, depth, maxNames, 25+rng.intn(40), allowKind, &kc)
		if c53Count(t1)+c53Count(t2) > 60 {
			continue
		}
		kind := "edit"
		if kc {
			kind = "kindchange"
		}
		emit(kind, t1, t2, rng.chance(40))
	}
	return nil
}
