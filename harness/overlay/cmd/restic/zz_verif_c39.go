//go:build verif

package main

// C39 engine.  (A) the real dryrun.Backend over a memory backend under generated request
// sequences: answers vs. the model, wrapped store before = after.  (B) the real openers of
// cmd/restic/lock.go with both flag values: lock taken / exclusive / dry-run mode vs. the
// decision table.  (C) the CLI: backup, forget, prune, rewrite, repair snapshots with
// --dry-run and read-only commands with --no-lock on generated repositories (unreferenced
// data, a damaged one): no Save/Remove of a non-lock file reaches the backend, every file
// is byte-identical afterwards, no lock file stays, lock taken as the table says.

import (
	"context"
	"crypto/sha256"
	"fmt"
	"io"
	"os"
	"path/filepath"
	"sort"
	"strconv"
	"strings"

	"github.com/restic/restic/internal/backend"
	"github.com/restic/restic/internal/backend/dryrun"
	"github.com/restic/restic/internal/backend/mem"
	"github.com/restic/restic/internal/global"
	"github.com/restic/restic/internal/repository"
	"github.com/restic/restic/internal/restic"
	"github.com/restic/restic/internal/ui/progress"
)

var _ = verifRegister("C39", engineC39)

var c39Types = []backend.FileType{backend.PackFile, backend.KeyFile, backend.LockFile, backend.SnapshotFile, backend.IndexFile}

func c39Store(be backend.Backend) string {
	ctx := context.Background()
	type ent struct{ t, n, d int }
	var es []ent
	for _, t := range c39Types {
		_ = be.List(ctx, t, func(fi backend.FileInfo) error {
			n, _ := strconv.Atoi(strings.TrimPrefix(fi.Name, "n"))
			d := -1
			_ = be.Load(ctx, backend.Handle{Type: t, Name: fi.Name}, 0, 0, func(rd io.Reader) error {
				b, _ := io.ReadAll(rd)
				d, _ = strconv.Atoi(strings.TrimPrefix(string(b), "d"))
				return nil
			})
			es = append(es, ent{int(t), n, d})
			return nil
		})
	}
	sort.Slice(es, func(i, j int) bool {
		if es[i].t != es[j].t {
			return es[i].t < es[j].t
		}
		return es[i].n < es[j].n
	})
	ts := make([]string, len(es))
	for i, e := range es {
		ts[i] = fmt.Sprintf("((%d, %d), %d)", e.t, e.n, e.d)
	}
	return coqList(ts)
}

func c39DryCase(c *vctx, rng *vrng) {
	ctx := context.Background()
	inner := mem.New()
	nfiles := rng.intn(7)
	for i := 0; i < nfiles; i++ {
		t := c39Types[rng.intn(len(c39Types))]
		data := []byte(fmt.Sprintf("d%d", rng.intn(50)))
		_ = inner.Save(ctx, backend.Handle{Type: t, Name: fmt.Sprintf("n%d", rng.intn(6))}, backend.NewByteReader(data, inner.Hasher()))
	}
	s0 := c39Store(inner)
	be := dryrun.New(inner)
	nops := 1 + rng.intn(12)
	var ops, obs, hs []string
	for i := 0; i < nops; i++ {
		t := c39Types[rng.intn(len(c39Types))]
		n := rng.intn(6)
		h := backend.Handle{Type: t, Name: fmt.Sprintf("n%d", n)}
		var term, res string
		switch rng.intn(8) {
		case 0, 1:
			valid := true
			switch rng.intn(6) {
			case 0:
				h.Type, valid = backend.FileType(77), false
			case 1:
				h.Name, valid = "", false
			}
			d := rng.intn(50)
			err := be.Save(ctx, h, backend.NewByteReader([]byte(fmt.Sprintf("d%d", d)), be.Hasher()))
			term = fmt.Sprintf("OSave (%d, %d) %s %d", int(t), n, coqBool(valid), d)
			res = map[bool]string{true: "ROk", false: "RErr"}[err == nil]
		case 2, 3:
			err := be.Remove(ctx, h)
			term = fmt.Sprintf("ORemove (%d, %d)", int(t), n)
			res = map[bool]string{true: "ROk", false: "RErr"}[err == nil]
		case 4:
			err := be.Delete(ctx)
			term = "ODelete"
			res = map[bool]string{true: "ROk", false: "RErr"}[err == nil]
		case 5:
			d := -1
			err := be.Load(ctx, h, 0, 0, func(rd io.Reader) error {
				b, _ := io.ReadAll(rd)
				d, _ = strconv.Atoi(strings.TrimPrefix(string(b), "d"))
				return nil
			})
			term = fmt.Sprintf("OLoad (%d, %d)", int(t), n)
			if err != nil {
				res = "RErr"
			} else {
				res = fmt.Sprintf("(RData %d)", d)
			}
		case 6:
			_, err := be.Stat(ctx, h)
			term = fmt.Sprintf("OStat (%d, %d)", int(t), n)
			res = map[bool]string{true: "ROk", false: "RErr"}[err == nil]
		default:
			var names []int
			err := be.List(ctx, t, func(fi backend.FileInfo) error {
				k, _ := strconv.Atoi(strings.TrimPrefix(fi.Name, "n"))
				names = append(names, k)
				return nil
			})
			sort.Ints(names)
			ns := make([]string, len(names))
			for j, k := range names {
				ns[j] = strconv.Itoa(k)
			}
			term = fmt.Sprintf("OList %d", int(t))
			if err != nil {
				res = "RErr"
			} else {
				res = "(RNames " + coqList(ns) + ")"
			}
		}
		ops, obs, hs = append(ops, term), append(obs, res), append(hs, term+"->"+res)
	}
	s1 := c39Store(inner)
	c.Case("dry-backend", nfiles > 0 && nops >= 3, nops, fmt.Sprintf("CDry %s %s %s %s", s0, coqList(ops), coqList(obs), s1),
		fmt.Sprintf("store=%s ops=[%s] after=%s", s0, strings.Join(hs, "; "), s1))
}

func c39Locks(e *venv) []string {
	ents, _ := os.ReadDir(filepath.Join(e.repo, "locks"))
	var out []string
	for _, en := range ents {
		out = append(out, en.Name())
	}
	return out
}

func c39WireCase(c *vctx, e *venv, which string, flag bool) error {
	var taken, excl, isDry bool
	_, _, err := e.run(func(ctx context.Context, gopts global.Options) error {
		printer := progress.NewTerminalPrinter(false, 0, gopts.Term)
		var repo *repository.Repository
		var unlock func()
		var err error
		switch which {
		case "ReadLock":
			_, repo, unlock, err = openWithReadLock(ctx, gopts, flag, printer)
		case "AppendLock":
			_, repo, unlock, err = openWithAppendLock(ctx, gopts, flag, printer)
		default:
			_, repo, unlock, err = openWithExclusiveLock(ctx, gopts, flag, printer)
		}
		if err != nil {
			return err
		}
		defer unlock()
		isDry = repository.VerifC39IsDryRun(repo)
		for _, name := range c39Locks(e) {
			taken = true
			if id, perr := restic.ParseID(name); perr == nil {
				if l, lerr := repository.LoadLock(ctx, repo, id); lerr == nil && l.Exclusive {
					excl = true
				}
			}
		}
		return nil
	})
	if err != nil {
		return fmt.Errorf("C39 wire %s: %v", which, err)
	}
	left := len(c39Locks(e))
	c.Case("wire-"+which, true, 1, fmt.Sprintf("CWire %s %s %s %s %s %d", which, coqBool(flag), coqBool(taken), coqBool(excl), coqBool(isDry), left),
		fmt.Sprintf("%s(flag=%v) -> lock=%v exclusive=%v dryrun=%v locks-left=%d", which, flag, taken, excl, isDry, left))
	return nil
}

func c39Snapshot(dir string) map[string][32]byte {
	out := map[string][32]byte{}
	_ = filepath.Walk(dir, func(p string, fi os.FileInfo, err error) error {
		if err == nil && !fi.IsDir() {
			b, _ := os.ReadFile(p)
			rel, _ := filepath.Rel(dir, p)
			out[rel] = sha256.Sum256(b)
		}
		return nil
	})
	return out
}

func c39Same(a, b map[string][32]byte) (bool, string) {
	for k, v := range a {
		w, ok := b[k]
		if !ok {
			return false, "deleted " + k
		}
		if v != w {
			return false, "changed " + k
		}
	}
	for k := range b {
		if _, ok := a[k]; !ok {
			return false, "created " + k
		}
	}
	return true, ""
}

func c39ShortIDs(js string) []string {
	var out []string
	for _, part := range strings.Split(js, "\"short_id\":\"")[1:] {
		if i := strings.Index(part, "\""); i > 0 {
			out = append(out, part[:i])
		}
	}
	return out
}

type c39Cmd struct {
	kind        string // Coq cmd term
	name        string
	dry, nolock bool
	args        []string
}

func c39Run(c *vctx, e *venv, cm c39Cmd) {
	before := c39Snapshot(e.repo)
	args := append([]string(nil), cm.args...)
	if cm.dry {
		args = append(args, "--dry-run")
	}
	if cm.nolock {
		args = append([]string{"--no-lock"}, args...)
	}
	e.rec.Reset()
	_, stderr, err := e.cli(args...)
	mods := e.rec.Mods()
	taken := false
	// rejected = refused before the repository was touched at all
	rejected := err != nil && len(e.rec.Ops()) == 0
	for _, o := range e.rec.Ops() {
		if o.Op == "Save" && o.Type == backend.LockFile && !o.Err {
			taken = true
		}
	}
	same, why := c39Same(before, c39Snapshot(e.repo))
	left := len(c39Locks(e))
	var ms []string
	for _, m := range mods {
		ms = append(ms, m.String())
	}
	c.Hist(fmt.Sprintf("lock=%v", taken))
	c.Case("cmd-"+cm.name, cm.dry || cm.nolock, len(args),
		fmt.Sprintf("CCmd %s %s %s %s %s %d %s %d", cm.kind, coqBool(cm.dry), coqBool(cm.nolock), coqBool(rejected), coqBool(taken), len(mods), coqBool(same), left),
		fmt.Sprintf("%v -> err=%v lock=%v writes=%v same=%v %s locks-left=%d %s", args, err, taken, ms, same, why, left, strings.TrimSpace(stderr)))
}

func engineC39(c *vctx) error {
	c.Header("Model.C39m", "C39m.case", "C39m.check_case")
	c.Preamble("Import C39m.")
	for i := 0; i < c.n(100, 3000); i++ {
		c39DryCase(c, c.rng.fork())
	}
	e := newVenv(c, "repo")
	if _, _, err := e.cli("init"); err != nil {
		return err
	}
	rng := c.rng.fork()
	src := filepath.Join(c.dir, "src")
	_ = os.MkdirAll(filepath.Join(src, "d"), 0o755)
	gen := 0
	mutate := func() {
		gen++
		_ = os.WriteFile(filepath.Join(src, "a.txt"), []byte(fmt.Sprintf("generation %d %x", gen, rng.bytes(40+rng.intn(3000)))), 0o644)
		_ = os.WriteFile(filepath.Join(src, "d", fmt.Sprintf("f%d", gen%4)), rng.bytes(100+rng.intn(20000)), 0o644)
	}
	for i := 0; i < 4; i++ {
		mutate()
		if _, _, err := e.cli("backup", src, "--tag", fmt.Sprintf("t%d", i%2)); err != nil {
			return err
		}
	}
	so, _, err := e.cli("snapshots", "--json")
	if err != nil {
		return err
	}
	ids := c39ShortIDs(so)
	if len(ids) < 4 {
		return fmt.Errorf("C39: expected 4 snapshots, got %v", ids)
	}
	// unreferenced data for prune
	if _, _, err := e.cli("forget", ids[1]); err != nil {
		return err
	}
	ids = append(ids[:1], ids[2:]...)
	for _, w := range []string{"ReadLock", "AppendLock", "ExclusiveLock"} {
		for _, f := range []bool{true, false} {
			if err := c39WireCase(c, e, w, f); err != nil {
				return err
			}
		}
	}
	tgt := filepath.Join(c.dir, "tgt")
	rounds := c.n(1, 6)
	for r := 0; r < rounds; r++ {
		var cmds []c39Cmd
		bk := [][]string{{"backup", src}, {"backup", src, "--tag", "x", "--force"}, {"backup", src, "--host", "h2", "--exclude", "a.txt"},
			{"backup", filepath.Join(src, "d"), "--skip-if-unchanged"}}
		for _, a := range bk {
			cmds = append(cmds, c39Cmd{"CBackup", "backup", true, rng.chance(30), a})
		}
		fg := [][]string{{"forget", "--keep-last", "1"}, {"forget", "--keep-last", "1", "--prune"}, {"forget", ids[0]}, {"forget", "--keep-tag", "t1", "--group-by", ""},
			{"forget", ids[len(ids)-1], "--prune", "--max-unused", "0"}}
		for _, a := range fg {
			cmds = append(cmds, c39Cmd{"CForget", "forget", true, false, a}, c39Cmd{"CForget", "forget", true, true, a})
		}
		cmds = append(cmds, c39Cmd{"CForget", "forget-rejected", false, true, []string{"forget", "--keep-last", "1"}})
		pr := [][]string{{"prune"}, {"prune", "--max-unused", "0"}, {"prune", "--repack-small"}, {"prune", "--max-repack-size", "1K"}}
		for _, a := range pr {
			cmds = append(cmds, c39Cmd{"CPrune", "prune", true, false, a}, c39Cmd{"CPrune", "prune", true, true, a})
		}
		cmds = append(cmds, c39Cmd{"CPrune", "prune-rejected", false, true, []string{"prune"}})
		cmds = append(cmds,
			c39Cmd{"(CRewrite false)", "rewrite", true, false, []string{"rewrite", "--exclude", "a.txt", "latest"}},
			c39Cmd{"(CRewrite false)", "rewrite", true, false, []string{"rewrite", "--exclude", "f1", "--new-host", "nh"}},
			c39Cmd{"(CRewrite true)", "rewrite-forget", true, false, []string{"rewrite", "--exclude", "a.txt", "--forget"}},
			c39Cmd{"(CRewrite true)", "rewrite-forget", true, true, []string{"rewrite", "--exclude", "d", "--forget", ids[0]}},
			c39Cmd{"CRepairSnapshots", "repair-snapshots", true, false, []string{"repair", "snapshots"}},
		)
		ro := [][]string{{"snapshots"}, {"ls", "latest"}, {"find", "a.txt"}, {"stats"}, {"stats", "--mode", "raw-data"}, {"cat", "config"},
			{"cat", "snapshot", ids[0]}, {"list", "snapshots"}, {"list", "index"}, {"list", "packs"}, {"list", "blobs"}, {"diff", ids[0], ids[len(ids)-1]},
			{"dump", "latest", filepath.Join(src, "a.txt")}, {"restore", "latest", "--target", tgt}, {"restore", "latest", "--target", tgt, "--dry-run"},
			{"key", "list"}}
		for _, a := range ro {
			cmds = append(cmds, c39Cmd{"CReadOnly", "read-" + a[0], false, true, a})
		}
		cmds = append(cmds, c39Cmd{"CCheck", "check", false, true, []string{"check"}}, c39Cmd{"CCheck", "check", false, true, []string{"check", "--read-data"}})
		for _, cm := range cmds {
			mutate()
			_ = os.RemoveAll(tgt)
			c39Run(c, e, cm)
		}
	}
	// a damaged repository: repair snapshots --dry-run has something to do
	d := newVenv(c, "damaged")
	if _, _, err := d.cli("init"); err != nil {
		return err
	}
	for i := 0; i < 2; i++ {
		mutate()
		_ = os.WriteFile(filepath.Join(src, "big"), rng.bytes(200000), 0o644)
		if _, _, err := d.cli("backup", src); err != nil {
			return err
		}
	}
	var biggest string
	var bsize int64
	for p, sz := range d.repoFiles() {
		if strings.HasPrefix(p, "data"+string(filepath.Separator)) && sz > bsize {
			biggest, bsize = p, sz
		}
	}
	if biggest != "" {
		_ = os.Remove(filepath.Join(d.repo, biggest))
		_, _, _ = d.cli("repair", "index")
		for _, cm := range []c39Cmd{
			{"CRepairSnapshots", "repair-snapshots-damaged", true, false, []string{"repair", "snapshots"}},
			{"CRepairSnapshots", "repair-snapshots-damaged", true, false, []string{"repair", "snapshots", "--forget"}},
			{"CRepairSnapshots", "repair-snapshots-damaged", true, true, []string{"repair", "snapshots", "--forget"}},
			{"CPrune", "prune-damaged", true, false, []string{"prune"}},
			{"CForget", "forget-damaged", true, true, []string{"forget", "--keep-last", "1", "--prune"}},
			{"CReadOnly", "read-ls-damaged", false, true, []string{"ls", "latest"}},
			{"CCheck", "check-damaged", false, true, []string{"check"}},
		} {
			c39Run(c, d, cm)
		}
	}
	// (a) prune has work to do but no pack is completely unused: two backups sharing a directory and a
	// file, the older one forgotten: only partly used packs to repack
	pa := newVenv(c, "partly")
	if _, _, err := pa.cli("init"); err != nil {
		return err
	}
	src2 := filepath.Join(c.dir, "src2")
	_ = os.MkdirAll(filepath.Join(src2, "d"), 0o755)
	_ = os.WriteFile(filepath.Join(src2, "d", "keep.bin"), rng.bytes(30000), 0o644)
	_ = os.WriteFile(filepath.Join(src2, "d", "keep2.txt"), []byte("kept in both snapshots"), 0o644)
	_ = os.WriteFile(filepath.Join(src2, "a.txt"), rng.bytes(20000), 0o644)
	if _, _, err := pa.cli("backup", src2); err != nil {
		return err
	}
	_ = os.WriteFile(filepath.Join(src2, "a.txt"), rng.bytes(25000), 0o644)
	if _, _, err := pa.cli("backup", src2); err != nil {
		return err
	}
	if so, _, err := pa.cli("snapshots", "--json"); err == nil {
		if pids := c39ShortIDs(so); len(pids) == 2 {
			for _, cm := range []c39Cmd{
				{"CForget", "forget-partly-used", true, false, []string{"forget", pids[0], "--prune", "--max-unused", "0"}},
				{"CForget", "forget-partly-used", true, true, []string{"forget", pids[0], "--prune", "--max-unused", "0"}},
			} {
				c39Run(c, pa, cm)
			}
			if _, _, err := pa.cli("forget", pids[0]); err != nil {
				return err
			}
			for _, cm := range []c39Cmd{
				{"CPrune", "prune-partly-used", true, false, []string{"prune", "--max-unused", "0"}},
				{"CPrune", "prune-partly-used", true, true, []string{"prune", "--max-unused", "0"}},
				{"CPrune", "prune-partly-used", true, false, []string{"prune", "--max-unused", "0", "--repack-uncompressed"}},
				{"CPrune", "prune-partly-used", true, false, []string{"prune"}},
			} {
				c39Run(c, pa, cm)
			}
		}
	}
	// (b) a stray pack file that no index knows, nothing else to do
	st := newVenv(c, "stray")
	if _, _, err := st.cli("init"); err != nil {
		return err
	}
	if _, _, err := st.cli("backup", src2); err != nil {
		return err
	}
	for p2 := range pa.repoFiles() {
		if strings.HasPrefix(p2, "data"+string(filepath.Separator)) {
			if b, err := os.ReadFile(filepath.Join(pa.repo, p2)); err == nil {
				_ = os.MkdirAll(filepath.Dir(filepath.Join(st.repo, p2)), 0o700)
				_ = os.WriteFile(filepath.Join(st.repo, p2), b, 0o600)
				break
			}
		}
	}
	for _, cm := range []c39Cmd{
		{"CPrune", "prune-stray-pack", true, false, []string{"prune"}},
		{"CPrune", "prune-stray-pack", true, true, []string{"prune"}},
		{"CForget", "forget-stray-pack", true, false, []string{"forget", "--keep-last", "1", "--prune"}},
	} {
		c39Run(c, st, cm)
	}
	return nil
}
