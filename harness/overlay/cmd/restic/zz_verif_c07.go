//go:build verif

package main

// C07 engine: real saveUnpacked / LoadUnpacked / verifyUnpacked on a mem backend, repository
// versions 1 and 2, every compression mode, every unpacked file type.

import (
	"bytes"
	"context"
	"crypto/sha256"
	"errors"
	"fmt"
	"io"
	"strings"

	"github.com/klauspost/compress/zstd"
	"github.com/restic/chunker"

	"github.com/restic/restic/internal/backend"
	"github.com/restic/restic/internal/backend/mem"
	"github.com/restic/restic/internal/repository"
	"github.com/restic/restic/internal/repository/crypto"
	"github.com/restic/restic/internal/restic"
)

var _ = verifRegister("C07", engineC07)

var _ = verifParam("C07", "ciphertext_overhead", func() int64 { return int64(crypto.CiphertextLength(0)) })
var _ = verifParam("C07", "nonce_size", func() int64 { return int64(len(crypto.NewRandomNonce())) })

type c07Repo struct {
	v    uint
	mode repository.CompressionMode
	be   *mem.MemoryBackend
	repo *repository.Repository
}

var c07ModeNames = map[repository.CompressionMode]string{repository.CompressionAuto: "auto", repository.CompressionOff: "off",
	repository.CompressionMax: "max", repository.CompressionFastest: "fastest", repository.CompressionBetter: "better"}

func c07NewRepo(v uint, mode repository.CompressionMode, noVerify bool) (*c07Repo, error) {
	vsetupFast()
	be := mem.New()
	repo, err := repository.New(be, repository.Options{Compression: mode, NoExtraVerify: noVerify})
	if err != nil {
		return nil, err
	}
	pol := chunker.Pol(0x3DA3358B4DC173)
	if err := repo.Init(context.Background(), v, vPassword, &pol); err != nil {
		return nil, err
	}
	return &c07Repo{v: v, mode: mode, be: be, repo: repo}, nil
}

var c07Types = []struct {
	t    restic.FileType
	coq  string
	name string
}{
	{restic.IndexFile, "TIndex", "index"}, {restic.SnapshotFile, "TSnapshot", "snapshot"}, {restic.LockFile, "TLock", "lock"},
	{restic.KeyFile, "TKey", "key"}, {restic.ConfigFile, "TConfig", "config"},
}

func c07Raw(be backend.Backend, t restic.FileType, name string) ([]byte, error) {
	var buf []byte
	err := be.Load(context.Background(), backend.Handle{Type: backend.FileType(t), Name: name}, 0, 0, func(rd io.Reader) error {
		b, e := io.ReadAll(rd)
		buf = b
		return e
	})
	return buf, err
}

func c07Put(be backend.Backend, t restic.FileType, name string, data []byte) error {
	h := backend.Handle{Type: backend.FileType(t), Name: name}
	if t == restic.ConfigFile {
		h.Name = ""
	}
	_ = be.Remove(context.Background(), h)
	return be.Save(context.Background(), h, backend.NewByteReader(data, be.Hasher()))
}

// error class of a LoadUnpacked error; text-only errors take the class the crafted state predicts
func c07Res(r *c07Repo, out []byte, err error, predicted string) string {
	switch {
	case err == nil:
		return "(Ok " + coqHex(out) + ")"
	case errors.Is(err, restic.ErrInvalidData):
		return "(Err EInvalidData)"
	case errors.Is(err, crypto.ErrUnauthenticated):
		return "(Err EDecrypt)"
	case r.be.IsNotExist(err):
		return "(Err ENotFound)"
	}
	if predicted == "" {
		predicted = "EOther"
	}
	return "(Err " + predicted + ")"
}

var c07Dec, _ = zstd.NewReader(nil)

// zstd table entry for a stored plaintext 2||z
func c07Tab(pl []byte) (string, []byte, bool) {
	if len(pl) == 0 || pl[0] != 2 {
		return "[]", nil, false
	}
	z := pl[1:]
	dec, err := c07Dec.DecodeAll(z, nil)
	ok := err == nil
	return coqList([]string{coqTuple(coqHex(dec), coqHex(z), coqBool(ok))}), dec, ok
}

func c07Payload(rng *vrng, class int) []byte {
	switch class {
	case 0:
		return []byte{}
	case 1:
		return []byte(`{"version":2,"id":"abc","chunker_polynomial":"25b468838dcb75"}`)
	case 2:
		return []byte(`[{"packs":[]},1,2,3]`)
	case 3:
		return rng.bytes(1 + rng.intn(200))
	case 4:
		return append([]byte{[]byte{0x02, '[', '{', 0x00, 0xff, 0x01, 0x03, 0x28, 0xb5}[rng.intn(9)]}, rng.bytes(rng.intn(40))...)
	case 5:
		return []byte{[]byte{0x02, '[', '{', 0x00, 0xff}[rng.intn(5)]}
	case 6: // compressible, larger
		return bytes.Repeat([]byte(rng.pick(`{"a":1},`, "restic ", "\x00", "[[]]")), 50+rng.intn(400))
	default: // looks like an already encoded file: 2 || zstd frame
		enc, _ := zstd.NewWriter(nil)
		return append([]byte{2}, enc.EncodeAll(rng.bytes(rng.intn(30)), nil)...)
	}
}


// c07FailCfg fails the next n Save calls of the config file (the upload of an upgraded config).
type c07FailCfg struct {
	backend.Backend
	failNext int
}

// an atomically replacing backend: a failed upload leaves the old config in place
func (b *c07FailCfg) Properties() backend.Properties {
	p := b.Backend.Properties()
	p.HasAtomicReplace = true
	return p
}

func (b *c07FailCfg) Save(ctx context.Context, h backend.Handle, rd backend.RewindReader) error {
	if h.Type == backend.ConfigFile && b.failNext > 0 {
		b.failNext--
		return errors.New("verif: config upload failed")
	}
	return b.Backend.Save(ctx, h, rd)
}

// c07FailedUpgrade: version-1 repository, UpgradeRepo through handle A whose config upload fails (the
// backend keeps the v1 config), further saveUnpacked through the SAME handle A, LoadUnpacked through a
// fresh handle B opened from the real config. What A saves must load back through B.
func c07FailedUpgrade(c *vctx) error {
	vsetupFast()
	ctx := context.Background()
	inner := mem.New()
	be := &c07FailCfg{Backend: inner}
	repoA, err := repository.New(be, repository.Options{})
	if err != nil {
		return err
	}
	pol := chunker.Pol(0x3DA3358B4DC173)
	if err := repoA.Init(ctx, 1, vPassword, &pol); err != nil {
		return err
	}
	be.failNext = 1
	uerr := repository.UpgradeRepo(ctx, repoA)
	rng := c.rng.fork()
	for i := 0; i < 12; i++ {
		ft := c07Types[i%3] // index, snapshot, lock
		p := c07Payload(rng, []int{3, 1, 4, 6, 0, 2}[i%6])
		id, serr := repository.VerifC07SaveUnpacked(ctx, repoA, ft.t, p)
		saved := serr == nil
		repoB, err := repository.New(be, repository.Options{})
		if err != nil {
			return err
		}
		if err := repoB.SearchKey(ctx, vPassword, 5, ""); err != nil {
			return err
		}
		vB := repoB.Config().Version
		storedPlain, idOK, loaded := []byte{}, false, "(Err EOther)"
		if saved {
			if ct, lerr := c07Raw(inner, ft.t, id.String()); lerr == nil {
				idOK = sha256.Sum256(ct) == id
				key := repoB.Key()
				if len(ct) >= crypto.CiphertextLength(0) {
					if pl, oerr := key.Open(nil, ct[:key.NonceSize()], ct[key.NonceSize():], nil); oerr == nil {
						storedPlain = pl
					}
				}
			}
			out, lerr := repoB.LoadUnpacked(ctx, ft.t, id)
			loaded = c07Res(&c07Repo{be: inner}, out, lerr, "")
		}
		c.Case("save-after-failed-upgrade/"+ft.name, len(p) > 0, len(p), fmt.Sprintf("C07m.CSave %s %s %s [] %s %s %s %s", coqN(uint64(vB)), ft.coq, coqHex(p),
			coqHex(storedPlain), coqBool(idOK), coqBool(saved), loaded),
			fmt.Sprintf("v1 repo, UpgradeRepo err=%v, handle A version=%d, fresh handle B version=%d, %s payload[%d] -> saved=%v stored[%d] loaded=%.40s", uerr != nil, repoA.Config().Version, vB, ft.name, len(p), saved, len(storedPlain), loaded))
	}
	return nil
}

func engineC07(c *vctx) error {
	c.Header("Model.C07m", "C07m.case", "C07m.check_case")
	c.Preamble("Import C07m.")
	ctx := context.Background()
	if err := c07FailedUpgrade(c); err != nil {
		return err
	}
	type cfg struct {
		v        uint
		mode     repository.CompressionMode
		noVerify bool // repository.Options.NoExtraVerify: saveUnpacked skips its self check
	}
	cfgs := []cfg{{1, repository.CompressionAuto, false}, {1, repository.CompressionMax, true}, {2, repository.CompressionAuto, false}, {2, repository.CompressionOff, false},
		{2, repository.CompressionOff, true}, {2, repository.CompressionMax, false}, {2, repository.CompressionFastest, true}, {2, repository.CompressionBetter, false}}
	perCfg := c.n(32, 520)
	for _, cf := range cfgs {
		r, err := c07NewRepo(cf.v, cf.mode, cf.noVerify)
		if err != nil {
			// Init saves the key and the config through saveUnpacked: a repository that cannot even be
			// initialised is reported as a config file that was not saved / does not load back
			c.Case("save/config-init", true, 1, fmt.Sprintf("C07m.CSave %s TConfig (str \"{}\") [] [] false false (Err EOther)", coqN(uint64(cf.v))),
				fmt.Sprintf("v%d/%s repository.Init failed: %v", cf.v, c07ModeNames[cf.mode], err))
			continue
		}
		key := r.repo.Key()
		tag := fmt.Sprintf("v%d/%s", cf.v, c07ModeNames[cf.mode])
		if cf.noVerify {
			tag += "/noverify"
		}
		rng := c.rng.fork()

		// ---- save then load ----
		for i := 0; i < perCfg; i++ {
			ft := c07Types[i%len(c07Types)]
			p := c07Payload(rng, (i/len(c07Types))%8)
			if ft.t == restic.ConfigFile {
				_ = r.be.Remove(ctx, backend.Handle{Type: backend.ConfigFile})
			}
			var id restic.ID
			var serr error
			panicked := false
			func() {
				defer func() {
					if rec := recover(); rec != nil {
						panicked = true
					}
				}()
				id, serr = repository.VerifC07SaveUnpacked(ctx, r.repo, ft.t, p)
			}()
			saved := serr == nil && !panicked
			storedPlain, idOK, tab := []byte{}, false, "[]"
			loaded := "(Err EOther)"
			if saved {
				name := id.String()
				ct, lerr := c07Raw(r.be, ft.t, name)
				if lerr == nil {
					if ft.t == restic.ConfigFile {
						idOK = id.IsNull()
					} else {
						idOK = sha256.Sum256(ct) == id
					}
					if len(ct) >= crypto.CiphertextLength(0) {
						if pl, oerr := key.Open(nil, ct[:key.NonceSize()], ct[key.NonceSize():], nil); oerr == nil {
							storedPlain = pl
						}
					}
				}
				if cf.v >= 2 && ft.t != restic.ConfigFile {
					tab, _, _ = c07Tab(storedPlain)
					if len(storedPlain) > 0 && storedPlain[0] == 2 { // table is keyed by the payload
						z := storedPlain[1:]
						dec, derr := c07Dec.DecodeAll(z, nil)
						tab = coqList([]string{coqTuple(coqHex(p), coqHex(z), coqBool(derr == nil && bytes.Equal(dec, p)))})
					}
				}
				askID := id
				if ft.t == restic.ConfigFile && rng.chance(50) {
					copy(askID[:], rng.bytes(32)) // the id is ignored for config
				}
				out, err := r.repo.LoadUnpacked(ctx, ft.t, askID)
				loaded = c07Res(r, out, err, "")
			}
			first := "empty"
			if len(p) > 0 {
				first = fmt.Sprintf("%02x", p[0])
			}
			c.Hist("save:" + tag)
			c.Hist("save:first=" + first)
			c.Case("save/"+ft.name, len(p) > 0, len(p), fmt.Sprintf("C07m.CSave %s %s %s %s %s %s %s %s", coqN(uint64(cf.v)), ft.coq, coqHex(p), tab,
				coqHex(storedPlain), coqBool(idOK), coqBool(saved), loaded),
				fmt.Sprintf("%s %s payload[%d] first=%s -> saved=%v idOK=%v stored[%d] loaded=%.40s err=%v", tag, ft.name, len(p), first, saved, idOK, len(storedPlain), loaded, serr))
		}

		// ---- crafted files ----
		for i := 0; i < perCfg; i++ {
			ft := c07Types[rng.intn(len(c07Types))]
			var pl []byte
			switch i % 12 {
			case 0:
				pl = []byte{}
			case 1:
				enc, _ := zstd.NewWriter(nil)
				pl = append([]byte{2}, enc.EncodeAll(rng.bytes(rng.intn(60)), nil)...)
			case 2:
				pl = append([]byte{2}, rng.bytes(rng.intn(20))...)
			case 3:
				pl = []byte{2}
			case 4:
				pl = []byte(`[1,2]`)
			case 5:
				pl = []byte(`{"x":1}`)
			case 6:
				pl = []byte{[]byte{0, 1, 3, 4, 0x28, 0x5a, 0x5c, 0x7a, 0x7c, 0xff, 'a', '"', ' '}[rng.intn(13)]}
			case 7:
				pl = append([]byte{[]byte{0, 1, 3, 0xff, 'a', ' ', '\n'}[rng.intn(7)]}, []byte(`{"x":1}`)...)
			case 8:
				pl = append([]byte{'['}, rng.bytes(rng.intn(10))...)
			default:
				pl = rng.bytes(1 + rng.intn(30))
			}
			nonce := crypto.NewRandomNonce()
			ct := append(append([]byte{}, nonce...), key.Seal(nil, nonce, pl, nil)...)
			state := rng.intn(10)
			fs, predicted := "", ""
			id := restic.Hash(ct)
			if ft.t == restic.ConfigFile {
				id = restic.ID{}
			}
			switch {
			case state == 0: // missing
				if ft.t == restic.ConfigFile {
					_ = r.be.Remove(ctx, backend.Handle{Type: backend.ConfigFile})
				} else {
					copy(id[:], rng.bytes(32))
				}
				fs = "FMissing"
			case state == 1 && ft.t != restic.ConfigFile: // stored under a name that is not its hash
				copy(id[:], rng.bytes(32))
				_ = c07Put(r.be, ft.t, id.String(), ct)
				fs = "FBadHash"
			case state == 2: // short
				short := ct[:rng.intn(crypto.CiphertextLength(0))]
				if rng.chance(30) {
					short = ct[:crypto.CiphertextLength(0)-1]
				}
				if ft.t != restic.ConfigFile {
					id = restic.Hash(short)
				}
				_ = c07Put(r.be, ft.t, id.String(), short)
				fs, predicted = "FShort", "EShort"
			case state == 3: // damaged
				bad := append([]byte{}, ct...)
				bad[rng.intn(len(bad))] ^= 1 << uint(rng.intn(8))
				if ft.t != restic.ConfigFile {
					id = restic.Hash(bad)
				}
				_ = c07Put(r.be, ft.t, id.String(), bad)
				fs = "FBadMac"
			default:
				_ = c07Put(r.be, ft.t, id.String(), ct)
				fs = "(FPlain " + coqHex(pl) + ")"
				if len(pl) > 0 && cf.v >= 2 && ft.t != restic.ConfigFile {
					if pl[0] == 2 {
						predicted = "EZstd"
					} else {
						predicted = "ENotSupported"
					}
				}
			}
			tab := "[]"
			if cf.v >= 2 && ft.t != restic.ConfigFile {
				tab, _, _ = c07Tab(pl)
			}
			var out []byte
			var err error
			panicked := false
			func() {
				defer func() {
					if rec := recover(); rec != nil {
						panicked = true
					}
				}()
				out, err = r.repo.LoadUnpacked(ctx, ft.t, id)
			}()
			loaded := c07Res(r, out, err, predicted)
			if panicked {
				loaded = "(Err EOther)"
			}
			first := "empty"
			if len(pl) > 0 {
				first = fmt.Sprintf("%02x", pl[0])
			}
			c.Hist("load:" + strings.Fields(strings.Trim(fs, "()"))[0])
			kind := "load/" + strings.Fields(strings.Trim(fs, "()"))[0]
			c.Case(kind, len(pl) > 0, len(pl), fmt.Sprintf("C07m.CLoad %s %s %s %s %s", coqN(uint64(cf.v)), ft.coq, fs, tab, loaded),
				fmt.Sprintf("%s %s state=%.30s first=%s -> %.40s err=%v", tag, ft.name, fs, first, loaded, err))
			if ft.t == restic.ConfigFile { // put a sane config back
				_ = r.be.Remove(ctx, backend.Handle{Type: backend.ConfigFile})
			}
		}

		// ---- verifyUnpacked ----
		for i := 0; i < perCfg/2 && !cf.noVerify; i++ { // with NoExtraVerify the self check is a no-op
			ft := c07Types[rng.intn(len(c07Types))]
			expected := c07Payload(rng, rng.intn(8))
			inner := expected
			mode := rng.intn(6)
			wrap := func(p []byte) []byte { // what saveUnpacked would seal
				if cf.v >= 2 && ft.t != restic.ConfigFile {
					enc, _ := zstd.NewWriter(nil)
					return append([]byte{2}, enc.EncodeAll(p, nil)...)
				}
				return p
			}
			switch mode {
			case 0, 1:
				inner = wrap(expected)
			case 2: // other payload inside
				other := append([]byte{}, expected...)
				if len(other) == 0 {
					other = []byte{0}
				} else {
					other[rng.intn(len(other))] ^= 0x40
				}
				inner = wrap(other)
			case 3: // raw payload although the version compresses
				inner = expected
			case 4: // truncated
				w := wrap(expected)
				inner = w[:rng.intn(len(w)+1)]
			case 5: // prefix / extension of expected
				inner = wrap(append(append([]byte{}, expected...), 0))
			}
			nonce := crypto.NewRandomNonce()
			ct := append(append([]byte{}, nonce...), key.Seal(nil, nonce, inner, nil)...)
			innerOpt := "(Some " + coqHex(inner) + ")"
			if rng.chance(15) {
				ct[len(ct)-1-rng.intn(len(ct)-16)] ^= 0x10
				if rng.chance(50) {
					ct[rng.intn(16)] ^= 1
				}
				innerOpt = "None"
			}
			tab := "[]"
			if cf.v >= 2 && ft.t != restic.ConfigFile {
				tab, _, _ = c07Tab(inner)
			}
			var verr error
			func() {
				defer func() {
					if rec := recover(); rec != nil {
						verr = fmt.Errorf("panic: %v", rec) // a crash of the self check counts as not accepted
					}
				}()
				verr = repository.VerifC07VerifyUnpacked(r.repo, ct, ft.t, expected)
			}()
			c.Hist(fmt.Sprintf("verify:accepted=%v", verr == nil))
			c.Case("verify", len(expected) > 0, len(expected), fmt.Sprintf("C07m.CVerify %s %s %s %s %s %s", coqN(uint64(cf.v)), ft.coq, innerOpt, coqHex(expected), tab, coqBool(verr == nil)),
				fmt.Sprintf("%s %s mode=%d inner[%d] expected[%d] -> %v", tag, ft.name, mode, len(inner), len(expected), verr))
		}
	}
	return nil
}
