//go:build verif

package main

// C51 engine: no network.  http.DefaultClient gets an in-process transport that
// serves a generated GitHub "latest release" document and its assets; the
// embedded release keyring is swapped (export wrapper) for a keyring generated
// here, so that valid, foreign, stale and malformed signatures can be made.
// The real DownloadLatestStableRelease runs against a scratch target binary;
// observed: returned version/error, number of HTTP requests, target bytes+mode.
// findHash is also driven directly on generated checksum files.

import (
	"bufio"
	"bytes"
	"compress/bzip2"
	"context"
	"crypto/sha256"
	"encoding/hex"
	"encoding/json"
	"errors"
	"fmt"
	"io"
	"net/http"
	"os"
	"os/exec"
	"path/filepath"
	"runtime"
	"strings"

	"golang.org/x/crypto/openpgp"
	"golang.org/x/crypto/openpgp/armor"

	"github.com/restic/restic/internal/selfupdate"
)

var _ = verifRegister("C51", engineC51)
var _ = verifParam("C51", "max_scan_token_size", func() int64 { return bufio.MaxScanTokenSize })

type c51Asset struct {
	name string
	url  bool
	body []byte // nil = request fails
	fail int    // HTTP status to answer with when body == nil
	tok  string // if set, the body is represented by this token in the Coq term
}

type c51Transport struct {
	relStatus int
	relBody   []byte
	relCT     string
	assets    []c51Asset
	reqs      int
}

func (t *c51Transport) RoundTrip(req *http.Request) (*http.Response, error) {
	t.reqs++
	mk := func(status int, ct string, body []byte) *http.Response {
		h := http.Header{}
		if ct != "" {
			h.Set("Content-Type", ct)
		}
		return &http.Response{StatusCode: status, Status: fmt.Sprintf("%d", status), Proto: "HTTP/1.1", ProtoMajor: 1, ProtoMinor: 1,
			Header: h, Body: io.NopCloser(bytes.NewReader(body)), ContentLength: int64(len(body)), Request: req}
	}
	u := req.URL.String()
	if strings.HasPrefix(u, "https://api.github.com/repos/restic/restic/releases/latest") {
		return mk(t.relStatus, t.relCT, t.relBody), nil
	}
	var idx int
	if _, err := fmt.Sscanf(u, "https://verif.invalid/asset/%d", &idx); err == nil && idx >= 0 && idx < len(t.assets) {
		a := t.assets[idx]
		if a.body == nil {
			if a.fail == 0 {
				return nil, fmt.Errorf("verif: connection refused")
			}
			return mk(a.fail, "", []byte("nope")), nil
		}
		return mk(200, "application/octet-stream", a.body), nil
	}
	return nil, fmt.Errorf("verif: no network (%s)", u)
}

type c51Keys struct {
	trusted, foreign *openpgp.Entity
	trustedPub       []byte
}

func c51NewKeys() (*c51Keys, error) {
	mk := func(name string) (*openpgp.Entity, error) {
		e, err := openpgp.NewEntity(name, "", name+"@verif.invalid", nil)
		if err != nil {
			return nil, err
		}
		// self-sign identities (older x/crypto versions sign only when serialising the private key)
		if err := e.SerializePrivate(io.Discard, nil); err != nil {
			return nil, err
		}
		return e, nil
	}
	k := &c51Keys{}
	var err error
	if k.trusted, err = mk("trusted"); err != nil {
		return nil, err
	}
	if k.foreign, err = mk("foreign"); err != nil {
		return nil, err
	}
	var buf bytes.Buffer
	w, err := armor.Encode(&buf, openpgp.PublicKeyType, nil)
	if err != nil {
		return nil, err
	}
	if err := k.trusted.Serialize(w); err != nil {
		return nil, err
	}
	if err := w.Close(); err != nil {
		return nil, err
	}
	k.trustedPub = buf.Bytes()
	return k, nil
}

func c51Sign(e *openpgp.Entity, data []byte, armored bool) []byte {
	var buf bytes.Buffer
	if armored {
		_ = openpgp.ArmoredDetachSign(&buf, e, bytes.NewReader(data), nil)
	} else {
		_ = openpgp.DetachSign(&buf, e, bytes.NewReader(data), nil)
	}
	return buf.Bytes()
}

func c51Bzip(payload []byte) ([]byte, error) {
	cmd := exec.Command("bzip2", "-c")
	cmd.Stdin = bytes.NewReader(payload)
	var out bytes.Buffer
	cmd.Stdout = &out
	if err := cmd.Run(); err != nil {
		return nil, fmt.Errorf("bzip2: %w", err)
	}
	return out.Bytes(), nil
}

// c51CoqBytes prints a byte string; runs of >= 256 equal bytes become (nrepeat x n) so that 64 KiB lines stay small terms.
func c51CoqBytes(b []byte) string {
	if len(b) < 1024 {
		return coqHex(b)
	}
	var parts []string
	start := 0
	i := 0
	for i < len(b) {
		j := i
		for j < len(b) && b[j] == b[i] {
			j++
		}
		if j-i >= 256 {
			if i > start {
				parts = append(parts, coqHex(b[start:i]))
			}
			parts = append(parts, fmt.Sprintf("(nrepeat %s %s)", coqN(uint64(b[i])), coqN(uint64(j-i))))
			start = j
		}
		i = j
	}
	if start < len(b) {
		parts = append(parts, coqHex(b[start:]))
	}
	out := parts[len(parts)-1]
	for k := len(parts) - 2; k >= 0; k-- {
		out = "(List.app " + parts[k] + " " + out + ")"
	}
	return out
}

func c51Tok(b []byte) string {
	s := sha256.Sum256(b)
	return "#" + hex.EncodeToString(s[:5])
}

// ---- checksum file generator ----

func c51HexOf(b []byte) string { s := sha256.Sum256(b); return hex.EncodeToString(s[:]) }

// lines for a checksum file about file `name` whose right hash is `good`; returns the file and a label
func c51GenSums(rng *vrng, name, good string, other []string) ([]byte, string) {
	wrong := c51HexOf(rng.bytes(8))
	kinds := []string{"good", "good", "good", "upper", "wrong", "onespace", "threespace", "fourspace", "tab", "trail1", "trail2", "lead2",
		"prefixname", "suffixname", "pathname", "starname", "uppername", "badhex", "oddhex", "shorthex", "emptyhex", "otherfile", "otherfile", "blank", "comment",
		"wrong-then", "nul", "hi", "namefirst", "goodcr", "longhash", "mixedcase"}
	line := func(k string) string {
		switch k {
		case "good":
			return good + "  " + name
		case "goodcr":
			return good + "  " + name + "\r"
		case "upper":
			return strings.ToUpper(good) + "  " + name
		case "mixedcase":
			return strings.ToUpper(good[:10]) + good[10:] + "  " + name
		case "wrong", "wrong-then":
			return wrong + "  " + name
		case "onespace":
			return good + " " + name
		case "threespace":
			return good + "   " + name
		case "fourspace":
			return good + "    " + name
		case "tab":
			return good + "\t" + name
		case "trail1":
			return good + "  " + name + " "
		case "trail2":
			return good + "  " + name + "  "
		case "lead2":
			return "  " + good + "  " + name
		case "prefixname":
			return wrong + "  x" + name
		case "suffixname":
			return wrong + "  " + name + ".sig"
		case "pathname":
			return wrong + "  ./" + name
		case "starname":
			return good + " *" + name
		case "uppername":
			return wrong + "  " + strings.ToUpper(name)
		case "badhex":
			return "zz" + good[2:] + "  " + name
		case "oddhex":
			return good[:63] + "  " + name
		case "shorthex":
			return good[:62] + "  " + name
		case "longhash":
			return good + "00" + "  " + name
		case "emptyhex":
			return "  " + name
		case "otherfile":
			o := name + ".other"
			if len(other) > 0 {
				o = other[rng.intn(len(other))]
			}
			return c51HexOf(rng.bytes(4)) + "  " + o
		case "blank":
			return ""
		case "comment":
			return "# SHA256SUMS for restic"
		case "nul":
			return good + "  " + name + "\x00"
		case "hi":
			return "\xff\xfe" + good + "  " + name
		case "namefirst":
			return name + "  " + good
		}
		return ""
	}
	n := 1 + rng.intn(5)
	var ls, labels []string
	for i := 0; i < n; i++ {
		k := kinds[rng.intn(len(kinds))]
		ls = append(ls, line(k))
		labels = append(labels, k)
	}
	sep := "\n"
	if rng.chance(12) {
		sep = "\r\n"
		labels = append(labels, "crlf")
	}
	s := strings.Join(ls, sep)
	if rng.chance(80) {
		s += sep
	} else {
		labels = append(labels, "noeol")
	}
	return []byte(s), strings.Join(labels, ",")
}

func c51FhObs(buf []byte, name string) (string, string) {
	var h []byte
	var err error
	panicked := false
	func() {
		defer func() {
			if r := recover(); r != nil {
				panicked = true
			}
		}()
		h, err = selfupdate.VerifC51FindHash(buf, name)
	}()
	switch {
	case panicked:
		return "(FHFound (hex \"ffffffffffffffffffffffffffffffffffffffffffffffffffffffffffffffffffffffffffffff\"))", "panic"
	case err == nil:
		return "(FHFound " + coqHex(h) + ")", "found " + hex.EncodeToString(h)
	}
	var ib hex.InvalidByteError
	if errors.As(err, &ib) || errors.Is(err, hex.ErrLength) {
		return "FHBadHex", "badhex"
	}
	return "FHNotFound", "notfound"
}

func c51CoqTgt(content []byte, mode os.FileMode, exists bool) string {
	if !exists {
		return "None"
	}
	return fmt.Sprintf("(Some (%s, %s))", coqStr(string(content)), coqN(uint64(mode.Perm())))
}

func engineC51(c *vctx) error {
	c.Header("Model.C51m", "C51m.case", "C51m.check_case")
	c.Preamble("Import C51m.")
	dir := filepath.Join(c.dir, "c51")
	_ = os.RemoveAll(dir)
	if err := os.MkdirAll(dir, 0o755); err != nil {
		return err
	}
	keys, err := c51NewKeys()
	if err != nil {
		return fmt.Errorf("keys: %w", err)
	}
	suffix := fmt.Sprintf("%s_%s.bz2", runtime.GOOS, runtime.GOARCH)
	archName := "restic_9.9.9_" + suffix

	// ---------- findHash directly ----------
	emitFind := func(kind string, buf []byte, name string, label string) {
		obs, h := c51FhObs(buf, name)
		c.Hist("find=" + strings.SplitN(h, " ", 2)[0])
		c.Case(kind, bytes.Count(buf, []byte("\n")) >= 2, len(buf), fmt.Sprintf("CFind %s %s %s", c51CoqBytes(buf), c51CoqBytes([]byte(name)), obs),
			fmt.Sprintf("name=%q lines=[%s] -> %s", name, label, h))
	}
	good := c51HexOf([]byte("archive"))
	// corpus: scanner token limit around bufio.MaxScanTokenSize, exact-name and first-match corners
	for _, n := range []int{bufio.MaxScanTokenSize - 1, bufio.MaxScanTokenSize} {
		long := strings.Repeat("x", n)
		emitFind("find-longline", []byte(long+"\n"+good+"  "+archName+"\n"), archName, fmt.Sprintf("long(%d),good", n))
		if n == bufio.MaxScanTokenSize || c.thorough() {
			emitFind("find-longline", []byte(good+"  "+archName+"\n"+long), archName, fmt.Sprintf("good,long(%d) noeol", n))
		}
		// the matching line itself is that long: "<hex>  <name>" padded in the hex field is invalid hex; pad the name instead
		nm := archName + strings.Repeat("y", n-len(good)-2-len(archName))
		emitFind("find-longline", []byte(good+"  "+nm), nm, fmt.Sprintf("matching line of %d bytes, noeol", n))
		if n == bufio.MaxScanTokenSize-1 || c.thorough() {
			emitFind("find-longline", []byte(long+"\r\n"+good+"  "+archName+"\n"), archName, fmt.Sprintf("long(%d)+CR,good", n))
		}
	}
	for _, s := range []string{"", "\n", "\r\n", good + "  " + archName, good + "  " + archName + "\r", "\r" + good + "  " + archName + "\n",
		good + "  " + archName + "\n" + c51HexOf([]byte("x")) + "  " + archName + "\n",
		c51HexOf([]byte("x")) + "  " + archName + "\n" + good + "  " + archName + "\n",
		"zz  " + archName + "\n" + good + "  " + archName + "\n",
		good + "  x" + archName + "\n", good + "  " + archName + "x\n", good + "   " + archName + "\n", good + "  " + archName + "  \n",
		"  " + archName + "\n", "  \n", "    \n", good + "  \n", " " + good + "  " + archName + "\n", good + " " + "  " + archName + "\n"} {
		emitFind("find-corpus", []byte(s), archName, fmt.Sprintf("%q", s))
	}
	emitFind("find-corpus", []byte(good+"  \n"), "", "empty file name")
	nfind := c.n(350, 2500)
	for i := 0; i < nfind; i++ {
		rng := c.rng.fork()
		buf, label := c51GenSums(rng, archName, good, []string{"restic_9.9.9_linux_arm.bz2", "x" + archName})
		emitFind("find-gen", buf, archName, label)
	}

	// ---------- whole pipeline ----------
	old := selfupdate.VerifC51SetKey(keys.trustedPub)
	defer selfupdate.VerifC51SetKey(old)
	oldTransport := http.DefaultClient.Transport
	defer func() { http.DefaultClient.Transport = oldTransport }()

	payloads := [][]byte{[]byte("#!/bin/sh\necho new restic 1\n"), []byte("EVIL-BINARY"), []byte(""), []byte("OLD-BINARY")}
	archives := make([][]byte, len(payloads))
	for i, p := range payloads {
		if archives[i], err = c51Bzip(p); err != nil {
			return err
		}
	}
	unpackOf := func(b []byte) ([]byte, bool) {
		out, err := io.ReadAll(bzip2.NewReader(bytes.NewReader(b)))
		if err != nil {
			return nil, false
		}
		return out, true
	}

	nrun := c.n(380, 1800)
	for i := 0; i < nrun; i++ {
		rng := c.rng.fork()
		kindTags := []string{}
		tag := func(s string) { kindTags = append(kindTags, s) }

		// archive
		arch := archives[0]
		switch r := rng.intn(100); {
		case r < 60:
		case r < 75:
			arch = archives[1]
			tag("arch-evil")
		case r < 80:
			arch = archives[2]
			tag("arch-empty-payload")
		case r < 87:
			arch = append([]byte(nil), archives[0]...)
			arch[len(arch)/2] ^= 0x40
			tag("arch-corrupt")
		case r < 92:
			arch = archives[0][:len(archives[0])-5]
			tag("arch-truncated")
		case r < 96:
			arch = []byte("not a bzip2 stream")
			tag("arch-notbz2")
		default:
			arch = archives[3]
			tag("arch-same-as-old")
		}
		// which hash the checksum file lists for the archive name
		listed := c51HexOf(arch)
		switch r := rng.intn(100); {
		case r < 70:
		case r < 85:
			listed = c51HexOf(archives[0])
			if !bytes.Equal(arch, archives[0]) {
				tag("sums-list-original-hash")
			}
		default:
			listed = c51HexOf(rng.bytes(5))
			tag("sums-list-random-hash")
		}
		var sums []byte
		var slabel string
		if rng.chance(45) {
			sums, slabel = []byte(listed+"  "+archName+"\n"+c51HexOf([]byte("q"))+"  restic_9.9.9_linux_arm.bz2\n"), "good,otherfile"
		} else {
			sums, slabel = c51GenSums(rng, archName, listed, []string{"restic_9.9.9_linux_arm.bz2", "evil_" + suffix, "x" + archName})
			tag("sums-gen")
		}
		if rng.chance(10) {
			// a substituted archive whose hash is listed only in a line that must NOT count for the real name:
			// similar name, three fields, shortened / empty hex
			arch = archives[1]
			h := c51HexOf(arch)
			evilLine := ""
			switch rng.intn(6) {
			case 0:
				evilLine = h + "  x" + archName
			case 1:
				evilLine = h + "  " + archName + ".sig"
			case 2:
				evilLine = h + "  " + archName + "  "
			case 3:
				evilLine = h + "  " + archName + "  extra"
			case 4:
				evilLine = h[:62] + "  " + archName
			case 5:
				evilLine = "  " + archName
			}
			goodLine := c51HexOf(archives[0]) + "  " + archName
			if rng.chance(30) {
				goodLine = c51HexOf(archives[0]) + "  restic_9.9.9_linux_arm.bz2"
			}
			sums, slabel = []byte(evilLine+"\n"+goodLine+"\n"), "evil-in-non-counting-line,good"
			kindTags = []string{"sums-noncounting-line-lists-substituted-archive"}
		}
		// signature
		var sig []byte
		sigValidFor := []byte(nil) // data the signature validly signs under the trusted key
		switch r := rng.intn(100); {
		case r < 55:
			sig, sigValidFor = c51Sign(keys.trusted, sums, true), sums
		case r < 67:
			sig = c51Sign(keys.foreign, sums, true)
			tag("sig-foreign")
		case r < 79:
			stale := append(append([]byte(nil), sums...), '\n')
			if rng.bool() && len(sums) > 0 {
				stale = append([]byte(nil), sums...)
				stale[rng.intn(len(stale))] ^= 1
			}
			sig, sigValidFor = c51Sign(keys.trusted, stale, true), stale
			tag("sig-stale")
		case r < 82:
			sig = []byte("-----BEGIN PGP SIGNATURE-----\n\naGVsbG8=\n=AAAA\n-----END PGP SIGNATURE-----\n")
			tag("sig-garbage")
		case r < 85:
			// a well-formed armored block that contains no signature packet at all
			sig = []byte("-----BEGIN PGP SIGNATURE-----\n\n=twTO\n-----END PGP SIGNATURE-----\n")
			tag("sig-armor-without-signature")
		case r < 89:
			sig = []byte{}
			tag("sig-empty")
		case r < 94:
			sig = c51Sign(keys.trusted, sums, false)
			tag("sig-binary")
		default:
			s := c51Sign(keys.trusted, sums, true)
			sig = append([]byte(nil), s...)
			// damage one base64 character in the body
			p := len(sig) / 2
			if sig[p] == 'A' {
				sig[p] = 'B'
			} else {
				sig[p] = 'A'
			}
			tag("sig-damaged")
		}
		assets := []c51Asset{
			{name: "SHA256SUMS", url: true, body: sums},
			{name: "SHA256SUMS.asc", url: true, body: sig, tok: c51Tok(sig)},
			{name: archName, url: true, body: arch, tok: c51Tok(arch)},
			{name: "restic_9.9.9_linux_arm.bz2", url: true, body: archives[1], tok: c51Tok(archives[1])},
		}
		// decoys and faults
		if rng.chance(12) {
			evil := c51Asset{name: "evil_" + suffix, url: true, body: archives[1], tok: c51Tok(archives[1])}
			if rng.bool() {
				assets = append([]c51Asset{evil}, assets...)
				tag("decoy-arch-first")
			} else {
				assets = append(assets, evil)
				tag("decoy-arch-last")
			}
		}
		if rng.chance(10) {
			dsums := []byte(c51HexOf(archives[1]) + "  " + archName + "\n")
			d := c51Asset{name: "OLD-SHA256SUMS", url: true, body: dsums}
			if rng.bool() {
				assets = append([]c51Asset{d}, assets...)
				tag("decoy-sums-first")
				if rng.bool() {
					// replayed, validly signed older checksum file with its own signature asset in front
					ds := c51Sign(keys.trusted, dsums, true)
					assets = append([]c51Asset{{name: "OLD-SHA256SUMS.asc", url: true, body: ds, tok: c51Tok(ds)}}, assets...)
					tag("decoy-sig-first")
				}
			} else {
				assets = append(assets, d)
				tag("decoy-sums-last")
			}
		}
		if rng.chance(10) {
			rng2 := rng.fork()
			for j := len(assets) - 1; j > 0; j-- {
				k := rng2.intn(j + 1)
				assets[j], assets[k] = assets[k], assets[j]
			}
			tag("shuffled")
		}
		if rng.chance(12) {
			j := rng.intn(len(assets))
			assets[j].body, assets[j].fail = nil, []int{0, 404, 500, 302}[rng.intn(4)]
			tag("download-fails")
		}
		if rng.chance(6) {
			assets[rng.intn(len(assets))].url = false
			tag("empty-url")
		}
		if rng.chance(5) {
			j := rng.intn(len(assets))
			assets = append(assets[:j], assets[j+1:]...)
			tag("asset-missing")
		}
		// release document
		tagName := "v9.9.9"
		current := "0.1.0"
		relOK := true
		tr := &c51Transport{relStatus: 200, relCT: "application/json", assets: assets}
		switch r := rng.intn(100); {
		case r < 70:
		case r < 78:
			current = "9.9.9"
			tag("up-to-date")
		case r < 82:
			current = "v9.9.9"
			tag("current-with-v")
		case r < 85:
			tagName = "9.9.9"
			tag("tag-without-v")
		case r < 88:
			tagName = ""
			tag("tag-empty")
		case r < 91:
			tagName = "v"
			current = ""
			tag("tag-only-v")
		case r < 94:
			tr.relStatus, relOK = 403, false
			tag("release-403")
		case r < 97:
			tr.relStatus, relOK = 500, false
			tr.relCT = "text/html"
			tag("release-500")
		default:
			relOK = false
			tag("release-badjson")
		}
		type jAsset struct {
			ID   int    `json:"id"`
			Name string `json:"name"`
			URL  string `json:"url"`
		}
		doc := struct {
			Name    string   `json:"name"`
			TagName string   `json:"tag_name"`
			Assets  []jAsset `json:"assets"`
		}{Name: "restic " + tagName, TagName: tagName}
		for j, a := range assets {
			u := ""
			if a.url {
				u = fmt.Sprintf("https://verif.invalid/asset/%d", j)
			}
			doc.Assets = append(doc.Assets, jAsset{ID: j, Name: a.name, URL: u})
		}
		tr.relBody, _ = json.Marshal(doc)
		if !relOK && tr.relStatus == 200 {
			tr.relBody = tr.relBody[:len(tr.relBody)/2]
		}
		if tr.relStatus == 403 {
			tr.relBody = []byte(`{"message":"API rate limit exceeded"}`)
		}

		// target binary
		tdir := filepath.Join(dir, fmt.Sprintf("t%d", i))
		if err := os.MkdirAll(tdir, 0o755); err != nil {
			return err
		}
		target := filepath.Join(tdir, "restic")
		oldExists := !rng.chance(8)
		oldMode := []os.FileMode{0o755, 0o700, 0o644, 0o555}[rng.intn(4)]
		oldContent := []byte("OLD-BINARY")
		if oldExists {
			if err := os.WriteFile(target, oldContent, oldMode); err != nil {
				return err
			}
			_ = os.Chmod(target, oldMode)
		} else {
			tag("target-absent")
		}

		http.DefaultClient.Transport = tr
		var version string
		var rerr error
		panicked := false
		func() {
			defer func() {
				if r := recover(); r != nil {
					panicked = true
				}
			}()
			version, rerr = selfupdate.DownloadLatestStableRelease(context.Background(), target, current, nil)
		}()
		http.DefaultClient.Transport = oldTransport

		// observe
		var newContent []byte
		var newMode os.FileMode
		newExists := false
		if fi, err := os.Lstat(target); err == nil {
			newExists, newMode = true, fi.Mode()
			newContent, _ = os.ReadFile(target)
		}
		if ents, err := os.ReadDir(tdir); err == nil {
			for _, en := range ents {
				if en.Name() != "restic" {
					c.Hist("leftover-temp-file")
				}
			}
		}
		_ = os.RemoveAll(tdir)
		obs := "BErr"
		switch {
		case panicked:
			obs = "(BVersion (str \"panic\"))"
		case rerr == nil && version == current:
			obs = "BUpToDate"
		case rerr == nil:
			obs = "(BVersion " + coqStr(version) + ")"
		}

		// Coq term
		coqBody := func(a c51Asset) string {
			if a.body == nil {
				return "None"
			}
			if a.tok != "" {
				return "(Some " + coqStr(a.tok) + ")"
			}
			return "(Some " + coqHex(a.body) + ")"
		}
		as := make([]string, len(assets))
		seenTok := map[string]bool{}
		var shas, unps []string
		for j, a := range assets {
			as[j] = fmt.Sprintf("(mkAsset %s %s %s)", coqStr(a.name), coqBool(a.url), coqBody(a))
			if a.body != nil && a.tok != "" && !seenTok[a.tok] && strings.HasSuffix(a.name, ".bz2") {
				seenTok[a.tok] = true
				h := sha256.Sum256(a.body)
				shas = append(shas, "("+coqStr(a.tok)+", "+coqHex(h[:])+")")
				if p, ok := unpackOf(a.body); ok {
					unps = append(unps, "("+coqStr(a.tok)+", "+coqStr(string(p))+")")
				}
			}
		}
		var sigs []string
		if sigValidFor != nil {
			sigs = append(sigs, "("+coqStr(c51Tok(sig))+", "+coqHex(sigValidFor)+")")
		}
		for _, a := range assets {
			if a.name == "OLD-SHA256SUMS.asc" && a.body != nil {
				for _, b := range assets {
					if b.name == "OLD-SHA256SUMS" && b.body != nil {
						sigs = append(sigs, "("+coqStr(a.tok)+", "+coqHex(b.body)+")")
					}
				}
			}
		}
		relTag := "None"
		if relOK {
			relTag = "(Some " + coqStr(tagName) + ")"
		}
		term := fmt.Sprintf("CRun %s %s %s %s %s (mkRel %s %s) %s %s %s %s",
			coqList(sigs), coqList(shas), coqList(unps), coqStr(suffix), coqStr(current), relTag, coqList(as),
			c51CoqTgt(oldContent, oldMode, oldExists), obs, coqN(uint64(tr.reqs)), c51CoqTgt(newContent, newMode, newExists))
		kind := "run-plain"
		if len(kindTags) > 0 {
			kind = "run-" + kindTags[0]
			if len(kindTags) > 1 {
				kind += "+"
			}
		}
		changed := newExists != oldExists || !bytes.Equal(newContent, oldContent)
		c.Hist(fmt.Sprintf("changed=%v", changed))
		c.Case(kind, len(kindTags) > 0, len(sums)+len(assets), term,
			fmt.Sprintf("tags=%v sums=[%s] current=%q -> version=%q err=%v reqs=%d changed=%v mode=%o", kindTags, slabel, current, version, rerr != nil, tr.reqs, changed, newMode.Perm()))
	}

	// ---------- the real embedded key rejects our signatures ----------
	selfupdate.VerifC51SetKey(old)
	{
		sums := []byte(c51HexOf(archives[0]) + "  " + archName + "\n")
		ok, err := selfupdate.GPGVerify(sums, c51Sign(keys.trusted, sums, true))
		c.Info("real_key_accepts_harness_signature", ok && err == nil)
		if ok && err == nil {
			return fmt.Errorf("the embedded release key accepted a signature made by the harness key")
		}
	}
	return nil
}
