//go:build verif

package main

// C45 engine: drives the real dump.Dumper (internal/dump: DumpTree for tar and zip,
// WriteNode for a single file) on generated trees served by a mock loader whose
// data-blob loads complete after random delays (so the loader goroutines finish in
// shuffled order).  Trees contain nested directories, multi-blob files with repeated
// and empty blobs, symlinks, and special files (fifo, device, socket) directly below
// the dumped directory and deeper.  The archive is parsed back with archive/tar and
// archive/zip; observable: the sequence of entries (path, type, mode bits, link
// target, content).

import (
	"archive/tar"
	"archive/zip"
	"bytes"
	"context"
	"fmt"
	"io"
	"os"
	"runtime"
	"strconv"
	"strings"
	"sync"
	"time"

	"github.com/restic/restic/internal/data"
	"github.com/restic/restic/internal/dump"
	"github.com/restic/restic/internal/global"
	"github.com/restic/restic/internal/restic"
	"github.com/restic/restic/internal/ui/progress"
)

var _ = verifRegister("C45", engineC45)

type c45Node struct {
	name    int
	ty      int // 0 file, 1 dir, 2 symlink, 3 fifo, 4 dev, 5 socket
	mode    os.FileMode
	content []uint64
	link    string
	sub     []*c45Node
}

type c45Loader struct {
	mu     sync.Mutex
	trees  map[restic.ID][]byte
	blobs  map[restic.ID][]byte
	delays []time.Duration
	nload  int
	conns  uint
}

func (l *c45Loader) LoadBlob(_ context.Context, h restic.BlobHandle, buf []byte) ([]byte, error) {
	if h.Type == restic.TreeBlob {
		b, ok := l.trees[h.ID]
		if !ok {
			return nil, fmt.Errorf("c45: tree not found")
		}
		return b, nil
	}
	l.mu.Lock()
	var d time.Duration
	if len(l.delays) > 0 {
		d = l.delays[l.nload%len(l.delays)]
	}
	l.nload++
	b, ok := l.blobs[h.ID]
	l.mu.Unlock()
	if d > 0 {
		time.Sleep(d)
	}
	if !ok {
		return nil, fmt.Errorf("c45: blob not found")
	}
	// like Repository.loadBlob: the caller's buffer is reused when it can hold the
	// ciphertext (plaintext + 32 bytes), and the plaintext is returned as a slice of it
	const overhead = 32
	if cap(buf) < len(b)+overhead {
		buf = make([]byte, len(b)+overhead)
	}
	buf = buf[:len(b)]
	copy(buf, b)
	return buf, nil
}
func (l *c45Loader) LookupBlobSize(h restic.BlobHandle) (uint, bool) {
	if b, ok := l.blobs[h.ID]; ok {
		return uint(len(b)), true
	}
	return 0, false
}
func (l *c45Loader) Connections() uint { return l.conns }

// c45IDOf maps a blob number to its ID (mock loader: synthetic IDs; real repository: SHA-256)
var c45IDOf = c45DataID

func c45DataID(n uint64) restic.ID {
	var id restic.ID
	id[0] = byte(n)
	id[1] = byte(n >> 8)
	id[31] = 0x45
	return id
}

func c45Name(k int) string { return fmt.Sprintf("n%03d", k) }

func c45Save(l *c45Loader, blobs map[uint64][]byte, nodes []*c45Node) restic.ID {
	b := data.NewTreeJSONBuilder()
	types := []data.NodeType{data.NodeTypeFile, data.NodeTypeDir, data.NodeTypeSymlink, data.NodeTypeFifo, data.NodeTypeDev, data.NodeTypeSocket}
	for _, n := range nodes {
		node := c45DataNode(n, blobs)
		node.Type = types[n.ty]
		if n.ty == 1 {
			id := c45Save(l, blobs, n.sub)
			node.Subtree = &id
		}
		if err := b.AddNode(node); err != nil {
			panic(err)
		}
	}
	buf, _ := b.Finalize()
	id := restic.Hash(buf)
	l.trees[id] = buf
	return id
}

func c45DataNode(n *c45Node, blobs map[uint64][]byte) *data.Node {
	node := &data.Node{Name: c45Name(n.name), Type: data.NodeTypeFile, Mode: n.mode, ModTime: time.Unix(1700000000, 0), UID: 1000, GID: 1000}
	for _, c := range n.content {
		node.Content = append(node.Content, c45IDOf(c))
		node.Size += uint64(len(blobs[c]))
	}
	if n.ty == 2 {
		node.LinkTarget = n.link
	}
	return node
}

func c45TreeTerm(nodes []*c45Node) string {
	items := make([]string, len(nodes))
	for i, n := range nodes {
		cs := make([]string, len(n.content))
		for j, c := range n.content {
			cs[j] = coqN(c)
		}
		sub := "[]"
		if n.ty == 1 {
			sub = c45TreeTerm(n.sub)
		}
		items[i] = fmt.Sprintf("Node %s %s %s %s %s %s", coqN(uint64(n.name)), coqN(uint64(n.ty)), coqN(uint64(n.mode)), coqList(cs), coqHex([]byte(n.link)), sub)
	}
	return coqList(items)
}

func c45Count(nodes []*c45Node) int {
	k := len(nodes)
	for _, n := range nodes {
		k += c45Count(n.sub)
	}
	return k
}

// c45Pool: non-empty node lists generated so far in this tree; a directory may reuse one, so that
// several directories (at any depth) reference the same subtree ID.
var c45Pool [][]*c45Node

func c45Gen(rng *vrng, depth, maxNames, nblobs int) []*c45Node {
	var out []*c45Node
	for name := 0; name < maxNames; name++ {
		if !rng.chance(60) {
			continue
		}
		n := &c45Node{name: name, mode: os.FileMode(rng.intn(512))}
		if rng.chance(30) {
			n.mode = []os.FileMode{0o644, 0o755, 0o600, 0o777, 0}[rng.intn(5)]
		}
		if rng.chance(12) {
			n.mode |= os.ModeSetuid
		}
		if rng.chance(12) {
			n.mode |= os.ModeSetgid
		}
		if rng.chance(12) {
			n.mode |= os.ModeSticky
		}
		switch r := rng.intn(100); {
		case r < 30 && depth > 0:
			n.ty = 1
			n.mode |= os.ModeDir
			if len(c45Pool) > 0 && rng.chance(35) {
				n.sub = c45Pool[rng.intn(len(c45Pool))] // shared subtree: same tree ID
			} else {
				n.sub = c45Gen(rng, depth-1, maxNames, nblobs)
				if len(n.sub) > 0 {
					c45Pool = append(c45Pool, n.sub)
				}
			}
		case r < 70:
			n.ty = 0
			nc := rng.intn(5)
			if rng.chance(15) {
				nc = 8 + rng.intn(14)
			}
			for k := nc; k > 0; k-- {
				n.content = append(n.content, uint64(1+rng.intn(nblobs)))
			}
			if rng.chance(15) && len(n.content) > 0 {
				n.content = append(n.content, n.content[0], n.content[0]) // repeated blob
			}
		case r < 85:
			n.ty = 2
			n.mode |= os.ModeSymlink
			n.link = []string{"t", "../x/y", "/abs/target", "n001"}[rng.intn(4)]
		default:
			n.ty = 3 + rng.intn(3)
			n.mode |= []os.FileMode{os.ModeNamedPipe, os.ModeDevice, os.ModeSocket}[n.ty-3]
		}
		out = append(out, n)
	}
	return out
}

func c45Mode12(m os.FileMode) uint64 {
	v := uint64(m.Perm())
	if m&os.ModeSetuid != 0 {
		v |= 0o4000
	}
	if m&os.ModeSetgid != 0 {
		v |= 0o2000
	}
	if m&os.ModeSticky != 0 {
		v |= 0o1000
	}
	return v
}

func c45Path(name string) (string, bool) {
	slash := strings.HasSuffix(name, "/")
	var comps []string
	for _, p := range strings.Split(strings.Trim(name, "/"), "/") {
		k, err := strconv.Atoi(strings.TrimPrefix(p, "n"))
		if err != nil || !strings.HasPrefix(p, "n") || strings.HasPrefix(name, "/") {
			k = 999999
		}
		comps = append(comps, coqN(uint64(k)))
	}
	return coqList(comps), slash
}

func c45Entry(path string, slash bool, ty int, mode uint64, link string, content []byte) string {
	return fmt.Sprintf("mke %s %s %s %s %s %s", path, coqBool(slash), coqN(uint64(ty)), coqN(mode), coqHex([]byte(link)), coqHex(content))
}

// c45Run dumps and parses back. format: 0 tar, 1 zip, 2 single file.
func c45Run(l restic.Loader, save func([]*c45Node) (restic.ID, error), blobs map[uint64][]byte, nodes []*c45Node, root []int, format int) (entries []string, human []string, failed bool) {
	var buf bytes.Buffer
	ctx := context.Background()
	var err error
	func() {
		defer func() {
			if r := recover(); r != nil {
				err = fmt.Errorf("panic: %v", r)
			}
		}()
		if format == 2 {
			d := dump.New("tar", l, &buf)
			err = d.WriteNode(ctx, c45DataNode(nodes[0], blobs))
			return
		}
		var id restic.ID
		if id, err = save(nodes); err != nil {
			return
		}
		var tree data.TreeNodeIterator
		tree, err = data.LoadTree(ctx, l, id)
		if err != nil {
			return
		}
		rootPath := "/"
		for _, r := range root {
			rootPath += c45Name(r) + "/"
		}
		d := dump.New([]string{"tar", "zip"}[format], l, &buf)
		err = d.DumpTree(ctx, tree, rootPath)
	}()
	if err != nil {
		return nil, []string{"error: " + err.Error()}, true
	}
	switch format {
	case 2:
		entries = append(entries, c45Entry("[]", false, 0, 0, "", buf.Bytes()))
		human = append(human, fmt.Sprintf("file %x", buf.Bytes()))
	case 0:
		tr := tar.NewReader(bytes.NewReader(buf.Bytes()))
		for {
			hdr, err := tr.Next()
			if err == io.EOF {
				break
			}
			if err != nil {
				return nil, []string{"tar parse error: " + err.Error()}, true
			}
			content, _ := io.ReadAll(tr)
			ty := 9
			switch hdr.Typeflag {
			case tar.TypeReg:
				ty = 0
			case tar.TypeDir:
				ty = 1
			case tar.TypeSymlink:
				ty = 2
			}
			p, slash := c45Path(hdr.Name)
			entries = append(entries, c45Entry(p, slash, ty, uint64(hdr.Mode)&0o7777, hdr.Linkname, content))
			human = append(human, fmt.Sprintf("%c %s %o %q %x", hdr.Typeflag, hdr.Name, hdr.Mode, hdr.Linkname, content))
		}
	case 1:
		zr, err := zip.NewReader(bytes.NewReader(buf.Bytes()), int64(buf.Len()))
		if err != nil {
			return nil, []string{"zip parse error: " + err.Error()}, true
		}
		for _, f := range zr.File {
			rc, err := f.Open()
			var content []byte
			if err == nil {
				content, err = io.ReadAll(rc)
				_ = rc.Close()
			}
			if err != nil {
				return nil, []string{"zip read error: " + err.Error()}, true
			}
			m := f.Mode()
			ty := 0
			switch {
			case m&os.ModeDir != 0:
				ty = 1
			case m&os.ModeSymlink != 0:
				ty = 2
			case m&os.ModeType != 0:
				ty = 9
			}
			p, slash := c45Path(f.Name)
			entries = append(entries, c45Entry(p, slash, ty, c45Mode12(m), "", content))
			human = append(human, fmt.Sprintf("%d %s %o %x", ty, f.Name, c45Mode12(m), content))
		}
	}
	return
}


// c45SaveReal stores a crafted tree (children first) in a real repository.
func c45SaveReal(ctx context.Context, up restic.BlobSaverWithAsync, blobs map[uint64][]byte, nodes []*c45Node) (restic.ID, error) {
	b := data.NewTreeJSONBuilder()
	types := []data.NodeType{data.NodeTypeFile, data.NodeTypeDir, data.NodeTypeSymlink, data.NodeTypeFifo, data.NodeTypeDev, data.NodeTypeSocket}
	for _, n := range nodes {
		node := c45DataNode(n, blobs)
		node.Type = types[n.ty]
		if n.ty == 1 {
			id, err := c45SaveReal(ctx, up, blobs, n.sub)
			if err != nil {
				return restic.ID{}, err
			}
			node.Subtree = &id
		}
		if err := b.AddNode(node); err != nil {
			return restic.ID{}, err
		}
	}
	buf, _ := b.Finalize()
	id, _, _, err := up.SaveBlob(ctx, restic.TreeBlob, buf, restic.ID{}, false)
	return id, err
}

type c45RealCase struct {
	kind   string
	nodes  []*c45Node
	format int
	root   restic.ID
}

// c45Real: the Dumper on a real repository (real Repository.LoadBlob, which decrypts into the
// caller's buffer when it is large enough, real index, real bloblru cache).  Small data blobs are
// stored directly; the crafted trees repeat blobs inside a file with other blobs in between
// (A B A, A B C A B, long lists over a small alphabet) and contain duplicate files separated by
// other files, so a Dumper that does not keep a blob's bytes intact until its last use is caught.
func c45Real(c *vctx, emitCase func(kind string, bitems []string, blobs map[uint64][]byte, nodes []*c45Node, format int, entries, human []string, failed bool, info string)) error {
	e := newVenv(c, "real")
	defer os.RemoveAll(e.base)
	if _, se, err := e.cli("init"); err != nil {
		return fmt.Errorf("init: %v %s", err, se)
	}
	rng := c.rng.fork()
	const nblobs = 8
	blobs := map[uint64][]byte{}
	for k := uint64(1); k <= nblobs; k++ {
		blobs[k] = rng.bytes(40 + rng.intn(24))
	}
	blobs[7] = rng.bytes(5)
	var bitems []string
	for k := uint64(1); k <= nblobs; k++ {
		bitems = append(bitems, fmt.Sprintf("(%s, %s)", coqN(k), coqHex(blobs[k])))
	}
	file := func(name int, content ...uint64) *c45Node { return &c45Node{name: name, ty: 0, mode: 0o644, content: content} }
	var cases []*c45RealCase
	// single files
	lists := [][]uint64{{1, 2, 1}, {1, 2, 3, 1, 2}, {1, 2, 1, 3, 1, 4, 1, 2}, {3, 3, 4, 3}, {7, 1, 7, 2, 7}}
	for k := 0; k < c.n(6, 40); k++ {
		var l []uint64
		alpha := 3 + rng.intn(5)
		for n := 12 + rng.intn(28); n > 0; n-- {
			l = append(l, uint64(1+rng.intn(alpha)))
		}
		lists = append(lists, l)
	}
	for _, l := range lists {
		cases = append(cases, &c45RealCase{kind: "real-file", nodes: []*c45Node{file(1, l...)}, format: 2})
	}
	// duplicate files separated by other files, in tar and zip
	for format := 0; format <= 1; format++ {
		for rep := 0; rep < c.n(2, 8); rep++ {
			var top []*c45Node
			for i := 0; i < 10; i++ {
				dup := uint64(1 + (i+rep)%3)
				d := &c45Node{name: i, ty: 1, mode: os.ModeDir | 0o755}
				d.sub = []*c45Node{file(0, dup), file(1, uint64(4+rng.intn(2))), file(2, dup), file(3, 6, dup, 8), file(4, dup)}
				top = append(top, d)
			}
			cases = append(cases, &c45RealCase{kind: []string{"real-tar", "real-zip"}[format], nodes: top, format: format})
		}
	}
	for format := 0; format <= 1; format++ {
		shared := []*c45Node{file(0, 1, 2, 1), file(1, 3), {name: 2, ty: 1, mode: os.ModeDir | 0o755, sub: []*c45Node{file(0, 4)}}}
		dir := func(name int, sub []*c45Node) *c45Node { return &c45Node{name: name, ty: 1, mode: os.ModeDir | 0o755, sub: sub} }
		top := []*c45Node{dir(0, shared), dir(1, []*c45Node{dir(0, shared), file(1, 5)}), file(2, 6), dir(3, shared)}
		cases = append(cases, &c45RealCase{kind: []string{"real-tar-shared-subtree", "real-zip-shared-subtree"}[format], nodes: top, format: format})
		cases = append(cases, &c45RealCase{kind: []string{"real-tar-shared-subtree", "real-zip-shared-subtree"}[format], nodes: []*c45Node{dir(0, top), file(1, 7)}, format: format})
	}
	old := c45IDOf
	defer func() { c45IDOf = old }()
	_, _, err := e.run(func(ctx context.Context, gopts global.Options) error {
		printer := progress.NewTerminalPrinter(false, 0, gopts.Term)
		repo, err := global.OpenRepository(ctx, gopts, printer)
		if err != nil {
			return err
		}
		if err := repo.LoadIndex(ctx, printer); err != nil {
			return err
		}
		ids := map[uint64]restic.ID{}
		err = repo.WithBlobUploader(ctx, func(ctx context.Context, up restic.BlobSaverWithAsync) error {
			for k := uint64(1); k <= nblobs; k++ {
				id, _, _, err := up.SaveBlob(ctx, restic.DataBlob, blobs[k], restic.ID{}, false)
				if err != nil {
					return err
				}
				ids[k] = id
			}
			c45IDOf = func(n uint64) restic.ID { return ids[n] }
			for _, rc := range cases {
				if rc.format == 2 {
					continue
				}
				if rc.root, err = c45SaveReal(ctx, up, blobs, rc.nodes); err != nil {
					return err
				}
			}
			return nil
		})
		if err != nil {
			return err
		}
		for _, rc := range cases {
			for run := 0; run < 2; run++ {
				entries, human, failed := c45Run(repo, func([]*c45Node) (restic.ID, error) { return rc.root, nil }, blobs, rc.nodes, nil, rc.format)
				emitCase(rc.kind, bitems, blobs, rc.nodes, rc.format, entries, human, failed, fmt.Sprintf("real repository, conns=%d, GOMAXPROCS=%d", repo.Connections(), runtime.GOMAXPROCS(0)))
			}
		}
		return nil
	})
	return err
}

func engineC45(c *vctx) error {
	if runtime.GOMAXPROCS(0) < 4 {
		runtime.GOMAXPROCS(4)
	}
	c.Header("Model.C45m", "C45m.case", "C45m.check_case")
	c.Preamble("Import C45m.")
	emitCase := func(kind string, bitems []string, root []int, nodes []*c45Node, format int, entries, human []string, failed bool, info string) {
		rs := make([]string, len(root))
		for i, r := range root {
			rs[i] = coqN(uint64(r))
		}
		term := fmt.Sprintf("C45m.mk %s %s %s %s %s %s", coqList(bitems), coqN(uint64(format)), coqList(rs), c45TreeTerm(nodes), coqBool(failed), coqList(entries))
		sz := c45Count(nodes)
		c.Hist(fmt.Sprintf("format=%d entries=%d", format, min(len(entries), 9)/3*3))
		if len(human) > 12 {
			human = append(human[:12], "...")
		}
		c.Case(kind, sz >= 4 && len(entries) >= 3, sz, term,
			fmt.Sprintf("format=%d root=%v nodes=%d %s -> %s", format, root, sz, info, strings.Join(human, "; ")))
	}
	emit := func(kind string, rng *vrng, blobs map[uint64][]byte, missing uint64, nodes []*c45Node, root []int, format int) {
		l := &c45Loader{trees: map[restic.ID][]byte{}, blobs: map[restic.ID][]byte{}, conns: uint(1 + rng.intn(5))}
		var bitems []string
		for k := uint64(1); k <= uint64(len(blobs)); k++ {
			if k == missing {
				continue
			}
			l.blobs[c45DataID(k)] = blobs[k]
			bitems = append(bitems, fmt.Sprintf("(%s, %s)", coqN(k), coqHex(blobs[k])))
		}
		if rng.chance(85) {
			for i := 0; i < 7; i++ {
				l.delays = append(l.delays, time.Duration(rng.intn(400))*time.Microsecond)
			}
		}
		entries, human, failed := c45Run(l, func(ns []*c45Node) (restic.ID, error) { return c45Save(l, blobs, ns), nil }, blobs, nodes, root, format)
		emitCase(kind, bitems, root, nodes, format, entries, human, failed, fmt.Sprintf("conns=%d", l.conns))
	}
	mkBlobs := func(rng *vrng, n int) map[uint64][]byte {
		m := map[uint64][]byte{}
		for k := 1; k <= n; k++ {
			m[uint64(k)] = rng.bytes(rng.intn(6))
			if rng.chance(10) {
				m[uint64(k)] = rng.bytes(20 + rng.intn(30))
			}
		}
		return m
	}
	// corpus: F-C45 regression (special files directly below the dumped directory), nested dirs,
	// repeated and empty blobs, setuid/sticky
	r0 := c.rng.fork()
	cb := map[uint64][]byte{1: []byte("AB"), 2: []byte("C"), 3: {}, 4: []byte("0123456789abcdef")}
	corpus := []*c45Node{
		{name: 1, ty: 1, mode: os.ModeDir | 0o755, sub: []*c45Node{
			{name: 1, ty: 0, mode: os.ModeSetuid | 0o644, content: []uint64{1, 2, 1, 3, 4, 4}},
			{name: 2, ty: 3, mode: os.ModeNamedPipe | 0o644},
			{name: 3, ty: 1, mode: os.ModeDir | os.ModeSticky | 0o755, sub: []*c45Node{{name: 1, ty: 2, mode: os.ModeSymlink | 0o777, link: "../x"}}},
		}},
		{name: 2, ty: 3, mode: os.ModeNamedPipe | 0o644},
		{name: 3, ty: 0, mode: 0o600},
		{name: 4, ty: 4, mode: os.ModeDevice | 0o660},
		{name: 5, ty: 2, mode: os.ModeSymlink | 0o777, link: "n003"},
	}
	for format := 0; format <= 1; format++ {
		emit("corpus", r0, cb, 0, corpus, nil, format)
		emit("corpus", r0, cb, 0, corpus, []int{7, 8}, format)
		emit("corpus-empty", r0, cb, 0, nil, nil, format)
		emit("corpus-missing-blob", r0, cb, 2, corpus, nil, format)
	}
	{
		shared := []*c45Node{
			{name: 1, ty: 0, mode: 0o644, content: []uint64{1, 2}},
			{name: 2, ty: 2, mode: os.ModeSymlink | 0o777, link: "t"},
			{name: 3, ty: 1, mode: os.ModeDir | 0o700, sub: []*c45Node{{name: 1, ty: 0, mode: 0o600, content: []uint64{4}}}},
		}
		dir := func(name int, sub []*c45Node) *c45Node { return &c45Node{name: name, ty: 1, mode: os.ModeDir | 0o755, sub: sub} }
		tree := []*c45Node{dir(1, shared), dir(2, []*c45Node{dir(1, shared), {name: 2, ty: 0, mode: 0o644, content: []uint64{3}}}), dir(3, shared), dir(4, nil), dir(5, nil)}
		for format := 0; format <= 1; format++ {
			emit("corpus-shared-subtree", r0, cb, 0, tree, nil, format)
			emit("corpus-shared-subtree", r0, cb, 0, tree[1:], []int{9}, format)
			// all references below ONE directory of the dumped tree (one sendNodes call)
			emit("corpus-shared-subtree", r0, cb, 0, []*c45Node{dir(7, tree)}, nil, format)
			emit("corpus-shared-subtree", r0, cb, 0, []*c45Node{{name: 0, ty: 0, mode: 0o644}, dir(7, tree[:3]), dir(8, tree[:3])}, []int{2}, format)
		}
	}
	emit("corpus-file", r0, cb, 0, corpus[0].sub[:1], nil, 2)
	emit("corpus-file", r0, cb, 0, corpus[2:3], nil, 2)
	emit("corpus-file-missing-blob", r0, cb, 4, corpus[0].sub[:1], nil, 2)
	if err := c45Real(c, func(kind string, bitems []string, _ map[uint64][]byte, nodes []*c45Node, format int, entries, human []string, failed bool, info string) {
		emitCase(kind, bitems, nil, nodes, format, entries, human, failed, info)
	}); err != nil {
		return fmt.Errorf("real repository scenario: %w", err)
	}
	rounds := c.n(300, 4000)
	for r := 0; r < rounds; r++ {
		rng := c.rng.fork()
		nb := 1 + rng.intn(6)
		blobs := mkBlobs(rng, nb)
		switch q := rng.intn(100); {
		case q < 25: // single file with many blobs
			n := &c45Node{name: 1, ty: 0, mode: 0o644}
			nc := rng.intn(14)
			if rng.chance(30) {
				nc = 15 + rng.intn(20)
			}
			for k := nc; k > 0; k-- {
				n.content = append(n.content, uint64(1+rng.intn(nb)))
			}
			missing := uint64(0)
			kind := "file"
			if rng.chance(8) && len(n.content) > 0 {
				missing = n.content[rng.intn(len(n.content))]
				kind = "file-missing-blob"
			}
			emit(kind, rng, blobs, missing, []*c45Node{n}, nil, 2)
		default:
			depth := rng.intn(4)
			c45Pool = nil
			nodes := c45Gen(rng, depth, 2+rng.intn(4), nb)
			if c45Count(nodes) > 40 {
				continue
			}
			var root []int
			for k := rng.intn(3); k > 0; k-- {
				root = append(root, rng.intn(5))
			}
			format := rng.intn(2)
			emit([]string{"tar", "zip"}[format], rng, blobs, 0, nodes, root, format)
		}
	}
	return nil
}
