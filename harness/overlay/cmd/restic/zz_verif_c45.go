//go:build verif

package main

// C45 engine: drives the real dump.Dumper (internal/dump: DumpTree for tar and zip,
// WriteNode for a single file) on generated trees served by a mock loader whose
// data-blob loads complete after random delays (so the loader goroutines finish in
// shuffled order).  Trees contain nested directories, multi-blob files with repeated
// and empty blobs, symlinks, and special files (fifo, device, socket) directly below
// the dumped directory and deeper.  The archive is parsed back with archive/tar and
// archive/zip; observable: the sequence of entries (path, type, mode bits, link
// target, content).

import (
	"archive/tar"
	"archive/zip"
	"bytes"
	"context"
	"fmt"
	"io"
	"os"
	"strconv"
	"strings"
	"sync"
	"time"

	"github.com/restic/restic/internal/data"
	"github.com/restic/restic/internal/dump"
	"github.com/restic/restic/internal/restic"
)

var _ = verifRegister("C45", engineC45)

type c45Node struct {
	name    int
	ty      int // 0 file, 1 dir, 2 symlink, 3 fifo, 4 dev, 5 socket
	mode    os.FileMode
	content []uint64
	link    string
	sub     []*c45Node
}

type c45Loader struct {
	mu     sync.Mutex
	trees  map[restic.ID][]byte
	blobs  map[restic.ID][]byte
	delays []time.Duration
	nload  int
	conns  uint
}

func (l *c45Loader) LoadBlob(_ context.Context, h restic.BlobHandle, _ []byte) ([]byte, error) {
	if h.Type == restic.TreeBlob {
		b, ok := l.trees[h.ID]
		if !ok {
			return nil, fmt.Errorf("c45: tree not found")
		}
		return b, nil
	}
	l.mu.Lock()
	var d time.Duration
	if len(l.delays) > 0 {
		d = l.delays[l.nload%len(l.delays)]
	}
	l.nload++
	b, ok := l.blobs[h.ID]
	l.mu.Unlock()
	if d > 0 {
		time.Sleep(d)
	}
	if !ok {
		return nil, fmt.Errorf("c45: blob not found")
	}
	return append([]byte(nil), b...), nil
}
func (l *c45Loader) LookupBlobSize(h restic.BlobHandle) (uint, bool) {
	if b, ok := l.blobs[h.ID]; ok {
		return uint(len(b)), true
	}
	return 0, false
}
func (l *c45Loader) Connections() uint { return l.conns }

func c45DataID(n uint64) restic.ID {
	var id restic.ID
	id[0] = byte(n)
	id[1] = byte(n >> 8)
	id[31] = 0x45
	return id
}

func c45Name(k int) string { return fmt.Sprintf("n%03d", k) }

func c45Save(l *c45Loader, blobs map[uint64][]byte, nodes []*c45Node) restic.ID {
	b := data.NewTreeJSONBuilder()
	types := []data.NodeType{data.NodeTypeFile, data.NodeTypeDir, data.NodeTypeSymlink, data.NodeTypeFifo, data.NodeTypeDev, data.NodeTypeSocket}
	for _, n := range nodes {
		node := c45DataNode(n, blobs)
		node.Type = types[n.ty]
		if n.ty == 1 {
			id := c45Save(l, blobs, n.sub)
			node.Subtree = &id
		}
		if err := b.AddNode(node); err != nil {
			panic(err)
		}
	}
	buf, _ := b.Finalize()
	id := restic.Hash(buf)
	l.trees[id] = buf
	return id
}

func c45DataNode(n *c45Node, blobs map[uint64][]byte) *data.Node {
	node := &data.Node{Name: c45Name(n.name), Type: data.NodeTypeFile, Mode: n.mode, ModTime: time.Unix(1700000000, 0), UID: 1000, GID: 1000}
	for _, c := range n.content {
		node.Content = append(node.Content, c45DataID(c))
		node.Size += uint64(len(blobs[c]))
	}
	if n.ty == 2 {
		node.LinkTarget = n.link
	}
	return node
}

func c45TreeTerm(nodes []*c45Node) string {
	items := make([]string, len(nodes))
	for i, n := range nodes {
		cs := make([]string, len(n.content))
		for j, c := range n.content {
			cs[j] = coqN(c)
		}
		sub := "[]"
		if n.ty == 1 {
			sub = c45TreeTerm(n.sub)
		}
		items[i] = fmt.Sprintf("Node %s %s %s %s %s %s", coqN(uint64(n.name)), coqN(uint64(n.ty)), coqN(uint64(n.mode)), coqList(cs), coqHex([]byte(n.link)), sub)
	}
	return coqList(items)
}

func c45Count(nodes []*c45Node) int {
	k := len(nodes)
	for _, n := range nodes {
		k += c45Count(n.sub)
	}
	return k
}

func c45Gen(rng *vrng, depth, maxNames, nblobs int) []*c45Node {
	var out []*c45Node
	for name := 0; name < maxNames; name++ {
		if !rng.chance(60) {
			continue
		}
		n := &c45Node{name: name, mode: os.FileMode(rng.intn(512))}
		if rng.chance(30) {
			n.mode = []os.FileMode{0o644, 0o755, 0o600, 0o777, 0}[rng.intn(5)]
		}
		if rng.chance(12) {
			n.mode |= os.ModeSetuid
		}
		if rng.chance(12) {
			n.mode |= os.ModeSetgid
		}
		if rng.chance(12) {
			n.mode |= os.ModeSticky
		}
		switch r := rng.intn(100); {
		case r < 30 && depth > 0:
			n.ty = 1
			n.mode |= os.ModeDir
			n.sub = c45Gen(rng, depth-1, maxNames, nblobs)
		case r < 70:
			n.ty = 0
			for k := rng.intn(5); k > 0; k-- {
				n.content = append(n.content, uint64(1+rng.intn(nblobs)))
			}
			if rng.chance(15) && len(n.content) > 0 {
				n.content = append(n.content, n.content[0], n.content[0]) // repeated blob
			}
		case r < 85:
			n.ty = 2
			n.mode |= os.ModeSymlink
			n.link = []string{"t", "../x/y", "/abs/target", "n001"}[rng.intn(4)]
		default:
			n.ty = 3 + rng.intn(3)
			n.mode |= []os.FileMode{os.ModeNamedPipe, os.ModeDevice, os.ModeSocket}[n.ty-3]
		}
		out = append(out, n)
	}
	return out
}

func c45Mode12(m os.FileMode) uint64 {
	v := uint64(m.Perm())
	if m&os.ModeSetuid != 0 {
		v |= 0o4000
	}
	if m&os.ModeSetgid != 0 {
		v |= 0o2000
	}
	if m&os.ModeSticky != 0 {
		v |= 0o1000
	}
	return v
}

func c45Path(name string) (string, bool) {
	slash := strings.HasSuffix(name, "/")
	var comps []string
	for _, p := range strings.Split(strings.Trim(name, "/"), "/") {
		k, err := strconv.Atoi(strings.TrimPrefix(p, "n"))
		if err != nil || !strings.HasPrefix(p, "n") || strings.HasPrefix(name, "/") {
			k = 999999
		}
		comps = append(comps, coqN(uint64(k)))
	}
	return coqList(comps), slash
}

func c45Entry(path string, slash bool, ty int, mode uint64, link string, content []byte) string {
	return fmt.Sprintf("mke %s %s %s %s %s %s", path, coqBool(slash), coqN(uint64(ty)), coqN(mode), coqHex([]byte(link)), coqHex(content))
}

// c45Run dumps and parses back. format: 0 tar, 1 zip, 2 single file.
func c45Run(l *c45Loader, blobs map[uint64][]byte, nodes []*c45Node, root []int, format int) (entries []string, human []string, failed bool) {
	var buf bytes.Buffer
	ctx := context.Background()
	var err error
	func() {
		defer func() {
			if r := recover(); r != nil {
				err = fmt.Errorf("panic: %v", r)
			}
		}()
		if format == 2 {
			d := dump.New("tar", l, &buf)
			err = d.WriteNode(ctx, c45DataNode(nodes[0], blobs))
			return
		}
		id := c45Save(l, blobs, nodes)
		var tree data.TreeNodeIterator
		tree, err = data.LoadTree(ctx, l, id)
		if err != nil {
			return
		}
		rootPath := "/"
		for _, r := range root {
			rootPath += c45Name(r) + "/"
		}
		d := dump.New([]string{"tar", "zip"}[format], l, &buf)
		err = d.DumpTree(ctx, tree, rootPath)
	}()
	if err != nil {
		return nil, []string{"error: " + err.Error()}, true
	}
	switch format {
	case 2:
		entries = append(entries, c45Entry("[]", false, 0, 0, "", buf.Bytes()))
		human = append(human, fmt.Sprintf("file %x", buf.Bytes()))
	case 0:
		tr := tar.NewReader(bytes.NewReader(buf.Bytes()))
		for {
			hdr, err := tr.Next()
			if err == io.EOF {
				break
			}
			if err != nil {
				return nil, []string{"tar parse error: " + err.Error()}, true
			}
			content, _ := io.ReadAll(tr)
			ty := 9
			switch hdr.Typeflag {
			case tar.TypeReg:
				ty = 0
			case tar.TypeDir:
				ty = 1
			case tar.TypeSymlink:
				ty = 2
			}
			p, slash := c45Path(hdr.Name)
			entries = append(entries, c45Entry(p, slash, ty, uint64(hdr.Mode)&0o7777, hdr.Linkname, content))
			human = append(human, fmt.Sprintf("%c %s %o %q %x", hdr.Typeflag, hdr.Name, hdr.Mode, hdr.Linkname, content))
		}
	case 1:
		zr, err := zip.NewReader(bytes.NewReader(buf.Bytes()), int64(buf.Len()))
		if err != nil {
			return nil, []string{"zip parse error: " + err.Error()}, true
		}
		for _, f := range zr.File {
			rc, err := f.Open()
			var content []byte
			if err == nil {
				content, err = io.ReadAll(rc)
				_ = rc.Close()
			}
			if err != nil {
				return nil, []string{"zip read error: " + err.Error()}, true
			}
			m := f.Mode()
			ty := 0
			switch {
			case m&os.ModeDir != 0:
				ty = 1
			case m&os.ModeSymlink != 0:
				ty = 2
			case m&os.ModeType != 0:
				ty = 9
			}
			p, slash := c45Path(f.Name)
			entries = append(entries, c45Entry(p, slash, ty, c45Mode12(m), "", content))
			human = append(human, fmt.Sprintf("%d %s %o %x", ty, f.Name, c45Mode12(m), content))
		}
	}
	return
}

func engineC45(c *vctx) error {
	c.Header("Model.C45m", "C45m.case", "C45m.check_case")
	c.Preamble("Import C45m.")
	emit := func(kind string, rng *vrng, blobs map[uint64][]byte, missing uint64, nodes []*c45Node, root []int, format int) {
		l := &c45Loader{trees: map[restic.ID][]byte{}, blobs: map[restic.ID][]byte{}, conns: uint(1 + rng.intn(5))}
		var bitems []string
		for k := uint64(1); k <= uint64(len(blobs)); k++ {
			if k == missing {
				continue
			}
			l.blobs[c45DataID(k)] = blobs[k]
			bitems = append(bitems, fmt.Sprintf("(%s, %s)", coqN(k), coqHex(blobs[k])))
		}
		if rng.chance(85) {
			for i := 0; i < 7; i++ {
				l.delays = append(l.delays, time.Duration(rng.intn(400))*time.Microsecond)
			}
		}
		entries, human, failed := c45Run(l, blobs, nodes, root, format)
		rs := make([]string, len(root))
		for i, r := range root {
			rs[i] = coqN(uint64(r))
		}
		term := fmt.Sprintf("C45m.mk %s %s %s %s %s %s", coqList(bitems), coqN(uint64(format)), coqList(rs), c45TreeTerm(nodes), coqBool(failed), coqList(entries))
		sz := c45Count(nodes)
		c.Hist(fmt.Sprintf("format=%d entries=%d", format, min(len(entries), 9)/3*3))
		if len(human) > 12 {
			human = append(human[:12], "...")
		}
		c.Case(kind, sz >= 4 && len(entries) >= 3, sz, term,
			fmt.Sprintf("format=%d root=%v nodes=%d conns=%d -> %s", format, root, sz, l.conns, strings.Join(human, "; ")))
	}
	mkBlobs := func(rng *vrng, n int) map[uint64][]byte {
		m := map[uint64][]byte{}
		for k := 1; k <= n; k++ {
			m[uint64(k)] = rng.bytes(rng.intn(6))
			if rng.chance(10) {
				m[uint64(k)] = rng.bytes(20 + rng.intn(30))
			}
		}
		return m
	}
	// corpus: F-C45 regression (special files directly below the dumped directory), nested dirs,
	// repeated and empty blobs, setuid/sticky
	r0 := c.rng.fork()
	cb := map[uint64][]byte{1: []byte("AB"), 2: []byte("C"), 3: {}, 4: []byte("0123456789abcdef")}
	corpus := []*c45Node{
		{name: 1, ty: 1, mode: os.ModeDir | 0o755, sub: []*c45Node{
			{name: 1, ty: 0, mode: os.ModeSetuid | 0o644, content: []uint64{1, 2, 1, 3, 4, 4}},
			{name: 2, ty: 3, mode: os.ModeNamedPipe | 0o644},
			{name: 3, ty: 1, mode: os.ModeDir | os.ModeSticky | 0o755, sub: []*c45Node{{name: 1, ty: 2, mode: os.ModeSymlink | 0o777, link: "../x"}}},
		}},
		{name: 2, ty: 3, mode: os.ModeNamedPipe | 0o644},
		{name: 3, ty: 0, mode: 0o600},
		{name: 4, ty: 4, mode: os.ModeDevice | 0o660},
		{name: 5, ty: 2, mode: os.ModeSymlink | 0o777, link: "n003"},
	}
	for format := 0; format <= 1; format++ {
		emit("corpus", r0, cb, 0, corpus, nil, format)
		emit("corpus", r0, cb, 0, corpus, []int{7, 8}, format)
		emit("corpus-empty", r0, cb, 0, nil, nil, format)
		emit("corpus-missing-blob", r0, cb, 2, corpus, nil, format)
	}
	emit("corpus-file", r0, cb, 0, corpus[0].sub[:1], nil, 2)
	emit("corpus-file", r0, cb, 0, corpus[2:3], nil, 2)
	emit("corpus-file-missing-blob", r0, cb, 4, corpus[0].sub[:1], nil, 2)
	rounds := c.n(300, 4000)
	for r := 0; r < rounds; r++ {
		rng := c.rng.fork()
		nb := 1 + rng.intn(6)
		blobs := mkBlobs(rng, nb)
		switch q := rng.intn(100); {
		case q < 25: // single file with many blobs
			n := &c45Node{name: 1, ty: 0, mode: 0o644}
			for k := rng.intn(14); k > 0; k-- {
				n.content = append(n.content, uint64(1+rng.intn(nb)))
			}
			missing := uint64(0)
			kind := "file"
			if rng.chance(8) && len(n.content) > 0 {
				missing = n.content[rng.intn(len(n.content))]
				kind = "file-missing-blob"
			}
			emit(kind, rng, blobs, missing, []*c45Node{n}, nil, 2)
		default:
			depth := rng.intn(4)
			nodes := c45Gen(rng, depth, 2+rng.intn(4), nb)
			if c45Count(nodes) > 40 {
				continue
			}
			var root []int
			for k := rng.intn(3); k > 0; k-- {
				root = append(root, rng.intn(5))
			}
			format := rng.intn(2)
			emit([]string{"tar", "zip"}[format], rng, blobs, 0, nodes, root, format)
		}
	}
	return nil
}
