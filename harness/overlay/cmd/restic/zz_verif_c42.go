//go:build verif

package main

// C42 engine: drives the real data.FindUsedBlobs and data.StreamTrees
// (internal/data/find.go, tree_stream.go) on generated tree DAGs served by a mock
// restic.Loader (heavy sharing, wide trees, chains, null / nil subtree pointers,
// nodes whose type does not match their payload, missing and undecodable trees,
// spoofed "huge" sizes for the huge-tree channel, pre-populated blob sets, random
// load delays).  Observables: error yes/no, final tree and data handle sets, the
// multiset of process / load calls, the progress counter.

import (
	"bytes"
	"context"
	"encoding/binary"
	"fmt"
	"os"
	"os/exec"
	"sort"
	"strings"
	"sync"
	"time"

	"github.com/restic/restic/internal/data"
	"github.com/restic/restic/internal/global"
	"github.com/restic/restic/internal/restic"
	"github.com/restic/restic/internal/ui/progress"
)

var _ = verifRegister("C42", engineC42)

func c42ID(n uint64) restic.ID {
	var id restic.ID
	binary.LittleEndian.PutUint64(id[:8], n)
	if n != 0 {
		id[31] = 0x42
	}
	return id
}

func c42Num(id restic.ID) uint64 { return binary.LittleEndian.Uint64(id[:8]) }

type c42Node struct {
	typ     int // 0 file, 1 dir, 2 other
	hasSub  bool
	sub     uint64
	content []uint64
}

type c42Tree struct {
	id       uint64
	nodes    []c42Node
	bad      int  // 0 ok, 1 garbage blob, 2 error in the middle of the node list, 3 missing in the loader
	huge     bool // LookupBlobSize reports > 50 MiB
	unknown  bool // LookupBlobSize reports not found
	badAfter int
}

type c42Loader struct {
	mu     sync.Mutex
	blobs  map[restic.ID][]byte
	huge   map[restic.ID]bool
	unk    map[restic.ID]bool
	delay  map[restic.ID]time.Duration
	loads  []uint64
	nconns uint
}

func (l *c42Loader) LoadBlob(ctx context.Context, h restic.BlobHandle, _ []byte) ([]byte, error) {
	if d := l.delay[h.ID]; d > 0 {
		time.Sleep(d)
	}
	l.mu.Lock()
	defer l.mu.Unlock()
	if h.Type != restic.TreeBlob {
		return nil, fmt.Errorf("c42: unexpected blob type")
	}
	b, ok := l.blobs[h.ID]
	if !ok {
		return nil, fmt.Errorf("c42: tree not found")
	}
	l.loads = append(l.loads, c42Num(h.ID))
	return b, nil
}

func (l *c42Loader) LookupBlobSize(h restic.BlobHandle) (uint, bool) {
	if l.unk[h.ID] {
		return 0, false
	}
	if l.huge[h.ID] {
		return 50*1024*1024 + 1 + uint(c42Num(h.ID)%7)*1000, true
	}
	if c42Num(h.ID)%5 == 0 {
		return 50 * 1024 * 1024, true // boundary: not huge
	}
	return 100, true
}

func (l *c42Loader) Connections() uint { return l.nconns }

type c42Counter struct {
	mu sync.Mutex
	n  uint64
}

func (c *c42Counter) Add(v uint64) { c.mu.Lock(); c.n += v; c.mu.Unlock() }
func (c *c42Counter) SetMax(uint64) {}
func (c *c42Counter) Get() (uint64, uint64) {
	c.mu.Lock()
	defer c.mu.Unlock()
	return c.n, 0
}
func (c *c42Counter) Done() {}

func c42Encode(t *c42Tree) []byte {
	if t.bad == 1 {
		return []byte(`{"nodez": 1`)
	}
	b := data.NewTreeJSONBuilder()
	types := []data.NodeType{data.NodeTypeFile, data.NodeTypeDir, data.NodeTypeSymlink}
	for i, n := range t.nodes {
		node := &data.Node{Name: fmt.Sprintf("n%05d", i), Type: types[n.typ]}
		if n.typ == 2 && i%2 == 1 {
			node.Type = data.NodeTypeFifo
		}
		if n.hasSub {
			id := c42ID(n.sub)
			node.Subtree = &id
		}
		for _, c := range n.content {
			node.Content = append(node.Content, c42ID(c))
		}
		_ = b.AddNode(node)
	}
	buf, _ := b.Finalize()
	if t.bad == 2 {
		// cut inside the node list: the iterator reports an error after some nodes
		s := string(buf)
		idx := -1
		for k := 0; k <= t.badAfter; k++ {
			j := strings.Index(s[idx+1:], `{"name"`)
			if j < 0 {
				break
			}
			idx += 1 + j
		}
		if idx < 0 {
			idx = len(`{"nodes":[`)
		}
		return []byte(s[:idx] + `{"name": 5}]}`)
	}
	return buf
}

type c42Obs struct {
	err    bool
	hang   bool
	trees  []uint64
	data   []uint64
	loads  []uint64
	prog   int64
	detail string
}

func c42Sorted(m map[uint64]bool) []uint64 {
	out := make([]uint64, 0, len(m))
	for k := range m {
		out = append(out, k)
	}
	sort.Slice(out, func(i, j int) bool { return out[i] < out[j] })
	return out
}

// c42Run drives the real code. direct=false: FindUsedBlobs with a restic.BlobSet;
// direct=true: StreamTrees with the callbacks of a blob-set client, recording process calls.
func c42Run(trees []*c42Tree, roots []uint64, seen0, dat0 []uint64, delays map[uint64]time.Duration, conns uint, direct bool) c42Obs {
	l := &c42Loader{blobs: map[restic.ID][]byte{}, huge: map[restic.ID]bool{}, unk: map[restic.ID]bool{}, delay: map[restic.ID]time.Duration{}, nconns: conns}
	for _, t := range trees {
		id := c42ID(t.id)
		if t.bad != 3 {
			l.blobs[id] = c42Encode(t)
		}
		l.huge[id] = t.huge
		l.unk[id] = t.unknown
		l.delay[id] = delays[t.id]
	}
	rootIDs := make(restic.IDs, len(roots))
	for i, r := range roots {
		rootIDs[i] = c42ID(r)
	}
	done := make(chan c42Obs, 1)
	go func() {
		var o c42Obs
		defer func() {
			if r := recover(); r != nil {
				o.err = true
				o.detail = fmt.Sprint("panic: ", r)
				done <- o
			}
		}()
		ctr := &c42Counter{}
		var err error
		treeSet, dataSet := map[uint64]bool{}, map[uint64]bool{}
		if !direct {
			set := restic.NewBlobSet()
			for _, t := range seen0 {
				set.Insert(restic.BlobHandle{Type: restic.TreeBlob, ID: c42ID(t)})
			}
			for _, d := range dat0 {
				set.Insert(restic.BlobHandle{Type: restic.DataBlob, ID: c42ID(d)})
			}
			err = data.FindUsedBlobs(context.Background(), l, rootIDs, set, ctr)
			for h := range set {
				if h.Type == restic.TreeBlob {
					treeSet[c42Num(h.ID)] = true
				} else {
					dataSet[c42Num(h.ID)] = true
				}
			}
			l.mu.Lock()
			o.loads = append([]uint64(nil), l.loads...)
			l.mu.Unlock()
		} else {
			var mu sync.Mutex
			for _, t := range seen0 {
				treeSet[t] = true
			}
			for _, d := range dat0 {
				dataSet[d] = true
			}
			var calls []uint64
			err = data.StreamTrees(context.Background(), l, rootIDs, ctr, func(id restic.ID) bool {
				mu.Lock()
				defer mu.Unlock()
				n := c42Num(id)
				was := treeSet[n]
				treeSet[n] = true
				return was
			}, func(id restic.ID, lerr error, nodes data.TreeNodeIterator) error {
				if lerr != nil {
					return lerr
				}
				var ds []uint64
				for item := range nodes {
					if item.Error != nil {
						return item.Error
					}
					if item.Node.Type == data.NodeTypeFile {
						for _, c := range item.Node.Content {
							ds = append(ds, c42Num(c))
						}
					}
				}
				mu.Lock()
				calls = append(calls, c42Num(id))
				for _, d := range ds {
					dataSet[d] = true
				}
				mu.Unlock()
				return nil
			})
			o.loads = calls
		}
		o.err = err != nil
		if err != nil {
			o.detail = err.Error()
		}
		o.trees, o.data = c42Sorted(treeSet), c42Sorted(dataSet)
		sort.Slice(o.loads, func(i, j int) bool { return o.loads[i] < o.loads[j] })
		n, _ := ctr.Get()
		o.prog = int64(n)
		done <- o
	}()
	select {
	case o := <-done:
		return o
	case <-time.After(20 * time.Second):
		return c42Obs{hang: true, prog: -1, detail: "hang"}
	}
}

func c42Ns(xs []uint64) string {
	items := make([]string, len(xs))
	for i, x := range xs {
		items[i] = coqN(x)
	}
	return coqList(items)
}

func c42StoreTerm(trees []*c42Tree) string {
	items := make([]string, 0, len(trees))
	for _, t := range trees {
		if t.bad == 3 {
			continue // absent from the store = load error
		}
		if t.bad != 0 {
			items = append(items, fmt.Sprintf("(%s, None)", coqN(t.id)))
			continue
		}
		ns := make([]string, len(t.nodes))
		for i, n := range t.nodes {
			ty := []string{"TFile", "TDir", "TOther"}[n.typ]
			ns[i] = fmt.Sprintf("mkn %s %s %s", ty, coqOpt(n.hasSub, coqN(n.sub)), c42Ns(n.content))
		}
		items = append(items, fmt.Sprintf("(%s, Some %s)", coqN(t.id), coqList(ns)))
	}
	return coqList(items)
}

// c42Gen builds a DAG (occasionally with a cycle, which only a mock loader can serve).
func c42Gen(rng *vrng, shape int) (trees []*c42Tree, roots, seen0, dat0 []uint64, kind string) {
	n := 1 + rng.intn(12)
	if rng.chance(60) {
		n = 4 + rng.intn(9)
	}
	if shape == 1 {
		n = 2 + rng.intn(7) // chain
	}
	ids := make([]uint64, n)
	for i := range ids {
		ids[i] = uint64(i + 1)
	}
	nData := 1 + rng.intn(8)
	pickData := func() uint64 { return 1000 + uint64(rng.intn(nData)) }
	anyBad := false
	for i := 0; i < n; i++ {
		t := &c42Tree{id: ids[i]}
		nn := rng.intn(6)
		if shape == 2 && i == 0 {
			nn = 150 + rng.intn(200) // wide tree
		}
		for k := 0; k < nn; k++ {
			var nd c42Node
			r := rng.intn(100)
			switch {
			case r < 50: // directory
				nd.typ = 1
				nd.hasSub = true
				switch q := rng.intn(100); {
				case q < 6:
					nd.sub = 0 // null ID
				case q < 10:
					nd.hasSub = false // nil subtree pointer
				case q < 14 && shape == 3:
					nd.sub = ids[rng.intn(i+1)] // back edge / self loop
				case q < 16 && rng.chance(40):
					nd.sub = uint64(n + 1 + rng.intn(2)) // dangling: tree not in the loader
				default:
					if i+1 < n {
						nd.sub = ids[i+1+rng.intn(n-i-1)]
						if shape == 1 {
							nd.sub = ids[i+1]
						}
					} else {
						nd.hasSub = false
					}
				}
				if rng.chance(10) {
					nd.content = []uint64{pickData()} // content on a dir node: not counted
				}
			case r < 85: // file
				nd.typ = 0
				for c := rng.intn(4); c > 0; c-- {
					nd.content = append(nd.content, pickData())
				}
				if rng.chance(10) && n > 1 {
					nd.hasSub = true
					nd.sub = ids[rng.intn(n)] // subtree pointer on a file node: not followed
				}
				if rng.chance(5) {
					nd.hasSub = true
					nd.sub = uint64(n + 3) // would be an error if followed
				}
			default: // symlink / fifo
				nd.typ = 2
				if rng.chance(30) {
					nd.content = []uint64{pickData() + 500}
				}
				if rng.chance(20) && n > 1 {
					nd.hasSub = true
					nd.sub = ids[rng.intn(n)]
				}
			}
			t.nodes = append(t.nodes, nd)
		}
		if shape == 4 && i > 0 && rng.chance(25) {
			t.bad = 1 + rng.intn(3)
			t.badAfter = rng.intn(3)
			anyBad = true
		}
		t.huge = rng.chance(15)
		t.unknown = !t.huge && rng.chance(15)
		trees = append(trees, t)
	}
	_ = anyBad
	// roots
	nr := 1 + rng.intn(3)
	if rng.chance(5) {
		nr = 0
	}
	for i := 0; i < nr; i++ {
		switch q := rng.intn(100); {
		case q < 75:
			roots = append(roots, ids[0])
		case q < 95:
			roots = append(roots, ids[rng.intn(n)])
		default:
			roots = append(roots, 0) // null root ID: not filtered by filterTrees
		}
	}
	if rng.chance(8) {
		trees = append(trees, &c42Tree{id: 0, nodes: []c42Node{{typ: 0, content: []uint64{pickData()}}}})
	}
	// pre-populated set
	if rng.chance(25) {
		for k := rng.intn(3) + 1; k > 0; k-- {
			seen0 = append(seen0, ids[rng.intn(n)])
		}
		if rng.chance(30) {
			seen0 = append(seen0, uint64(n+1))
		}
		for k := rng.intn(3); k > 0; k-- {
			dat0 = append(dat0, pickData()+uint64(rng.intn(2))*700)
		}
	}
	kind = []string{"dag", "chain", "wide", "cyclic", "broken"}[shape]
	return
}


// Whole-program scenarios for the consumers of the tree node iterator.  A scratch repository
// gets two crafted snapshots whose root tree has a directory node "d" pointing at a tree blob
// stored under its true SHA-256: in snapshot B the blob is broken (variant "mid": valid JSON up
// to a node with a wrong-typed field; variant "start": undecodable from the first token), in
// snapshot G it is healthy.  Then the real CLI (this binary without RESTIC_VERIF, i.e. restic's
// main) runs one command per probe.  A reachable unreadable tree must be handled: commands that
// need the whole tree must fail with an error (exit code != 0), no command may crash.
type c42Probe struct {
	name     string
	args     []string // "@B", "@G" = snapshot ids, "@T" = scratch target dir, "@R2" = second repository, "@SRC" = dir to back up
	mustFail bool
	cwd      string
}

type c42Scratch struct {
	e      *venv
	snapB  string
	snapG  string
	target string
	repo2  string
	src    string
}

func c42Craft(c *vctx, variant string) (*c42Scratch, error) {
	e := newVenv(c, "cli-"+variant)
	if _, se, err := e.cli("init"); err != nil {
		return nil, fmt.Errorf("init: %v %s", err, se)
	}
	// canonical serialisation (rewrite / repair refuse trees they cannot re-encode identically)
	tb := data.NewTreeJSONBuilder()
	for _, n := range []string{"a", "b", "c"} {
		if err := tb.AddNode(&data.Node{Name: n, Type: data.NodeTypeFile, Mode: 0o644, ModTime: time.Unix(1700000000, 0), AccessTime: time.Unix(1700000000, 0), ChangeTime: time.Unix(1700000000, 0), Content: restic.IDs{}}); err != nil {
			return nil, err
		}
	}
	good, _ := tb.Finalize()
	var bad []byte
	switch variant {
	case "mid":
		bad = bytes.Replace(good, []byte(`"name":"b"`), []byte(`"name":5`), 1)
		if bytes.Equal(bad, good) {
			return nil, fmt.Errorf("c42: could not craft the broken tree")
		}
	case "start":
		bad = []byte(`{"nodez": 1`)
	default:
		bad = good
	}
	sc := &c42Scratch{e: e, target: e.base + "/target", repo2: e.base + "/repo2", src: e.base + "/src"}
	_ = os.MkdirAll(sc.src+"/d", 0o755)
	for _, n := range []string{"a", "b", "c"} {
		_ = os.WriteFile(sc.src+"/d/"+n, nil, 0o644)
	}
	_ = os.WriteFile(sc.src+"/f", nil, 0o644)
	_, _, err := e.run(func(ctx context.Context, gopts global.Options) error {
		printer := progress.NewTerminalPrinter(false, 0, gopts.Term)
		repo, err := global.OpenRepository(ctx, gopts, printer)
		if err != nil {
			return err
		}
		if err := repo.LoadIndex(ctx, printer); err != nil {
			return err
		}
		var roots [2]restic.ID
		err = repo.WithBlobUploader(ctx, func(ctx context.Context, up restic.BlobSaverWithAsync) error {
			for k, sub := range [][]byte{bad, good} {
				subID, _, _, err := up.SaveBlob(ctx, restic.TreeBlob, sub, restic.ID{}, false)
				if err != nil {
					return err
				}
				tw := data.NewTreeWriter(up)
				if err := tw.AddNode(&data.Node{Name: "d", Type: data.NodeTypeDir, Mode: os.ModeDir | 0o755, Subtree: &subID}); err != nil {
					return err
				}
				if err := tw.AddNode(&data.Node{Name: "f", Type: data.NodeTypeFile, Mode: 0o644, Content: restic.IDs{}}); err != nil {
					return err
				}
				if roots[k], err = tw.Finalize(ctx); err != nil {
					return err
				}
			}
			return nil
		})
		if err != nil {
			return err
		}
		for k := range roots {
			sn, err := data.NewSnapshot([]string{"/crafted"}, nil, "verif", time.Unix(int64(1700000000+k), 0))
			if err != nil {
				return err
			}
			sn.Tree = &roots[k]
			id, err := data.SaveSnapshot(ctx, repo, sn)
			if err != nil {
				return err
			}
			if k == 0 {
				sc.snapB = id.String()
			} else {
				sc.snapG = id.String()
			}
		}
		return nil
	})
	if err != nil {
		return nil, fmt.Errorf("craft: %v", err)
	}
	return sc, nil
}

func (sc *c42Scratch) restic(cwd string, extraEnv []string, args ...string) (exit int, panicked bool, detail string, err error) {
	self, err := os.Executable()
	if err != nil {
		return 0, false, "", err
	}
	ctx, cancel := context.WithTimeout(context.Background(), 180*time.Second)
	defer cancel()
	cmd := exec.CommandContext(ctx, self, append([]string{"--no-cache"}, args...)...)
	var env []string
	for _, kv := range os.Environ() {
		if !strings.HasPrefix(kv, "RESTIC_") {
			env = append(env, kv)
		}
	}
	cmd.Env = append(append(env, "RESTIC_REPOSITORY="+sc.e.repo, "RESTIC_PASSWORD="+vPassword), extraEnv...)
	cmd.Dir = cwd
	var ob, eb bytes.Buffer
	cmd.Stdout, cmd.Stderr = &ob, &eb
	_ = cmd.Run()
	exit = cmd.ProcessState.ExitCode()
	out := ob.String() + eb.String()
	panicked = strings.Contains(out, "panic:") || strings.Contains(out, "goroutine ") || strings.Contains(out, "fatal error:")
	for _, l := range strings.Split(out, "\n") {
		if strings.Contains(l, "panic:") || strings.Contains(l, "Fatal:") || strings.Contains(l, "fatal error:") {
			detail += strings.TrimSpace(l) + " | "
		}
	}
	if len(detail) > 240 {
		detail = detail[:240]
	}
	return exit, panicked, detail, nil
}

func (sc *c42Scratch) probe(p c42Probe) (int, bool, string, error) {
	args := make([]string, len(p.args))
	for i, a := range p.args {
		a = strings.ReplaceAll(a, "@B", sc.snapB)
		a = strings.ReplaceAll(a, "@G", sc.snapG)
		a = strings.ReplaceAll(a, "@T", sc.target)
		a = strings.ReplaceAll(a, "@R2", sc.repo2)
		args[i] = a
	}
	cwd := sc.e.base
	if p.cwd == "@SRC" {
		cwd = sc.src
	}
	return sc.restic(cwd, []string{"RESTIC_FROM_PASSWORD=" + vPassword}, args...)
}

// c42Probes: read-only commands first, then the ones that write.
var c42Probes = []c42Probe{
	{name: "check", args: []string{"check", "--no-lock"}, mustFail: true},
	{name: "ls", args: []string{"ls", "@B"}},
	{name: "ls-recursive", args: []string{"ls", "-l", "--recursive", "@B"}},
	{name: "ls-subdir", args: []string{"ls", "@B:/d"}},
	{name: "find", args: []string{"find", "-s", "@B", "c"}},
	{name: "dump-file-before", args: []string{"dump", "@B", "/d/a"}},
	{name: "dump-file-after", args: []string{"dump", "@B", "/d/c"}, mustFail: true},
	{name: "dump-tar-dir", args: []string{"dump", "-a", "tar", "@B", "/d"}, mustFail: true},
	{name: "dump-zip-root", args: []string{"dump", "-a", "zip", "@B", "/"}, mustFail: true},
	{name: "restore", args: []string{"restore", "@B", "--target", "@T"}, mustFail: true},
	{name: "restore-include", args: []string{"restore", "@B", "--target", "@T", "--include", "/d/c"}},
	{name: "restore-verify", args: []string{"restore", "@G", "--target", "@T", "--verify"}},
	{name: "diff-bad-good", args: []string{"diff", "@B", "@G"}},
	{name: "diff-good-bad", args: []string{"diff", "--metadata", "@G", "@B"}},
	{name: "stats", args: []string{"stats", "@B"}, mustFail: true},
	{name: "stats-raw", args: []string{"stats", "--mode", "raw-data", "@B"}, mustFail: true},
	{name: "stats-blobs-per-file", args: []string{"stats", "--mode", "blobs-per-file", "@B"}, mustFail: true},
	{name: "stats-files-by-contents", args: []string{"stats", "--mode", "files-by-contents", "@B"}, mustFail: true},
	{name: "snapshots", args: []string{"snapshots"}},
	{name: "backup-parent", args: []string{"backup", "--parent", "@B", "--force=false", "d", "f"}, cwd: "@SRC"},
	{name: "init-repo2", args: []string{"init", "--repo", "@R2", "--from-repo", "@R2x"}},
	{name: "copy", args: []string{"copy", "--repo", "@R2", "--from-repo", "@REPO", "@B"}, mustFail: true},
	{name: "rewrite", args: []string{"rewrite", "--exclude", "/d/a", "@B"}},
	{name: "rewrite-noop", args: []string{"rewrite", "--exclude", "/nothing", "@B"}},
	{name: "recover", args: []string{"recover"}},
	{name: "prune", args: []string{"prune"}, mustFail: true},
	{name: "repair-snapshots-dry", args: []string{"repair", "snapshots", "--dry-run"}},
	{name: "repair-snapshots", args: []string{"repair", "snapshots", "--forget"}},
	{name: "check-after-repair", args: []string{"check", "--no-lock"}},
}

func c42RunProbes(c *vctx, variant string, emit func(kind string, mustFail bool, exit int, panicked bool, detail string)) error {
	sc, err := c42Craft(c, variant)
	if err != nil {
		return err
	}
	defer os.RemoveAll(sc.e.base)
	for _, p := range c42Probes {
		if p.name == "init-repo2" {
			// second repository for copy (own chunker parameters are fine)
			ex, _, d, err := sc.restic(sc.e.base, []string{"RESTIC_REPOSITORY=" + sc.repo2}, "init")
			if err != nil || ex != 0 {
				return fmt.Errorf("init repo2: exit %d %s %v", ex, d, err)
			}
			continue
		}
		if p.name == "copy" {
			ex, pn, d, err := sc.restic(sc.e.base, []string{"RESTIC_REPOSITORY=" + sc.repo2, "RESTIC_FROM_REPOSITORY=" + sc.e.repo, "RESTIC_FROM_PASSWORD=" + vPassword}, "copy", sc.snapB)
			if err != nil {
				return err
			}
			emit(p.name, p.mustFail, ex, pn, d)
			continue
		}
		ex, pn, d, err := sc.probe(p)
		if err != nil {
			return err
		}
		emit(p.name, p.mustFail, ex, pn, d)
	}
	return nil
}

func engineC42(c *vctx) error {
	c.Header("Model.C42m", "C42m.case", "C42m.check_case")
	c.Preamble("Import C42m.")
	emit := func(kind string, trees []*c42Tree, roots, seen0, dat0 []uint64, rng *vrng, direct bool) {
		delays := map[uint64]time.Duration{}
		if rng.chance(70) {
			for _, t := range trees {
				if rng.chance(60) {
					delays[t.id] = time.Duration(rng.intn(300)) * time.Microsecond
				}
			}
		}
		o := c42Run(trees, roots, seen0, dat0, delays, uint(1+rng.intn(4)), direct)
		term := fmt.Sprintf("C42m.mk %s %s %s %s %s %s %s %s %s", c42StoreTerm(trees), c42Ns(roots), c42Ns(seen0), c42Ns(dat0),
			coqBool(o.err), c42Ns(o.trees), c42Ns(o.data), c42Ns(o.loads), coqZ(o.prog))
		nn := 0
		for _, t := range trees {
			nn += len(t.nodes)
		}
		mode := "find"
		if direct {
			mode = "stream"
		}
		if o.err {
			c.Hist("result=error")
		} else {
			c.Hist(fmt.Sprintf("result=ok loads=%d", min(len(o.loads), 6)))
		}
		c.Case(kind+"-"+mode, len(trees) >= 3 && nn >= 4, nn+len(trees),
			term, fmt.Sprintf("%d trees %d nodes roots=%v seen0=%v -> err=%v(%s) trees=%v data=%v loads=%v prog=%d",
				len(trees), nn, roots, seen0, o.err, o.detail, o.trees, o.data, o.loads, o.prog))
	}
	// corpus: diamond with shared subtree, null subtree, file node with a subtree pointer,
	// dir node with content, duplicate root
	corpus := []*c42Tree{
		{id: 1, nodes: []c42Node{{typ: 1, hasSub: true, sub: 2}, {typ: 1, hasSub: true, sub: 3}, {typ: 0, content: []uint64{1000, 1001}}}},
		{id: 2, nodes: []c42Node{{typ: 1, hasSub: true, sub: 4}, {typ: 1, hasSub: true, sub: 0}, {typ: 0, hasSub: true, sub: 7, content: []uint64{1002}}}, huge: true},
		{id: 3, nodes: []c42Node{{typ: 1, hasSub: true, sub: 4, content: []uint64{1003}}, {typ: 1}}},
		{id: 4, nodes: []c42Node{{typ: 0, content: []uint64{1000}}, {typ: 2, content: []uint64{1004}}}, huge: true},
	}
	r0 := c.rng.fork()
	for _, direct := range []bool{false, true} {
		emit("corpus", corpus, []uint64{1, 1}, nil, nil, r0, direct)
		emit("corpus", corpus, []uint64{1, 3}, []uint64{2}, []uint64{1009}, r0, direct)
		emit("corpus", corpus, []uint64{5}, nil, nil, r0, direct)
		emit("corpus", corpus, nil, []uint64{1}, nil, r0, direct)
	}
	// 12 huge trees at once: more than the huge-tree channel buffers (10)
	{
		var ts []*c42Tree
		root := &c42Tree{id: 1}
		for i := 0; i < 14; i++ {
			root.nodes = append(root.nodes, c42Node{typ: 1, hasSub: true, sub: uint64(2 + i)})
			ts = append(ts, &c42Tree{id: uint64(2 + i), huge: true, nodes: []c42Node{{typ: 0, content: []uint64{1000 + uint64(i)}}, {typ: 1, hasSub: true, sub: 20}}})
		}
		ts = append(ts, root, &c42Tree{id: 20, nodes: []c42Node{{typ: 0, content: []uint64{1100}}}})
		emit("corpus-huge", ts, []uint64{1}, nil, nil, r0, false)
		emit("corpus-huge", ts, []uint64{1, 5}, nil, nil, r0, true)
	}
	// consumers of the node iterator on an unreadable reachable tree, through the real CLI
	for _, variant := range []string{"ok", "start", "mid"} {
		v := variant
		err := c42RunProbes(c, v, func(name string, mustFail bool, exit int, panicked bool, detail string) {
			c.Info("cli-"+v+"-"+name, fmt.Sprintf("exit=%d panic=%v %s", exit, panicked, detail))
			c.Hist("cli-probe " + v)
			if v == "ok" {
				if panicked {
					c.Info("cli-control-problem-"+name, "panic on a healthy repository")
				}
				return
			}
			handled := !panicked && exit != 2 && (exit != 0 || !mustFail)
			kind := "cli-broken-tree-" + name
			if v == "start" {
				kind = "cli-undecodable-tree-" + name
			}
			if name == "check" && v == "mid" {
				kind = "check-cli-broken-tree"
			}
			// model: tree 2 is reachable and unreadable -> the client must see an error, not a crash
			term := fmt.Sprintf("C42m.mk [(1%%N, Some [mkn TDir (Some 2%%N) []; mkn TFile None []]); (2%%N, None)] [1%%N] [] [] %s [] [] [] %s",
				coqBool(handled), coqZ(int64(exit)))
			c.Case(kind, false, 2, term, fmt.Sprintf("restic %s on a snapshot whose tree blob is broken at %q (must fail: %v) -> exit=%d panic=%v %s", name, v, mustFail, exit, panicked, detail))
		})
		if err != nil {
			return fmt.Errorf("cli scenario %s: %w", v, err)
		}
	}
	rounds := c.n(260, 4000)
	for r := 0; r < rounds; r++ {
		rng := c.rng.fork()
		shape := 0
		switch q := rng.intn(100); {
		case q < 45:
			shape = 0
		case q < 60:
			shape = 1
		case q < 64:
			shape = 2
		case q < 76:
			shape = 3
		default:
			shape = 4
		}
		trees, roots, seen0, dat0, kind := c42Gen(rng, shape)
		emit(kind, trees, roots, seen0, dat0, rng, rng.chance(35))
	}
	return nil
}
