//go:build verif

package main

// C43, real repository part: one blob stored in several copies with different stored lengths (compression
// max / off / auto, and duplicates inside one pack); copies are damaged on disk or their pack's downloads
// fail; the real Repository.LoadBlob and Repository.LoadBlobsFromPack (streamPack with LoadBlob as fallback)
// are observed.

import (
	"bytes"
	"context"
	"fmt"
	"os"
	"path/filepath"
	"sync"

	"github.com/cenkalti/backoff/v4"

	"github.com/restic/restic/internal/backend"
	"github.com/restic/restic/internal/repository"
	"github.com/restic/restic/internal/restic"
)

func c43Repo(c *vctx, rng *vrng, r int) error {
	e := newVenv(c, fmt.Sprintf("c43-%d", r))
	if _, _, err := e.cli("init"); err != nil {
		return fmt.Errorf("init: %w", err)
	}
	ctx, cancel := context.WithCancel(context.Background())
	defer cancel()
	plain := bytes.Repeat(rng.bytes(6+rng.intn(10)), 20+rng.intn(400)) // compressible
	plain = append(plain, rng.bytes(rng.intn(40))...)
	bh := restic.BlobHandle{Type: restic.DataBlob, ID: restic.Hash(plain)}
	modes := []repository.CompressionMode{repository.CompressionMax, repository.CompressionOff, repository.CompressionAuto}
	for i := len(modes) - 1; i > 0; i-- {
		j := rng.intn(i + 1)
		modes[i], modes[j] = modes[j], modes[i]
	}
	nmodes := 2 + rng.intn(2)
	for _, m := range modes[:nmodes] {
		e.gopts.Compression = m
		repo, err := e.openRepo(ctx)
		if err != nil {
			return fmt.Errorf("open: %w", err)
		}
		times := 1
		if rng.chance(40) {
			times = 3 // with two packers at least two copies land in the same pack
		}
		other := rng.bytes(50 + rng.intn(300))
		err = repo.WithBlobUploader(ctx, func(ctx context.Context, up restic.BlobSaverWithAsync) error {
			if rng.bool() {
				if _, _, _, err := up.SaveBlob(ctx, restic.DataBlob, other, restic.ID{}, false); err != nil {
					return err
				}
			}
			for k := 0; k < times; k++ {
				if _, _, _, err := up.SaveBlob(ctx, restic.DataBlob, plain, restic.ID{}, true); err != nil {
					return err
				}
			}
			return nil
		})
		if err != nil {
			return fmt.Errorf("save: %w", err)
		}
	}
	e.gopts.Compression = repository.CompressionAuto
	packLabel := map[restic.ID]int{}
	var packIDs []restic.ID
	packPath := func(id restic.ID) string { return filepath.Join(e.repo, "data", id.String()[:2], id.String()) }
	combos := c.n(8, 16)
	for k := 0; k < combos; k++ {
		// a fresh handle per combination: the retry layer remembers permanently failed downloads
		repo, err := e.openRepo(ctx)
		if err != nil {
			return fmt.Errorf("open reader: %w", err)
		}
		if err := repo.LoadIndex(ctx, restic.NoopTerminalCounterFactory); err != nil {
			return fmt.Errorf("load index: %w", err)
		}
		copies := repository.VerifC43Lookup(repo, bh)
		if len(copies) == 0 {
			return fmt.Errorf("blob not indexed")
		}
		for _, cp := range copies {
			if _, ok := packLabel[cp.Pack]; !ok {
				packLabel[cp.Pack] = len(packIDs) + 1
				packIDs = append(packIDs, cp.Pack)
			}
		}
		lens := map[uint]bool{}
		for _, cp := range copies {
			lens[cp.Blob.Length] = true
		}
		damaged := make([]bool, len(copies))
		dlfail := map[restic.ID]bool{}
		for i := range copies {
			damaged[i] = rng.chance(45)
		}
		if k == 0 { // every copy but the last listed one is damaged
			for i := range copies {
				damaged[i] = i < len(copies)-1
			}
		}
		for _, id := range packIDs {
			dlfail[id] = rng.chance(25)
		}
		if k == 1 && len(packIDs) > 1 { // the pack of the first copy cannot be downloaded
			for _, id := range packIDs {
				dlfail[id] = id == copies[0].Pack
			}
			for i := range damaged {
				damaged[i] = false
			}
		}
		// apply the damage on disk
		orig := map[restic.ID][]byte{}
		for i, cp := range copies {
			if !damaged[i] {
				continue
			}
			p := packPath(cp.Pack)
			if _, ok := orig[cp.Pack]; !ok {
				b, err := os.ReadFile(p)
				if err != nil {
					return err
				}
				orig[cp.Pack] = b
			}
		}
		for id, b := range orig {
			nb := append([]byte{}, b...)
			for i, cp := range copies {
				if damaged[i] && cp.Pack == id {
					nb[cp.Blob.Offset+cp.Blob.Length/2] ^= 0x5a
				}
			}
			_ = os.Chmod(packPath(id), 0o600)
			if err := os.WriteFile(packPath(id), nb, 0o600); err != nil {
				return err
			}
		}
		var mu sync.Mutex
		e.rec.OnOp = func(o *vop) error {
			if o.Op != "Load" || o.Type != backend.PackFile {
				return nil
			}
			mu.Lock()
			defer mu.Unlock()
			for id, f := range dlfail {
				if f && id.String() == o.Name {
					return backoff.Permanent(fmt.Errorf("verif: download of pack refused"))
				}
			}
			return nil
		}
		// observe LoadBlob
		lb := 0
		func() {
			defer func() {
				if r := recover(); r != nil {
					lb = 2
				}
			}()
			buf, err := repo.LoadBlob(ctx, bh, nil)
			if err == nil {
				lb = 2
				if bytes.Equal(buf, plain) {
					lb = 1
				}
			}
		}()
		// observe LoadBlobsFromPack on one of the packs
		pk := packIDs[rng.intn(len(packIDs))]
		if k <= 1 {
			pk = copies[0].Pack
		}
		var cbs []string
		res := "C43m.ROk"
		func() {
			defer func() {
				if r := recover(); r != nil {
					res = "C43m.RPanic"
				}
			}()
			err := repo.LoadBlobsFromPack(ctx, pk, []restic.BlobHandle{bh}, func(blob restic.BlobHandle, buf []byte, err error) error {
				out := 0
				if err == nil {
					out = 2
					if bytes.Equal(buf, plain) {
						out = 1
					}
				}
				label := 1
				if blob != bh {
					label = 99
				}
				cbs = append(cbs, fmt.Sprintf("(%d%%N, %d%%N)", label, out))
				return nil
			})
			if err != nil {
				res = "C43m.RErr"
			}
		}()
		e.rec.OnOp = nil
		for id, b := range orig {
			if err := os.WriteFile(packPath(id), b, 0o600); err != nil {
				return err
			}
		}
		files := e.repoFiles()
		cps := make([]string, len(copies))
		nusable := 0
		for i, cp := range copies {
			psize := files[filepath.Join("data", cp.Pack.String()[:2], cp.Pack.String())]
			cps[i] = fmt.Sprintf("(C43m.mkCopy %d%%N %d %d %d %s %s)", packLabel[cp.Pack], cp.Blob.Offset, cp.Blob.Length, psize,
				coqBool(!damaged[i]), coqBool(dlfail[cp.Pack]))
			if !damaged[i] && !dlfail[cp.Pack] {
				nusable++
			}
		}
		term := fmt.Sprintf("C43m.CL %s %d%%N %d%%N %s %s", coqList(cps), packLabel[pk], lb, coqList(cbs), res)
		kind := "repository/copies"
		if len(lens) > 1 {
			kind = "repository/copies-different-lengths"
		}
		c.Hist(fmt.Sprintf("usable=%d", min(nusable, 3)))
		c.Case(kind, len(copies) >= 2, len(copies), term,
			fmt.Sprintf("%d copies in %d packs (%d distinct stored lengths), damaged=%v dlfail packs=%d -> LoadBlob=%d, LoadBlobsFromPack(pack %d) callbacks=%v %s",
				len(copies), len(packIDs), len(lens), damaged, func() int {
					n := 0
					for _, f := range dlfail {
						if f {
							n++
						}
					}
					return n
				}(), lb, packLabel[pk], cbs, res))
	}
	return nil
}
