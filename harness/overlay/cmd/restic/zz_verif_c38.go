//go:build verif

package main

// C38 engine: drives the real cache.Cache + cacheBackend (Cache.Wrap) and the real
// Repository.LoadRaw over a scripted inner backend that also plays "another process" on the
// cache directory at the interference points it can reach deterministically (before an
// operation, inside a backend download before / after the cache file is written).

import (
	"bytes"
	"context"
	"crypto/sha256"
	"encoding/hex"
	"errors"
	"fmt"
	"io"
	"os"
	"path/filepath"
	"sync"
	"time"

	"github.com/restic/restic/internal/backend"
	"github.com/restic/restic/internal/backend/cache"
	"github.com/restic/restic/internal/repository"
	"github.com/restic/restic/internal/restic"
)

var _ = verifRegister("C38", engineC38)

type c38Env struct {
	kind int // 0 none, 1 delete, 2 put
	data []byte
}

func (e c38Env) coq() string {
	switch e.kind {
	case 1:
		return "EDel"
	case 2:
		return "(EPut " + coqHex(e.data) + ")"
	}
	return "ENone"
}

func (e c38Env) apply(path string) {
	switch e.kind {
	case 1:
		_ = os.Remove(path)
	case 2:
		_ = os.MkdirAll(filepath.Dir(path), 0o700)
		_ = os.WriteFile(path, e.data, 0o600)
	}
}

type c38Call struct {
	pre, post c38Env
	ans       []byte
	fail      bool
	late      bool // the stream breaks: Backend.Load ends with an error although part of the data was delivered
	mid       bool // with late: the READER fails mid-stream (n>0 bytes, then a read error, not EOF) instead of
	// the error surfacing after the consumer returned; same model behaviour, different code path (Cache.save's copy error)
}

func (k c38Call) coq() string {
	return fmt.Sprintf("(mkCall %s %s %s %s)", k.pre.coq(), coqOpt(!k.fail, coqHex(k.ans)), k.post.coq(), coqBool(k.late && !k.fail))
}

type c38Backend struct {
	backend.Backend // nil: only Load is ever needed
	mu              sync.Mutex
	script          []c38Call
	pos             int
	path            string
	delay           time.Duration
}

func (b *c38Backend) IsNotExist(error) bool       { return false }
func (b *c38Backend) IsPermanentError(error) bool { return false }

func (b *c38Backend) Load(_ context.Context, _ backend.Handle, length int, offset int64, fn func(rd io.Reader) error) error {
	b.mu.Lock()
	if b.pos >= len(b.script) {
		b.mu.Unlock()
		return errors.New("verif: backend script exhausted")
	}
	k := b.script[b.pos]
	b.pos++
	b.mu.Unlock()
	if b.delay > 0 {
		time.Sleep(b.delay)
	}
	k.pre.apply(b.path)
	if k.fail {
		return errors.New("verif: backend load failed")
	}
	if int64(len(k.ans)) < offset+int64(length) && !k.late {
		k.post.apply(b.path)
		return errors.New("verif: out of range")
	}
	if k.late {
		// stream what there is (a short stream), let the consumer finish, then report the error
		d := k.ans
		if offset < int64(len(d)) {
			d = d[offset:]
		} else {
			d = nil
		}
		if length > 0 && length < len(d) {
			d = d[:length]
		}
		if k.mid {
			// the consumer's own verdict decides, as with real backends: a consumer that swallows the
			// read error makes Load succeed
			err := fn(io.MultiReader(bytes.NewReader(d), c38ErrReader{}))
			k.post.apply(b.path)
			return err
		}
		_ = fn(bytes.NewReader(d))
		k.post.apply(b.path)
		return errors.New("verif: unexpected EOF after the consumer returned")
	}
	d := k.ans[offset:]
	if length > 0 {
		d = d[:length]
	}
	if err := fn(bytes.NewReader(d)); err != nil {
		return err
	}
	k.post.apply(b.path)
	return nil
}

type c38ErrReader struct{}

func (c38ErrReader) Read([]byte) (int, error) {
	return 0, errors.New("verif: connection reset mid-stream")
}

type c38Op struct {
	before   c38Env
	raw      bool
	len, off int
	script   []c38Call
}

func c38ReadCache(path string) string {
	b, err := os.ReadFile(path)
	if err != nil {
		return "None"
	}
	return "(Some " + coqHex(b) + ")"
}

func engineC38(c *vctx) error {
	c.Header("Model.C38m", "C38m.case", "C38m.check_case")
	c.Preamble("Import C38m.")
	base := filepath.Join(c.dir, "c38cache")
	if err := os.MkdirAll(base, 0o700); err != nil {
		return err
	}
	ch, err := cache.New("0123456789abcdef0123456789abcdef0123456789abcdef0123456789abcdef", base)
	if err != nil {
		return err
	}
	be := &c38Backend{}
	repo, err := repository.New(be, repository.Options{})
	if err != nil {
		return err
	}
	repo.UseCache(ch, func(string, ...any) {})
	wrapped := ch.Wrap(be, func(string, ...any) {})
	ctx := context.Background()

	type ftype struct {
		coq  string
		bt   backend.FileType
		meta bool
		raw  bool // LoadRaw can address it (IsMetadata is false in LoadRaw handles)
	}
	types := []ftype{
		{"TIndex", backend.IndexFile, false, true}, {"TSnapshot", backend.SnapshotFile, false, true},
		{"TPackData", backend.PackFile, false, true}, {"TPackMeta", backend.PackFile, true, false},
		{"TKey", backend.KeyFile, false, true}, {"TLock", backend.LockFile, false, true},
	}
	serial := 0
	// runCase executes the ops on a fresh file name and emits the case
	runCase := func(kind string, t ftype, truth []byte, cache0 c38Env, ops []c38Op) {
		sum := sha256.Sum256(truth)
		name := hex.EncodeToString(sum[:])
		h := backend.Handle{Type: t.bt, Name: name, IsMetadata: t.meta}
		path := ""
		if t.bt == backend.PackFile || t.bt == backend.IndexFile || t.bt == backend.SnapshotFile {
			path = cache.VerifFilename(ch, h)
		} else {
			path = filepath.Join(base, "uncached-"+name) // never used by restic: env actions hit a dummy
		}
		be.path = path
		cache0.apply(path)
		c0 := "None"
		if cache0.kind == 2 && path != "" && (t.bt == backend.PackFile || t.bt == backend.IndexFile || t.bt == backend.SnapshotFile) {
			c0 = "(Some " + coqHex(cache0.data) + ")"
		}
		cacheable := t.bt == backend.PackFile || t.bt == backend.IndexFile || t.bt == backend.SnapshotFile
		var opTerms, obsTerms []string
		human := fmt.Sprintf("%s truth=%x cache0=%s", t.coq, truth, c0)
		nontriv := false
		for _, o := range ops {
			if !cacheable {
				o.before = c38Env{}
				for i := range o.script {
					o.script[i].pre, o.script[i].post = c38Env{}, c38Env{}
				}
			}
			o.before.apply(path)
			be.script, be.pos = o.script, 0
			var res string
			var hres string
			func() {
				defer func() {
					if r := recover(); r != nil {
						res, hres = "OErr", "PANIC"
						kind = "panic"
					}
				}()
				if o.raw {
					var id restic.ID
					copy(id[:], sum[:])
					buf, err := repo.LoadRaw(ctx, restic.FileType(t.bt), id)
					switch {
					case err == nil:
						res, hres = "(OOk "+coqHex(buf)+")", fmt.Sprintf("ok %x", buf)
					case errors.Is(err, restic.ErrInvalidData):
						res, hres = "(OInvalid "+coqHex(buf)+")", fmt.Sprintf("invalid %x", buf)
					default:
						res, hres = "OErr", "err"
					}
				} else {
					var got []byte
					err := wrapped.Load(ctx, h, o.len, int64(o.off), func(rd io.Reader) error {
						var e error
						got, e = io.ReadAll(rd)
						return e
					})
					if err == nil {
						res, hres = "(OOk "+coqHex(got)+")", fmt.Sprintf("ok %x", got)
					} else {
						res, hres = "OErr", "err"
					}
				}
			}()
			after := "None"
			if cacheable {
				after = c38ReadCache(path)
			}
			calls := make([]string, len(o.script))
			for i, k := range o.script {
				calls[i] = k.coq()
			}
			kd := "OpRaw"
			if !o.raw {
				kd = fmt.Sprintf("(OpLoad %s %s)", coqNat(o.len), coqNat(o.off))
			}
			opTerms = append(opTerms, fmt.Sprintf("(mkOp %s %s %s)", o.before.coq(), kd, coqList(calls)))
			obsTerms = append(obsTerms, fmt.Sprintf("(mkObs %s %s %s)", res, after, coqNat(be.pos)))
			human += fmt.Sprintf(" | before=%s %s script=%d -> %s cache=%s calls=%d", o.before.coq(), kd, len(o.script), hres, after, be.pos)
			if cacheable && (cache0.kind == 2 || o.before.kind != 0) {
				nontriv = true
			}
		}
		serial++
		term := fmt.Sprintf("C38m.mk %s %s %s %s %s", t.coq, coqHex(truth), c0, coqList(opTerms), coqList(obsTerms))
		c.Hist("type=" + t.coq)
		c.Case(kind, nontriv, len(truth)+10*len(ops), term, human)
		// leave no file behind for the next case with the same name (names are unique anyway)
		_ = os.Remove(path)
	}

	mkTruth := func(rng *vrng) []byte {
		n := 3 + rng.intn(8)
		b := rng.bytes(n)
		b[0] = byte(serial)
		b[1] = byte(serial >> 8)
		b[2] = byte(serial >> 16)
		return b
	}
	corrupt := func(rng *vrng, truth []byte) []byte {
		switch rng.intn(6) {
		case 0:
			return append([]byte{}, truth[:rng.intn(len(truth))]...) // truncated (partially written)
		case 1:
			b := append([]byte{}, truth...)
			b[rng.intn(len(b))] ^= byte(1 << rng.intn(8)) // bit flip
			return b
		case 2:
			return append(append([]byte{}, truth...), rng.bytes(1+rng.intn(3))...) // longer
		case 3:
			return []byte{} // empty file
		case 4:
			return rng.bytes(len(truth)) // other file's content, same length
		}
		return rng.bytes(1 + rng.intn(12))
	}
	randEnv := func(rng *vrng, truth []byte, pNone int) c38Env {
		if rng.chance(pNone) {
			return c38Env{}
		}
		switch rng.intn(3) {
		case 0:
			return c38Env{kind: 1}
		case 1:
			return c38Env{kind: 2, data: truth}
		}
		return c38Env{kind: 2, data: corrupt(rng, truth)}
	}
	honestFaults := false
	randScript := func(rng *vrng, truth []byte, clean bool) []c38Call {
		n := rng.intn(4)
		if clean {
			n = 2 + rng.intn(2)
		}
		s := make([]c38Call, n)
		for i := range s {
			if clean {
				s[i] = c38Call{ans: truth}
				if rng.chance(30) {
					s[i].post = c38Env{kind: 1}
				}
				if rng.chance(15) {
					s[i].pre = c38Env{kind: 2, data: truth}
				}
				if honestFaults {
					switch rng.intn(8) {
					case 0:
						s[i].fail = true
					case 1, 2:
						s[i].late = true
						s[i].mid = rng.bool()
						s[i].ans = append([]byte{}, truth[:rng.intn(len(truth))]...) // strictly short: LoadRaw hashes what the consumer saw even on error
					}
				}
				continue
			}
			s[i] = c38Call{pre: randEnv(rng, truth, 85), post: randEnv(rng, truth, 75), ans: truth}
			switch rng.intn(10) {
			case 0:
				s[i].fail = true
			case 1, 2:
				s[i].ans = corrupt(rng, truth)
			case 3:
				s[i].late = true
				s[i].mid = rng.bool()
				s[i].ans = append([]byte{}, truth[:rng.intn(len(truth))]...) // strictly short: LoadRaw hashes what the consumer saw even on error
			}
		}
		return s
	}

	// ---- corpus: the scenarios named in the property ----
	{
		rng := c.rng.fork()
		for _, t := range types {
			for variant := 0; variant < 7; variant++ {
				truth := mkTruth(rng)
				ok := c38Call{ans: truth}
				var c0 c38Env
				switch variant {
				case 0: // empty cache
				case 1:
					c0 = c38Env{kind: 2, data: truth} // valid cached copy
				case 2:
					c0 = c38Env{kind: 2, data: truth[:len(truth)-1]} // partially written
				case 3:
					b := append([]byte{}, truth...)
					b[len(b)-1] ^= 0x40
					c0 = c38Env{kind: 2, data: b} // corrupted
				case 4:
					c0 = c38Env{kind: 2, data: []byte{}} // empty file
				case 5:
					c0 = c38Env{kind: 2, data: append(append([]byte{}, truth...), 7)} // stale longer file
				case 6:
					c0 = c38Env{kind: 2, data: rng.bytes(len(truth))} // another file's content
				}
				if t.raw {
					// load, corrupt again, load (circuit breaker), load with a backend that lost the file
					b := append([]byte{}, truth...)
					b[0] ^= 1
					runCase("corpus-raw", t, truth, c0, []c38Op{
						{raw: true, script: []c38Call{ok, ok}},
						{raw: true, before: c38Env{kind: 2, data: b}, script: []c38Call{ok, ok}},
						{raw: true, before: c38Env{kind: 2, data: b}, script: []c38Call{ok, ok}},
						{raw: true, before: c38Env{kind: 1}, script: []c38Call{{fail: true}, {fail: true}}},
					})
					// cleared by another process during the download
					truth2 := mkTruth(rng)
					runCase("corpus-raw-cleared", t, truth2, c38Env{}, []c38Op{
						{raw: true, script: []c38Call{{ans: truth2, post: c38Env{kind: 1}}, {ans: truth2}}},
						{raw: true, script: []c38Call{{ans: truth2, post: c38Env{kind: 2, data: truth2[:1]}}, {ans: truth2}, {ans: truth2}}},
					})
				}
				if t.raw && variant == 0 {
					// a Forget that finds nothing to remove must not spend the once-only breaker:
					// failed load while uncached -> retry caches -> cached copy corrupted later -> healed
					tr := mkTruth(rng)
					okr := c38Call{ans: tr}
					bad := append([]byte{}, tr...)
					bad[len(bad)-1] ^= 0x10
					runCase("corpus-raw-fail-then-corrupt", t, tr, c38Env{}, []c38Op{
						{raw: true, script: []c38Call{{fail: true}, okr}},
						{raw: true, before: c38Env{kind: 2, data: bad}, script: []c38Call{okr, okr}},
						{raw: true, script: []c38Call{okr}},
					})
					// a download that fails after streaming a prefix must leave nothing cached
					tl := mkTruth(rng)
					okl := c38Call{ans: tl}
					runCase("corpus-late-error", t, tl, c38Env{}, []c38Op{
						{len: 0, off: 0, script: []c38Call{{ans: tl[:len(tl)-1], late: true}}},
						{len: 0, off: 0, script: []c38Call{okl, okl}},
						{len: 1, off: len(tl) - 1, before: c38Env{kind: 1}, script: []c38Call{{ans: tl[:1], late: true}, okl}},
						{len: 1, off: len(tl) - 1, script: []c38Call{okl, okl}},
					})
					// the reader fails in the MIDDLE of the first cache-filling download (k bytes, then a read
					// error): nothing may be cached, the caller gets an error, later loads see the repository
					for _, cut := range []int{1, len(tl) / 2, len(tl) - 1} {
						tm := mkTruth(rng)
						if cut >= len(tm) {
							cut = len(tm) - 1
						}
						okm := c38Call{ans: tm}
						midc := c38Call{ans: tm[:cut], late: true, mid: true}
						runCase("corpus-mid-read-error", t, tm, c38Env{}, []c38Op{
							{len: 0, off: 0, script: []c38Call{midc}},
							{len: 0, off: 0, script: []c38Call{okm, okm}},
							{len: 1, off: len(tm) - 1, script: []c38Call{okm, okm}},
							{len: len(tm) - cut, off: cut, before: c38Env{kind: 1}, script: []c38Call{midc, okm}},
							{len: len(tm) - cut, off: cut, script: []c38Call{okm, okm}},
						})
						if t.raw {
							tm2 := mkTruth(rng)
							okm2 := c38Call{ans: tm2}
							c2 := min(cut, len(tm2)-1)
							runCase("corpus-mid-read-error-raw", t, tm2, c38Env{}, []c38Op{
								{raw: true, script: []c38Call{{ans: tm2[:c2], late: true, mid: true}, okm2, okm2}},
								{len: len(tm2), off: 0, script: []c38Call{okm2, okm2}},
								{raw: true, script: []c38Call{okm2, okm2}},
							})
						}
					}
					tl2 := mkTruth(rng)
					okl2 := c38Call{ans: tl2}
					runCase("corpus-late-error-raw", t, tl2, c38Env{}, []c38Op{
						{raw: true, script: []c38Call{{ans: tl2[:2], late: true}, {ans: tl2[:2], late: true}}},
						{raw: true, script: []c38Call{okl2, okl2}},
					})
				}
				truth3 := mkTruth(rng)
				if c0.kind == 2 && variant == 1 {
					c0.data = truth3
				}
				ok3 := c38Call{ans: truth3}
				n := len(truth3)
				runCase("corpus-load", t, truth3, c0, []c38Op{
					{len: 0, off: 0, script: []c38Call{ok3, ok3}},
					{len: n, off: 0, script: []c38Call{ok3, ok3}},
					{len: 1, off: n - 1, script: []c38Call{ok3, ok3}},
					{len: 1, off: n, script: []c38Call{ok3, ok3}},
					{len: 0, off: n, script: []c38Call{ok3, ok3}},
					{len: 2, off: 1, before: c38Env{kind: 1}, script: []c38Call{{ans: truth3, post: c38Env{kind: 1}}, ok3}},
				})
			}
		}
	}

	// ---- random scripts ----
	rounds := c.n(320, 4000)
	for r := 0; r < rounds; r++ {
		rng := c.rng.fork()
		t := types[[]int{0, 0, 1, 1, 2, 2, 3, 3, 4, 5}[rng.intn(10)]]
		truth := mkTruth(rng)
		clean := rng.chance(25)
		var c0 c38Env
		switch {
		case clean:
			if rng.bool() {
				c0 = c38Env{kind: 2, data: truth}
			}
		case rng.chance(65):
			c0 = c38Env{kind: 2, data: corrupt(rng, truth)}
			if rng.chance(25) {
				c0.data = truth
			}
		}
		nops := 1 + rng.intn(3)
		ops := make([]c38Op, nops)
		kind := "random"
		honestFaults = false
		if clean {
			kind = "clean"
			if rng.bool() {
				kind = "honest"
				honestFaults = true
			}
		}
		for i := range ops {
			o := c38Op{script: randScript(rng, truth, clean)}
			if !clean {
				o.before = randEnv(rng, truth, 70)
			} else if rng.chance(30) {
				o.before = c38Env{kind: 1}
			}
			o.raw = t.raw && rng.chance(55)
			if !o.raw {
				n := len(truth)
				o.off = []int{0, 0, 1, n - 1, n, n + 1, rng.intn(n + 1)}[rng.intn(7)]
				o.len = []int{0, 1, n - o.off, n - o.off + 1, n, rng.intn(n + 2)}[rng.intn(6)]
				if o.len < 0 {
					o.len = 0
				}
			}
			ops[i] = o
		}
		runCase(kind, t, truth, c0, ops)
	}

	// ---- concurrent loads of one file (in-progress de-duplication) ----
	crounds := c.n(6, 60)
	for r := 0; r < crounds; r++ {
		rng := c.rng.fork()
		t := types[rng.intn(2)] // index / snapshot
		truth := mkTruth(rng)
		sum := sha256.Sum256(truth)
		h := backend.Handle{Type: t.bt, Name: hex.EncodeToString(sum[:])}
		path := cache.VerifFilename(ch, h)
		be.path = path
		const readers = 6
		script := make([]c38Call, 2*readers)
		for i := range script {
			script[i] = c38Call{ans: truth}
		}
		be.script, be.pos, be.delay = script, 0, 3*time.Millisecond
		results := make([]string, readers)
		var wg sync.WaitGroup
		for g := 0; g < readers; g++ {
			wg.Add(1)
			go func(g int) {
				defer wg.Done()
				var id restic.ID
				copy(id[:], sum[:])
				buf, err := repo.LoadRaw(ctx, restic.FileType(t.bt), id)
				if err == nil {
					results[g] = "(OOk " + coqHex(buf) + ")"
				} else {
					results[g] = "OErr"
				}
			}(g)
		}
		wg.Wait()
		be.delay = 0
		total := be.pos
		after := c38ReadCache(path)
		var opTerms, obsTerms []string
		for g := 0; g < readers; g++ {
			opTerms = append(opTerms, fmt.Sprintf("(mkOp ENone OpRaw %s)", coqList([]string{script[0].coq(), script[0].coq()})))
			calls := 0
			if g == 0 {
				calls = total // all downloads are attributed to the first reader: exactly one is expected
			}
			obsTerms = append(obsTerms, fmt.Sprintf("(mkObs %s %s %s)", results[g], after, coqNat(calls)))
		}
		serial++
		c.Hist("type=" + t.coq)
		c.Case("concurrent", true, len(truth)+60, fmt.Sprintf("C38m.mk %s %s None %s %s", t.coq, coqHex(truth), coqList(opTerms), coqList(obsTerms)),
			fmt.Sprintf("%s %d concurrent LoadRaw of one uncached file: backend downloads=%d results=%v", t.coq, readers, total, results))
		_ = os.Remove(path)
	}
	return nil
}
