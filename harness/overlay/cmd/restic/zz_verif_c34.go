//go:build verif

package main

// C34 engine: real repositories (CLI backups of nested directories, optional duplicate blob,
// optionally incomplete index entries), stratified damage of 1-2 packs, then the real
// `repair packs <ids>`, `repair snapshots --forget`, `check --read-data`.

import (
	"bytes"
	"context"
	"fmt"
	"os"
	"path/filepath"
	"sort"
	"strings"
	"time"

	"github.com/restic/restic/internal/backend"
	"github.com/restic/restic/internal/data"
	"github.com/restic/restic/internal/repository"
	"github.com/restic/restic/internal/repository/index"
	"github.com/restic/restic/internal/repository/pack"
	"github.com/restic/restic/internal/restic"
)

var _ = verifRegister("C34", engineC34)

type c34Names struct {
	m    map[string]int
	next int
}

func (n *c34Names) get(k string) int {
	if v, ok := n.m[k]; ok {
		return v
	}
	n.next++
	n.m[k] = n.next
	return n.next
}
func (n *c34Names) lookup(k string, unknown int) int {
	if v, ok := n.m[k]; ok {
		return v
	}
	return unknown
}

func c34Venv(c *vctx, name string) *venv {
	e := newVenv(c, name)
	if st, err := os.Stat("/dev/shm"); err == nil && st.IsDir() {
		base := filepath.Join("/dev/shm", fmt.Sprintf("verif-c34-%d", os.Getpid()), name)
		if os.MkdirAll(base, 0o700) == nil {
			_ = os.RemoveAll(e.base)
			e.base = base
			e.repo = filepath.Join(base, "repo")
			e.gopts.Repo = e.repo
		}
	}
	return e
}

func c34WriteTree(rng *vrng, dir string, depth int) {
	_ = os.MkdirAll(dir, 0o755)
	nf := 1 + rng.intn(3)
	for i := 0; i < nf; i++ {
		var content []byte
		if rng.chance(50) {
			content = bytes.Repeat([]byte(fmt.Sprintf("l%d\n", rng.intn(900))), 1+rng.intn(150))
		} else {
			content = rng.bytes(1 + rng.intn(2500))
		}
		_ = os.WriteFile(filepath.Join(dir, fmt.Sprintf("f%d", rng.intn(5))), content, 0o644)
	}
	if rng.chance(20) {
		_ = os.Symlink("f0", filepath.Join(dir, "ln"))
	}
	if depth < 2 {
		nd := rng.intn(3)
		for i := 0; i < nd; i++ {
			c34WriteTree(rng, filepath.Join(dir, fmt.Sprintf("d%d", i)), depth+1)
		}
	}
}

type c34Entry struct {
	b  pack.Blob
	ok bool
}

const c34New = 9000

// c34CraftPacks builds snapshots around hand-placed blobs and says which blobs' packs are to be
// named for repair and how those packs are damaged:
//
//	crafted-adjacent-missing: one file with chunks [b1 b2 b3 b4]; b2 and b3 live in a pack of their
//	  own which is deleted -> two ADJACENT chunks are lost;
//	crafted-dup-both-targets: blob x is stored in two packs and BOTH are named (undamaged).
func c34CraftPacks(ctx context.Context, repo *repository.Repository, rng *vrng, variant string) (blobs []restic.ID, op string, err error) {
	save := func(t restic.BlobType, bufs ...[]byte) ([]restic.ID, error) {
		var ids []restic.ID
		err := repo.WithBlobUploader(ctx, func(ctx context.Context, up restic.BlobSaverWithAsync) error {
			for _, b := range bufs {
				id, _, _, err := up.SaveBlob(ctx, t, b, restic.ID{}, true)
				if err != nil {
					return err
				}
				ids = append(ids, id)
			}
			return nil
		})
		return ids, err
	}
	ts := `"mtime":"2020-01-02T03:04:05Z","atime":"2020-01-02T03:04:05Z","ctime":"2020-01-02T03:04:05Z","uid":0,"gid":0`
	var content []restic.ID
	total := 0
	chunk := func() []byte { b := rng.bytes(150 + rng.intn(300)); total += len(b); return b }
	switch variant {
	case "crafted-adjacent-missing":
		outer, err := save(restic.DataBlob, chunk(), chunk())
		if err != nil {
			return nil, "", err
		}
		inner, err := save(restic.DataBlob, chunk(), chunk())
		if err != nil {
			return nil, "", err
		}
		content = []restic.ID{outer[0], inner[0], inner[1], outer[1]}
		blobs, op = inner[:1], "delete"
	default: // crafted-dup-both-targets
		x := chunk()
		a, err := save(restic.DataBlob, x, chunk())
		if err != nil {
			return nil, "", err
		}
		b, err := save(restic.DataBlob, x, chunk())
		if err != nil {
			return nil, "", err
		}
		total += len(x)
		content = []restic.ID{a[0], a[1], b[0], b[1]}
		blobs, op = a[:1], "none"
	}
	var cs []string
	for _, id := range content {
		cs = append(cs, `"`+id.String()+`"`)
	}
	root := fmt.Sprintf(`{"nodes":[{"name":"chunked","type":"file","mode":420,%s,"size":%d,"content":[%s]}]}`+"\n", ts, total, strings.Join(cs, ","))
	rootIDs, err := save(restic.TreeBlob, []byte(root))
	if err != nil {
		return nil, "", err
	}
	sn, err := data.NewSnapshot([]string{"/crafted"}, nil, "verif", time.Date(2020, 1, 2, 3, 4, 5, 0, time.UTC))
	if err != nil {
		return nil, "", err
	}
	sn.Tree = &rootIDs[0]
	_, err = data.SaveSnapshot(ctx, repo, sn)
	return blobs, op, err
}

// c34Craft adds a snapshot whose root has two intact files and a directory whose tree blob is
// stored under its true SHA-256 but cannot be decoded: either from its first token
// ("crafted-undecodable-tree") or only after a first valid node ("crafted-midlist-decode-error").
func c34Craft(ctx context.Context, repo *repository.Repository, rng *vrng, variant string) error {
	d1, d2 := rng.bytes(200+rng.intn(300)), rng.bytes(100+rng.intn(300))
	bad := `{"nodes":[{"name":"a","type":"file","mode":420,"content":[]},{"name":5,"type":"file"},{"name":"c","type":"file","content":[]}]}` + "\n"
	if variant == "crafted-undecodable-tree" {
		bad = `["this is not a tree"]` + "\n"
	}
	var rootID restic.ID
	err := repo.WithBlobUploader(ctx, func(ctx context.Context, up restic.BlobSaverWithAsync) error {
		i1, _, _, err := up.SaveBlob(ctx, restic.DataBlob, d1, restic.ID{}, false)
		if err != nil {
			return err
		}
		i2, _, _, err := up.SaveBlob(ctx, restic.DataBlob, d2, restic.ID{}, false)
		if err != nil {
			return err
		}
		badID, _, _, err := up.SaveBlob(ctx, restic.TreeBlob, []byte(bad), restic.ID{}, false)
		if err != nil {
			return err
		}
		ts := `"mtime":"2020-01-02T03:04:05Z","atime":"2020-01-02T03:04:05Z","ctime":"2020-01-02T03:04:05Z","uid":0,"gid":0`
		root := fmt.Sprintf(`{"nodes":[{"name":"keep1","type":"file","mode":420,%s,"size":%d,"content":["%s"]},{"name":"sub","type":"dir","mode":2147484141,%s,"subtree":"%s"},{"name":"zkeep2","type":"file","mode":420,%s,"size":%d,"content":["%s"]}]}`+"\n",
			ts, len(d1), i1, ts, badID, ts, len(d2), i2)
		rootID, _, _, err = up.SaveBlob(ctx, restic.TreeBlob, []byte(root), restic.ID{}, false)
		return err
	})
	if err != nil {
		return err
	}
	sn, err := data.NewSnapshot([]string{"/crafted"}, nil, "verif", time.Date(2020, 1, 2, 3, 4, 5, 0, time.UTC))
	if err != nil {
		return err
	}
	sn.Tree = &rootID
	_, err = data.SaveSnapshot(ctx, repo, sn)
	return err
}

// c34Cli runs a command; a panic of the code under test is reported as an error of the command
func c34Cli(e *venv, args ...string) (so, se string, err error) {
	defer func() {
		if r := recover(); r != nil {
			err = fmt.Errorf("panic: %v", r)
		}
	}()
	return e.cli(args...)
}

func c34Scenario(c *vctx, rng *vrng, num int, force string) error {
	e := c34Venv(c, fmt.Sprintf("s%d", num))
	defer os.RemoveAll(e.base)
	if _, _, err := e.cli("init"); err != nil {
		return fmt.Errorf("init: %w", err)
	}
	src := filepath.Join(e.base, "src")
	nsnap := 1 + rng.intn(2)
	for i := 0; i < nsnap; i++ {
		c34WriteTree(rng, src, 0)
		if _, se, err := e.cli("backup", src); err != nil {
			return fmt.Errorf("backup: %w %s", err, se)
		}
	}
	ctx, cancel := context.WithCancel(context.Background())
	defer cancel()
	crafted := ""
	var craftBlobs []restic.ID
	craftOp := ""
	if strings.HasPrefix(force, "crafted-") {
		crafted = force
		force = "none"
		r0, err := e.openRepo(ctx)
		if err != nil {
			return err
		}
		if crafted == "crafted-adjacent-missing" || crafted == "crafted-dup-both-targets" {
			var err error
			if craftBlobs, craftOp, err = c34CraftPacks(ctx, r0, rng, crafted); err != nil {
				return fmt.Errorf("crafting: %w", err)
			}
		} else if err := c34Craft(ctx, r0, rng, crafted); err != nil {
			return fmt.Errorf("crafting: %w", err)
		}
	}
	repo, err := e.openRepo(ctx)
	if err != nil {
		return err
	}
	if err := repo.LoadIndex(ctx, restic.NoopTerminalCounterFactory); err != nil {
		return err
	}
	pn, bn, sn, nn := &c34Names{m: map[string]int{}}, &c34Names{m: map[string]int{}}, &c34Names{m: map[string]int{}}, &c34Names{m: map[string]int{}}
	// snapshots, trees
	type snapT struct {
		id   restic.ID
		root restic.ID
	}
	var snaps []snapT
	var sids []restic.ID
	_ = repo.List(ctx, restic.SnapshotFile, func(id restic.ID, _ int64) error { sids = append(sids, id); return nil })
	sort.Slice(sids, func(i, j int) bool { return bytes.Compare(sids[i][:], sids[j][:]) < 0 })
	trees := map[restic.ID][]*data.Node{}
	var treeOrder []restic.ID
	var loadAll func(id restic.ID) error
	loadAll = func(id restic.ID) error {
		if _, ok := trees[id]; ok {
			return nil
		}
		it, err := data.LoadTree(ctx, repo, id)
		if err != nil {
			// not loadable even on the undamaged repository (crafted tree): known id, no content
			trees[id] = nil
			treeOrder = append(treeOrder, id)
			return nil
		}
		var nodes []*data.Node
		for item := range it {
			if item.Error != nil {
				// undecodable part-way through: for the documented rule this is an unreadable tree
				trees[id] = nil
				treeOrder = append(treeOrder, id)
				return nil
			}
			nodes = append(nodes, item.Node)
		}
		trees[id] = nodes
		treeOrder = append(treeOrder, id)
		for _, n := range nodes {
			if n.Type == data.NodeTypeDir && n.Subtree != nil {
				if err := loadAll(*n.Subtree); err != nil {
					return err
				}
			}
		}
		return nil
	}
	var anyData []byte
	for _, id := range sids {
		s, err := data.LoadSnapshot(ctx, repo, id)
		if err != nil {
			return err
		}
		snaps = append(snaps, snapT{id, *s.Tree})
		if err := loadAll(*s.Tree); err != nil {
			return err
		}
	}
	for _, nodes := range trees {
		for _, n := range nodes {
			if n.Type == data.NodeTypeFile && len(n.Content) > 0 && (anyData == nil || rng.chance(20)) {
				if buf, err := repo.LoadBlob(ctx, restic.BlobHandle{Type: restic.DataBlob, ID: n.Content[0]}, nil); err == nil {
					anyData = append([]byte(nil), buf...)
				}
			}
		}
	}
	if anyData != nil && rng.chance(50) {
		err := repo.WithBlobUploader(ctx, func(ctx context.Context, up restic.BlobSaverWithAsync) error {
			_, _, _, err := up.SaveBlob(ctx, restic.DataBlob, anyData, restic.ID{}, true)
			return err
		})
		if err != nil {
			return err
		}
	}
	// true pack contents from the index restic wrote
	truth := map[restic.ID][]pack.Blob{}
	var idxIDs []restic.ID
	_ = repo.List(ctx, restic.IndexFile, func(id restic.ID, _ int64) error { idxIDs = append(idxIDs, id); return nil })
	for _, id := range idxIDs {
		buf, err := repo.LoadUnpacked(ctx, restic.IndexFile, id)
		if err != nil {
			return err
		}
		idx, err := index.DecodeIndex(buf, id)
		if err != nil {
			return err
		}
		for pb := range idx.Values() {
			truth[pb.Pack] = append(truth[pb.Pack], pb.Blob)
		}
	}
	var packs []restic.ID
	sizes := map[restic.ID]int64{}
	_ = repo.List(ctx, restic.PackFile, func(id restic.ID, sz int64) error { packs = append(packs, id); sizes[id] = sz; return nil })
	sort.Slice(packs, func(i, j int) bool { return bytes.Compare(packs[i][:], packs[j][:]) < 0 })
	for _, p := range packs {
		bs := truth[p]
		sort.Slice(bs, func(i, j int) bool { return bs[i].Offset < bs[j].Offset })
		truth[p] = bs
		pn.get(p.String())
	}
	// choose targets and damage
	ntarget := 1
	if len(packs) > 1 && rng.chance(40) && crafted == "" {
		ntarget = 2
	}
	perm := rng.intn(len(packs))
	var targets []restic.ID
	for i := 0; i < ntarget; i++ {
		targets = append(targets, packs[(perm+i)%len(packs)])
	}
	if len(craftBlobs) > 0 {
		// the packs that hold the hand-placed blobs
		targets = nil
		for _, p := range packs {
			for _, b := range truth[p] {
				if b.ID == craftBlobs[0] {
					targets = append(targets, p)
					break
				}
			}
		}
	}
	isTarget := map[restic.ID]bool{}
	for _, t := range targets {
		isTarget[t] = true
	}
	// index layout: targets may get an incomplete or no index entry
	idxEntries := map[restic.ID][]pack.Blob{}
	var humanI []string
	for _, p := range packs {
		idxEntries[p] = truth[p]
		if isTarget[p] {
			x := rng.intn(100)
			if force == "partial-index" {
				x = 0
			}
			if len(craftBlobs) > 0 {
				x = 99
			}
			switch {
			case x < 20 && len(truth[p]) >= 2:
				k := rng.intn(len(truth[p]))
				idxEntries[p] = append(append([]pack.Blob(nil), truth[p][:k]...), truth[p][k+1:]...)
				humanI = append(humanI, fmt.Sprintf("p%d:index-partial", pn.get(p.String())))
			case x >= 20 && x < 30:
				idxEntries[p] = nil
				humanI = append(humanI, fmt.Sprintf("p%d:unindexed", pn.get(p.String())))
			}
		}
	}
	if len(humanI) > 0 {
		for _, id := range idxIDs {
			_ = os.Remove(filepath.Join(e.repo, "index", id.String()))
		}
		idx := index.NewIndex()
		for _, p := range packs {
			if len(idxEntries[p]) > 0 {
				idx.StorePack(p, idxEntries[p])
			}
		}
		idx.Finalize()
		var buf bytes.Buffer
		if err := idx.Encode(&buf); err != nil {
			return err
		}
		if _, err := repository.VerifC34SaveUnpacked(ctx, repo, restic.IndexFile, buf.Bytes()); err != nil {
			return err
		}
	}
	// damage
	type dmgT struct {
		op       string
		pos, end int // changed byte range [pos,end) ; trunc: new size = pos
	}
	dmg := map[restic.ID]dmgT{}
	var humanP []string
	for ti, p := range targets {
		n := p.String()
		path := filepath.Join(e.repo, "data", n[:2], n)
		_ = os.Chmod(path, 0o600)
		buf, err := os.ReadFile(path)
		if err != nil {
			return err
		}
		size := len(buf)
		hdrStart := size - pack.CalculateHeaderSize(truth[p])
		ops := []string{"blobflip", "blobflip", "blobflip", "hdrflip", "trunc", "trunc", "delete", "none"}
		op := ops[rng.intn(len(ops))]
		if ti == 0 && force != "" && force != "partial-index" {
			op = force
		}
		if craftOp != "" {
			op = craftOp
		}
		d := dmgT{op: op}
		switch op {
		case "blobflip":
			b := truth[p][rng.intn(len(truth[p]))]
			off := []int{0, 15, 16, int(b.Length) - 16, int(b.Length) - 1, rng.intn(int(b.Length))}[rng.intn(6)]
			d.pos = int(b.Offset) + off
			d.end = d.pos + 1
			buf[d.pos] ^= byte(1 << rng.intn(8))
		case "hdrflip":
			d.pos = hdrStart + rng.intn(size-hdrStart)
			d.end = d.pos + 1
			buf[d.pos] ^= byte(1 << rng.intn(8))
		case "trunc":
			cands := []int{0, 1, size - 1, hdrStart, rng.intn(size)}
			for _, b := range truth[p] {
				cands = append(cands, int(b.Offset), int(b.Offset+b.Length), int(b.Offset+b.Length)-1)
			}
			d.pos = cands[rng.intn(len(cands))]
			d.end = size
			buf = buf[:d.pos]
		case "delete":
			d.pos, d.end = 0, size
		}
		dmg[p] = d
		switch op {
		case "delete":
			_ = os.Remove(path)
		case "none":
		default:
			if err := os.WriteFile(path, buf, 0o600); err != nil {
				return err
			}
		}
		humanP = append(humanP, fmt.Sprintf("p%d:%s@%d", pn.get(p.String()), op, d.pos))
	}
	// model packs
	entOK := func(p restic.ID, b pack.Blob) bool {
		d, ok := dmg[p]
		if !ok || d.op == "none" {
			return true
		}
		if d.op == "delete" {
			return false
		}
		return !(int(b.Offset) < d.end && d.pos < int(b.Offset+b.Length))
	}
	entTerm := func(p restic.ID, bs []pack.Blob) string {
		var o []string
		for _, b := range bs {
			o = append(o, fmt.Sprintf("En %d %d %d %s", bn.get(b.ID.String()), b.Offset, b.Length, coqBool(entOK(p, b))))
		}
		return coqList(o)
	}
	rangeOK := func(p restic.ID, bs []pack.Blob) bool {
		d, ok := dmg[p]
		if len(bs) == 0 || !ok {
			return true
		}
		switch d.op {
		case "delete":
			return false
		case "trunc":
			last := bs[len(bs)-1]
			return int(last.Offset+last.Length) <= d.pos
		}
		return true
	}
	var packTerms []string
	for _, p := range packs {
		d, damaged := dmg[p]
		present := !(damaged && d.op == "delete")
		hdr := "None"
		if !damaged || d.op == "none" || d.op == "blobflip" {
			hdr = "(Some " + entTerm(p, truth[p]) + ")"
		}
		packTerms = append(packTerms, fmt.Sprintf("Pk %d %s %s %s %s %s", pn.get(p.String()), coqBool(present),
			entTerm(p, idxEntries[p]), hdr, coqBool(rangeOK(p, idxEntries[p])), coqBool(rangeOK(p, truth[p]))))
	}
	var idTerms []string
	for _, t := range targets {
		idTerms = append(idTerms, fmt.Sprint(pn.get(t.String())))
	}

	// ---- repair packs ----
	cwd, _ := os.Getwd()
	_ = os.Chdir(e.base)
	e.rec.Reset()
	args := []string{"repair", "packs"}
	for _, t := range targets {
		args = append(args, t.String())
	}
	_, _, errA := c34Cli(e, args...)
	_ = os.Chdir(cwd)
	var opsA []string
	for _, o := range e.rec.Mods() {
		switch {
		case o.Op == "Save" && o.Type == backend.PackFile:
			opsA = append(opsA, fmt.Sprintf("ASavePack %d", c34New))
		case o.Op == "Save" && o.Type == backend.IndexFile:
			opsA = append(opsA, "ASaveIdx 0 []")
		case o.Op == "Remove" && o.Type == backend.IndexFile:
			opsA = append(opsA, "ARmIdx 0")
		case o.Op == "Remove" && o.Type == backend.PackFile:
			opsA = append(opsA, fmt.Sprintf("ARmPack %d", pn.lookup(o.Name, 9999)))
		default:
			opsA = append(opsA, "ARmPack 9998")
		}
	}
	repo2, err := e.openRepo(ctx)
	if err != nil {
		return err
	}
	var after, packsAfter []string
	var idx2 []restic.ID
	_ = repo2.List(ctx, restic.IndexFile, func(id restic.ID, _ int64) error { idx2 = append(idx2, id); return nil })
	for _, id := range idx2 {
		buf, err := repo2.LoadUnpacked(ctx, restic.IndexFile, id)
		if err != nil {
			return err
		}
		idx, err := index.DecodeIndex(buf, id)
		if err != nil {
			return err
		}
		for pb := range idx.Values() {
			after = append(after, fmt.Sprintf("(%d, %d)", pn.lookup(pb.Pack.String(), c34New), bn.get(pb.Blob.ID.String())))
		}
	}
	sort.Strings(after)
	_ = repo2.List(ctx, restic.PackFile, func(id restic.ID, _ int64) error {
		packsAfter = append(packsAfter, fmt.Sprint(pn.lookup(id.String(), c34New)))
		return nil
	})
	sort.Strings(packsAfter)

	// ---- state for repair snapshots ----
	if err := repo2.LoadIndex(ctx, restic.NoopTerminalCounterFactory); err != nil {
		return err
	}
	var storeTerms, sizeTerms []string
	seenBlob := map[restic.ID]bool{}
	nodeTerm := func(n *data.Node) string {
		switch n.Type {
		case data.NodeTypeFile:
			var cs []string
			for _, b := range n.Content {
				cs = append(cs, fmt.Sprint(bn.get(b.String())))
				if !seenBlob[b] {
					seenBlob[b] = true
					if sz, ok := repo2.LookupBlobSize(restic.BlobHandle{Type: restic.DataBlob, ID: b}); ok {
						sizeTerms = append(sizeTerms, fmt.Sprintf("(%d, %d)", bn.get(b.String()), sz))
					}
				}
			}
			return fmt.Sprintf("NFile %d %s %d", nn.get(n.Name), coqList(cs), n.Size)
		case data.NodeTypeDir:
			sub := 0
			if n.Subtree != nil {
				sub = bn.get(n.Subtree.String())
			}
			return fmt.Sprintf("NDir %d %d", nn.get(n.Name), sub)
		case data.NodeTypeIrregular, data.NodeTypeInvalid:
			return fmt.Sprintf("NBad %d", nn.get(n.Name))
		}
		return fmt.Sprintf("NOther %d", nn.get(n.Name))
	}
	for _, tid := range treeOrder {
		var ns []string
		for _, n := range trees[tid] {
			ns = append(ns, nodeTerm(n)) // also collects sizes of all referenced blobs
		}
		if it, err := data.LoadTree(ctx, repo2, tid); err == nil {
			okAll := true
			for item := range it {
				if item.Error != nil {
					okAll = false
				}
			}
			if okAll {
				storeTerms = append(storeTerms, fmt.Sprintf("(%d, %s)", bn.get(tid.String()), coqList(ns)))
			}
		}
	}

	// ---- repair snapshots --forget ----
	e.rec.Reset()
	_, _, errB := c34Cli(e, "repair", "snapshots", "--forget")
	var opsB []string
	for _, o := range e.rec.Mods() {
		switch {
		case o.Op == "Save" && o.Type == backend.PackFile:
			opsB = append(opsB, "BSavePack")
		case o.Op == "Save" && o.Type == backend.IndexFile:
			opsB = append(opsB, "BSaveIdx")
		case o.Op == "Save" && o.Type == backend.SnapshotFile:
			opsB = append(opsB, "BSaveSnap")
		case o.Op == "Remove" && o.Type == backend.SnapshotFile:
			opsB = append(opsB, fmt.Sprintf("BRmSnap %d", sn.get(o.Name)))
		default:
			opsB = append(opsB, "BOther")
		}
	}
	repo3, err := e.openRepo(ctx)
	if err != nil {
		return err
	}
	if err := repo3.LoadIndex(ctx, restic.NoopTerminalCounterFactory); err != nil {
		return err
	}
	present := map[restic.ID]*data.Snapshot{}
	byOrig := map[restic.ID]*data.Snapshot{}
	var nowIDs []restic.ID
	_ = repo3.List(ctx, restic.SnapshotFile, func(id restic.ID, _ int64) error { nowIDs = append(nowIDs, id); return nil })
	for _, id := range nowIDs {
		s, err := data.LoadSnapshot(ctx, repo3, id)
		if err != nil {
			return err
		}
		present[id] = s
		if s.Original != nil {
			byOrig[*s.Original] = s
		}
	}
	var walk func(prefix []string, tid restic.ID, out *[]string) error
	walk = func(prefix []string, tid restic.ID, out *[]string) error {
		it, err := data.LoadTree(ctx, repo3, tid)
		if err != nil {
			return err
		}
		var nodes []*data.Node
		for item := range it {
			if item.Error != nil {
				return item.Error
			}
			nodes = append(nodes, item.Node)
		}
		for _, n := range nodes {
			p := append(append([]string(nil), prefix...), fmt.Sprint(nn.get(n.Name)))
			pt := coqList(p)
			switch n.Type {
			case data.NodeTypeFile:
				var cs []string
				for _, b := range n.Content {
					cs = append(cs, fmt.Sprint(bn.get(b.String())))
				}
				*out = append(*out, fmt.Sprintf("(%s, IFile %s %d)", pt, coqList(cs), n.Size))
			case data.NodeTypeDir:
				*out = append(*out, fmt.Sprintf("(%s, IDir)", pt))
				if n.Subtree != nil {
					if err := walk(p, *n.Subtree, out); err != nil {
						return err
					}
				}
			default:
				*out = append(*out, fmt.Sprintf("(%s, IOther)", pt))
			}
		}
		return nil
	}
	var snapTerms, humanS []string
	for _, s := range snaps {
		out := "ORemoved"
		hs := "removed"
		if _, ok := present[s.id]; ok {
			out, hs = "OUnmodified", "unmodified"
		} else if ns, ok := byOrig[s.id]; ok {
			var items []string
			if err := walk(nil, *ns.Tree, &items); err != nil {
				return fmt.Errorf("walking repaired snapshot: %w", err)
			}
			out = "(OReplaced " + coqList(items) + ")"
			hs = fmt.Sprintf("replaced(%d items)", len(items))
		}
		snapTerms = append(snapTerms, fmt.Sprintf("So %d %d %s", sn.get(s.id.String()), bn.get(s.root.String()), out))
		humanS = append(humanS, hs)
	}
	_, cse, errC := e.cli("check", "--read-data")
	msg := ""
	if errC != nil {
		msg = " CHECK: " + cse
	}
	if errA != nil {
		msg += " ERR-A: " + errA.Error()
	}
	if errB != nil {
		msg += " ERR-B: " + errB.Error()
	}
	term := fmt.Sprintf("mk %s %s %d %s %s %s %s %s %s %s %s %s %s",
		coqList(packTerms), coqList(idTerms), c34New, coqBool(errA != nil), coqList(opsA), coqList(after), coqList(packsAfter),
		coqList(storeTerms), coqList(sizeTerms), coqBool(errB != nil), coqList(snapTerms), coqList(opsB), coqBool(errC != nil))
	kind := "dmg-" + dmg[targets[0]].op
	if crafted != "" {
		kind = crafted
	}
	if len(humanI) > 0 {
		kind += "+idx"
	}
	if len(targets) > 1 {
		kind += "+2"
	}
	human := fmt.Sprintf("packs=%d trees=%d [%s] [%s] -> repair packs ops=%d; snapshots %s; check-failed=%v%s",
		len(packs), len(treeOrder), strings.Join(humanP, " "), strings.Join(humanI, " "), len(opsA), strings.Join(humanS, ","), errC != nil, msg)
	c.Hist("snapshots=" + strings.Join(humanS, ","))
	c.Case(kind, dmg[targets[0]].op != "none" || len(humanI) > 0, len(term), term, human)
	return nil
}

func engineC34(c *vctx) error {
	c.Header("Model.C34m", "C34m.case", "C34m.check_case")
	c.Preamble("Import C34m.")
	c.Preamble("Open Scope N_scope.")
	repository.VerifC34SetLockWait(time.Millisecond)
	defer os.RemoveAll(filepath.Join("/dev/shm", fmt.Sprintf("verif-c34-%d", os.Getpid())))
	num := 0
	for _, f := range []string{"blobflip", "hdrflip", "trunc", "delete", "none", "partial-index", "blobflip", "trunc", "crafted-undecodable-tree", "crafted-midlist-decode-error", "crafted-adjacent-missing", "crafted-dup-both-targets"} {
		if err := c34Scenario(c, c.rng.fork(), num, f); err != nil {
			return fmt.Errorf("scenario %d: %w", num, err)
		}
		num++
	}
	n := c.n(16, 500)
	for i := 0; i < n; i++ {
		if err := c34Scenario(c, c.rng.fork(), num, ""); err != nil {
			return fmt.Errorf("scenario %d: %w", num, err)
		}
		num++
	}
	return nil
}
