//go:build verif

package main

// C26 engine: tag / rewrite / repair snapshots replace a snapshot by save-then-remove.
// Drives the real changeTags and filterAndReplaceSnapshot directly (all branches of the
// decision code, synthetic filter results) and the real CLI commands tag / rewrite /
// repair snapshots on generated repositories; every CLI scenario is re-run from the same
// starting repository with the backend cut after k = 0..n modifying operations (crash
// points) and with exactly the k-th operation failing.  Observables per run: the ordered
// successful Save/Remove operations, the fault pattern, the fields of every new snapshot
// file, the snapshot files on disk afterwards.

import (
	"context"
	"fmt"
	"os"
	"path/filepath"
	"sort"
	"strings"
	"testing"
	"time"

	"github.com/cenkalti/backoff/v4"

	"github.com/restic/restic/internal/backend"
	"github.com/restic/restic/internal/data"
	"github.com/restic/restic/internal/errors"
	"github.com/restic/restic/internal/global"
	"github.com/restic/restic/internal/repository"
	"github.com/restic/restic/internal/repository/index"
	"github.com/restic/restic/internal/restic"
	"github.com/restic/restic/internal/ui/progress"
)

var _ = verifRegister("C26", engineC26)

type c26TB struct{ testing.TB }

func (c26TB) Logf(string, ...any) {}

// ---- id renaming: hex id -> small number by first occurrence (0 = null id) ----
type c26Ids struct{ m map[string]uint64 }

func (x *c26Ids) n(id string) uint64 {
	if id == "" || id == (restic.ID{}).String() {
		return 0
	}
	if v, ok := x.m[id]; ok {
		return v
	}
	v := uint64(len(x.m) + 1)
	x.m[id] = v
	return v
}

func c26Fid(ids *c26Ids, rel string) (string, bool) {
	parts := strings.Split(filepath.ToSlash(rel), "/")
	name := parts[len(parts)-1]
	switch parts[0] {
	case "snapshots":
		return fmt.Sprintf("(FSnap, %s)", coqN(ids.n(name))), true
	case "data":
		return fmt.Sprintf("(FPack, %s)", coqN(ids.n(name))), true
	case "index":
		return fmt.Sprintf("(FIndex, %s)", coqN(ids.n(name))), true
	case "keys", "config":
		return fmt.Sprintf("(FOther, %s)", coqN(ids.n(name))), true
	}
	return "", false
}

func c26OpFid(ids *c26Ids, o vop) string {
	t := "FOther"
	switch o.Type {
	case backend.SnapshotFile:
		t = "FSnap"
	case backend.PackFile:
		t = "FPack"
	case backend.IndexFile:
		t = "FIndex"
	}
	return fmt.Sprintf("(%s, %s)", t, coqN(ids.n(o.Name)))
}

func c26Tags(tags []string) string {
	items := make([]string, len(tags))
	for i, t := range tags {
		if t == "" {
			items[i] = "[]"
		} else {
			items[i] = coqStr(t)
		}
	}
	return coqList(items)
}

func c26Bytes(s string) string {
	if s == "" {
		return "[]"
	}
	return coqStr(s)
}

func c26Snap(ids *c26Ids, sn *data.Snapshot) string {
	orig := "None"
	if sn.Original != nil {
		orig = "(Some " + coqN(ids.n(sn.Original.String())) + ")"
	}
	tree := uint64(0)
	if sn.Tree != nil {
		tree = ids.n(sn.Tree.String())
	}
	return fmt.Sprintf("(mkSnap %s %s %s %s %s)", orig, coqN(tree), c26Tags(sn.Tags), c26Bytes(sn.Hostname), coqZ(sn.Time.Unix()))
}

// ---- description of one run ----
type c26Target struct {
	path       string // unique Paths[0] of the snapshot (identifies it across rewrites)
	fresKind   string // "err" | "null" | "same" | "changed" | "tree:<hex>"
	identity   bool   // generator knows that no filter / repair changes the tree
	ret        int    // 0 unobserved, 1 err, 2 changed=false, 3 changed=true
	unreadable bool   // the load of this snapshot file is made to fail in this run
	named      bool   // its id is given on the command line
}

type c26Run struct {
	kind          string
	cmdTerm       string // Coq term of type cmd
	rewrite       bool   // MAbort semantics (rewrite / repair) vs tag
	targets       []*c26Target
	exact         bool
	do            func(e *venv) // runs the command(s)
	cut           int           // -1: none
	failAt        int           // -1: none
	loadFail      string        // Paths[0] of the snapshot whose file cannot be loaded ("" = none)
	loadFailTimes int           // how many loads of it fail (2 = transient: LoadRaw retries once)
}

func c26CopyDir(src, dst string) error {
	return filepath.Walk(src, func(p string, fi os.FileInfo, err error) error {
		if err != nil {
			return err
		}
		rel, _ := filepath.Rel(src, p)
		q := filepath.Join(dst, rel)
		if fi.IsDir() {
			return os.MkdirAll(q, 0o700)
		}
		b, err := os.ReadFile(p)
		if err != nil {
			return err
		}
		return os.WriteFile(q, b, 0o600)
	})
}

// c26Snapshots loads all snapshot files currently in the repository: Paths[0] -> []snapshot.
func c26Snapshots(e *venv) (map[string][]*data.Snapshot, []string, error) {
	out := map[string][]*data.Snapshot{}
	var unreadable []string
	_, _, err := e.run(func(ctx context.Context, gopts global.Options) error {
		printer := progress.NewTerminalPrinter(false, 0, gopts.Term)
		repo, err := global.OpenRepository(ctx, gopts, printer)
		if err != nil {
			return err
		}
		return repo.List(ctx, restic.SnapshotFile, func(id restic.ID, _ int64) error {
			sn, err := data.LoadSnapshot(ctx, repo, id)
			if err != nil || len(sn.Paths) == 0 {
				unreadable = append(unreadable, id.String())
				return nil
			}
			out[sn.Paths[0]] = append(out[sn.Paths[0]], sn)
			return nil
		})
	})
	return out, unreadable, err
}

// c26Needs: for each tree the set of pack names holding a blob reachable from it ("missing" is set
// when a blob or tree is in no index), and the pack sets of all index files.
func c26Needs(e *venv, trees []restic.ID) (map[string]map[string]bool, map[string]restic.IDSet, error) {
	needs := map[string]map[string]bool{}
	idxPacks := map[string]restic.IDSet{}
	_, _, err := e.run(func(ctx context.Context, gopts global.Options) error {
		printer := progress.NewTerminalPrinter(false, 0, gopts.Term)
		repo, err := global.OpenRepository(ctx, gopts, printer)
		if err != nil {
			return err
		}
		if err := repo.LoadIndex(ctx, printer); err != nil {
			return err
		}
		err = index.ForAllIndexes(ctx, repo, repo, func(id restic.ID, idx *index.Index, err error) error {
			if err == nil {
				idxPacks[id.String()] = idx.Packs()
			}
			return nil
		})
		if err != nil {
			return err
		}
		for _, t := range trees {
			if needs[t.String()] != nil {
				continue
			}
			need := map[string]bool{}
			needs[t.String()] = need
			blobs := restic.NewBlobSet()
			if err := data.FindUsedBlobs(ctx, repo, restic.IDs{t}, blobs, restic.NoopCounter); err != nil {
				need["missing"] = true
			}
			for h := range blobs {
				pbs := repo.LookupBlob(h)
				if len(pbs) == 0 && h.Type == restic.TreeBlob {
					need["missing"] = true
				}
				for _, pb := range pbs {
					need[pb.PackID().String()] = true
				}
			}
		}
		return nil
	})
	return needs, idxPacks, err
}

type c26World struct {
	first map[string]string // snapshot id -> id of the first snapshot of its chain
}

// c26Execute runs r on e (which holds the starting repository), observes, and emits one case.
func c26Execute(c *vctx, w *c26World, e *venv, r *c26Run) (trace []vop, err error) {
	ids := &c26Ids{m: map[string]uint64{}}
	before := e.repoFiles()
	pre, _, err := c26Snapshots(e)
	if err != nil {
		return nil, err
	}
	preIDs := map[string]bool{}
	for _, l := range pre {
		for _, sn := range l {
			preIDs[sn.ID().String()] = true
		}
	}
	// number the pre-existing files first (stable, small numbers)
	var rels []string
	for rel := range before {
		rels = append(rels, rel)
	}
	sort.Strings(rels)
	var s0 []string
	for _, rel := range rels {
		if f, ok := c26Fid(ids, rel); ok {
			s0 = append(s0, f)
		}
	}

	e.rec.Reset()
	e.rec.CutAt = r.cut
	nmod := 0
	if r.failAt >= 0 {
		e.rec.OnOp = func(o *vop) error {
			if o.modifying() && o.Type != backend.LockFile {
				nmod++
				if nmod-1 == r.failAt {
					return backoff.Permanent(errVerifCut)
				}
			}
			return nil
		}
	}
	if r.loadFail != "" {
		name := ""
		for _, sn := range pre[r.loadFail] {
			name = sn.ID().String()
		}
		cnt := 0
		e.rec.OnOp = func(o *vop) error {
			if o.Op == "Load" && o.Type == backend.SnapshotFile && o.Name == name && cnt < r.loadFailTimes {
				cnt++
				return backoff.Permanent(errVerifCut)
			}
			return nil
		}
	}
	tdo := time.Now()
	r.do(e)
	if os.Getenv("C26_TIMING") != "" {
		fmt.Fprintf(os.Stderr, "%s do=%v\n", r.kind, time.Since(tdo))
	}
	e.rec.CutAt = -1
	e.rec.OnOp = nil
	ops := e.rec.Ops()
	e.rec.Reset()

	var faults []string
	firstOp := map[string]int{}   // file name -> position (doubled) of its first successful op
	attempted := map[string]int{} // failed snapshot saves: file name -> position (doubled, odd)
	for _, o := range ops {
		if !o.modifying() || o.Type == backend.LockFile {
			continue
		}
		if r.exact || o.Type == backend.SnapshotFile {
			// non-exact (concurrent uploads, several snapshots): one bit per snapshot-file attempt
			faults = append(faults, coqBool(o.Err))
		}
		if !o.Err {
			if _, ok := firstOp[o.Name]; !ok {
				firstOp[o.Name] = 2 * len(trace)
			}
			trace = append(trace, o)
		} else if o.Op == "Save" && o.Type == backend.SnapshotFile && len(o.Data) > 0 {
			if _, ok := attempted[o.Name]; !ok {
				attempted[o.Name] = 2*len(trace) - 1
				// make the rejected file readable for the observer, removed again below
				_ = os.WriteFile(filepath.Join(e.repo, "snapshots", o.Name), o.Data, 0o600)
			}
		}
	}
	if r.cut >= 0 {
		for i := 0; i < 40; i++ {
			faults = append(faults, "true")
		}
	}

	tpost := time.Now()
	post, _, err := c26Snapshots(e)
	if os.Getenv("C26_TIMING") != "" {
		fmt.Fprintf(os.Stderr, "  snapshots=%v\n", time.Since(tpost))
	}
	for name := range attempted {
		if _, ok := firstOp[name]; !ok {
			_ = os.Remove(filepath.Join(e.repo, "snapshots", name))
		}
	}
	if err != nil {
		return nil, err
	}
	// snapshot saves of this run, by name
	savedSnap := map[string]bool{}
	for _, o := range trace {
		if o.Op == "Save" && o.Type == backend.SnapshotFile {
			savedSnap[o.Name] = true
		}
	}

	type itemT struct {
		t       *c26Target
		old     *data.Snapshot
		neu     *data.Snapshot
		att     *data.Snapshot // new snapshot whose Save was rejected
		pos     int
		dataOps []vop
	}
	var items []*itemT
	for _, t := range r.targets {
		var old *data.Snapshot
		for _, sn := range pre[t.path] {
			old = sn
		}
		if old == nil {
			return nil, fmt.Errorf("c26: target %s not found before the run", t.path)
		}
		it := &itemT{t: t, old: old, pos: 1 << 30}
		for _, sn := range post[t.path] {
			if !preIDs[sn.ID().String()] && savedSnap[sn.ID().String()] {
				it.neu = sn
			} else if p, ok := attempted[sn.ID().String()]; ok && !preIDs[sn.ID().String()] {
				it.att = sn
				if p < it.pos {
					it.pos = p
				}
			}
		}
		if it.neu != nil {
			if p, ok := firstOp[it.neu.ID().String()]; ok && p < it.pos {
				it.pos = p
			}
			if f, ok := w.first[old.ID().String()]; ok {
				w.first[it.neu.ID().String()] = f
			}
		}
		for i, o := range trace {
			if o.Op == "Remove" && o.Name == old.ID().String() && 2*i < it.pos {
				it.pos = 2 * i
			}
		}
		items = append(items, it)
	}
	sort.SliceStable(items, func(i, j int) bool { return items[i].pos < items[j].pos })
	// with faults only the snapshots that were actually taken up are part of the run (an error
	// cancels the listing; snapshots already loaded by parallel workers are still processed)
	if r.cut >= 0 || r.failAt >= 0 || r.loadFail != "" {
		var kept []*itemT
		for _, it := range items {
			if it.pos < 1<<30 || len(r.targets) == 1 || it.t.unreadable {
				kept = append(kept, it)
			}
		}
		items = kept
	}
	// data files a new snapshot needs: every pack uploaded in this run that holds a blob reachable
	// from its tree, and every index uploaded in this run that lists such a pack
	{
		var trees []restic.ID
		for _, it := range items {
			if it.neu != nil && it.neu.Tree != nil && r.rewrite {
				trees = append(trees, *it.neu.Tree)
			}
		}
		if len(trees) > 0 {
			needs, idxPacks, err := c26Needs(e, trees)
			if err != nil {
				return nil, err
			}
			for _, it := range items {
				if it.neu == nil || it.neu.Tree == nil || !r.rewrite {
					continue
				}
				need := needs[it.neu.Tree.String()]
				for _, o := range trace {
					if o.Op != "Save" {
						continue
					}
					switch o.Type {
					case backend.PackFile:
						if need[o.Name] {
							it.dataOps = append(it.dataOps, o)
						}
					case backend.IndexFile:
						for p := range idxPacks[o.Name] {
							if need[p.String()] {
								it.dataOps = append(it.dataOps, o)
								break
							}
						}
					}
				}
				if need["missing"] {
					it.dataOps = append(it.dataOps, vop{Op: "Save", Type: backend.PackFile, Name: "missing-data-of-" + it.neu.ID().String()})
				}
			}
		}
		if len(r.targets) == 1 && len(items) == 1 {
			// single snapshot: all uploads of the run were made for it
			items[0].dataOps = nil
			for _, o := range trace {
				if o.Op == "Save" && o.Type != backend.SnapshotFile {
					items[0].dataOps = append(items[0].dataOps, o)
				}
			}
		}
	}

	origSet := false
	var itemTerms, humans []string
	for _, it := range items {
		t := it.t
		var fres string
		oldTree := ""
		if it.old.Tree != nil {
			oldTree = it.old.Tree.String()
		}
		switch {
		case t.fresKind == "err":
			fres = "FErr"
		case t.fresKind == "null":
			fres = "(FTree 0%N)"
		case t.fresKind == "same":
			fres = "(FTree " + coqN(ids.n(oldTree)) + ")"
		case strings.HasPrefix(t.fresKind, "tree:"):
			fres = "(FTree " + coqN(ids.n(strings.TrimPrefix(t.fresKind, "tree:"))) + ")"
		default: // changed: the new tree id is the filter's output, taken from the new snapshot
			if it.neu != nil && it.neu.Tree != nil {
				fres = "(FTree " + coqN(ids.n(it.neu.Tree.String())) + ")"
			} else if it.att != nil && it.att.Tree != nil {
				fres = "(FTree " + coqN(ids.n(it.att.Tree.String())) + ")"
			} else {
				fres = "(FTree 999999%N)"
			}
		}
		first := it.old.ID().String()
		if f, ok := w.first[first]; ok {
			first = f
		}
		neu := "None"
		if it.neu != nil {
			neu = fmt.Sprintf("(Some (%s, %s))", coqN(ids.n(it.neu.ID().String())), c26Snap(ids, it.neu))
		}
		var dl []string
		for _, o := range it.dataOps {
			dl = append(dl, c26OpFid(ids, o))
		}
		if r.rewrite && it.old.Original != nil && it.neu != nil {
			origSet = true
		}
		itemTerms = append(itemTerms, fmt.Sprintf("(mkI %s %s %s %s %s %s %s %s %s %s)",
			coqN(ids.n(it.old.ID().String())), c26Snap(ids, it.old), coqN(ids.n(first)), fres,
			coqBool(t.identity), coqList(dl), neu, coqN(uint64(t.ret)), coqBool(t.unreadable), coqBool(t.named)))
		h := fmt.Sprintf("%s tags=%v orig=%v", it.old.ID().Str(), it.old.Tags, it.old.Original != nil)
		if it.neu != nil {
			h += fmt.Sprintf(" -> %s tags=%v orig=%v treeSame=%v", it.neu.ID().Str(), it.neu.Tags,
				it.neu.Original != nil && *it.neu.Original == *it.old.ID(), it.neu.Tree != nil && it.neu.Tree.String() == oldTree)
		}
		humans = append(humans, h)
	}

	var traceTerms, traceH []string
	for _, o := range trace {
		traceTerms = append(traceTerms, fmt.Sprintf("(%s %s)", o.Op, c26OpFid(ids, o)))
	}
	for _, o := range ops {
		if o.modifying() && o.Type != backend.LockFile {
			traceH = append(traceH, o.String())
		}
	}
	// snapshot files on disk after the run
	var disk []string
	for rel := range e.repoFiles() {
		if strings.HasPrefix(filepath.ToSlash(rel), "snapshots/") {
			disk = append(disk, coqN(ids.n(filepath.Base(rel))))
		}
	}
	sort.Strings(disk)
	cuts := fmt.Sprintf("[(%s, %s)]", coqNat(len(trace)), coqList(disk))

	kind := r.kind
	uploadFailed := false
	for i, o := range ops {
		if o.Op == "Save" && o.Err && (o.Type == backend.PackFile || o.Type == backend.IndexFile) && r.cut < 0 {
			for _, o2 := range ops[i+1:] {
				if o2.Op == "Save" && !o2.Err && o2.Type == backend.SnapshotFile {
					uploadFailed = true
				}
			}
		}
	}
	checkNote := ""
	if uploadFailed && len(r.targets) > 1 {
		_, _, cerr := e.cli("check")
		checkNote = fmt.Sprintf(" restic-check-after=%v", cerr)
	}
	if r.cut >= 0 {
		kind += "-cut"
	} else if r.failAt >= 0 {
		kind += "-fault"
	}
	if r.loadFail != "" {
		kind += "-load-fails"
	}
	if origSet {
		kind += "+orig-set"
	}
	if uploadFailed && len(r.targets) > 1 {
		kind += "+upload-failed"
	}
	term := fmt.Sprintf("C26m.mk %s %s %s %s %s %s %s", r.cmdTerm, coqList(s0), coqList(itemTerms),
		coqList(faults), coqBool(r.exact), coqList(traceTerms), cuts)
	nrem := 0
	for _, o := range trace {
		if o.Op == "Remove" {
			nrem++
		}
	}
	c.Hist(fmt.Sprintf("removes=%d", min(nrem, 3)))
	c.Hist(fmt.Sprintf("trace-len=%d", min(len(trace), 8)))
	c.Case(kind, len(trace) > 0, len(term),
		term, fmt.Sprintf("%s cut=%d failAt=%d items=[%s] trace=%v", r.cmdTerm, r.cut, r.failAt, strings.Join(humans, "; "), traceH)+checkNote)
	return trace, nil
}

// ---- building repositories ----
type c26Base struct {
	e     *venv
	tree  restic.ID // tree of the real backup
	tree2 restic.ID // another existing tree (sub directory)
	bad   restic.ID // tree with a file whose content blob is missing
	src   string
}

func c26NewBase(c *vctx, name string) (*c26Base, error) {
	e := newVenv(c, name)
	b := &c26Base{e: e, src: filepath.Join(e.base, "src")}
	_ = os.MkdirAll(filepath.Join(b.src, "d"), 0o755)
	_ = os.WriteFile(filepath.Join(b.src, "a.txt"), []byte("alpha"), 0o644)
	_ = os.WriteFile(filepath.Join(b.src, "d", "b.txt"), []byte("beta beta"), 0o644)
	_ = os.WriteFile(filepath.Join(b.src, "d", "c.log"), []byte("log log log"), 0o644)
	if _, _, err := e.cli("init"); err != nil {
		return nil, err
	}
	if _, se, err := e.cli("backup", b.src); err != nil {
		return nil, fmt.Errorf("backup: %v %s", err, se)
	}
	_, _, err := e.run(func(ctx context.Context, gopts global.Options) error {
		printer := progress.NewTerminalPrinter(false, 0, gopts.Term)
		repo, err := global.OpenRepository(ctx, gopts, printer)
		if err != nil {
			return err
		}
		if err := repo.LoadIndex(ctx, printer); err != nil {
			return err
		}
		var real *data.Snapshot
		err = repo.List(ctx, restic.SnapshotFile, func(id restic.ID, _ int64) error {
			real, err = data.LoadSnapshot(ctx, repo, id)
			return err
		})
		if err != nil {
			return err
		}
		b.tree = *real.Tree
		// a tree with one healthy file and one file with a missing content blob; and some sub tree
		var good *data.Node
		it, err := data.LoadTree(ctx, repo, b.tree)
		if err != nil {
			return err
		}
		cur := b.tree
		for depth := 0; depth < 12 && good == nil; depth++ {
			var next *restic.ID
			for item := range it {
				if item.Error != nil {
					return item.Error
				}
				if item.Node.Type == data.NodeTypeFile && good == nil {
					n := *item.Node
					good = &n
				}
				if item.Node.Type == data.NodeTypeDir && item.Node.Subtree != nil && next == nil {
					s := *item.Node.Subtree
					next = &s
				}
			}
			if good != nil || next == nil {
				break
			}
			cur = *next
			b.tree2 = cur
			if it, err = data.LoadTree(ctx, repo, cur); err != nil {
				return err
			}
		}
		if good == nil {
			return fmt.Errorf("c26: no file node found")
		}
		if b.tree2.IsNull() {
			b.tree2 = cur
		}
		var missing restic.ID
		copy(missing[:], c.rng.bytes(32))
		err = repo.WithBlobUploader(ctx, func(ctx context.Context, up restic.BlobSaverWithAsync) error {
			tw := data.NewTreeWriter(up)
			g := *good
			g.Name = "a-good"
			if err := tw.AddNode(&g); err != nil {
				return err
			}
			if err := tw.AddNode(&data.Node{Name: "b-bad", Type: data.NodeTypeFile, Mode: 0o644, Size: 5, Content: restic.IDs{missing}}); err != nil {
				return err
			}
			b.bad, err = tw.Finalize(ctx)
			return err
		})
		if err != nil {
			return err
		}
		// drop the snapshot of the real backup: all snapshots of the scenarios are crafted
		return repo.RemoveUnpacked(ctx, restic.WriteableSnapshotFile, *real.ID())
	})
	return b, err
}

type c26Spec struct {
	path    string
	tree    *restic.ID
	tags    []string
	orig    *restic.ID
	host    string
	t       time.Time
	summary *data.SnapshotSummary
}

func c26AddSnapshots(w *c26World, e *venv, specs []c26Spec) error {
	_, _, err := e.run(func(ctx context.Context, gopts global.Options) error {
		printer := progress.NewTerminalPrinter(false, 0, gopts.Term)
		repo, err := global.OpenRepository(ctx, gopts, printer)
		if err != nil {
			return err
		}
		for _, s := range specs {
			sn := &data.Snapshot{Paths: []string{s.path}, Time: s.t, Tags: s.tags, Hostname: s.host, Username: "u", Tree: s.tree, Original: s.orig, Summary: s.summary}
			id, err := data.SaveSnapshot(ctx, repo, sn)
			if err != nil {
				return err
			}
			if s.orig != nil {
				w.first[id.String()] = s.orig.String()
			} else {
				w.first[id.String()] = id.String()
			}
		}
		return nil
	})
	return err
}

func c26Clone(c *vctx, src *venv, name string) (*venv, error) {
	e := newVenv(c, name)
	if err := c26CopyDir(src.repo, e.repo); err != nil {
		return nil, err
	}
	return e, nil
}

// scenario: run once completely on a clone, then once per crash point and once per single failure
func c26Scenario(c *vctx, w *c26World, base *venv, name string, mk func() *c26Run, withFaults bool) error {
	e, err := c26Clone(c, base, name+"-full")
	if err != nil {
		return err
	}
	r := mk()
	r.cut, r.failAt = -1, -1
	trace, err := c26Execute(c, w, e, r)
	_ = os.RemoveAll(e.base)
	if err != nil {
		return err
	}
	n := len(trace)
	for k := 0; k < n; k++ {
		e, err := c26Clone(c, base, fmt.Sprintf("%s-cut%d", name, k))
		if err != nil {
			return err
		}
		r := mk()
		r.cut, r.failAt = k, -1
		_, err = c26Execute(c, w, e, r)
		_ = os.RemoveAll(e.base)
		if err != nil {
			return err
		}
	}
	if withFaults {
		for k := 0; k < n; k++ {
			e, err := c26Clone(c, base, fmt.Sprintf("%s-fail%d", name, k))
			if err != nil {
				return err
			}
			r := mk()
			r.cut, r.failAt = -1, k
			_, err = c26Execute(c, w, e, r)
			_ = os.RemoveAll(e.base)
			if err != nil {
				return err
			}
		}
	}
	return nil
}

func c26TagCmd(set, add, rm []string) string {
	return fmt.Sprintf("(CTag %s %s %s)", c26Tags(set), c26Tags(add), c26Tags(rm))
}

type c26Ropts struct {
	dry, forget, keepEmpty bool
	addTag                 string
	meta                   bool
	host                   string
	newTime                *time.Time
	summaryMatch           bool
	repair                 bool
}

func c26RewriteCmd(o c26Ropts) string {
	nt := "None"
	if o.newTime != nil {
		nt = "(Some " + coqZ(o.newTime.Unix()) + ")"
	}
	return fmt.Sprintf("(CRewrite (mkR %s %s %s %s %s %s %s %s %s))", coqBool(o.dry), coqBool(o.forget), coqBool(o.keepEmpty),
		c26Bytes(o.addTag), coqBool(o.meta), c26Bytes(o.host), nt, coqBool(o.summaryMatch), coqBool(o.repair))
}

func c26T(i int) time.Time { return time.Unix(1600000000+int64(i)*3600, 0).UTC() }

func engineC26(c *vctx) error {
	c.Header("Model.C26m", "C26m.case", "C26m.check_case")
	c.Preamble("Import C26m.")
	vsetupFast()
	repository.TestSetLockTimeout(c26TB{}, time.Millisecond)
	rng := c.rng.fork()
	w := &c26World{first: map[string]string{}}

	b, err := c26NewBase(c, "c26-base")
	if err != nil {
		return err
	}
	var someOrig restic.ID
	copy(someOrig[:], rng.bytes(32))
	sum := &data.SnapshotSummary{FilesNew: 3, TotalFilesProcessed: 4, TotalBytesProcessed: 26} // never equal to a recomputed summary

	t0 := time.Now()
	lap := func(name string) {
		c.Info("seconds_"+name, time.Since(t0).Seconds())
		t0 = time.Now()
	}
	lap("base")
	// ---------- family A: tag through the CLI ----------
	{
		e, err := c26Clone(c, b.e, "c26-tagrepo")
		if err != nil {
			return err
		}
		specs := []c26Spec{
			{path: "/c26/p0", tree: &b.tree, tags: nil, host: "h0", t: c26T(0)},
			{path: "/c26/p1", tree: &b.tree, tags: []string{"a"}, host: "h1", t: c26T(1), orig: &someOrig},
			{path: "/c26/p2", tree: &b.tree2, tags: []string{"a", "b", "a"}, host: "h2", t: c26T(2), summary: sum},
			{path: "/c26/p3", tree: &b.tree, tags: []string{"x", "b"}, host: "h3", t: c26T(3)},
		}
		if err := c26AddSnapshots(w, e, specs); err != nil {
			return err
		}
		type tagArgs struct{ set, add, rm []string }
		variants := []tagArgs{
			{add: []string{"a"}},
			{set: []string{"s", "t"}},
		}
		if c.thorough() {
			variants = append(variants, tagArgs{rm: []string{"b"}}, tagArgs{set: []string{""}},
				tagArgs{add: []string{"n", "a"}, rm: []string{"x", "n"}})
			for i := 0; i < 6; i++ {
				var v tagArgs
				pool := []string{"a", "b", "x", "n", "q"}
				if rng.chance(30) {
					for j := 0; j <= rng.intn(3); j++ {
						v.set = append(v.set, pool[rng.intn(len(pool))])
					}
				} else {
					for j := 0; j < rng.intn(3); j++ {
						v.add = append(v.add, pool[rng.intn(len(pool))])
					}
					for j := 0; j < rng.intn(3); j++ {
						v.rm = append(v.rm, pool[rng.intn(len(pool))])
					}
					if len(v.add)+len(v.rm) == 0 {
						v.add = []string{"q"}
					}
				}
				variants = append(variants, v)
			}
		}
		for vi, v := range variants {
			v := v
			mk := func() *c26Run {
				var targets []*c26Target
				for _, s := range specs {
					targets = append(targets, &c26Target{path: s.path, fresKind: "same", identity: true})
				}
				return &c26Run{kind: "tag-cli", cmdTerm: c26TagCmd(v.set, v.add, v.rm), targets: targets, exact: true,
					do: func(e *venv) {
						args := []string{"tag"}
						for _, s := range v.set {
							args = append(args, "--set", s)
						}
						for _, s := range v.add {
							args = append(args, "--add", s)
						}
						for _, s := range v.rm {
							args = append(args, "--remove", s)
						}
						_, _, _ = e.cli(args...)
					}}
			}
			if err := c26Scenario(c, w, e, fmt.Sprintf("c26-tag%d", vi), mk, vi < 1 || c.thorough()); err != nil {
				return err
			}
		}
		_ = os.RemoveAll(e.base)
	}

	lap("tag-cli")
	// ---------- family B: rewrite through the CLI ----------
	{
		e, err := c26Clone(c, b.e, "c26-rwrepo")
		if err != nil {
			return err
		}
		specs := []c26Spec{
			{path: "/c26/r0", tree: &b.tree, tags: []string{"k"}, host: "h0", t: c26T(10), summary: sum},
			{path: "/c26/r1", tree: &b.tree, tags: nil, host: "h1", t: c26T(11), orig: &someOrig},
			{path: "/c26/r2", tree: &b.tree2, tags: []string{"rewrite"}, host: "h2", t: c26T(12)},
		}
		if err := c26AddSnapshots(w, e, specs); err != nil {
			return err
		}
		nt := time.Date(2021, 2, 3, 4, 5, 6, 0, time.Local)
		type rw struct {
			name     string
			args     []string
			o        c26Ropts
			fres     string
			identity bool
			faults   bool
		}
		variants := []rw{
			{"excl-forget", []string{"--exclude", "*.log", "--forget"}, c26Ropts{forget: true, addTag: "rewrite", summaryMatch: false}, "changed", false, true},
			{"excl", []string{"--exclude", "*.log"}, c26Ropts{addTag: "rewrite", summaryMatch: false}, "changed", false, false},
			{"host-forget", []string{"--new-host", "nh", "--forget"}, c26Ropts{forget: true, addTag: "rewrite", meta: true, host: "nh", summaryMatch: true}, "same", true, false},
			{"time", []string{"--new-time", nt.Format(global.TimeFormat)}, c26Ropts{addTag: "rewrite", meta: true, newTime: &nt, summaryMatch: true}, "same", true, false},
			{"excl-nomatch", []string{"--exclude", "*.nomatch", "--forget"}, c26Ropts{forget: true, addTag: "rewrite", summaryMatch: false}, "same", true, false},
			{"dry", []string{"--exclude", "*.log", "--forget", "--dry-run"}, c26Ropts{dry: true, forget: true, addTag: "rewrite", summaryMatch: false}, "changed", false, false},
		}
		for _, v := range variants {
			v := v
			if !c.thorough() && (v.name == "excl" || v.name == "excl-nomatch") {
				continue
			}
			mk := func() *c26Run {
				var targets []*c26Target
				for _, s := range specs {
					targets = append(targets, &c26Target{path: s.path, fresKind: v.fres, identity: v.identity})
				}
				if v.fres == "changed" && v.o.dry {
					for _, t := range targets {
						t.fresKind = "tree:" + someOrig.String() // some tree different from the old one
					}
				}
				return &c26Run{kind: "rewrite-cli-" + v.name, cmdTerm: c26RewriteCmd(v.o), rewrite: true, targets: targets, exact: false,
					do: func(e *venv) { _, _, _ = e.cli(append([]string{"rewrite"}, v.args...)...) }}
			}
			if err := c26Scenario(c, w, e, "c26-rw-"+v.name, mk, v.faults || c.thorough()); err != nil {
				return err
			}
		}
		_ = os.RemoveAll(e.base)
	}

	lap("rewrite-cli")
	// ---------- family C: repair snapshots through the CLI ----------
	{
		e, err := c26Clone(c, b.e, "c26-reprepo")
		if err != nil {
			return err
		}
		var gone restic.ID
		copy(gone[:], rng.bytes(32))
		specs := []c26Spec{
			{path: "/c26/h0", tree: &b.tree, tags: []string{"ok"}, host: "h0", t: c26T(20)},
			{path: "/c26/h1", tree: &b.bad, tags: nil, host: "h1", t: c26T(21)},
			{path: "/c26/h2", tree: &b.bad, tags: []string{"t"}, host: "h2", t: c26T(22), orig: &someOrig},
			{path: "/c26/h3", tree: &gone, tags: nil, host: "h3", t: c26T(23)},
		}
		if err := c26AddSnapshots(w, e, specs); err != nil {
			return err
		}
		for _, forget := range []bool{true, false} {
			forget := forget
			mk := func() *c26Run {
				targets := []*c26Target{
					{path: "/c26/h0", fresKind: "same", identity: true},
					{path: "/c26/h1", fresKind: "changed"},
					{path: "/c26/h2", fresKind: "changed"},
					{path: "/c26/h3", fresKind: "null"},
				}
				args := []string{"repair", "snapshots"}
				if forget {
					args = append(args, "--forget")
				}
				return &c26Run{kind: fmt.Sprintf("repair-cli-forget=%v", forget), rewrite: true, targets: targets, exact: false,
					cmdTerm: c26RewriteCmd(c26Ropts{forget: forget, addTag: "repaired", summaryMatch: true, repair: true}),
					do:      func(e *venv) { _, _, _ = e.cli(args...) }}
			}
			if err := c26Scenario(c, w, e, fmt.Sprintf("c26-rep-%v", forget), mk, forget || c.thorough()); err != nil {
				return err
			}
		}
		_ = os.RemoveAll(e.base)
	}

	// ---------- family E: the snapshot FILE cannot be loaded (transiently, on intact snapshots) ----------
	{
		e, err := c26Clone(c, b.e, "c26-loadrepo")
		if err != nil {
			return err
		}
		specs := []c26Spec{
			{path: "/c26/u0", tree: &b.tree, tags: []string{"ok"}, host: "h0", t: c26T(30)},
			{path: "/c26/u1", tree: &b.tree2, tags: nil, host: "h1", t: c26T(31)},
			{path: "/c26/u2", tree: &b.bad, tags: []string{"t"}, host: "h2", t: c26T(32)},
		}
		if err := c26AddSnapshots(w, e, specs); err != nil {
			return err
		}
		pre, _, err := c26Snapshots(e)
		if err != nil {
			return err
		}
		idOf := func(path string) string {
			for _, sn := range pre[path] {
				return sn.ID().String()
			}
			return ""
		}
		type lv struct {
			cmd           string
			forget, named bool
			dry           bool
			victim        string
			times         int
		}
		variants := []lv{
			{"repair", true, false, false, "/c26/u0", 2},
			{"repair", true, true, false, "/c26/u0", 2},
			{"repair", false, true, false, "/c26/u0", 2},
			{"repair", false, false, false, "/c26/u1", 2},
			{"repair", true, true, true, "/c26/u1", 2},
			{"repair", true, false, false, "/c26/u2", 1000},
			{"rewrite", true, false, false, "/c26/u0", 2},
			{"tag", true, false, false, "/c26/u1", 2},
		}
		for vi, v := range variants {
			v := v
			var targets []*c26Target
			for _, sp := range specs {
				if v.named && sp.path != v.victim {
					continue // only the named snapshot is processed
				}
				t := &c26Target{path: sp.path, fresKind: "same", identity: true}
				if sp.path == "/c26/u2" && v.cmd == "repair" {
					t.fresKind, t.identity = "changed", false
				}
				if v.cmd == "rewrite" {
					t.fresKind, t.identity = "changed", false
				}
				if sp.path == v.victim {
					t.unreadable, t.named = true, v.named
				}
				targets = append(targets, t)
			}
			var args []string
			var cmdTerm string
			switch v.cmd {
			case "repair":
				args = []string{"repair", "snapshots"}
				cmdTerm = c26RewriteCmd(c26Ropts{dry: v.dry, forget: v.forget, addTag: "repaired", summaryMatch: true, repair: true})
			case "rewrite":
				args = []string{"rewrite", "--exclude", "*.log"}
				cmdTerm = c26RewriteCmd(c26Ropts{forget: v.forget, addTag: "rewrite", summaryMatch: false})
			default:
				args = []string{"tag", "--add", "zz"}
				cmdTerm = c26TagCmd(nil, []string{"zz"}, nil)
			}
			if v.forget && v.cmd != "tag" {
				args = append(args, "--forget")
			}
			if v.dry {
				args = append(args, "--dry-run")
			}
			if v.named {
				args = append(args, idOf(v.victim))
			}
			run := &c26Run{kind: fmt.Sprintf("%s-cli-unreadable-forget=%v-named=%v", v.cmd, v.forget, v.named), cmdTerm: cmdTerm,
				rewrite: v.cmd != "tag", targets: targets, exact: false, cut: -1, failAt: -1,
				loadFail: v.victim, loadFailTimes: v.times,
				do: func(e *venv) { _, _, _ = e.cli(args...) }}
			cl, err := c26Clone(c, e, fmt.Sprintf("c26-load%d", vi))
			if err != nil {
				return err
			}
			_, err = c26Execute(c, w, cl, run)
			_ = os.RemoveAll(cl.base)
			if err != nil {
				return err
			}
		}
		_ = os.RemoveAll(e.base)
	}

	lap("repair-cli")
	// ---------- family D: changeTags / filterAndReplaceSnapshot called directly ----------
	{
		e, err := c26Clone(c, b.e, "c26-direct")
		if err != nil {
			return err
		}
		nDirect := c.n(45, 700)
		pool := []string{"a", "b", "c", "rewrite", ""}
		for i := 0; i < nDirect; i++ {
			r2 := rng.fork()
			var tags []string
			for j := 0; j < r2.intn(5); j++ {
				tags = append(tags, pool[r2.intn(4)])
			}
			spec := c26Spec{path: fmt.Sprintf("/c26/d%d", i), tree: &b.tree, tags: tags, host: "h", t: c26T(100 + i)}
			if r2.chance(35) {
				spec.orig = &someOrig
			}
			if r2.chance(50) {
				s := *sum
				spec.summary = &s
			}
			if err := c26AddSnapshots(w, e, []c26Spec{spec}); err != nil {
				return err
			}
			var run *c26Run
			tgt := &c26Target{path: spec.path, fresKind: "same", identity: true}
			if i%3 == 0 {
				// changeTags
				var set, add, rm []string
				switch r2.intn(4) {
				case 0:
					for j := 0; j <= r2.intn(3); j++ {
						set = append(set, pool[r2.intn(len(pool))])
					}
				default:
					for j := 0; j < r2.intn(4); j++ {
						add = append(add, pool[r2.intn(4)])
					}
					for j := 0; j < r2.intn(4); j++ {
						rm = append(rm, pool[r2.intn(4)])
					}
				}
				run = &c26Run{kind: "tag-direct", cmdTerm: c26TagCmd(set, add, rm), targets: []*c26Target{tgt}, exact: true, cut: -1, failAt: -1}
				run.do = func(e *venv) {
					_, _, _ = e.run(func(ctx context.Context, gopts global.Options) error {
						printer := progress.NewTerminalPrinter(false, 0, gopts.Term)
						repo, err := global.OpenRepository(ctx, gopts, printer)
						if err != nil {
							return err
						}
						sn, _, err := data.FindSnapshot(ctx, repo, repo, c26FindID(ctx, repo, spec.path))
						if err != nil {
							return err
						}
						changed, err := changeTags(ctx, repo, sn, append([]string(nil), set...), add, rm, func(changedSnapshot) {})
						tgt.ret = c26Ret(changed, err)
						return nil
					})
				}
			} else {
				o := c26Ropts{dry: r2.chance(20), forget: r2.bool(), keepEmpty: r2.chance(30), addTag: r2.pick("rewrite", "repaired", "a"), summaryMatch: true}
				var meta *snapshotMetadata
				switch r2.intn(5) {
				case 0:
					meta = &snapshotMetadata{Hostname: "newhost"}
					o.meta, o.host = true, "newhost"
				case 1:
					t := c26T(5000 + i)
					meta = &snapshotMetadata{Time: &t}
					o.meta, o.newTime = true, &t
				case 2:
					t := c26T(6000 + i)
					meta = &snapshotMetadata{Hostname: "hh", Time: &t}
					o.meta, o.host, o.newTime = true, "hh", &t
				case 3:
					meta = &snapshotMetadata{}
					o.meta = true
				}
				fk := r2.pick("same", "same", "other", "other", "null", "err")
				var ftree restic.ID
				switch fk {
				case "same":
					ftree = b.tree
					tgt.fresKind, tgt.identity = "same", true
				case "other":
					ftree = b.tree2
					tgt.fresKind, tgt.identity = "tree:"+b.tree2.String(), false
				case "null":
					tgt.fresKind, tgt.identity = "null", false
				case "err":
					tgt.fresKind, tgt.identity = "err", false
				}
				sk := r2.intn(3) // summary returned by the filter: nil / equal / different
				run = &c26Run{kind: "rewrite-direct-" + fk, rewrite: true, targets: []*c26Target{tgt}, exact: true, cut: -1, failAt: -1}
				if r2.chance(25) {
					run.failAt = r2.intn(2)
				} else if r2.chance(15) {
					run.cut = r2.intn(2)
				}
				upload := fk == "other" && !o.dry && r2.chance(40) // also upload a fresh blob inside the filter
				run.do = func(e *venv) {
					_, _, _ = e.run(func(ctx context.Context, gopts global.Options) error {
						printer := progress.NewTerminalPrinter(false, 0, gopts.Term)
						repo, err := global.OpenRepository(ctx, gopts, printer)
						if err != nil {
							return err
						}
						sn, _, err := data.FindSnapshot(ctx, repo, repo, c26FindID(ctx, repo, spec.path))
						if err != nil {
							return err
						}
						filter := func(ctx context.Context, sn *data.Snapshot, up restic.BlobSaver) (restic.ID, *data.SnapshotSummary, error) {
							if fk == "err" {
								return restic.ID{}, nil, errors.New("c26 filter error")
							}
							if upload {
								buf := append([]byte("c26 fresh blob "), []byte(spec.path)...)
								if _, _, _, err := up.SaveBlob(ctx, restic.DataBlob, buf, restic.ID{}, false); err != nil {
									return restic.ID{}, nil, err
								}
							}
							var s *data.SnapshotSummary
							switch sk {
							case 1:
								if sn.Summary != nil {
									cp := *sn.Summary
									s = &cp
								}
							case 2:
								s = &data.SnapshotSummary{TotalFilesProcessed: 77}
							}
							return ftree, s, nil
						}
						changed, err := filterAndReplaceSnapshot(ctx, repo, sn, filter, o.dry, o.forget, meta, o.addTag, printer, o.keepEmpty)
						tgt.ret = c26Ret(changed, err)
						return nil
					})
				}
				o.summaryMatch = sk != 2
				run.cmdTerm = c26RewriteCmd(o)
			}
			if _, err := c26Execute(c, w, e, run); err != nil {
				return err
			}
			// keep the repository small: drop all snapshot files again
			snaps, _ := filepath.Glob(filepath.Join(e.repo, "snapshots", "*"))
			for _, p := range snaps {
				_ = os.Remove(p)
			}
		}
		_ = os.RemoveAll(e.base)
	}
	lap("direct")
	_ = os.RemoveAll(b.e.base)
	return nil
}

func c26Ret(changed bool, err error) int {
	if err != nil {
		return 1
	}
	if changed {
		return 3
	}
	return 2
}

// c26FindID returns the id (hex) of the snapshot whose first path is p.
func c26FindID(ctx context.Context, repo *repository.Repository, p string) string {
	res := ""
	_ = repo.List(ctx, restic.SnapshotFile, func(id restic.ID, _ int64) error {
		sn, err := data.LoadSnapshot(ctx, repo, id)
		if err == nil && len(sn.Paths) > 0 && sn.Paths[0] == p {
			res = id.String()
		}
		return nil
	})
	return res
}
