//go:build verif

package main

// C40 engine: incremental backups store the same tree as full backups.
// Real CLI backups of generated trees: parent snapshot, edits of the source (grow, same-size rewrite,
// same-size rewrite with mtime put back, replace by a new inode with mtime put back, touch, chmod,
// delete/add, type changes, renamed directories), optionally a data pack removed + `repair index`
// (parent blobs missing from the index), then an incremental backup (--parent, ± --ignore-ctime /
// --ignore-inode) and a --force backup of the same source state.  Coq gets the source tree (with the
// chunk lists the forced backup produced), the parent tree, the indexed blobs, the options and both
// resulting trees.

import (
	"context"
	"encoding/json"
	"fmt"
	"os"
	"path/filepath"
	"sort"
	"strings"
	"syscall"
	"time"

	"github.com/restic/restic/internal/data"
	"github.com/restic/restic/internal/global"
	"github.com/restic/restic/internal/repository"
	"github.com/restic/restic/internal/restic"
)

var _ = verifRegister("C40", engineC40)

type c40Names struct {
	m map[restic.ID]int
	t map[int64]int // timestamps renamed to small numbers (only equality matters)
}

func (n *c40Names) time(ns int64) string {
	if n.t == nil {
		n.t = map[int64]int{}
	}
	v, ok := n.t[ns]
	if !ok {
		v = len(n.t) + 1
		n.t[ns] = v
	}
	return coqN(uint64(v))
}

func (n *c40Names) of(id restic.ID) int {
	if v, ok := n.m[id]; ok {
		return v
	}
	v := len(n.m) + 1
	n.m[id] = v
	return v
}

func (n *c40Names) list(ids []restic.ID) string {
	it := make([]string, len(ids))
	for i, id := range ids {
		it[i] = coqN(uint64(n.of(id)))
	}
	return coqList(it)
}

type c40Summary struct {
	SnapshotID string `json:"snapshot_id"`
}

// backup runs `restic backup --json args...`; a "source file could not be read" style error is
// tolerated as long as a summary (snapshot) was produced.
func c40Backup(e *venv, args ...string) (string, error) {
	out, _, err := e.cli(append([]string{"backup", "--json"}, args...)...)
	for _, line := range strings.Split(out, "\n") {
		if strings.Contains(line, `"message_type":"summary"`) {
			var s c40Summary
			if jerr := json.Unmarshal([]byte(line), &s); jerr != nil {
				return "", jerr
			}
			return s.SnapshotID, nil
		}
	}
	if err == nil {
		err = fmt.Errorf("no summary")
	}
	return "", err
}

func c40WithRepo(e *venv, fn func(ctx context.Context, repo *repository.Repository) error) error {
	_, _, err := e.run(func(ctx context.Context, _ global.Options) error {
		repo, err := e.openRepo(ctx)
		if err != nil {
			return err
		}
		if err := repo.LoadIndex(ctx, restic.NewNoopPrinter()); err != nil {
			return err
		}
		return fn(ctx, repo)
	})
	return err
}

// projection of a snapshot subtree as a Coq node term; also path -> content ids
func c40TreeTerm(ctx context.Context, repo *repository.Repository, names *c40Names, tree restic.ID, prefix string, contents map[string][]restic.ID) (string, int, error) {
	it, err := data.LoadTree(ctx, repo, tree)
	if err != nil {
		return "", 0, err
	}
	var ents []string
	count := 0
	for item := range it {
		if item.Error != nil {
			return "", 0, item.Error
		}
		n := item.Node
		p := prefix + "/" + n.Name
		var t string
		switch {
		case n.Type == data.NodeTypeFile:
			t = fmt.Sprintf("(NFile (mkm %s %s %s %s) %s)", coqN(n.Size), names.time(n.ModTime.UnixNano()), names.time(n.ChangeTime.UnixNano()), coqN(n.Inode), names.list(n.Content))
			if contents != nil {
				contents[p] = n.Content
			}
			count++
		case n.Type == data.NodeTypeDir && n.Subtree != nil:
			sub, k, err := c40TreeTerm(ctx, repo, names, *n.Subtree, p, contents)
			if err != nil {
				return "", 0, err
			}
			t = sub
			count += k + 1
		default:
			t = "NOther"
			count++
		}
		ents = append(ents, coqTuple(coqStr(n.Name), t))
	}
	return "(NDir " + coqList(ents) + ")", count, nil
}

type c40Snap struct {
	term string
	root restic.ID
	n    int
}

func c40Snapshot(e *venv, names *c40Names, snid, src string, contents map[string][]restic.ID) (c40Snap, error) {
	var out c40Snap
	err := c40WithRepo(e, func(ctx context.Context, repo *repository.Repository) error {
		id, err := restic.ParseID(snid)
		if err != nil {
			return err
		}
		sn, err := data.LoadSnapshot(ctx, repo, id)
		if err != nil {
			return err
		}
		out.root = *sn.Tree
		sub, err := data.FindTreeDirectory(ctx, repo, sn.Tree, "src")
		if err != nil {
			return err
		}
		out.term, out.n, err = c40TreeTerm(ctx, repo, names, *sub, "", contents)
		return err
	})
	return out, err
}

// source tree as a Coq item term (chunk lists from the forced backup)
func c40SourceTerm(names *c40Names, dir, prefix string, contents map[string][]restic.ID) (string, error) {
	des, err := os.ReadDir(dir)
	if err != nil {
		return "", err
	}
	nm := make([]string, len(des))
	for i, d := range des {
		nm[i] = d.Name()
	}
	sort.Strings(nm)
	var ents []string
	for _, name := range nm {
		p := filepath.Join(dir, name)
		fi, err := os.Lstat(p)
		if err != nil {
			return "", err
		}
		var t string
		switch {
		case fi.Mode().IsRegular():
			st := fi.Sys().(*syscall.Stat_t)
			c, ok := contents[prefix+"/"+name]
			if !ok {
				return "", fmt.Errorf("C40: %s missing from the forced backup", prefix+"/"+name)
			}
			t = fmt.Sprintf("(IFile (mkm %s %s %s %s) %s)", coqN(uint64(fi.Size())), names.time(fi.ModTime().UnixNano()),
				names.time(int64(st.Ctim.Sec)*1000000000+int64(st.Ctim.Nsec)), coqN(st.Ino), names.list(c))
		case fi.IsDir():
			sub, err := c40SourceTerm(names, p, prefix+"/"+name, contents)
			if err != nil {
				return "", err
			}
			t = sub
		default:
			t = "IOther"
		}
		ents = append(ents, coqTuple(coqStr(name), t))
	}
	return "(IDir " + coqList(ents) + ")", nil
}

func c40DataBlobs(e *venv) (map[restic.ID]restic.ID, error) { // data blob -> pack
	out := map[restic.ID]restic.ID{}
	err := c40WithRepo(e, func(ctx context.Context, repo *repository.Repository) error {
		return repo.ListBlobs(ctx, func(pb restic.PackBlob) {
			if pb.Handle().Type == restic.DataBlob {
				out[pb.Handle().ID] = pb.PackID()
			}
		})
	})
	return out, err
}

func c40Files(root string) (files, dirs []string) {
	_ = filepath.Walk(root, func(p string, fi os.FileInfo, err error) error {
		if err != nil || p == root {
			return nil
		}
		if fi.Mode().IsRegular() {
			files = append(files, p)
		} else if fi.IsDir() {
			dirs = append(dirs, p)
		}
		return nil
	})
	sort.Strings(files)
	sort.Strings(dirs)
	return
}

func c40Content(rng *vrng) []byte {
	switch rng.intn(6) {
	case 0:
		return nil
	case 1:
		return rng.bytes(530*1024 + rng.intn(1000)) // two chunks
	}
	return rng.bytes(1 + rng.intn(2000))
}

func c40Populate(rng *vrng, dir string, depth int, tag string) error {
	if err := os.MkdirAll(dir, 0o755); err != nil {
		return err
	}
	for i := 0; i < 1+rng.intn(4); i++ {
		if err := os.WriteFile(filepath.Join(dir, fmt.Sprintf("%sf%d", tag, i)), c40Content(rng), 0o644); err != nil {
			return err
		}
	}
	if rng.chance(30) {
		_ = os.Symlink("target", filepath.Join(dir, tag+"link"))
	}
	if rng.chance(40) {
		// a second name for an existing regular file (same inode)
		_ = os.Link(filepath.Join(dir, tag+"f0"), filepath.Join(dir, tag+"hard"))
	}
	if depth > 0 {
		for i := 0; i < rng.intn(3); i++ {
			if err := c40Populate(rng, filepath.Join(dir, fmt.Sprintf("%sd%d", tag, i)), depth-1, tag); err != nil {
				return err
			}
		}
	}
	return nil
}

// c40Forced applies one named edit to every second regular file (at least one): used by the corpus.
func c40Forced(rng *vrng, src, kind string) string {
	files, _ := c40Files(src)
	done := 0
	for i, f := range files {
		fi, err := os.Lstat(f)
		if err != nil || fi.Size() == 0 || (i%2 == 1 && done > 0) {
			continue
		}
		st := fi.Sys().(*syscall.Stat_t)
		if st.Nlink > 1 && kind != "replace-same-size-mtime-back" {
			continue
		}
		switch kind {
		case "rewrite-same-size-mtime-older", "rewrite-same-size-mtime-newer":
			// an older / newer version of the same size put in place keeping its own timestamp
			// (cp -p, rsync -t, tar -x): content and mtime differ from the parent, same inode
			_ = os.WriteFile(f, rng.bytes(int(fi.Size())), 0o644)
			d := time.Duration(1+rng.intn(5)) * time.Hour
			if rng.bool() {
				d = time.Duration(1 + rng.intn(999)) // nanoseconds
			}
			t := fi.ModTime().Add(-d)
			if kind == "rewrite-same-size-mtime-newer" {
				t = fi.ModTime().Add(d)
			}
			_ = os.Chtimes(f, t, t)
		case "replace-same-size-mtime-back":
			tmp := f + ".tmp"
			_ = os.WriteFile(tmp, rng.bytes(int(fi.Size())), 0o644)
			_ = os.Rename(tmp, f) // new inode
			_ = os.Chtimes(f, fi.ModTime(), fi.ModTime())
		}
		done++
	}
	return fmt.Sprintf("%s(x%d)", kind, done)
}

// one edit of the source; returns a short name
func c40Edit(rng *vrng, src string, n int) string {
	files, dirs := c40Files(src)
	pickf := func() string {
		if len(files) == 0 {
			return ""
		}
		return files[rng.intn(len(files))]
	}
	f := pickf()
	switch k := rng.intn(16); {
	case k == 0 && f != "":
		fh, err := os.OpenFile(f, os.O_APPEND|os.O_WRONLY, 0)
		if err == nil {
			_, _ = fh.Write(rng.bytes(1 + rng.intn(50)))
			_ = fh.Close()
		}
		return "grow"
	case k == 1 && f != "":
		fi, _ := os.Lstat(f)
		_ = os.WriteFile(f, rng.bytes(int(fi.Size())), 0o644)
		return "rewrite-same-size"
	case (k == 2 || k == 3) && f != "":
		fi, _ := os.Lstat(f)
		if fi.Size() == 0 {
			return "noop"
		}
		_ = os.WriteFile(f, rng.bytes(int(fi.Size())), 0o644) // same inode
		_ = os.Chtimes(f, fi.ModTime(), fi.ModTime())
		return "rewrite-same-size-mtime-back"
	case (k == 4 || k == 5) && f != "":
		fi, _ := os.Lstat(f)
		if fi.Size() == 0 {
			return "noop"
		}
		tmp := f + ".tmp"
		_ = os.WriteFile(tmp, rng.bytes(int(fi.Size())), 0o644)
		_ = os.Rename(tmp, f) // new inode
		_ = os.Chtimes(f, fi.ModTime(), fi.ModTime())
		return "replace-same-size-mtime-back"
	case k == 6 && f != "":
		fi, _ := os.Lstat(f)
		t := fi.ModTime().Add(12345)
		_ = os.Chtimes(f, t, t)
		return "touch"
	case k == 7 && f != "":
		_ = os.Chmod(f, 0o600)
		return "chmod"
	case k == 8 && f != "":
		_ = os.Remove(f)
		if rng.bool() {
			_ = os.MkdirAll(f, 0o755)
			_ = os.WriteFile(filepath.Join(f, "inner"), rng.bytes(10), 0o644)
			return "file-to-dir"
		}
		if rng.bool() {
			_ = os.Symlink("x", f)
			return "file-to-symlink"
		}
		return "delete-file"
	case k == 9 && len(dirs) > 0:
		d := dirs[rng.intn(len(dirs))]
		_ = os.RemoveAll(d)
		if rng.bool() {
			_ = os.WriteFile(d, rng.bytes(20), 0o644)
			return "dir-to-file"
		}
		return "delete-dir"
	case k == 10 && len(dirs) > 0:
		d := dirs[rng.intn(len(dirs))]
		_ = os.Rename(d, d+fmt.Sprintf("-r%d", n))
		return "rename-dir"
	case k == 11:
		d := src
		if len(dirs) > 0 && rng.bool() {
			d = dirs[rng.intn(len(dirs))]
		}
		// names that sort before / between / after the existing ones
		_ = os.WriteFile(filepath.Join(d, rng.pick("0new", "ef", "zz", "af0x")+fmt.Sprint(n)), c40Content(rng), 0o644)
		return "add-file"
	case (k == 14 || k == 15) && f != "":
		fi, _ := os.Lstat(f)
		if fi.Size() == 0 {
			return "noop"
		}
		_ = os.WriteFile(f, rng.bytes(int(fi.Size())), 0o644)
		d := time.Duration(1+rng.intn(100000)) * time.Microsecond
		if k == 14 {
			t := fi.ModTime().Add(-d)
			_ = os.Chtimes(f, t, t)
			return "rewrite-same-size-mtime-older"
		}
		t := fi.ModTime().Add(d)
		_ = os.Chtimes(f, t, t)
		return "rewrite-same-size-mtime-newer"
	case k == 13 && f != "":
		fi, _ := os.Lstat(f)
		fh, err := os.OpenFile(f, os.O_APPEND|os.O_WRONLY, 0)
		if err == nil {
			_, _ = fh.Write(rng.bytes(1 + rng.intn(50)))
			_ = fh.Close()
		}
		_ = os.Chtimes(f, fi.ModTime(), fi.ModTime())
		return "grow-mtime-back"
	case k == 12:
		_ = c40Populate(rng, filepath.Join(src, fmt.Sprintf("n%d", n)), 1, "b")
		return "add-dir"
	}
	return "noop"
}

type c40SnInfo struct {
	id     restic.ID
	paths  []string
	t      time.Time
	parent *restic.ID
}

func c40ListSnaps(e *venv) ([]c40SnInfo, error) {
	var out []c40SnInfo
	err := c40WithRepo(e, func(ctx context.Context, repo *repository.Repository) error {
		return data.ForAllSnapshots(ctx, repo, repo, nil, func(id restic.ID, sn *data.Snapshot, err error) error {
			if err != nil {
				return err
			}
			out = append(out, c40SnInfo{id, sn.Paths, sn.Time, sn.Parent})
			return nil
		})
	})
	sort.Slice(out, func(i, j int) bool { return out[i].t.Before(out[j].t) })
	return out, err
}

// c40CopyTree copies src to dst keeping names, sizes and mtimes: per file either a hard link (same
// inode), a plain copy (new inode), or a copy with different content of the same size.
func c40CopyTree(rng *vrng, src, dst string) (stale int, err error) {
	err = filepath.Walk(src, func(p string, fi os.FileInfo, err error) error {
		if err != nil {
			return err
		}
		rel, _ := filepath.Rel(src, p)
		q := filepath.Join(dst, rel)
		switch {
		case fi.IsDir():
			return os.MkdirAll(q, 0o755)
		case fi.Mode().IsRegular():
			switch rng.intn(4) {
			case 0:
				return os.Link(p, q)
			case 1:
				if fi.Size() > 0 {
					stale++
					if err := os.WriteFile(q, rng.bytes(int(fi.Size())), 0o644); err != nil {
						return err
					}
					return os.Chtimes(q, fi.ModTime(), fi.ModTime())
				}
				fallthrough
			default:
				b, err := os.ReadFile(p)
				if err != nil {
					return err
				}
				if err := os.WriteFile(q, b, 0o644); err != nil {
					return err
				}
				return os.Chtimes(q, fi.ModTime(), fi.ModTime())
			}
		case fi.Mode()&os.ModeSymlink != 0:
			return os.Symlink("target", q)
		}
		return nil
	})
	return
}

func min2c40(a, b int) int {
	if a < b {
		return a
	}
	return b
}

func c40SnapshotCount(e *venv) int {
	n := 0
	for p := range e.repoFiles() {
		if strings.HasPrefix(p, "snapshots"+string(filepath.Separator)) {
			n++
		}
	}
	return n
}

func c40Case(c *vctx, name string, rng *vrng, variant int, forced string, forcedFlags int) error {
	e := newVenv(c, name)
	if _, _, err := e.cli("init"); err != nil {
		return err
	}
	src := filepath.Join(e.base, "src")
	if err := c40Populate(rng, src, 2, "a"); err != nil {
		return err
	}
	// back up the relative target "src" from inside the scratch directory: the snapshot root then holds
	// only src, not the ancestors /verif/work/... whose mtimes other processes keep changing
	if wd, err := os.Getwd(); err == nil {
		defer func() { _ = os.Chdir(wd) }()
	}
	if err := os.Chdir(e.base); err != nil {
		return err
	}
	srcAbs := src
	_ = srcAbs
	// two backups so that the data blobs of the parent live in more than one pack
	if _, err := c40Backup(e, "src"); err != nil {
		return fmt.Errorf("C40 first backup: %w", err)
	}
	if err := c40Populate(rng, src, 1, "c"); err != nil {
		return err
	}
	parentID, err := c40Backup(e, "src")
	if err != nil {
		return fmt.Errorf("C40 parent backup: %w", err)
	}
	// snapshots with other path sets: a superset {src, extra} (a valid parent for {src}) and {extra} alone
	targets := []string{"src"}
	otherParent := variant%6 == 5
	superset := variant%6 == 2
	explicitParent := ""
	if variant%2 == 1 {
		explicitParent = parentID
	}
	if superset {
		_ = os.MkdirAll(filepath.Join(e.base, "extra"), 0o755)
		_ = os.WriteFile(filepath.Join(e.base, "extra", "x"), rng.bytes(20), 0o644)
		if _, err := c40Backup(e, "src", "extra"); err != nil {
			return fmt.Errorf("C40 superset backup: %w", err)
		}
		if rng.bool() {
			// the run under test backs up {src, extra}: its parent must be the snapshot above, not the
			// newer snapshot of {src} alone taken now
			targets = []string{"src", "extra"}
			if _, err := c40Backup(e, "src"); err != nil {
				return fmt.Errorf("C40 src-only backup: %w", err)
			}
		}
		if rng.bool() {
			if _, err := c40Backup(e, "extra"); err != nil {
				return fmt.Errorf("C40 extra backup: %w", err)
			}
		}
		explicitParent = ""
	}
	staleCopies := 0
	if otherParent {
		// the parent is a snapshot of ANOTHER directory with the same entry names: hard links, copies and
		// same-size-same-mtime files with different content; it is only used when named explicitly
		y := filepath.Join(e.base, "y")
		var err error
		if staleCopies, err = c40CopyTree(rng, src, filepath.Join(y, "src")); err != nil {
			return err
		}
		if err := os.Chdir(y); err != nil {
			return err
		}
		q, err := c40Backup(e, "src")
		_ = os.Chdir(e.base)
		if err != nil {
			return fmt.Errorf("C40 other-dir backup: %w", err)
		}
		explicitParent = q
	}
	// edits
	var edits []string
	ne := rng.intn(5)
	if variant%5 == 4 {
		ne = 0 // unchanged source
	}
	if forced != "" {
		ne = 0
		edits = append(edits, c40Forced(rng, src, forced))
	}
	for i := 0; i < ne; i++ {
		edits = append(edits, c40Edit(rng, src, i))
	}
	// parent blobs missing from the index
	missing := false
	if variant%4 == 3 {
		blobs, err := c40DataBlobs(e)
		if err != nil {
			return err
		}
		packs := map[restic.ID]bool{}
		for _, p := range blobs {
			packs[p] = true
		}
		var pl []string
		for p := range packs {
			pl = append(pl, p.String())
		}
		sort.Strings(pl)
		if len(pl) > 0 {
			victim := pl[rng.intn(len(pl))]
			if err := os.Remove(filepath.Join(e.repo, "data", victim[:2], victim)); err != nil {
				return err
			}
			if _, _, err := e.cli("repair", "index"); err != nil {
				return fmt.Errorf("C40 repair index: %w", err)
			}
			missing = true
		}
	}
	before, err := c40DataBlobs(e)
	if err != nil {
		return err
	}
	ii, ic := false, false
	switch variant % 3 {
	case 1:
		ic = true
	case 2:
		ii = rng.bool()
		ic = !ii || rng.bool()
	}
	if forcedFlags >= 0 {
		ii, ic = forcedFlags&2 != 0, forcedFlags&1 != 0
	}
	snapsBefore, err := c40ListSnaps(e)
	if err != nil {
		return err
	}
	var args []string
	if explicitParent != "" {
		args = append(args, "--parent", explicitParent)
	}
	if ii {
		args = append(args, "--ignore-inode")
	}
	if ic {
		args = append(args, "--ignore-ctime")
	}
	incrID, err := c40Backup(e, append(args, targets...)...)
	if err != nil {
		return fmt.Errorf("C40 incremental backup: %w", err)
	}
	afterIncr, err := c40DataBlobs(e)
	if err != nil {
		return err
	}
	fullID, err := c40Backup(e, append([]string{"--force"}, targets...)...)
	if err != nil {
		return fmt.Errorf("C40 forced backup: %w", err)
	}
	names := &c40Names{m: map[restic.ID]int{}}
	contents := map[string][]restic.ID{}
	fullS, err := c40Snapshot(e, names, fullID, src, contents)
	if err != nil {
		return err
	}
	incrContents := map[string][]restic.ID{}
	incrS, err := c40Snapshot(e, names, incrID, src, incrContents)
	if err != nil {
		return err
	}
	complete := true
	for _, ids := range incrContents {
		for _, id := range ids {
			if _, ok := afterIncr[id]; !ok {
				complete = false
			}
		}
	}
	// the parent the incremental run really used (recorded in its snapshot)
	snapsAfter, err := c40ListSnaps(e)
	if err != nil {
		return err
	}
	var usedParent *restic.ID
	for _, sn := range snapsAfter {
		if sn.id.String() == incrID {
			usedParent = sn.parent
		}
	}
	parTerm, parN := "None", 0
	if usedParent != nil {
		parS, err := c40Snapshot(e, names, usedParent.String(), src, nil)
		if err != nil {
			// a parent without src (wrongly selected): nothing pairs; the selection case reports it
			parTerm = "(Some (NDir []))"
		} else {
			parTerm, parN = "(Some "+parS.term+")", parS.n
		}
	}
	// parent selection case
	{
		pathKey := map[string]int{}
		pk := func(ps []string) string {
			it := make([]string, len(ps))
			for i, p := range ps {
				if _, ok := pathKey[p]; !ok {
					pathKey[p] = len(pathKey) + 1
				}
				it[i] = coqN(uint64(pathKey[p]))
			}
			return coqList(it)
		}
		var absTargets []string
		for _, t := range targets {
			absTargets = append(absTargets, filepath.Join(e.base, t))
		}
		idKey := map[restic.ID]int{}
		var sl []string
		for i, sn := range snapsBefore {
			idKey[sn.id] = i + 1
			sl = append(sl, coqTuple(coqN(uint64(i+1)), pk(sn.paths), coqN(uint64(i+1)))) // sorted by time: rank = position
		}
		expl := "None"
		if explicitParent != "" {
			for id, k := range idKey {
				if id.String() == explicitParent {
					expl = "(Some " + coqN(uint64(k)) + ")"
				}
			}
		}
		obs := "None"
		if usedParent != nil {
			obs = "(Some " + coqN(uint64(idKey[*usedParent])) + ")"
		}
		c.Case("parent-selection", len(snapsBefore) > 2, len(snapsBefore),
			fmt.Sprintf("CParent %s %s false %s %s", coqList(sl), pk(absTargets), expl, obs),
			fmt.Sprintf("snapshots before=%d (superset=%v other-dir=%v) explicit=%v -> parent used: %s", len(snapsBefore), superset, otherParent, explicitParent != "", obs))
	}
	srcT, err := c40SourceTerm(names, src, "", contents)
	if err != nil {
		return err
	}
	var idx []string
	var idn []int
	for b := range before {
		if k, ok := names.m[b]; ok { // only blobs that occur in one of the trees matter
			idn = append(idn, k)
		}
	}
	sort.Ints(idn)
	for _, k := range idn {
		idx = append(idx, coqN(uint64(k)))
	}
	fl := fmt.Sprintf("(flags_of_cli %s %s)", coqBool(ii), coqBool(ic))
	term := fmt.Sprintf("CTree %s %s %s %s %s %s %s %s", fl, coqList(idx), srcT, parTerm, incrS.term, fullS.term, coqBool(incrS.root == fullS.root), coqBool(complete))
	kind := "tree"
	if otherParent {
		kind += fmt.Sprintf("-other-dir-parent-stale%d", min2c40(staleCopies, 1))
	}
	if superset {
		kind += "-superset-parent"
	}
	if missing {
		kind += "-missing-blobs"
	}
	if ii {
		kind += "-ignore-inode"
	} else if ic {
		kind += "-ignore-ctime"
	}
	for _, ed := range edits {
		c.Hist("edit=" + ed)
	}
	c.Hist(fmt.Sprintf("ids-equal=%v", incrS.root == fullS.root))
	c.Case(kind, len(edits) > 0 || missing, fullS.n+parN,
		term, fmt.Sprintf("entries parent=%d now=%d edits=%v missing-pack=%v ignore-inode=%v ignore-ctime=%v -> incremental tree == forced tree: %v",
			parN, fullS.n, edits, missing, ii, ic, incrS.root == fullS.root))

	// ---- skip-if-unchanged ----
	if variant%2 == 0 {
		changed := rng.bool()
		if changed {
			_ = os.WriteFile(filepath.Join(src, "zzz-skip"), rng.bytes(5), 0o644)
		}
		skipFlag := rng.chance(75)
		force := rng.chance(20)
		n0 := c40SnapshotCount(e)
		a := []string{}
		if skipFlag {
			a = append(a, "--skip-if-unchanged")
		}
		if force {
			a = append(a, "--force")
		}
		_, _, err := e.cli(append(append([]string{"backup"}, a...), "src")...)
		if err != nil {
			return fmt.Errorf("C40 skip backup: %w", err)
		}
		saved := c40SnapshotCount(e) > n0
		// the tree of the current source, from a forced backup
		curID, err := c40Backup(e, "--force", "src")
		if err != nil {
			return err
		}
		var curRoot restic.ID
		if err := c40WithRepo(e, func(ctx context.Context, repo *repository.Repository) error {
			id, _ := restic.ParseID(curID)
			sn, err := data.LoadSnapshot(ctx, repo, id)
			if err == nil {
				curRoot = *sn.Tree
			}
			return err
		}); err != nil {
			return err
		}
		treesEqual := curRoot == fullS.root
		c.Case("skip", true, 1,
			fmt.Sprintf("CSkip %s %s %s %s", coqBool(!force), coqBool(skipFlag), coqBool(treesEqual), coqBool(saved)),
			fmt.Sprintf("source changed=%v --skip-if-unchanged=%v --force=%v trees equal=%v -> snapshot saved=%v", changed, skipFlag, force, treesEqual, saved))
	}
	return nil
}

func engineC40(c *vctx) error {
	c.Header("Model.C40m", "C40m.case", "C40m.check_case")
	c.Preamble("Import C40m.")
	rng := c.rng.fork()
	// corpus: content replaced at equal size with the mtime moved back / forward, and a new inode with the
	// old mtime, under each option set (0 = default, 1 = --ignore-ctime, 2 = --ignore-inode, 3 = both).
	// variant 0/6/12 keep the plain scenario (no missing pack, no foreign parent).
	corpus := []struct {
		kind  string
		flags int
	}{
		{"rewrite-same-size-mtime-older", 1}, {"rewrite-same-size-mtime-older", 2},
		{"rewrite-same-size-mtime-newer", 3}, {"replace-same-size-mtime-back", 1},
		{"rewrite-same-size-mtime-older", 0}, {"rewrite-same-size-mtime-older", 3},
	}
	for i, cc := range corpus {
		if err := c40Case(c, fmt.Sprintf("k%d", i), rng.fork(), 12*(i+1), cc.kind, cc.flags); err != nil {
			return err
		}
	}
	n := c.n(11, 200)
	for i := 0; i < n; i++ {
		if err := c40Case(c, fmt.Sprintf("t%d", i), rng.fork(), i, "", -1); err != nil {
			return err
		}
	}
	return nil
}
